(* C12: the symbol_order chain is true for the ORIGINAL constants whenever the renaming of
   rename_conflicting_symbols is strictly monotone on the constants of the problem
   (Model/ChainClass.rename_monotoneb: the decidable boundary of the class of finding F8c). *)
From Coq Require Import List Ascii String ZArith NArith Bool Lia Permutation.
From Anthem Require Import Base.ISet Syntax.Fol Syntax.Asp Sem.Domain Sem.Sat Model.Problem Model.ProblemPrint
  Model.ChainClass Proofs.ExtendAll Proofs.StrongOk Proofs.ChainOk Proofs.ChainRename.
Import ListNotations.
Open Scope string_scope.
Open Scope list_scope.

Lemma printed_symbol_is_renamed_symbol p s : printed_symbol p s = renamed_symbol p s.
Proof. reflexivity. Qed.

Lemma rename_monotoneb_spec p : rename_monotoneb p = true ->
  forall s1 s2, In s1 (problem_symbols p) -> In s2 (problem_symbols p) ->
    String.ltb s1 s2 = true -> String.ltb (printed_symbol p s1) (printed_symbol p s2) = true.
Proof.
  unfold rename_monotoneb. intros H s1 s2 H1 H2 Hlt.
  rewrite forallb_forall in H. specialize (H s1 H1). rewrite forallb_forall in H. specialize (H s2 H2).
  rewrite Hlt in H. exact H.
Qed.

Lemma ltb_irrefl s : String.ltb s s = false.
Proof.
  unfold String.ltb. destruct (String.compare s s) eqn:E; try reflexivity.
  pose proof (String.compare_antisym s s) as Ha. rewrite E in Ha. discriminate.
Qed.
Lemma ltb_leb_false a b : String.ltb a b = true -> String.leb b a = false.
Proof.
  unfold String.ltb, String.leb. rewrite (String.compare_antisym a b).
  destruct (String.compare b a); cbn; congruence.
Qed.
Lemma compare_cases a b : a = b \/ String.ltb a b = true \/ String.ltb b a = true.
Proof.
  unfold String.ltb. rewrite (String.compare_antisym a b).
  destruct (String.compare b a) eqn:E; cbn; auto.
  left. symmetry. apply String.compare_eq_iff. exact E.
Qed.
Lemma ltb_leb a b : String.ltb a b = true -> String.leb a b = true /\ a <> b.
Proof.
  intros H. split.
  - unfold String.ltb, String.leb in *. destruct (String.compare a b); congruence.
  - intros ->. rewrite ltb_irrefl in H. discriminate.
Qed.

(* strict monotonicity includes injectivity: no two constants of the problem are merged *)
Theorem monotone_injective p : rename_monotoneb p = true ->
  forall s1 s2, In s1 (problem_symbols p) -> In s2 (problem_symbols p) ->
    printed_symbol p s1 = printed_symbol p s2 -> s1 = s2.
Proof.
  intros Hm s1 s2 H1 H2 E.
  destruct (compare_cases s1 s2) as [Heq|[Hlt|Hlt]]; [exact Heq| |].
  - apply (rename_monotoneb_spec p Hm s1 s2 H1 H2) in Hlt. rewrite E, ltb_irrefl in Hlt. discriminate.
  - apply (rename_monotoneb_spec p Hm s2 s1 H2 H1) in Hlt. rewrite E, ltb_irrefl in Hlt. discriminate.
Qed.

(* the general theorem: inside the decidable premise every chain axiom is true for the constants
   the printed names stand for *)
Theorem chain_true_monotone p : rename_monotoneb p = true -> chain_true_for_originals p.
Proof.
  intros Hm x y Hin s1 s2 H1 H2 E1 E2 FI M e.
  change (printed_symbol p s1 = x) in E1. change (printed_symbol p s2 = y) in E2.
  set (q := rename_conflicting_symbols p) in *.
  pose proof (sort_strings_adjacent (problem_symbols q)) as Hadj.
  unfold adjacent in Hadj. rewrite Forall_forall in Hadj. specialize (Hadj _ Hin). cbn [fst snd] in Hadj.
  unfold sleb in Hadj.
  assert (Hne : x <> y).
  { apply (windows2_nodup (sort_strings (problem_symbols q))) with (ab := (x, y)); [|exact Hin].
    eapply Permutation_NoDup; [apply Permutation_sym, sort_strings_perm|apply problem_symbols_nodup]. }
  assert (Hlt : String.ltb s1 s2 = true).
  { destruct (compare_cases s1 s2) as [Heq|[Hlt|Hlt]]; [|exact Hlt|].
    - exfalso. apply Hne. rewrite <- E1, <- E2, Heq. reflexivity.
    - exfalso. apply (rename_monotoneb_spec p Hm s2 s1 H2 H1) in Hlt.
      rewrite E1, E2 in Hlt.
      apply ltb_leb_false in Hlt. congruence. }
  destruct (ltb_leb s1 s2 Hlt) as [Hle Hn12].
  cbn. unfold glt. cbn. rewrite Hle. cbn.
  destruct (String.eqb_spec s1 s2); [contradiction|reflexivity].
Qed.

(* the recorded witness of F8c lies outside the premise, the problem of the seeded change C12_r4
   (`a. q :- a, a < b.`) inside it *)
Lemma f8c_not_monotone : rename_monotoneb pb_f8c = false.
Proof. vm_compute. reflexivity. Qed.

Definition pb_ab : problem :=
  mkproblem "backward_problem"
    [ mkpf "completed_definition_of_a_0" PAxiom (FBin CIff (FAtomic (AAtom "a" [])) (FAtomic ATrue));
      mkpf "completed_definition_of_q_0" PConjecture
        (FBin CIff (FAtomic (AAtom "q" [])) (FBin CAnd (FAtomic (AAtom "a" [])) (cmp_lt "a" "b"))) ].
Lemma pb_ab_monotone :
  rename_monotoneb pb_ab = true /\ renamed_symbols pb_ab = ["a"] /\
  windows2 (sort_strings (problem_symbols (rename_conflicting_symbols pb_ab))) = [("a__s", "b")].
Proof. repeat split; vm_compute; reflexivity. Qed.

(* the merge: a constant `a__s` of the problem next to the renamed constant `a` *)
Definition pb_merge : problem :=
  mkproblem "p"
    [ mkpf "f" PAxiom (FAtomic (AAtom "a" []));
      mkpf "g" PConjecture (FAtomic (ACmp (GSym (SSym "a")) [mkguard RNe (GSym (SSym "a__s"))])) ].
Lemma merge_not_monotone :
  rename_monotoneb pb_merge = false /\ printed_symbol pb_merge "a" = printed_symbol pb_merge "a__s" /\
  problem_symbols (rename_conflicting_symbols pb_merge) = ["a__s"].
Proof. repeat split; vm_compute; reflexivity. Qed.

(* ====================================================================================
   The converse: rename_monotoneb is EXACTLY the boundary.  If the renaming is not strictly
   monotone on the constants of p then either two constants are merged or some emitted chain
   axiom is false for the constants it stands for. *)

(* ---------- the constants of the renamed problem are the printed names ---------- *)
Definition ren (conf : list pred) (s : string) : string :=
  if memb pred_dec (mkpred s 0) conf then s ++ "__s" else s.

Lemma rcs_gterm_symbols conf t x :
  In x (gterm_symbols (rcs_gterm conf t)) <-> exists s, In s (gterm_symbols t) /\ x = ren conf s.
Proof.
  destruct t as [| |c|v|t|t]; cbn; try (split; [intros []|intros [s [[] _]]]).
  destruct t as [s|c|v]; cbn; try (split; [intros []|intros [s [[] _]]]).
  unfold ren. destruct (memb pred_dec (mkpred s 0) conf) eqn:E; cbn.
  - split.
    + intros [<-|[]]. exists s. rewrite E. auto.
    + intros [s' [[<-|[]] ->]]. rewrite E. auto.
  - split.
    + intros [<-|[]]. exists s. rewrite E. auto.
    + intros [s' [[<-|[]] ->]]. rewrite E. auto.
Qed.

Lemma rcs_aformula_symbols conf a x :
  In x (aformula_symbols (rcs_aformula conf a)) <-> exists s, In s (aformula_symbols a) /\ x = ren conf s.
Proof.
  destruct a as [| |p ts|t gs]; cbn.
  - split; [intros []|intros [s [[] _]]].
  - split; [intros []|intros [s [[] _]]].
  - rewrite in_extend_all. split.
    + intros [[]|[t' [Ht' Hx]]]. apply in_map_iff in Ht'. destruct Ht' as [t [<- Ht]].
      apply rcs_gterm_symbols in Hx. destruct Hx as [s [Hs ->]]. exists s. split; [|reflexivity].
      apply in_extend_all. right. exists t. auto.
    + intros [s [Hs ->]]. apply in_extend_all in Hs. destruct Hs as [[]|[t [Ht Hs]]].
      right. exists (rcs_gterm conf t). split; [apply in_map; exact Ht|].
      apply rcs_gterm_symbols. exists s. auto.
  - rewrite in_extend_all. split.
    + intros [Hx|[g' [Hg' Hx]]].
      * apply rcs_gterm_symbols in Hx. destruct Hx as [s [Hs ->]]. exists s. split; [|reflexivity].
        apply in_extend_all. left. exact Hs.
      * apply in_map_iff in Hg'. destruct Hg' as [g [<- Hg]]. cbn in Hx.
        apply rcs_gterm_symbols in Hx. destruct Hx as [s [Hs ->]]. exists s. split; [|reflexivity].
        apply in_extend_all. right. exists g. auto.
    + intros [s [Hs ->]]. apply in_extend_all in Hs. destruct Hs as [Hs|[g [Hg Hs]]].
      * left. apply rcs_gterm_symbols. exists s. auto.
      * right. exists (mkguard (grel g) (rcs_gterm conf (gterm_of g))). split.
        -- apply in_map_iff. exists g. auto.
        -- cbn. apply rcs_gterm_symbols. exists s. auto.
Qed.

Lemma rcs_formula_symbols conf f x :
  In x (symbols (rcs_formula conf f)) <-> exists s, In s (symbols f) /\ x = ren conf s.
Proof.
  induction f as [a|f IH|c l IHl r IHr|q vs f IH]; cbn.
  - apply rcs_aformula_symbols.
  - exact IH.
  - rewrite (in_iset_extend string_dec), IHl, IHr. split.
    + intros [[s [Hs ->]]|[s [Hs ->]]]; exists s; (split; [|reflexivity]); apply (in_iset_extend string_dec); auto.
    + intros [s [Hs ->]]. apply (in_iset_extend string_dec) in Hs. destruct Hs as [Hs|Hs]; [left|right]; exists s; auto.
  - exact IH.
Qed.

Lemma conf_memb p s :
  memb pred_dec (mkpred s 0) (filter (fun q => Nat.eqb (parity q) 0) (problem_predicates p))
  = memb pred_dec (mkpred s 0) (problem_predicates p).
Proof.
  destruct (memb_spec pred_dec (mkpred s 0) (problem_predicates p)) as [H|H];
  destruct (memb_spec pred_dec (mkpred s 0) (filter (fun q => Nat.eqb (parity q) 0) (problem_predicates p))) as [H'|H'];
  try reflexivity; exfalso.
  - apply H'. apply filter_In. split; [exact H|reflexivity].
  - apply H. apply filter_In in H'. tauto.
Qed.

Theorem renamed_problem_symbols p x :
  In x (problem_symbols (rename_conflicting_symbols p)) <->
  exists s, In s (problem_symbols p) /\ x = printed_symbol p s.
Proof.
  unfold problem_symbols, rename_conflicting_symbols. cbn [pb_formulas].
  set (conf := filter (fun q => Nat.eqb (parity q) 0) (problem_predicates p)).
  assert (Hr : forall s, ren conf s = printed_symbol p s).
  { intros s. unfold ren, printed_symbol, conf. rewrite conf_memb. reflexivity. }
  rewrite in_extend_all. split.
  - intros [[]|[a' [Ha' Hx]]]. apply in_map_iff in Ha'. destruct Ha' as [a [<- Ha]]. cbn in Hx.
    apply rcs_formula_symbols in Hx. destruct Hx as [s [Hs ->]]. exists s. split; [|apply Hr].
    apply in_extend_all. right. exists a. auto.
  - intros [s [Hs ->]]. apply in_extend_all in Hs. destruct Hs as [[]|[a [Ha Hs]]].
    right. exists (mkpf (pf_name a) (pf_role a) (rcs_formula conf (pf_formula a))). split.
    + apply in_map_iff. exists a. auto.
    + cbn. apply rcs_formula_symbols. exists s. split; [exact Hs|symmetry; apply Hr].
Qed.

(* ---------- sorted lists ---------- *)
Lemma adjacent_tail {A} (R : A -> A -> Prop) a l : adjacent R (a :: l) -> adjacent R l.
Proof. destruct l as [|b l]; [constructor|]. intros H. apply adjacent_cons in H. tauto. Qed.
Lemma adjacent_suffix {A} (R : A -> A -> Prop) l1 l : adjacent R (l1 ++ l) -> adjacent R l.
Proof. induction l1 as [|a l1 IH]; cbn; [auto|]. intros H. apply IH. eapply adjacent_tail. exact H. Qed.

(* R transitive through the elements of the list that satisfy P *)
Lemma adjacent_all {A} (R : A -> A -> Prop) (P : A -> Prop) :
  (forall a b c, P b -> R a b -> R b c -> R a c) ->
  forall l a, Forall P l -> adjacent R (a :: l) -> Forall (R a) l.
Proof.
  intros Ht. induction l as [|b l IH]; intros a HP H; [constructor|].
  apply adjacent_cons in H. destruct H as [Hab H]. inversion HP as [|? ? Pb HPl]; subst.
  constructor; [exact Hab|].
  specialize (IH b HPl H). rewrite Forall_forall in *. intros c Hc. eapply Ht; [exact Pb|exact Hab|apply IH, Hc].
Qed.

Lemma sorted_prefix_le l1 y l2 : adjacent sleb (l1 ++ y :: l2) -> forall x, In x l1 -> String.leb x y = true.
Proof.
  induction l1 as [|a l1 IH]; intros H x Hx; [destruct Hx|].
  cbn [app] in H. destruct Hx as [->|Hx].
  - pose proof (adjacent_all sleb (fun _ => True) (fun a b c _ => string_leb_trans a b c) (l1 ++ y :: l2) x
                  ltac:(apply Forall_forall; auto) H) as Hall.
    rewrite Forall_forall in Hall. apply Hall. apply in_or_app. right. left. reflexivity.
  - apply IH; [eapply adjacent_tail; exact H|exact Hx].
Qed.

Lemma ltb_trans a b c : String.ltb a b = true -> String.ltb b c = true -> String.ltb a c = true.
Proof.
  unfold String.ltb. destruct (String.compare a b) eqn:E1; try discriminate.
  destruct (String.compare b c) eqn:E2; try discriminate. intros _ _.
  rewrite (string_compare_lt_trans _ _ _ E1 E2). reflexivity.
Qed.

(* the order asserted for the originals by a pair of printed names *)
Definition orig_lt (p : problem) (u v : string) : Prop :=
  forall s1 s2, In s1 (problem_symbols p) -> In s2 (problem_symbols p) ->
    printed_symbol p s1 = u -> printed_symbol p s2 = v -> String.ltb s1 s2 = true.

Definition rename_injective (p : problem) : Prop :=
  forall s1 s2, In s1 (problem_symbols p) -> In s2 (problem_symbols p) ->
    printed_symbol p s1 = printed_symbol p s2 -> s1 = s2.

Lemma csat_order_ltb s1 s2 :
  (forall (FI : fint) (M : pint) (e : env), csat FI M e (symbol_order_formula (s1, s2))) -> String.ltb s1 s2 = true.
Proof.
  intros H.
  specialize (H (mkfint (fun _ => VInf) (fun _ => 0%Z) (fun _ => "")) (fun _ _ => True)
                (mkenv (fun _ => VInf) (fun _ => 0%Z) (fun _ => ""))).
  cbn in H. unfold glt in H. cbn in H.
  destruct (compare_cases s1 s2) as [->|[Hlt|Hlt]]; [|exact Hlt|].
  - rewrite String.eqb_refl in H. rewrite andb_false_r in H. discriminate.
  - apply ltb_leb_false in Hlt. rewrite Hlt in H. discriminate.
Qed.

Theorem chain_sound_monotone p :
  chain_true_for_originals p -> rename_injective p -> rename_monotoneb p = true.
Proof.
  intros Hc Hinj. unfold rename_monotoneb.
  apply forallb_forall. intros s1 H1. apply forallb_forall. intros s2 H2.
  destruct (String.ltb s1 s2) eqn:Hlt; [cbn|reflexivity].
  set (x := printed_symbol p s1). set (y := printed_symbol p s2).
  destruct (compare_cases x y) as [Heq|[Hxy|Hyx]]; [|exact Hxy|]; exfalso.
  - rewrite (Hinj s1 s2 H1 H2 Heq), ltb_irrefl in Hlt. discriminate.
  - set (q := rename_conflicting_symbols p).
    set (L := sort_strings (problem_symbols q)).
    assert (HinL : forall s, In s (problem_symbols p) -> In (printed_symbol p s) L).
    { intros s Hs. unfold L. eapply Permutation_in; [apply Permutation_sym, sort_strings_perm|].
      apply renamed_problem_symbols. exists s. auto. }
    assert (HpreL : Forall (fun u => exists s, In s (problem_symbols p) /\ printed_symbol p s = u) L).
    { apply Forall_forall. intros u Hu. unfold L in Hu.
      apply (Permutation_in _ (sort_strings_perm _)) in Hu. apply renamed_problem_symbols in Hu.
      destruct Hu as [s [Hs ->]]. exists s. auto. }
    assert (Hadj : adjacent (orig_lt p) L).
    { unfold adjacent. apply Forall_forall. intros [u v] Huv. cbn [fst snd].
      intros t1 t2 Ht1 Ht2 E1 E2. apply csat_order_ltb. intros FI M e.
      exact (Hc u v Huv t1 t2 Ht1 Ht2 E1 E2 FI M e). }
    pose proof (sort_strings_adjacent (problem_symbols q)) as Hsorted. fold L in Hsorted.
    destruct (in_split y L (HinL s2 H2)) as [l1 [l2 HL]].
    assert (Hx : In x l2).
    { pose proof (HinL s1 H1) as Hx. fold x in Hx. rewrite HL in Hx. apply in_app_or in Hx.
      destruct Hx as [Hx|[Hx|Hx]]; [exfalso| exfalso|exact Hx].
      - rewrite HL in Hsorted. pose proof (sorted_prefix_le l1 y l2 Hsorted x Hx) as Hle.
        apply ltb_leb_false in Hyx. congruence.
      - subst x. rewrite <- Hx, ltb_irrefl in Hyx. discriminate. }
    rewrite HL in Hadj, HpreL. apply adjacent_suffix in Hadj.
    apply Forall_app in HpreL. destruct HpreL as [_ HpreL]. inversion HpreL as [|? ? _ Hpre2]; subst.
    pose proof (adjacent_all (orig_lt p) (fun u => exists s, In s (problem_symbols p) /\ printed_symbol p s = u)) as Hall.
    assert (Htr : forall a b c, (exists s, In s (problem_symbols p) /\ printed_symbol p s = b) ->
                  orig_lt p a b -> orig_lt p b c -> orig_lt p a c).
    { intros a b c [sb [Hsb Eb]] Hab Hbc t1 t3 Ht1 Ht3 E1 E3.
      eapply ltb_trans; [apply (Hab t1 sb Ht1 Hsb E1 Eb)|apply (Hbc sb t3 Hsb Ht3 Eb E3)]. }
    specialize (Hall Htr l2 y Hpre2 Hadj). rewrite Forall_forall in Hall.
    pose proof (Hall x Hx s2 s1 H2 H1 eq_refl eq_refl) as H21.
    pose proof (ltb_trans _ _ _ Hlt H21) as Hbad. rewrite ltb_irrefl in Hbad. discriminate.
Qed.

(* rename_monotoneb is exactly the boundary: the emitted chain is sound for the original
   constants (every axiom true, no two constants merged) iff the renaming is strictly monotone *)
Theorem chain_sound_iff_monotone p :
  rename_monotoneb p = true <-> chain_true_for_originals p /\ rename_injective p.
Proof.
  split.
  - intros H. split; [apply chain_true_monotone, H|exact (monotone_injective p H)].
  - intros [Hc Hi]. apply chain_sound_monotone; assumption.
Qed.
