(* C12: the symbol_order chain is true for the ORIGINAL constants whenever the renaming of
   rename_conflicting_symbols is strictly monotone on the constants of the problem
   (Model/ChainClass.rename_monotoneb: the decidable boundary of the class of finding F8c). *)
From Coq Require Import List Ascii String ZArith NArith Bool Lia Permutation.
From Anthem Require Import Base.ISet Syntax.Fol Syntax.Asp Sem.Domain Sem.Sat Model.Problem Model.ProblemPrint
  Model.ChainClass Proofs.ExtendAll Proofs.StrongOk Proofs.ChainOk Proofs.ChainRename.
Import ListNotations.
Open Scope string_scope.
Open Scope list_scope.

Lemma printed_symbol_is_renamed_symbol p s : printed_symbol p s = renamed_symbol p s.
Proof. reflexivity. Qed.

Lemma rename_monotoneb_spec p : rename_monotoneb p = true ->
  forall s1 s2, In s1 (problem_symbols p) -> In s2 (problem_symbols p) ->
    String.ltb s1 s2 = true -> String.ltb (printed_symbol p s1) (printed_symbol p s2) = true.
Proof.
  unfold rename_monotoneb. intros H s1 s2 H1 H2 Hlt.
  rewrite forallb_forall in H. specialize (H s1 H1). rewrite forallb_forall in H. specialize (H s2 H2).
  rewrite Hlt in H. exact H.
Qed.

Lemma ltb_irrefl s : String.ltb s s = false.
Proof.
  unfold String.ltb. destruct (String.compare s s) eqn:E; try reflexivity.
  pose proof (String.compare_antisym s s) as Ha. rewrite E in Ha. discriminate.
Qed.
Lemma ltb_leb_false a b : String.ltb a b = true -> String.leb b a = false.
Proof.
  unfold String.ltb, String.leb. rewrite (String.compare_antisym a b).
  destruct (String.compare b a); cbn; congruence.
Qed.
Lemma compare_cases a b : a = b \/ String.ltb a b = true \/ String.ltb b a = true.
Proof.
  unfold String.ltb. rewrite (String.compare_antisym a b).
  destruct (String.compare b a) eqn:E; cbn; auto.
  left. symmetry. apply String.compare_eq_iff. exact E.
Qed.
Lemma ltb_leb a b : String.ltb a b = true -> String.leb a b = true /\ a <> b.
Proof.
  intros H. split.
  - unfold String.ltb, String.leb in *. destruct (String.compare a b); congruence.
  - intros ->. rewrite ltb_irrefl in H. discriminate.
Qed.

(* strict monotonicity includes injectivity: no two constants of the problem are merged *)
Theorem monotone_injective p : rename_monotoneb p = true ->
  forall s1 s2, In s1 (problem_symbols p) -> In s2 (problem_symbols p) ->
    printed_symbol p s1 = printed_symbol p s2 -> s1 = s2.
Proof.
  intros Hm s1 s2 H1 H2 E.
  destruct (compare_cases s1 s2) as [Heq|[Hlt|Hlt]]; [exact Heq| |].
  - apply (rename_monotoneb_spec p Hm s1 s2 H1 H2) in Hlt. rewrite E, ltb_irrefl in Hlt. discriminate.
  - apply (rename_monotoneb_spec p Hm s2 s1 H2 H1) in Hlt. rewrite E, ltb_irrefl in Hlt. discriminate.
Qed.

(* the general theorem: inside the decidable premise every chain axiom is true for the constants
   the printed names stand for *)
Theorem chain_true_monotone p : rename_monotoneb p = true -> chain_true_for_originals p.
Proof.
  intros Hm x y Hin s1 s2 H1 H2 E1 E2 FI M e.
  change (printed_symbol p s1 = x) in E1. change (printed_symbol p s2 = y) in E2.
  set (q := rename_conflicting_symbols p) in *.
  pose proof (sort_strings_adjacent (problem_symbols q)) as Hadj.
  unfold adjacent in Hadj. rewrite Forall_forall in Hadj. specialize (Hadj _ Hin). cbn [fst snd] in Hadj.
  unfold sleb in Hadj.
  assert (Hne : x <> y).
  { apply (windows2_nodup (sort_strings (problem_symbols q))) with (ab := (x, y)); [|exact Hin].
    eapply Permutation_NoDup; [apply Permutation_sym, sort_strings_perm|apply problem_symbols_nodup]. }
  assert (Hlt : String.ltb s1 s2 = true).
  { destruct (compare_cases s1 s2) as [Heq|[Hlt|Hlt]]; [|exact Hlt|].
    - exfalso. apply Hne. rewrite <- E1, <- E2, Heq. reflexivity.
    - exfalso. apply (rename_monotoneb_spec p Hm s2 s1 H2 H1) in Hlt.
      rewrite E1, E2 in Hlt.
      apply ltb_leb_false in Hlt. congruence. }
  destruct (ltb_leb s1 s2 Hlt) as [Hle Hn12].
  cbn. unfold glt. cbn. rewrite Hle. cbn.
  destruct (String.eqb_spec s1 s2); [contradiction|reflexivity].
Qed.

(* the recorded witness of F8c lies outside the premise, the problem of the seeded change C12_r4
   (`a. q :- a, a < b.`) inside it *)
Lemma f8c_not_monotone : rename_monotoneb pb_f8c = false.
Proof. vm_compute. reflexivity. Qed.

Definition pb_ab : problem :=
  mkproblem "backward_problem"
    [ mkpf "completed_definition_of_a_0" PAxiom (FBin CIff (FAtomic (AAtom "a" [])) (FAtomic ATrue));
      mkpf "completed_definition_of_q_0" PConjecture
        (FBin CIff (FAtomic (AAtom "q" [])) (FBin CAnd (FAtomic (AAtom "a" [])) (cmp_lt "a" "b"))) ].
Lemma pb_ab_monotone :
  rename_monotoneb pb_ab = true /\ renamed_symbols pb_ab = ["a"] /\
  windows2 (sort_strings (problem_symbols (rename_conflicting_symbols pb_ab))) = [("a__s", "b")].
Proof. repeat split; vm_compute; reflexivity. Qed.

(* the merge: a constant `a__s` of the problem next to the renamed constant `a` *)
Definition pb_merge : problem :=
  mkproblem "p"
    [ mkpf "f" PAxiom (FAtomic (AAtom "a" []));
      mkpf "g" PConjecture (FAtomic (ACmp (GSym (SSym "a")) [mkguard RNe (GSym (SSym "a__s"))])) ].
Lemma merge_not_monotone :
  rename_monotoneb pb_merge = false /\ printed_symbol pb_merge "a" = printed_symbol pb_merge "a__s" /\
  problem_symbols (rename_conflicting_symbols pb_merge) = ["a__s"].
Proof. repeat split; vm_compute; reflexivity. Qed.
