(* The layout tokens are the only difference between the byte-level printer (sp = true) and the token
   list the parser model reads (sp = false): strip (print_* true x) = print_* false x. *)
From Coq Require Import List Ascii String ZArith NArith Bool Arith Lia.
From Anthem Require Import Syntax.Fol Gen.TablesFol Model.FolPrint.
Import ListNotations.
Open Scope list_scope.

Lemma strip_app a b : strip (a ++ b) = strip a ++ strip b.
Proof. unfold strip. apply filter_app. Qed.
Lemma strip_tsp : strip (tsp true) = tsp false.
Proof. reflexivity. Qed.
Lemma strip_tnl : strip (tnl true) = tnl false.
Proof. reflexivity. Qed.
Lemma strip_parens b l : strip (parens b l) = parens b (strip l).
Proof. destruct b; cbn [parens]; [|reflexivity]. change (TLParen :: l ++ [TRParen]) with ([TLParen] ++ l ++ [TRParen]). rewrite !strip_app. reflexivity. Qed.

Lemma strip_iterm t : strip (print_iterm true t) = print_iterm false t.
Proof.
  induction t as [z|c|x|[] a IH|o l IHl r IHr]; cbn [print_iterm].
  - unfold num_tok. destruct (z <? 0)%Z; reflexivity.
  - reflexivity.
  - reflexivity.
  - unfold fmt_unary. rewrite !strip_app, strip_parens, IH.
    destruct (is_left _), (is_right _); reflexivity.
  - rewrite !strip_app, !strip_parens, IHl, IHr, strip_tsp. destruct o; reflexivity.
Qed.
Lemma strip_gterm t : strip (print_gterm true t) = print_gterm false t.
Proof. destruct t as [| |c|x|t|[s|c|x]]; try reflexivity. apply strip_iterm. Qed.
Lemma strip_args ts : strip (print_args true ts) = print_args false ts.
Proof.
  induction ts as [|t ts IH]; [reflexivity|]. destruct ts as [|t2 ts]; [apply strip_gterm|].
  change (print_args true (t :: t2 :: ts)) with (print_gterm true t ++ [TComma] ++ tsp true ++ print_args true (t2 :: ts)).
  change (print_args false (t :: t2 :: ts)) with (print_gterm false t ++ [TComma] ++ tsp false ++ print_args false (t2 :: ts)).
  rewrite !strip_app, strip_gterm, IH. reflexivity.
Qed.
Lemma strip_guards gs : strip (print_guards true gs) = print_guards false gs.
Proof.
  induction gs as [|[rl t] gs IH]; [reflexivity|]. cbn [print_guards]. unfold print_guard. cbn [grel gterm_of].
  rewrite !strip_app, strip_gterm, IH. reflexivity.
Qed.
Lemma strip_atomic a : strip (print_atomic true a) = print_atomic false a.
Proof.
  destruct a as [| |p ts|t gs]; try reflexivity.
  - cbn [print_atomic print_atom]. destruct ts as [|t ts]; [reflexivity|].
    change (print_atom true p (t :: ts)) with ([TWord p; TLParen] ++ print_args true (t :: ts) ++ [TRParen]).
    change (print_atom false p (t :: ts)) with ([TWord p; TLParen] ++ print_args false (t :: ts) ++ [TRParen]).
    rewrite !strip_app, strip_args. reflexivity.
  - cbn [print_atomic]. rewrite strip_app, strip_gterm, strip_guards. reflexivity.
Qed.
Lemma strip_vars vs : strip (print_vars true vs) = print_vars false vs.
Proof. induction vs as [|v vs IH]; [reflexivity|]. cbn [print_vars]. rewrite !strip_app, IH. reflexivity. Qed.
Lemma strip_quantification q vs : strip (print_quantification true q vs) = print_quantification false q vs.
Proof.
  unfold print_quantification. change (quant_tok q :: print_vars true vs) with ([quant_tok q] ++ print_vars true vs).
  rewrite strip_app, strip_vars. destruct q; reflexivity.
Qed.
Lemma strip_formula f : strip (print_formula true f) = print_formula false f.
Proof.
  induction f as [a|g IH|c l IHl r IHr|q vs g IH]; cbn [print_formula].
  - apply strip_atomic.
  - unfold fmt_unary. rewrite !strip_app, strip_parens, IH.
    destruct (is_left _), (is_right _); reflexivity.
  - rewrite !strip_app, !strip_parens, IHl, IHr, strip_tsp. destruct c; reflexivity.
  - rewrite !strip_app, strip_parens, strip_quantification, IH. reflexivity.
Qed.
Lemma strip_theory t : strip (print_theory true t) = print_theory false t.
Proof. induction t as [|f t IH]; [reflexivity|]. cbn [print_theory]. rewrite !strip_app, strip_formula, IH. reflexivity. Qed.
Lemma strip_annot a : strip (print_annot true a) = print_annot false a.
Proof.
  destruct a as [ro d n F]. unfold print_annot. cbn [an_role an_dir an_name an_formula].
  rewrite !strip_app, strip_formula. destruct ro, d, n; reflexivity.
Qed.
Lemma strip_spec s : strip (print_spec true s) = print_spec false s.
Proof. induction s as [|a s IH]; [reflexivity|]. cbn [print_spec]. rewrite !strip_app, strip_annot, IH. reflexivity. Qed.
Lemma strip_ug_entry e : strip (print_ug_entry true e) = print_ug_entry false e.
Proof. destruct e as [p|p|c s|a]; try reflexivity. apply strip_annot. Qed.
Lemma strip_ug u : strip (print_ug true u) = print_ug false u.
Proof. induction u as [|e u IH]; [reflexivity|]. cbn [print_ug]. rewrite !strip_app, strip_ug_entry, IH. reflexivity. Qed.
