(* Audit A8 (b), end to end: a panic of the end-to-end models can only come from the recorded
   overflow class F11 (and, for external tasks, from the assembly after the translations).

   Composition of
     Proofs/ParserImage.v          parser_image is an invariant of the classic portfolio; the
                                   panic-aware runner never panics on it
     Proofs/ParserImagePipeline.v  tau*, gamma, replace_placeholders, completion, the FOL parser
                                   produce parser-image formulas
   with the models Model/StrongFull.v, Model/ExternalFull.v, Model/Cli.v.

   The hypothesis [program_vars_named P] (every variable of P has a non-empty name) is what the
   ASP parser guarantees; it is needed because a hand-built program with the variable "" makes
   tau* bind a variable with an empty name.  Both representations are covered: tau*
   (ParserImagePipeline.tau_star_pi) and mu (ParserImageNatural.mu_full_pi). *)
From Coq Require Import List Ascii String ZArith NArith Bool Lia.
From Anthem Require Import Base.ISet Syntax.Fol Syntax.Asp
  Model.Apply Model.Gamma Model.Break Model.Problem Model.Outline Model.Strong Model.External
  Model.TauStar Model.MuFull Model.Completion Model.SimplIntuit Model.SimplClassic Model.StrategyCls
  Model.StrongFull Model.ExternalFull Model.ClsTerm Model.Tightness Model.PrivRec
  Proofs.CompletionShape Proofs.CompletionOk Proofs.PlaceholderOk Proofs.FagesBridge Proofs.FagesTauStar
  Proofs.TauStarProgram Proofs.MuFullOk
  Proofs.StrategyClsOk Proofs.SimplClassicTotal Proofs.ParserImage Proofs.ParserImagePipeline Proofs.ParserImageNatural
  Proofs.StrongFullOk Proofs.StrongFuel Proofs.ExtFuel.
Import ListNotations.
Open Scope string_scope.
Open Scope list_scope.

(* ===================== completion(replace_placeholders(tau*(P))) never refuses ===================== *)
Lemma rp_var_to_gterm m v : rp_gterm m (var_to_gterm v) = var_to_gterm v.
Proof. unfold var_to_gterm. destruct (vsort v); reflexivity. Qed.
Lemma rp_strip m f : strip (rp_formula m f) = rp_formula m (strip f).
Proof. destruct f as [a|g|c l r|[] vs g]; reflexivity. Qed.
Lemma rp_implication m x body head : implication x body head ->
  implication (rp_formula m x) (rp_formula m body) (rp_formula m head).
Proof. intros [->| ->]; [left|right]; reflexivity. Qed.
Lemma rp_head_atom m p V :
  rp_formula m (FAtomic (AAtom p (map var_to_gterm V))) = FAtomic (AAtom p (map var_to_gterm V)).
Proof.
  cbn. do 2 f_equal. rewrite map_map. apply map_ext. intros v. apply rp_var_to_gterm.
Qed.
Lemma rp_definition_of m f F p V : definition_of f F p V -> definition_of (rp_formula m f) (rp_formula m F) p V.
Proof.
  intros [Hc [Hi Hn]]. split; [rewrite rp_free_variables; exact Hc|]. split; [|exact Hn].
  rewrite rp_strip, <- (rp_head_atom m p V). apply rp_implication, Hi.
Qed.
Lemma rp_constraint_formula m f : constraint_formula f -> constraint_formula (rp_formula m f).
Proof.
  intros [Hc [F Hi]]. split; [rewrite rp_free_variables; exact Hc|]. exists (rp_formula m F).
  rewrite rp_strip. exact (rp_implication m _ _ _ Hi).
Qed.

Theorem tau_star_rp_completable (P : program) (G : theory) (m : placeholders) (ins : list pred) :
  tau_star P = Some G -> exists D, completion (rp_theory m G) ins = Some D.
Proof.
  intros Hts. apply C04_shape_proof.
  unfold tau_star in Hts. destruct (choose_fresh_global_variables P) as [globals|] eqn:Eg; [|discriminate].
  apply TauStarProgram.map_opt_forall2 in Hts. apply (completable_uniform_heads _ (map gvar globals)).
  intros f' Hf'. unfold rp_theory in Hf'. apply in_map_iff in Hf'. destruct Hf' as [f [<- Hf]].
  destruct (FagesBridge.forall2_in_r _ _ _ _ Hts Hf) as [r [Hr Hrf]].
  destruct (tau_star_rule_uniform r globals f Hrf (globals_fresh P globals Eg r Hr)) as [Hc|[F [p [V [HD HV]]]]].
  - left. apply rp_constraint_formula, Hc.
  - right. exists (rp_formula m F), p, V. split; [apply rp_definition_of, HD|exact HV].
Qed.

(* =============================================== strong equivalence: SPanic only from F11 *)
Lemma strong_FULL_CLASSIC_opt_safe : Forall2 safe StrongFull.FULL_CLASSIC_opt portfolio_classic.
Proof.
  unfold StrongFull.FULL_CLASSIC_opt, portfolio_classic. rewrite app_assoc.
  apply Forall2_app; [|exact CLASSIC_opt_safe].
  apply lift_safe; [reflexivity|]. unfold HT. rewrite app_nil_r. exact INTUITIONISTIC_pi.
Qed.

Lemma PORTFOLIO_HT_pi : Forall pi_pres PORTFOLIO_HT.
Proof. unfold PORTFOLIO_HT, HT. rewrite app_nil_r. exact INTUITIONISTIC_pi. Qed.
Lemma simp_ht_full_pi x y : simp_ht_full x = SOk y -> parser_image x -> parser_image y.
Proof.
  unfold simp_ht_full. destruct (apply_fixpoint _ _ x) as [g|] eqn:E; [|discriminate]. intros [= <-] Hx.
  apply (apply_fixpoint_pi _ _ _ _ (compose_pi _ PORTFOLIO_HT_pi) Hx E).
Qed.
Lemma simp_classic_full_fuel_no_panic fuel x : parser_image x -> simp_classic_full_fuel fuel x <> SPanic.
Proof.
  intros Hx. unfold simp_classic_full_fuel.
  pose proof (run_strategy_opt_no_panic fuel _ _ Fixpoint_ x strong_FULL_CLASSIC_opt_safe Hx) as H.
  cbn [run_strategy_opt] in H.
  destruct (apply_fixpoint_opt fuel (compose_opt StrongFull.FULL_CLASSIC_opt) x); congruence.
Qed.

Lemma smap_pi (f : formula -> sresult formula) th th' :
  (forall x y, f x = SOk y -> parser_image x -> parser_image y) ->
  smap f th = SOk th' -> theory_pi th -> theory_pi th'.
Proof.
  intros Hf. revert th'. induction th as [|x th IH]; intros th'; cbn [smap].
  - intros [= <-] _ g [].
  - destruct (f x) as [y| |] eqn:Ex; cbn [sbind]; try discriminate.
    destruct (smap f th) as [ys| |]; cbn [sbind]; try discriminate.
    intros [= <-] H g [Eg|Hg].
    + subst g. apply (Hf x y Ex), H. left; reflexivity.
    + apply (IH ys eq_refl); [intros z Hz; apply H; right; exact Hz|exact Hg].
Qed.
Lemma smap_no_panic (f : formula -> sresult formula) th :
  (forall x, In x th -> f x <> SPanic) -> smap f th <> SPanic.
Proof.
  induction th as [|x th IH]; intros H; cbn [smap]; [discriminate|].
  pose proof (H x (or_introl eq_refl)) as Hx.
  destruct (f x) as [y| |]; cbn [sbind]; [|congruence|discriminate].
  specialize (IH (fun z Hz => H z (or_intror Hz))).
  destruct (smap f th); cbn [sbind]; congruence.
Qed.

(* what the representation step must deliver: parser-image formulas *)
Definition repr_image (t : strong_task) (P : program) : Prop :=
  forall th, repr_full (st_repr t) P = SOk th -> theory_pi th.

Theorem strong_panic_only_overflow_partial fuel t :
  repr_image t (st_left t) -> repr_image t (st_right t) ->
  strong_decompose_full_fuel fuel t = SPanic ->
  ~ no_global_overflow (st_left t) \/ ~ no_global_overflow (st_right t).
Proof.
  intros Hil Hir. unfold strong_decompose_full_fuel.
  assert (Hrep : forall P, repr_full (st_repr t) P = SPanic -> ~ no_global_overflow P).
  { intros P E HP. unfold repr_full in E. destruct (st_repr t).
    - destruct (proj2 (mu_full_defined_iff P) HP) as [th Eth]. rewrite Eth in E. discriminate.
    - destruct (tau_star_defined P HP) as [th Eth]. rewrite Eth in E. discriminate. }
  destruct (repr_full (st_repr t) (st_left t)) as [l0| |] eqn:El0; cbn [sbind];
    [|intros _; left; apply Hrep, El0|discriminate].
  destruct (repr_full (st_repr t) (st_right t)) as [r0| |] eqn:Er0; cbn [sbind];
    [|intros _; right; apply Hrep, Er0|discriminate].
  specialize (Hil l0 El0). specialize (Hir r0 Er0).
  assert (Hht : forall th, theory_pi th -> exists th', stage (st_simplify t) simp_ht_full th = SOk th' /\ theory_pi th').
  { intros th Hth. unfold stage. destruct (st_simplify t); [|eauto].
    destruct (smap simp_ht_full th) as [th'| |] eqn:E.
    - exists th'. split; [reflexivity|]. exact (smap_pi _ _ _ simp_ht_full_pi E Hth).
    - exfalso. revert E. apply smap_no_panic. intros x _. destruct (simp_ht_full_total x) as [g ->]. discriminate.
    - exfalso. revert E. apply smap_terminates. intros x _. destruct (simp_ht_full_total x) as [g ->]. discriminate. }
  destruct (Hht l0 Hil) as [l1 [-> Hl1]]. destruct (Hht r0 Hir) as [r1 [-> Hr1]]. cbn [sbind].
  assert (Hcl : forall th, theory_pi th -> stage (st_simplify t) (simp_classic_full_fuel fuel) th <> SPanic).
  { intros th Hth. unfold stage. destruct (st_simplify t); [|discriminate].
    apply smap_no_panic. intros x Hx. apply simp_classic_full_fuel_no_panic, Hth, Hx. }
  pose proof (Hcl _ (gamma_theory_pi _ Hl1)) as Hl3. pose proof (Hcl _ (gamma_theory_pi _ Hr1)) as Hr3.
  destruct (stage (st_simplify t) (simp_classic_full_fuel fuel) (gamma_theory l1)); cbn [sbind]; [|congruence|discriminate].
  destruct (stage (st_simplify t) (simp_classic_full_fuel fuel) (gamma_theory r1)); cbn [sbind]; [discriminate|congruence|discriminate].
Qed.

(* both representations (tau-star: tau_star_pi; mu: mu_full_pi): closed *)
Theorem strong_panic_only_overflow fuel t :
  program_vars_named (st_left t) -> program_vars_named (st_right t) ->
  strong_decompose_full_fuel fuel t = SPanic ->
  ~ no_global_overflow (st_left t) \/ ~ no_global_overflow (st_right t).
Proof.
  intros Hl Hrt. apply strong_panic_only_overflow_partial.
  - intros th. unfold repr_full. destruct (st_repr t).
    + destruct (mu_full (st_left t)) as [G|] eqn:E; cbn [of_panic]; [|discriminate].
      intros [= <-]. exact (mu_full_pi _ _ Hl E).
    + destruct (tau_star (st_left t)) as [G|] eqn:E; cbn [of_panic]; [|discriminate].
      intros [= <-]. exact (tau_star_pi _ _ Hl E).
  - intros th. unfold repr_full. destruct (st_repr t).
    + destruct (mu_full (st_right t)) as [G|] eqn:E; cbn [of_panic]; [|discriminate].
      intros [= <-]. exact (mu_full_pi _ _ Hrt E).
    + destruct (tau_star (st_right t)) as [G|] eqn:E; cbn [of_panic]; [|discriminate].
      intros [= <-]. exact (tau_star_pi _ _ Hrt E).
Qed.

(* with C03_full_panics_on_overflow: SPanic <-> the overflow class, for programs with named variables *)
Corollary strong_panic_iff_overflow fuel t :
  program_vars_named (st_left t) -> program_vars_named (st_right t) ->
  (strong_decompose_full_fuel fuel t = SPanic <->
   ~ no_global_overflow (st_left t) \/ ~ no_global_overflow (st_right t)).
Proof.
  intros Hl Hrt. split; [apply strong_panic_only_overflow; assumption|apply strong_decompose_full_fuel_panic_overflow].
Qed.

(* hence, together with termination: outside the overflow class every sufficiently large fuel
   returns problems *)
Corollary strong_total_outside_overflow t :
  program_vars_named (st_left t) -> program_vars_named (st_right t) ->
  no_global_overflow (st_left t) -> no_global_overflow (st_right t) ->
  exists n pbs, forall m, n <= m -> strong_decompose_full_fuel m t = SOk pbs.
Proof.
  intros Hl Hrt Hol Hor. destruct (strong_eventual_result t) as [n [r [Hne Hn]]].
  destruct r as [pbs| |]; [exists n, pbs; exact Hn| |congruence].
  exfalso. destruct (strong_panic_only_overflow n t Hl Hrt (Hn n (le_n _))); tauto.
Qed.

(* ============================================ external equivalence: the translations never panic *)
Lemma ext_FULL_CLASSIC_opt_safe : Forall2 safe ExternalFull.FULL_CLASSIC_opt portfolio_classic.
Proof.
  unfold ExternalFull.FULL_CLASSIC_opt, portfolio_classic. rewrite app_assoc.
  apply Forall2_app; [|exact CLASSIC_opt_safe].
  apply lift_safe; [reflexivity|]. unfold HT. rewrite app_nil_r. exact INTUITIONISTIC_pi.
Qed.
Lemma simplify_status_no_panic fuel th : theory_pi th -> simplify_status fuel th <> TPanic.
Proof.
  induction th as [|F th IH]; intros H; cbn [simplify_status]; [discriminate|].
  pose proof (run_strategy_opt_no_panic fuel _ _ Fixpoint_ F ext_FULL_CLASSIC_opt_safe (H F (or_introl eq_refl))) as HF.
  unfold simp_classic_run. destruct (run_strategy_opt fuel ExternalFull.FULL_CLASSIC_opt Fixpoint_ F);
    [congruence|discriminate|]. apply IH. intros g Hg. apply H. right; exact Hg.
Qed.

(* a `theory_translate` panics only by the overflow of tau* *)
Theorem translate_status_panic_only_overflow fuel t m p :
  program_vars_named p -> translate_status fuel t m p = TPanic -> tau_star p = None.
Proof.
  intros Hp. unfold translate_status. destruct (tau_star p) as [G|] eqn:EG; [|reflexivity].
  destruct (tau_star_rp_completable p G m (ug_input_predicates (et_user_guide t)) EG) as [D ED]. rewrite ED.
  destruct (et_simplify t); [|discriminate]. intros E. exfalso. revert E.
  apply simplify_status_no_panic.
  apply (completion_missing_outputs_pi _ _ _ _ _ (rp_theory_pi m G (tau_star_pi p G Hp EG)) ED).
Qed.

(* XPanic of the full model: the overflow class F11 of one of the programs, or a panic of the
   assembly AFTER the translations (External.external_decompose over the translated theories:
   the `unreachable!()`s of the proof-outline / role handling, C13 / C11) *)
Theorem external_panic_classes fuel t :
  program_vars_named (et_program t) ->
  (forall L, et_specification t = inl L -> program_vars_named L) ->
  external_decompose_full fuel t = XPanic ->
  tau_star (et_program t) = None \/
  (exists L, et_specification t = inl L /\ tau_star L = None) \/
  external_decompose_total fuel t = Panic.
Proof.
  intros Hp Hl. unfold external_decompose_full.
  destruct (external_validate_full t) as [w0|e|] eqn:Ev; [|discriminate|].
  2:{ exfalso. unfold external_validate_full in Ev. revert Ev.
      apply (ExternalOk.validate_never_panics is_tight has_private_recursion). }
  set (ph := ph_of_fconsts (ug_placeholders (et_user_guide t))).
  destruct (et_specification t) as [L|s] eqn:Es.
  - destruct (translate_status fuel t ph L) eqn:El.
    + destruct (translate_status fuel t ph (et_program t)) eqn:Er.
      * intros E. right; right. destruct (external_decompose_total fuel t) as [[w pbs]|e|]; [discriminate|discriminate|reflexivity].
      * intros _. left. exact (translate_status_panic_only_overflow fuel t ph _ Hp Er).
      * discriminate.
    + intros _. right; left. exists L. split; [reflexivity|].
      exact (translate_status_panic_only_overflow fuel t ph L (Hl L eq_refl) El).
    + discriminate.
  - destruct (translate_status fuel t ph (et_program t)) eqn:Er.
    + intros E. right; right. destruct (external_decompose_total fuel t) as [[w pbs]|e|]; [discriminate|discriminate|reflexivity].
    + intros _. left. exact (translate_status_panic_only_overflow fuel t ph _ Hp Er).
    + discriminate.
Qed.
