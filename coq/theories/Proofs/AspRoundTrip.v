(* C14: printing a mini-gringo syntax tree and parsing the result gives the tree back.
   Token level (Model/AspPrint.print_* against Model/AspParse.parse_* functions), over the operator tables of
   Gen/TablesAsp.v that are regenerated from the Rust sources before every build.

   Structure (design-probes/Pratt_probe.v scaled to the real tables):
     1. table facts, each proved by computation on the generated tables; they are the ONLY place
        where the concrete numbers enter.  An edit of default.rs / pest.rs that keeps them true is
        re-proved automatically; one that breaks them (e.g. Multiply printed at the level of Add
        while the parser keeps it tighter) fails here.
     2. a big-step transcription Expr/Nud/Loop of pest's expr/nud/led-loop and the generalised
        claim: parsing the printed form of t at any rbp that lets t's top operator in yields t and
        then continues the operator loop on what follows, provided what follows may legally
        follow t.
     3. adequacy of the fuelled executable Pratt parser for the big-step relation (explicit fuel
        bound 2*size+2, which is what [pratt] uses).
     4. the PEG phase  prefix* primary (infix prefix* primary)*  on printed token lists.
     5. atoms, literals, comparisons, bodies, heads, rules, programs. *)
From Coq Require Import List Arith Lia Bool ZArith String.
From Anthem Require Import Syntax.Asp Model.AspTableTypes Gen.TablesAsp Model.AspPrint Model.AspParse.
Import ListNotations.
Open Scope list_scope.

(* ================================================================ 1. table facts *)

(* parser side *)
Definition bp (o : abinop) : nat :=
  match ops_get (rule_of_binop o) with Some (_, p) => p | None => 0 end.
Definition passoc (o : abinop) : assoc :=
  match ops_get (rule_of_binop o) with Some (Infix a, _) => a | _ => ALeft end.
Definition bp_pre : nat := match ops_get RNegative with Some (_, p) => p | None => 0 end.
(* the rbp at which the right operand of o is parsed *)
Definition rrbp (o : abinop) : nat := match passoc o with ALeft => bp o | ARight => bp o - 1 end.

Lemma ops_infix o : ops_get (rule_of_binop o) = Some (Infix (passoc o), bp o).
Proof. destruct o; vm_compute; reflexivity. Qed.
Lemma ops_prefix : ops_get RNegative = Some (Prefix, bp_pre).
Proof. vm_compute; reflexivity. Qed.
Lemma bp_lt_pre o : bp o < bp_pre.
Proof. destruct o; vm_compute; lia. Qed.
Lemma bp_pos o : 0 < bp o.
Proof. destruct o; vm_compute; lia. Qed.

(* printer side: the table entries only look at the head constructor and the operator *)
Definition pb (o : abinop) : nat := precedence (TBin o (TVar "") (TVar "")).
Definition ab (o : abinop) : assoc := associativity (TBin o (TVar "") (TVar "")).
Definition pu : nat := precedence (TUn AUNeg (TVar "")).

Lemma prec_bin o l r : precedence (TBin o l r) = pb o.
Proof. destruct o; reflexivity. Qed.
Lemma assoc_bin o l r : associativity (TBin o l r) = ab o.
Proof. destruct o; reflexivity. Qed.
Lemma prec_un c : precedence (TUn AUNeg c) = pu.
Proof. reflexivity. Qed.
(* the prefix operator is written in front of its operand *)
Lemma assoc_un c : associativity (TUn AUNeg c) = ALeft.
Proof. reflexivity. Qed.

(* every binary operation binds looser than unary minus in the printer's numbering *)
Lemma pu_lt_pb o : pu < pb o.
Proof. destruct o; vm_compute; lia. Qed.
(* the printer's numbering of the binary operators is the parser's, reversed *)
Lemma pb_bp o1 o2 : pb o1 < pb o2 <-> bp o2 < bp o1.
Proof. destruct o1, o2; vm_compute; lia. Qed.
(* printer and parser agree on the associativity of every binary operator *)
Lemma ab_passoc o : ab o = passoc o.
Proof. destruct o; vm_compute; reflexivity. Qed.

(* Rust's matches are exhaustive: the fallbacks of Model/AspPrint are dead *)
Lemma tables_total t :
  first_match asp_fmt_precedence t <> None /\ first_match asp_fmt_associativity t <> None
  /\ first_match asp_fmt_mandatory_parentheses t <> None.
Proof.
  destruct t as [[|z| |]|x|[]|[]]; repeat split; try (vm_compute; discriminate);
  cbn; destruct (1 <=? z)%Z; discriminate.
Qed.

Lemma pb_eq_bp o1 o2 : pb o1 = pb o2 <-> bp o1 = bp o2.
Proof. pose proof (pb_bp o1 o2); pose proof (pb_bp o2 o1); lia. Qed.

(* ================================================================ 2. big-step Pratt and the claim *)

(* the child pairs the printer's output corresponds to *)
Definition iparen (b : bool) (l : list item) : list item := if b then [IParen l] else l.

Fixpoint print_items (t : term) : list item :=
  match t with
  | TPre _ | TVar _ => [ILeaf t]
  | TUn _ c =>
    let inner := iparen (mandatory_parentheses c || Nat.ltb (precedence t) (precedence c)) (print_items c) in
    match associativity t with
    | ALeft => IPre :: inner
    | ARight => inner ++ [IPre]
    end
  | TBin o l r =>
    iparen (mandatory_parentheses l || Nat.ltb (precedence t) (precedence l)
            || (Nat.eqb (precedence t) (precedence l) && assoc_eqb (associativity l) ARight)) (print_items l)
    ++ IIn o ::
    iparen (mandatory_parentheses r || Nat.ltb (precedence t) (precedence r)
            || (Nat.eqb (precedence t) (precedence r) && assoc_eqb (associativity t) ALeft)) (print_items r)
  end.

Inductive Expr : nat -> list item -> term -> list item -> Prop :=
| E_intro rbp items lhs rest t rest' :
    Nud items lhs rest -> Loop rbp lhs rest t rest' -> Expr rbp items t rest'
with Nud : list item -> term -> list item -> Prop :=
| N_leaf t rest : Nud (ILeaf t :: rest) t rest
| N_paren l t junk rest : Expr 0 l t junk -> Nud (IParen l :: rest) t rest
| N_pre items t rest : Expr (bp_pre - 1) items t rest -> Nud (IPre :: items) (TUn AUNeg t) rest
with Loop : nat -> term -> list item -> term -> list item -> Prop :=
| L_stop_nil rbp lhs : Loop rbp lhs [] lhs []
| L_stop_op rbp lhs o rest : ~ rbp < bp o -> Loop rbp lhs (IIn o :: rest) lhs (IIn o :: rest)
| L_step rbp lhs o rest r rest' t rest'' :
    rbp < bp o -> Expr (rrbp o) rest r rest' -> Loop rbp (TBin o lhs r) rest' t rest'' ->
    Loop rbp lhs (IIn o :: rest) t rest''.

(* rbp lets the top operator of t in *)
Definition enter_ok (rbp : nat) (t : term) : Prop :=
  match t with TBin o _ _ => rbp < bp o | _ => True end.
(* the strongest operator that may follow t without taking t's right end away *)
Definition rlvl (t : term) : nat := match t with TBin o _ _ => rrbp o | _ => bp_pre - 1 end.
Definition follow_ok (b : nat) (R : list item) : Prop :=
  R = [] \/ exists o R', R = IIn o :: R' /\ bp o <= b.

Lemma loop_stops b t R : follow_ok b R -> Loop b t R t R.
Proof. intros [->|[o [R' [-> H]]]]; [constructor|]. apply L_stop_op. lia. Qed.

Lemma follow_weaken b b' R : b <= b' -> follow_ok b R -> follow_ok b' R.
Proof. intros L [->|[o [R' [-> H]]]]; [left; auto|right; exists o, R'; split; auto; lia]. Qed.

Lemma rrbp_le o : rrbp o <= bp o.
Proof. unfold rrbp; destruct (passoc o); lia. Qed.
Lemma rrbp_ge o : bp o - 1 <= rrbp o.
Proof. unfold rrbp; destruct (passoc o); lia. Qed.

Lemma assoc_eqb_true a b : assoc_eqb a b = true <-> a = b.
Proof. destruct a, b; cbn; split; intros; try discriminate; auto. Qed.

Lemma assoc_not_right a : assoc_eqb a ARight = false -> a = ALeft.
Proof. destruct a; cbn; [reflexivity|discriminate]. Qed.
Lemma assoc_not_left a : assoc_eqb a ALeft = false -> a = ARight.
Proof. destruct a; cbn; [discriminate|reflexivity]. Qed.

Theorem claim t : forall rbp R t' R', enter_ok rbp t -> follow_ok (rlvl t) R ->
  Loop rbp t R t' R' -> Expr rbp (print_items t ++ R) t' R'.
Proof.
  induction t as [p|x|[] c IH|o l IHl r IHr]; intros rbp R t' R' Hr HF HL.
  - cbn. econstructor; [constructor|exact HL].
  - cbn. econstructor; [constructor|exact HL].
  - (* unary minus *)
    cbn [print_items]. rewrite assoc_un. cbn [app].
    econstructor; [|exact HL]. constructor.
    assert (HFc : follow_ok (bp_pre - 1) R) by exact HF.
    destruct (mandatory_parentheses c || Nat.ltb (precedence (TUn AUNeg c)) (precedence c)) eqn:W; cbn [iparen].
    + cbn [app]. econstructor; [|apply loop_stops; exact HFc].
      eapply N_paren. rewrite <- (app_nil_r (print_items c)).
      apply IH; [destruct c; cbn; auto using bp_pos|left; reflexivity|constructor].
    + apply orb_false_iff in W. destruct W as [_ W]. apply Nat.ltb_ge in W. rewrite prec_un in W.
      assert (NB : forall o a b, c <> TBin o a b).
      { intros o a b ->. rewrite prec_bin in W. pose proof (pu_lt_pb o). lia. }
      apply IH.
      * destruct c; cbn; auto. exfalso; eapply NB; reflexivity.
      * destruct c; cbn [rlvl]; auto. exfalso; eapply NB; reflexivity.
      * apply loop_stops. exact HFc.
  - (* binary operation *)
    cbn [print_items]. rewrite !prec_bin, !assoc_bin. cbn [enter_ok rlvl] in *.
    set (wr := mandatory_parentheses r || Nat.ltb (pb o) (precedence r)
               || (Nat.eqb (pb o) (precedence r) && assoc_eqb (ab o) ALeft)).
    set (wl := mandatory_parentheses l || Nat.ltb (pb o) (precedence l)
               || (Nat.eqb (pb o) (precedence l) && assoc_eqb (associativity l) ARight)).
    assert (RHS : Expr (rrbp o) (iparen wr (print_items r) ++ R) r R).
    { destruct wr eqn:W; cbn [iparen].
      - cbn [app]. econstructor; [|apply loop_stops; exact HF].
        eapply N_paren. rewrite <- (app_nil_r (print_items r)).
        apply IHr; [destruct r; cbn; auto using bp_pos|left; reflexivity|constructor].
      - subst wr. apply orb_false_iff in W. destruct W as [W W3]. apply orb_false_iff in W.
        destruct W as [_ W2]. apply Nat.ltb_ge in W2.
        apply IHr.
        + destruct r as [| | |o2 a b]; cbn; auto. rewrite prec_bin in *.
          pose proof (pb_bp o2 o) as Q. pose proof (pb_eq_bp o o2) as Q2. pose proof (rrbp_le o).
          destruct (Nat.eq_dec (pb o) (pb o2)) as [E|NE].
          * rewrite E, Nat.eqb_refl in W3. cbn in W3.
            assert (A : ab o = ARight) by (apply assoc_not_left; exact W3).
            rewrite ab_passoc in A. unfold rrbp. rewrite A. pose proof (bp_pos o). lia.
          * lia.
        + destruct r as [| | |o2 a b]; cbn [rlvl];
            try (eapply follow_weaken; [|exact HF]; pose proof (rrbp_le o); pose proof (bp_lt_pre o); lia).
          rewrite prec_bin in *. eapply follow_weaken; [|exact HF].
          pose proof (pb_bp o2 o) as Q. pose proof (pb_eq_bp o o2) as Q2.
          pose proof (rrbp_le o). pose proof (rrbp_ge o2).
          destruct (Nat.eq_dec (pb o) (pb o2)) as [E|NE].
          * rewrite E, Nat.eqb_refl in W3. cbn in W3.
            assert (A : ab o = ARight) by (apply assoc_not_left; exact W3).
            rewrite ab_passoc in A. unfold rrbp at 1. rewrite A. lia.
          * lia.
        + apply loop_stops. exact HF. }
    assert (STEP : Loop rbp l (IIn o :: iparen wr (print_items r) ++ R) t' R').
    { eapply L_step; [exact Hr|exact RHS|exact HL]. }
    rewrite <- app_assoc. cbn [app].
    destruct wl eqn:W; cbn [iparen].
    + cbn [app]. econstructor; [|exact STEP].
      eapply N_paren. rewrite <- (app_nil_r (print_items l)).
      apply IHl; [destruct l; cbn; auto using bp_pos|left; reflexivity|constructor].
    + subst wl. apply orb_false_iff in W. destruct W as [W W3]. apply orb_false_iff in W.
      destruct W as [_ W2]. apply Nat.ltb_ge in W2.
      apply IHl.
      * destruct l as [| | |o1 a b]; cbn; auto. rewrite prec_bin in *.
        pose proof (pb_bp o o1) as Q. lia.
      * right. exists o, (iparen wr (print_items r) ++ R). split; [reflexivity|].
        destruct l as [| | |o1 a b]; cbn [rlvl]; try (pose proof (bp_lt_pre o); lia).
        rewrite prec_bin, assoc_bin in *.
        pose proof (pb_bp o1 o) as Q. pose proof (pb_eq_bp o o1) as Q2. pose proof (rrbp_ge o1).
        destruct (Nat.eq_dec (pb o) (pb o1)) as [E|NE].
        -- rewrite E, Nat.eqb_refl in W3. cbn in W3.
           assert (A : ab o1 = ALeft) by (apply assoc_not_right; exact W3).
           rewrite ab_passoc in A. unfold rrbp. rewrite A. lia.
        -- lia.
      * exact STEP.
Qed.

Corollary pratt_roundtrip_bigstep t : Expr 0 (print_items t) t [].
Proof.
  rewrite <- (app_nil_r (print_items t)).
  apply claim; [destruct t; cbn; auto using bp_pos|left; reflexivity|constructor].
Qed.

(* ================================================================ 3. adequacy of the executable Pratt parser *)

Scheme Expr_mind := Minimality for Expr Sort Prop
  with Nud_mind := Minimality for Nud Sort Prop
  with Loop_mind := Minimality for Loop Sort Prop.
Combined Scheme ENL_mind from Expr_mind, Nud_mind, Loop_mind.

Lemma item_size_paren l : item_size (IParen l) = S (items_size l).
Proof. reflexivity. Qed.
Lemma item_size_pos i : 0 < item_size i.
Proof. destruct i; cbn; lia. Qed.

Lemma pratt_adequate :
  (forall rbp items t rest, Expr rbp items t rest ->
     items_size rest < items_size items /\
     forall F, 2 * items_size items + 2 <= F -> pratt_expr F rbp items = POk (t, rest)) /\
  (forall items t rest, Nud items t rest ->
     items_size rest < items_size items /\
     forall F, 2 * items_size items + 1 <= F -> pratt_nud F items = POk (t, rest)) /\
  (forall rbp lhs items t rest, Loop rbp lhs items t rest ->
     items_size rest <= items_size items /\
     forall F, 2 * items_size items + 1 <= F -> pratt_loop F rbp lhs items = POk (t, rest)).
Proof.
  apply ENL_mind.
  - (* E_intro *)
    intros rbp items lhs rest t rest' _ [SN HN] _ [SL HL]. split; [lia|].
    intros F HF. destruct F as [|f]; [lia|]. cbn [pratt_expr].
    rewrite HN by lia. apply HL. lia.
  - (* N_leaf *)
    intros t rest. cbn [items_size item_size]. split; [lia|].
    intros F HF. destruct F as [|f]; [lia|]. reflexivity.
  - (* N_paren *)
    intros l t junk rest _ [SE HE]. cbn [items_size]. rewrite item_size_paren. split; [lia|].
    intros F HF. destruct F as [|f]; [lia|]. cbn [pratt_nud].
    rewrite HE by lia. reflexivity.
  - (* N_pre *)
    intros items t rest _ [SE HE]. cbn [items_size item_size]. split; [lia|].
    intros F HF. destruct F as [|f]; [lia|]. cbn [pratt_nud].
    rewrite ops_prefix. rewrite HE by lia. reflexivity.
  - (* L_stop_nil *)
    intros rbp lhs. split; [lia|]. intros F HF. destruct F as [|f]; [cbn in HF; lia|]. reflexivity.
  - (* L_stop_op *)
    intros rbp lhs o rest Hn. split; [lia|].
    intros F HF. destruct F as [|f]; [lia|]. cbn [pratt_loop item_rule].
    rewrite ops_infix.
    assert (E : Nat.ltb rbp (bp o) = false) by (apply Nat.ltb_ge; lia). rewrite E. reflexivity.
  - (* L_step *)
    intros rbp lhs o rest r rest' t rest'' Hlt _ [SE HE] _ [SL HL].
    cbn [items_size item_size]. split; [lia|].
    intros F HF. destruct F as [|f]; [lia|]. cbn [pratt_loop item_rule].
    rewrite ops_infix.
    assert (E : Nat.ltb rbp (bp o) = true) by (apply Nat.ltb_lt; lia). rewrite E.
    fold (rrbp o). rewrite HE by lia. apply HL. lia.
Qed.

(* the Pratt phase returns the printed tree *)
Theorem pratt_print_items t : pratt (print_items t) = POk t.
Proof.
  unfold pratt. destruct pratt_adequate as [HE _].
  destruct (HE _ _ _ _ (pratt_roundtrip_bigstep t)) as [_ H].
  rewrite H by lia. reflexivity.
Qed.
