(* C14: printing a mini-gringo syntax tree and parsing the result gives the tree back.
   Token level (Model/AspPrint.print_* against Model/AspParse.parse_* functions), over the operator tables of
   Gen/TablesAsp.v that are regenerated from the Rust sources before every build.

   Structure (design-probes/Pratt_probe.v scaled to the real tables):
     1. table facts, each proved by computation on the generated tables; they are the ONLY place
        where the concrete numbers enter.  An edit of default.rs / pest.rs that keeps them true is
        re-proved automatically; one that breaks them (e.g. Multiply printed at the level of Add
        while the parser keeps it tighter) fails here.
     2. a big-step transcription Expr/Nud/Loop of pest's expr/nud/led-loop and the generalised
        claim: parsing the printed form of t at any rbp that lets t's top operator in yields t and
        then continues the operator loop on what follows, provided what follows may legally
        follow t.
     3. adequacy of the fuelled executable Pratt parser for the big-step relation (explicit fuel
        bound 2*size+2, which is what [pratt] uses).
     4. the PEG phase  prefix* primary (infix prefix* primary)*  on printed token lists.
     5. atoms, literals, comparisons, bodies, heads, rules, programs. *)
From Coq Require Import List Arith Lia Bool ZArith String.
From Anthem Require Import Syntax.Asp Model.AspTableTypes Gen.TablesAsp Model.AspPrint Model.AspParse.
Import ListNotations.
Open Scope list_scope.

(* ================================================================ 1. table facts *)

(* parser side *)
Definition bp (o : abinop) : nat :=
  match ops_get (rule_of_binop o) with Some (_, p) => p | None => 0 end.
Definition passoc (o : abinop) : assoc :=
  match ops_get (rule_of_binop o) with Some (Infix a, _) => a | _ => ALeft end.
Definition bp_pre : nat := match ops_get RNegative with Some (_, p) => p | None => 0 end.
(* the rbp at which the right operand of o is parsed *)
Definition rrbp (o : abinop) : nat := match passoc o with ALeft => bp o | ARight => bp o - 1 end.

Lemma ops_infix o : ops_get (rule_of_binop o) = Some (Infix (passoc o), bp o).
Proof. destruct o; vm_compute; reflexivity. Qed.
Lemma ops_prefix : ops_get RNegative = Some (Prefix, bp_pre).
Proof. vm_compute; reflexivity. Qed.
Lemma bp_lt_pre o : bp o < bp_pre.
Proof. destruct o; vm_compute; lia. Qed.
Lemma bp_pos o : 0 < bp o.
Proof. destruct o; vm_compute; lia. Qed.

(* printer side: the table entries only look at the head constructor and the operator *)
Definition pb (o : abinop) : nat := precedence (TBin o (TVar "") (TVar "")).
Definition ab (o : abinop) : assoc := associativity (TBin o (TVar "") (TVar "")).
Definition pu : nat := precedence (TUn AUNeg (TVar "")).

Lemma prec_bin o l r : precedence (TBin o l r) = pb o.
Proof. destruct o; reflexivity. Qed.
Lemma assoc_bin o l r : associativity (TBin o l r) = ab o.
Proof. destruct o; reflexivity. Qed.
Lemma prec_un c : precedence (TUn AUNeg c) = pu.
Proof. reflexivity. Qed.
(* the prefix operator is written in front of its operand *)
Lemma assoc_un c : associativity (TUn AUNeg c) = ALeft.
Proof. reflexivity. Qed.

(* every binary operation binds looser than unary minus in the printer's numbering *)
Lemma pu_lt_pb o : pu < pb o.
Proof. destruct o; vm_compute; lia. Qed.
(* the printer's numbering of the binary operators is the parser's, reversed *)
Lemma pb_bp o1 o2 : pb o1 < pb o2 <-> bp o2 < bp o1.
Proof. destruct o1, o2; vm_compute; lia. Qed.
(* printer and parser agree on the associativity of every binary operator *)
Lemma ab_passoc o : ab o = passoc o.
Proof. destruct o; vm_compute; reflexivity. Qed.

(* Rust's matches are exhaustive: the fallbacks of Model/AspPrint are dead *)
Lemma tables_total t :
  first_match asp_fmt_precedence t <> None /\ first_match asp_fmt_associativity t <> None
  /\ first_match asp_fmt_mandatory_parentheses t <> None.
Proof.
  destruct t as [[|z| |]|x|[]|[]]; repeat split; try (vm_compute; discriminate);
  cbn; destruct (1 <=? z)%Z; discriminate.
Qed.

Lemma pb_eq_bp o1 o2 : pb o1 = pb o2 <-> bp o1 = bp o2.
Proof. pose proof (pb_bp o1 o2); pose proof (pb_bp o2 o1); lia. Qed.

(* ================================================================ 2. big-step Pratt and the claim *)

(* the child pairs the printer's output corresponds to *)
Definition iparen (b : bool) (l : list item) : list item := if b then [IParen l] else l.

Fixpoint print_items (t : term) : list item :=
  match t with
  | TPre _ | TVar _ => [ILeaf t]
  | TUn _ c =>
    let inner := iparen (mandatory_parentheses c || Nat.ltb (precedence t) (precedence c)) (print_items c) in
    match associativity t with
    | ALeft => IPre :: inner
    | ARight => inner ++ [IPre]
    end
  | TBin o l r =>
    iparen (mandatory_parentheses l || Nat.ltb (precedence t) (precedence l)
            || (Nat.eqb (precedence t) (precedence l) && assoc_eqb (associativity l) ARight)) (print_items l)
    ++ IIn o ::
    iparen (mandatory_parentheses r || Nat.ltb (precedence t) (precedence r)
            || (Nat.eqb (precedence t) (precedence r) && assoc_eqb (associativity t) ALeft)) (print_items r)
  end.

Inductive Expr : nat -> list item -> term -> list item -> Prop :=
| E_intro rbp items lhs rest t rest' :
    Nud items lhs rest -> Loop rbp lhs rest t rest' -> Expr rbp items t rest'
with Nud : list item -> term -> list item -> Prop :=
| N_leaf t rest : Nud (ILeaf t :: rest) t rest
| N_paren l t junk rest : Expr 0 l t junk -> Nud (IParen l :: rest) t rest
| N_pre items t rest : Expr (bp_pre - 1) items t rest -> Nud (IPre :: items) (TUn AUNeg t) rest
with Loop : nat -> term -> list item -> term -> list item -> Prop :=
| L_stop_nil rbp lhs : Loop rbp lhs [] lhs []
| L_stop_op rbp lhs o rest : ~ rbp < bp o -> Loop rbp lhs (IIn o :: rest) lhs (IIn o :: rest)
| L_step rbp lhs o rest r rest' t rest'' :
    rbp < bp o -> Expr (rrbp o) rest r rest' -> Loop rbp (TBin o lhs r) rest' t rest'' ->
    Loop rbp lhs (IIn o :: rest) t rest''.

(* rbp lets the top operator of t in *)
Definition enter_ok (rbp : nat) (t : term) : Prop :=
  match t with TBin o _ _ => rbp < bp o | _ => True end.
(* the strongest operator that may follow t without taking t's right end away *)
Definition rlvl (t : term) : nat := match t with TBin o _ _ => rrbp o | _ => bp_pre - 1 end.
Definition follow_ok (b : nat) (R : list item) : Prop :=
  R = [] \/ exists o R', R = IIn o :: R' /\ bp o <= b.

Lemma loop_stops b t R : follow_ok b R -> Loop b t R t R.
Proof. intros [->|[o [R' [-> H]]]]; [constructor|]. apply L_stop_op. lia. Qed.

Lemma follow_weaken b b' R : b <= b' -> follow_ok b R -> follow_ok b' R.
Proof. intros L [->|[o [R' [-> H]]]]; [left; auto|right; exists o, R'; split; auto; lia]. Qed.

Lemma rrbp_le o : rrbp o <= bp o.
Proof. unfold rrbp; destruct (passoc o); lia. Qed.
Lemma rrbp_ge o : bp o - 1 <= rrbp o.
Proof. unfold rrbp; destruct (passoc o); lia. Qed.

Lemma assoc_eqb_true a b : assoc_eqb a b = true <-> a = b.
Proof. destruct a, b; cbn; split; intros; try discriminate; auto. Qed.

Lemma assoc_not_right a : assoc_eqb a ARight = false -> a = ALeft.
Proof. destruct a; cbn; [reflexivity|discriminate]. Qed.
Lemma assoc_not_left a : assoc_eqb a ALeft = false -> a = ARight.
Proof. destruct a; cbn; [discriminate|reflexivity]. Qed.

Theorem claim t : forall rbp R t' R', enter_ok rbp t -> follow_ok (rlvl t) R ->
  Loop rbp t R t' R' -> Expr rbp (print_items t ++ R) t' R'.
Proof.
  induction t as [p|x|[] c IH|o l IHl r IHr]; intros rbp R t' R' Hr HF HL.
  - cbn. econstructor; [constructor|exact HL].
  - cbn. econstructor; [constructor|exact HL].
  - (* unary minus *)
    cbn [print_items]. rewrite assoc_un. cbn [app].
    econstructor; [|exact HL]. constructor.
    assert (HFc : follow_ok (bp_pre - 1) R) by exact HF.
    destruct (mandatory_parentheses c || Nat.ltb (precedence (TUn AUNeg c)) (precedence c)) eqn:W; cbn [iparen].
    + cbn [app]. econstructor; [|apply loop_stops; exact HFc].
      eapply N_paren. rewrite <- (app_nil_r (print_items c)).
      apply IH; [destruct c; cbn; auto using bp_pos|left; reflexivity|constructor].
    + apply orb_false_iff in W. destruct W as [_ W]. apply Nat.ltb_ge in W. rewrite prec_un in W.
      assert (NB : forall o a b, c <> TBin o a b).
      { intros o a b ->. rewrite prec_bin in W. pose proof (pu_lt_pb o). lia. }
      apply IH.
      * destruct c; cbn; auto. exfalso; eapply NB; reflexivity.
      * destruct c; cbn [rlvl]; auto. exfalso; eapply NB; reflexivity.
      * apply loop_stops. exact HFc.
  - (* binary operation *)
    cbn [print_items]. rewrite !prec_bin, !assoc_bin. cbn [enter_ok rlvl] in *.
    set (wr := mandatory_parentheses r || Nat.ltb (pb o) (precedence r)
               || (Nat.eqb (pb o) (precedence r) && assoc_eqb (ab o) ALeft)).
    set (wl := mandatory_parentheses l || Nat.ltb (pb o) (precedence l)
               || (Nat.eqb (pb o) (precedence l) && assoc_eqb (associativity l) ARight)).
    assert (RHS : Expr (rrbp o) (iparen wr (print_items r) ++ R) r R).
    { destruct wr eqn:W; cbn [iparen].
      - cbn [app]. econstructor; [|apply loop_stops; exact HF].
        eapply N_paren. rewrite <- (app_nil_r (print_items r)).
        apply IHr; [destruct r; cbn; auto using bp_pos|left; reflexivity|constructor].
      - subst wr. apply orb_false_iff in W. destruct W as [W W3]. apply orb_false_iff in W.
        destruct W as [_ W2]. apply Nat.ltb_ge in W2.
        apply IHr.
        + destruct r as [| | |o2 a b]; cbn; auto. rewrite prec_bin in *.
          pose proof (pb_bp o2 o) as Q. pose proof (pb_eq_bp o o2) as Q2. pose proof (rrbp_le o).
          destruct (Nat.eq_dec (pb o) (pb o2)) as [E|NE].
          * rewrite E, Nat.eqb_refl in W3. cbn in W3.
            assert (A : ab o = ARight) by (apply assoc_not_left; exact W3).
            rewrite ab_passoc in A. unfold rrbp. rewrite A. pose proof (bp_pos o). lia.
          * lia.
        + destruct r as [| | |o2 a b]; cbn [rlvl];
            try (eapply follow_weaken; [|exact HF]; pose proof (rrbp_le o); pose proof (bp_lt_pre o); lia).
          rewrite prec_bin in *. eapply follow_weaken; [|exact HF].
          pose proof (pb_bp o2 o) as Q. pose proof (pb_eq_bp o o2) as Q2.
          pose proof (rrbp_le o). pose proof (rrbp_ge o2).
          destruct (Nat.eq_dec (pb o) (pb o2)) as [E|NE].
          * rewrite E, Nat.eqb_refl in W3. cbn in W3.
            assert (A : ab o = ARight) by (apply assoc_not_left; exact W3).
            rewrite ab_passoc in A. unfold rrbp at 1. rewrite A. lia.
          * lia.
        + apply loop_stops. exact HF. }
    assert (STEP : Loop rbp l (IIn o :: iparen wr (print_items r) ++ R) t' R').
    { eapply L_step; [exact Hr|exact RHS|exact HL]. }
    rewrite <- app_assoc. cbn [app].
    destruct wl eqn:W; cbn [iparen].
    + cbn [app]. econstructor; [|exact STEP].
      eapply N_paren. rewrite <- (app_nil_r (print_items l)).
      apply IHl; [destruct l; cbn; auto using bp_pos|left; reflexivity|constructor].
    + subst wl. apply orb_false_iff in W. destruct W as [W W3]. apply orb_false_iff in W.
      destruct W as [_ W2]. apply Nat.ltb_ge in W2.
      apply IHl.
      * destruct l as [| | |o1 a b]; cbn; auto. rewrite prec_bin in *.
        pose proof (pb_bp o o1) as Q. lia.
      * right. exists o, (iparen wr (print_items r) ++ R). split; [reflexivity|].
        destruct l as [| | |o1 a b]; cbn [rlvl]; try (pose proof (bp_lt_pre o); lia).
        rewrite prec_bin, assoc_bin in *.
        pose proof (pb_bp o1 o) as Q. pose proof (pb_eq_bp o o1) as Q2. pose proof (rrbp_ge o1).
        destruct (Nat.eq_dec (pb o) (pb o1)) as [E|NE].
        -- rewrite E, Nat.eqb_refl in W3. cbn in W3.
           assert (A : ab o1 = ALeft) by (apply assoc_not_right; exact W3).
           rewrite ab_passoc in A. unfold rrbp. rewrite A. lia.
        -- lia.
      * exact STEP.
Qed.

Corollary pratt_roundtrip_bigstep t : Expr 0 (print_items t) t [].
Proof.
  rewrite <- (app_nil_r (print_items t)).
  apply claim; [destruct t; cbn; auto using bp_pos|left; reflexivity|constructor].
Qed.

(* ================================================================ 3. adequacy of the executable Pratt parser *)

Scheme Expr_mind := Minimality for Expr Sort Prop
  with Nud_mind := Minimality for Nud Sort Prop
  with Loop_mind := Minimality for Loop Sort Prop.
Combined Scheme ENL_mind from Expr_mind, Nud_mind, Loop_mind.

Lemma item_size_paren l : item_size (IParen l) = S (items_size l).
Proof. reflexivity. Qed.
Lemma item_size_pos i : 0 < item_size i.
Proof. destruct i; cbn; lia. Qed.

Lemma pratt_adequate :
  (forall rbp items t rest, Expr rbp items t rest ->
     items_size rest < items_size items /\
     forall F, 2 * items_size items + 2 <= F -> pratt_expr F rbp items = POk (t, rest)) /\
  (forall items t rest, Nud items t rest ->
     items_size rest < items_size items /\
     forall F, 2 * items_size items + 1 <= F -> pratt_nud F items = POk (t, rest)) /\
  (forall rbp lhs items t rest, Loop rbp lhs items t rest ->
     items_size rest <= items_size items /\
     forall F, 2 * items_size items + 1 <= F -> pratt_loop F rbp lhs items = POk (t, rest)).
Proof.
  apply ENL_mind.
  - (* E_intro *)
    intros rbp items lhs rest t rest' _ [SN HN] _ [SL HL]. split; [lia|].
    intros F HF. destruct F as [|f]; [lia|]. cbn [pratt_expr].
    rewrite HN by lia. apply HL. lia.
  - (* N_leaf *)
    intros t rest. cbn [items_size item_size]. split; [lia|].
    intros F HF. destruct F as [|f]; [lia|]. reflexivity.
  - (* N_paren *)
    intros l t junk rest _ [SE HE]. cbn [items_size]. rewrite item_size_paren. split; [lia|].
    intros F HF. destruct F as [|f]; [lia|]. cbn [pratt_nud].
    rewrite HE by lia. reflexivity.
  - (* N_pre *)
    intros items t rest _ [SE HE]. cbn [items_size item_size]. split; [lia|].
    intros F HF. destruct F as [|f]; [lia|]. cbn [pratt_nud].
    rewrite ops_prefix. rewrite HE by lia. reflexivity.
  - (* L_stop_nil *)
    intros rbp lhs. split; [lia|]. intros F HF. destruct F as [|f]; [cbn in HF; lia|]. reflexivity.
  - (* L_stop_op *)
    intros rbp lhs o rest Hn. split; [lia|].
    intros F HF. destruct F as [|f]; [lia|]. cbn [pratt_loop item_rule].
    rewrite ops_infix.
    assert (E : Nat.ltb rbp (bp o) = false) by (apply Nat.ltb_ge; lia). rewrite E. reflexivity.
  - (* L_step *)
    intros rbp lhs o rest r rest' t rest'' Hlt _ [SE HE] _ [SL HL].
    cbn [items_size item_size]. split; [lia|].
    intros F HF. destruct F as [|f]; [lia|]. cbn [pratt_loop item_rule].
    rewrite ops_infix.
    assert (E : Nat.ltb rbp (bp o) = true) by (apply Nat.ltb_lt; lia). rewrite E.
    fold (rrbp o). rewrite HE by lia. apply HL. lia.
Qed.

(* the Pratt phase returns the printed tree *)
Theorem pratt_print_items t : pratt (print_items t) = POk t.
Proof.
  unfold pratt. destruct pratt_adequate as [HE _].
  destruct (HE _ _ _ _ (pratt_roundtrip_bigstep t)) as [_ H].
  rewrite H by lia. reflexivity.
Qed.

(* ================================================================ 4. the PEG phase on printed tokens *)

Definition is_leaf (t : term) : Prop := match t with TPre _ | TVar _ => True | _ => False end.
Definition leaf_token (t : term) : token :=
  match t with TPre p => print_pterm p | TVar x => TkVar x | _ => TkDot end.

Fixpoint flatten_item (i : item) : list token :=
  match i with
  | ILeaf t => [leaf_token t]
  | IParen l =>
    TkLP :: (fix go (l : list item) : list token :=
               match l with [] => [] | x :: r => flatten_item x ++ go r end) l ++ [TkRP]
  | IPre => [TkNeg]
  | IIn o => [TkBin o]
  end.
Fixpoint flatten (l : list item) : list token :=
  match l with [] => [] | x :: r => flatten_item x ++ flatten r end.

Lemma flatten_paren l : flatten_item (IParen l) = TkLP :: flatten l ++ [TkRP].
Proof. reflexivity. Qed.
Lemma flatten_app a b : flatten (a ++ b) = flatten a ++ flatten b.
Proof. induction a as [|x a IH]; cbn [flatten app]; [reflexivity|]. rewrite IH, app_assoc. reflexivity. Qed.
Lemma flatten_iparen b l : flatten (iparen b l) = paren b (flatten l).
Proof. destruct b; cbn [iparen paren flatten]; [|reflexivity]. rewrite flatten_paren, app_nil_r. reflexivity. Qed.

Lemma flatten_print_items t : flatten (print_items t) = print_term t.
Proof.
  induction t as [p|x|[] c IH|o l IHl r IHr]; cbn [print_items print_term].
  - reflexivity.
  - reflexivity.
  - destruct (associativity (TUn AUNeg c)).
    + cbn [flatten flatten_item fmt_operator app]. rewrite flatten_iparen, IH. reflexivity.
    + rewrite flatten_app, flatten_iparen, IH. reflexivity.
  - rewrite flatten_app. cbn [flatten flatten_item fmt_operator app].
    rewrite !flatten_iparen, IHl, IHr. reflexivity.
Qed.

(* item lists of the form  prefix* primary (infix prefix* primary)*,  recursively inside parentheses *)
Inductive Shape : list item -> Prop :=
| Sh op tl : Operand op -> Tail tl -> Shape (op ++ tl)
with Operand : list item -> Prop :=
| Op_pre l : Operand l -> Operand (IPre :: l)
| Op_leaf t : is_leaf t -> Operand [ILeaf t]
| Op_paren l : Shape l -> Operand [IParen l]
with Tail : list item -> Prop :=
| T_nil : Tail []
| T_cons o op tl : Operand op -> Tail tl -> Tail (IIn o :: op ++ tl).

Scheme Shape_mind := Minimality for Shape Sort Prop
  with Operand_mind := Minimality for Operand Sort Prop
  with Tail_mind := Minimality for Tail Sort Prop.
Combined Scheme SOT_mind from Shape_mind, Operand_mind, Tail_mind.

Lemma tail_app a b : Tail a -> Tail b -> Tail (a ++ b).
Proof.
  intros Ha Hb. induction Ha as [|o op tl Hop Htl IH]; cbn [app]; [exact Hb|].
  rewrite <- app_assoc. constructor; assumption.
Qed.
Lemma shape_join a o b : Shape a -> Shape b -> Shape (a ++ IIn o :: b).
Proof.
  intros [op1 tl1 O1 T1] [op2 tl2 O2 T2]. rewrite <- app_assoc. constructor; [exact O1|].
  apply tail_app; [exact T1|]. constructor; assumption.
Qed.
Lemma shape_iparen b l : Shape l -> Shape (iparen b l).
Proof.
  intros H. destruct b; cbn [iparen]; [|exact H].
  change [IParen l] with ([IParen l] ++ []). constructor; constructor. exact H.
Qed.
Lemma shape_pre l : Shape l -> Shape (IPre :: l).
Proof. intros [op tl O T]. change (IPre :: op ++ tl) with ((IPre :: op) ++ tl). constructor; [constructor|]; assumption. Qed.

Lemma shape_print_items t : Shape (print_items t).
Proof.
  induction t as [p|x|[] c IH|o l IHl r IHr]; cbn [print_items].
  - change [ILeaf (TPre p)] with ([ILeaf (TPre p)] ++ []). constructor; constructor. exact I.
  - change [ILeaf (TVar x)] with ([ILeaf (TVar x)] ++ []). constructor; constructor. exact I.
  - rewrite assoc_un. apply shape_pre, shape_iparen, IH.
  - apply shape_join; apply shape_iparen; assumption.
Qed.

(* what follows a term in a program is never an infix operator *)
Definition nobin (ts : list token) : Prop := match ts with TkBin _ :: _ => False | _ => True end.

Lemma peg_prefixes_other ts : match ts with TkNeg :: _ => False | _ => True end -> peg_prefixes ts = ([], ts).
Proof. destruct ts as [|[] ts]; cbn; tauto. Qed.

Lemma peg_operand_neg rec ts :
  peg_operand rec (TkNeg :: ts) =
  match peg_operand rec ts with Some (op, r) => Some (IPre :: op, r) | None => None end.
Proof.
  unfold peg_operand. cbn [peg_prefixes]. destruct (peg_prefixes ts) as [p r].
  destruct r as [|t r1]; [reflexivity|].
  destruct t; cbn [app]; try reflexivity;
    try (destruct (leaf_of_token _); reflexivity).
  destruct (rec r1) as [[l [|[] r2]]|]; reflexivity.
Qed.

Lemma len_cons_app2 {A} (x : A) a b : List.length (x :: a ++ b) = S (List.length a + List.length b).
Proof. simpl. rewrite app_length. reflexivity. Qed.
Lemma len_cons_app3 {A} (x : A) a b c :
  List.length ((x :: a ++ b) ++ c) = S (List.length a + List.length b + List.length c).
Proof. simpl. rewrite !app_length. reflexivity. Qed.

Lemma peg_ok :
  (forall items, Shape items -> forall rest f, nobin rest -> List.length (flatten items) <= f ->
     peg_term (S f) (flatten items ++ rest) = Some (items, rest)) /\
  (forall op, Operand op -> forall rest f, List.length (flatten op) <= f ->
     peg_operand (peg_term f) (flatten op ++ rest) = Some (op, rest)) /\
  (forall tl, Tail tl -> forall rest f n, nobin rest -> List.length (flatten tl) <= f ->
     List.length (flatten tl ++ rest) <= n ->
     peg_tail (peg_term f) n (flatten tl ++ rest) = (tl, rest)).
Proof.
  apply SOT_mind.
  - (* Sh *)
    intros op tl _ HO _ HT rest f NB L. rewrite flatten_app in L |- *. rewrite app_length in L.
    cbn [peg_term]. rewrite <- app_assoc. rewrite HO by lia.
    rewrite HT by (auto; lia). reflexivity.
  - (* Op_pre *)
    intros l _ IH rest f L. cbn [flatten flatten_item app] in *.
    rewrite peg_operand_neg. rewrite IH by (cbn in L; lia). reflexivity.
  - (* Op_leaf *)
    intros t Ht rest f L. cbn [flatten flatten_item app].
    unfold peg_operand.
    destruct t as [[| | |]| | |]; cbn in Ht; try contradiction; reflexivity.
  - (* Op_paren *)
    intros l _ IH rest f L. cbn [flatten app] in *. rewrite flatten_paren in *. rewrite app_nil_r in *.
    assert (Ll : List.length (flatten l) + 2 <= f).
    { simpl List.length in L. rewrite app_length in L. simpl List.length in L. lia. }
    destruct f as [|f']; [lia|].
    unfold peg_operand. cbn [peg_prefixes app]. rewrite <- app_assoc. cbn [app].
    rewrite IH by (cbn; auto; lia). reflexivity.
  - (* T_nil *)
    intros rest f n NB _ _. cbn [flatten app].
    destruct n; [reflexivity|]. destruct rest as [|[] rest]; cbn in NB; try contradiction; reflexivity.
  - (* T_cons *)
    intros o op tl _ HO _ HT rest f n NB L Ln.
    assert (E : flatten (IIn o :: op ++ tl) = TkBin o :: flatten op ++ flatten tl)
      by (cbn [flatten flatten_item app]; rewrite flatten_app; reflexivity).
    rewrite E in *. clear E.
    rewrite len_cons_app2 in L. rewrite len_cons_app3 in Ln.
    destruct n as [|n']; [lia|].
    cbn [app peg_tail]. rewrite <- app_assoc. rewrite HO by lia.
    rewrite HT; [reflexivity|exact NB|lia|rewrite app_length; lia].
Qed.

Lemma pratt_leaf t : is_leaf t -> pratt [ILeaf t] = POk t.
Proof. intros _. reflexivity. Qed.

(* ---- C14 for terms *)
Theorem parse_print_term t rest : nobin rest -> parse_term (print_term t ++ rest) = POk (t, rest).
Proof.
  intros NB. unfold parse_term. destruct peg_ok as [HS _].
  rewrite <- flatten_print_items.
  rewrite (HS _ (shape_print_items t) rest _ NB) by (rewrite app_length; lia).
  rewrite pratt_print_items. reflexivity.
Qed.

(* ================================================================ 5. atoms ... programs *)

Definition print_more_terms (ts : list term) : list token :=
  flat_map (fun u => TkComma :: print_term u) ts.

Lemma print_terms_cons t ts : print_terms (t :: ts) = print_term t ++ print_more_terms ts.
Proof.
  revert t. induction ts as [|u ts IH]; intros t.
  - cbn. rewrite app_nil_r. reflexivity.
  - change (print_terms (t :: u :: ts)) with (print_term t ++ TkComma :: print_terms (u :: ts)).
    rewrite IH. reflexivity.
Qed.

Definition nocomma (ts : list token) : Prop := match ts with TkComma :: _ => False | _ => True end.
Definition nolp (ts : list token) : Prop := match ts with TkLP :: _ => False | _ => True end.

Lemma nobin_more ts rest : nobin rest -> nobin (print_more_terms ts ++ rest).
Proof. destruct ts; cbn; auto. Qed.

Lemma parse_more_terms_ok ts : forall rest n, nocomma rest -> nobin rest ->
  List.length (print_more_terms ts ++ rest) <= n ->
  parse_more_terms n (print_more_terms ts ++ rest) = POk (ts, rest).
Proof.
  induction ts as [|u ts IH]; intros rest n NC NB L.
  - cbn [print_more_terms flat_map app]. destruct n; [reflexivity|].
    destruct rest as [|[] rest]; cbn in NC; try contradiction; reflexivity.
  - cbn [print_more_terms flat_map app] in *. fold (print_more_terms ts) in *.
    rewrite <- app_assoc in *. destruct n as [|n']; [cbn in L; lia|].
    cbn [parse_more_terms]. rewrite parse_print_term by (apply nobin_more; exact NB).
    rewrite IH; [reflexivity|exact NC|exact NB|].
    cbn in L. rewrite app_length in L. lia.
Qed.

Lemma parse_print_atom a rest : nolp rest -> parse_atom (print_atom a ++ rest) = POk (a, rest).
Proof.
  destruct a as [p args]. intros NL. unfold print_atom. cbn [apred aterms].
  destruct args as [|t ts].
  - cbn [app parse_atom]. destruct rest as [|[] rest]; cbn in NL; try contradiction; reflexivity.
  - cbn [app parse_atom]. rewrite print_terms_cons. rewrite <- !app_assoc. cbn [app].
    unfold parse_term_tuple.
    rewrite parse_print_term by (apply nobin_more; exact I).
    rewrite parse_more_terms_ok by (cbn; auto). reflexivity.
Qed.

Lemma parse_print_literal l rest : nolp rest -> parse_literal (print_literal l ++ rest) = POk (l, rest).
Proof.
  destruct l as [s a]. intros NL. unfold print_literal, parse_literal. cbn [lsign latom].
  rewrite <- app_assoc.
  assert (H : parse_sign (print_sign s ++ print_atom a ++ rest) = (s, print_atom a ++ rest)).
  { destruct s; reflexivity. }
  rewrite H. rewrite parse_print_atom by exact NL. reflexivity.
Qed.

Lemma parse_print_comparison c rest : nobin rest ->
  parse_comparison (print_comparison c ++ rest) = POk (c, rest).
Proof.
  destruct c as [rel l r]. intros NB. unfold print_comparison, parse_comparison. cbn [crel clhs crhs].
  rewrite <- app_assoc. cbn [app]. rewrite parse_print_term by exact I.
  cbn [pbind]. rewrite parse_print_term by exact NB. reflexivity.
Qed.

Lemma parse_term_sym p X : nobin X -> parse_term (TkSym p :: X) = POk (TPre (PSym p), X).
Proof. intros H. exact (parse_print_term (TPre (PSym p)) X H). Qed.

(* what follows a body formula in printed text: a comma or the final dot *)
Definition bfollow (ts : list token) : Prop :=
  match ts with TkComma :: _ | TkDot :: _ => True | _ => False end.

Lemma parse_print_bformula f rest : bfollow rest -> parse_bformula (print_bformula f ++ rest) = POk (f, rest).
Proof.
  intros BF.
  assert (NB : nobin rest) by (destruct rest as [|[] rest]; cbn in *; tauto).
  assert (NL : nolp rest) by (destruct rest as [|[] rest]; cbn in *; tauto).
  destruct f as [l|c]; unfold parse_bformula; cbn [print_bformula].
  - assert (E : parse_comparison (print_literal l ++ rest) = PFail).
    { destruct l as [s [p args]]. unfold print_literal, print_atom. cbn [lsign latom apred aterms].
      destruct s; try reflexivity.
      cbn [print_sign app]. unfold parse_comparison.
      rewrite parse_term_sym by (destruct args; [exact NB|exact I]).
      cbn [pbind]. destruct args; [|reflexivity].
      cbn [app]. destruct rest as [|[] rest]; cbn in BF; try contradiction; reflexivity. }
    rewrite E. rewrite parse_print_literal by exact NL. reflexivity.
  - rewrite parse_print_comparison by exact NB. reflexivity.
Qed.

Definition print_more_bformulas (fs : list bformula) : list token :=
  flat_map (fun g => TkComma :: print_bformula g) fs.

Lemma print_body_cons f fs : print_body (f :: fs) = print_bformula f ++ print_more_bformulas fs.
Proof.
  revert f. induction fs as [|g fs IH]; intros f.
  - cbn. rewrite app_nil_r. reflexivity.
  - change (print_body (f :: g :: fs)) with (print_bformula f ++ TkComma :: print_body (g :: fs)).
    rewrite IH. reflexivity.
Qed.

Lemma bfollow_more fs rest : bfollow (print_more_bformulas fs ++ TkDot :: rest).
Proof. destruct fs; exact I. Qed.

Lemma parse_more_bformulas_ok fs : forall rest n,
  List.length (print_more_bformulas fs ++ TkDot :: rest) <= n ->
  parse_more_bformulas n (print_more_bformulas fs ++ TkDot :: rest) = POk (fs, TkDot :: rest).
Proof.
  induction fs as [|g fs IH]; intros rest n L.
  - cbn [print_more_bformulas flat_map app]. destruct n; reflexivity.
  - cbn [print_more_bformulas flat_map app] in *. fold (print_more_bformulas fs) in *.
    rewrite <- app_assoc in *. destruct n as [|n']; [cbn in L; lia|].
    cbn [parse_more_bformulas]. rewrite parse_print_bformula by apply bfollow_more.
    rewrite IH; [reflexivity|]. cbn in L. rewrite app_length in L. lia.
Qed.

Lemma parse_print_body b rest : parse_body (print_body b ++ TkDot :: rest) = POk (b, TkDot :: rest).
Proof.
  destruct b as [|f fs].
  - reflexivity.
  - rewrite print_body_cons, <- app_assoc. unfold parse_body.
    rewrite parse_print_bformula by apply bfollow_more.
    rewrite parse_more_bformulas_ok by lia. reflexivity.
Qed.

(* what follows a head in printed text *)
Definition hfollow (ts : list token) : Prop :=
  match ts with TkIf :: _ | TkDot :: _ => True | _ => False end.

Lemma parse_print_head h rest : hfollow rest -> parse_head (print_head h ++ rest) = POk (h, rest).
Proof.
  intros HF.
  assert (NL : nolp rest) by (destruct rest as [|[] rest]; cbn in *; tauto).
  destruct h as [a|a|]; unfold parse_head; cbn [print_head].
  - rewrite parse_print_atom by exact NL. reflexivity.
  - cbn [app parse_atom]. rewrite <- app_assoc. cbn [app].
    rewrite parse_print_atom by exact I. reflexivity.
  - cbn [app]. destruct rest as [|[] rest]; cbn in HF; try contradiction; reflexivity.
Qed.

Definition nodot (ts : list token) : Prop := match ts with TkDot :: _ => False | _ => True end.
Lemma parse_rule_nodot g ts : nodot ts -> parse_rule g ts = parse_rule_core ts.
Proof. destruct ts as [|[] ts], g; cbn; tauto. Qed.

Lemma print_rule_nodot r rest : nodot (print_rule r ++ rest).
Proof.
  destruct r as [[[p args]|[p args]|] b]; unfold print_rule; cbn; auto.
Qed.

Lemma parse_print_rule r g rest : parse_rule g (print_rule r ++ rest) = POk (r, rest).
Proof.
  rewrite parse_rule_nodot by apply print_rule_nodot.
  destruct r as [h b]. unfold print_rule, parse_rule_core. cbn [rhead rbody].
  rewrite <- !app_assoc.
  destruct (is_falsity h || negb (is_nil b)) eqn:E.
  - cbn [app]. rewrite parse_print_head by exact I. cbn [pbind].
    rewrite parse_print_body. reflexivity.
  - apply orb_false_iff in E. destruct E as [_ E]. destruct b; [|discriminate].
    cbn [app print_body]. rewrite parse_print_head by exact I. reflexivity.
Qed.

Lemma parse_rules_ok p : forall g n, List.length p < n -> parse_rules n g (print_program p) = POk (p, []).
Proof.
  induction p as [|r p IH]; intros g n L.
  - destruct n; [lia|]. destruct g; reflexivity.
  - destruct n as [|n']; [lia|]. cbn [print_program flat_map parse_rules].
    fold (print_program p). rewrite parse_print_rule. rewrite IH by (cbn in L; lia). reflexivity.
Qed.

Lemma print_rule_length r : 1 <= List.length (print_rule r).
Proof. unfold print_rule. rewrite !app_length. cbn. lia. Qed.
Lemma print_program_length p : List.length p <= List.length (print_program p).
Proof.
  induction p as [|r p IH]; [cbn; lia|]. cbn [print_program flat_map]. fold (print_program p).
  rewrite app_length. pose proof (print_rule_length r). cbn [List.length]. lia.
Qed.

(* ---- C14, token level: for EVERY program (no side condition) and whatever the `!"."` guard saw *)
Theorem parse_print_program_from g p : parse_program_from g (print_program p) = POk p.
Proof.
  unfold parse_program_from. rewrite parse_rules_ok; [reflexivity|].
  pose proof (print_program_length p). lia.
Qed.

Theorem parse_print_program p : parse_program (print_program p) = POk p.
Proof. apply parse_print_program_from. Qed.

Theorem print_idem p q : parse_program (print_program p) = POk q -> print_program q = print_program p.
Proof. rewrite parse_print_program. intros [= <-]. reflexivity. Qed.

(* ---- packaged forms used by Properties/C14.v *)
Lemma pratt_expr_adequate rbp items t rest : Expr rbp items t rest ->
  forall F, 2 * items_size items + 2 <= F -> pratt_expr F rbp items = POk (t, rest).
Proof. intros H. exact (proj2 (proj1 pratt_adequate rbp items t rest H)). Qed.

Lemma tables_consistent :
  (forall o1 o2 : abinop, pb o1 < pb o2 <-> bp o2 < bp o1) /\
  (forall o : abinop, ab o = passoc o) /\
  (forall o : abinop, pu < pb o /\ bp o < bp_pre).
Proof. split; [exact pb_bp|split; [exact ab_passoc|intros o; split; [apply pu_lt_pb|apply bp_lt_pre]]]. Qed.

Lemma print_idem_bytes p q : parse_program (print_program p) = POk q ->
  print_program q = print_program p /\ display_program q = display_program p.
Proof.
  intros H. pose proof (print_idem p q H) as E. split; [exact E|].
  unfold display_program. rewrite E. reflexivity.
Qed.

Lemma text_roundtrip_given_lex p :
  lex (display_program p) = Some (print_program p) -> program_numerals_ok p = true ->
  parse_program_text (display_program p) = POk p.
Proof.
  intros HL HN. unfold parse_program_text. rewrite HL. rewrite parse_print_program_from.
  cbn. rewrite HN. reflexivity.
Qed.
