(* C06, part (i): the intended TFF reading [tff_of_formula F] has, in the standard structure built
   from (FI, M, e), the truth value of F. *)
From Coq Require Import List Ascii String ZArith NArith Bool Lia.
From Anthem Require Import Syntax.Fol Syntax.Tff Sem.Domain Sem.Sat Sem.TffSem Model.TptpPrint.
Import ListNotations.
Open Scope string_scope.
Open Scope list_scope.

(* ---------- the sort suffix is decodable ---------- *)
Lemma split2_app x a b : split2 (x ++ String a (String b "")) = Some (x, String a (String b "")).
Proof.
  induction x as [|c x IH]; [reflexivity|].
  change ((String c x ++ String a (String b ""))%string) with (String c (x ++ String a (String b ""))).
  cbn [split2]. rewrite IH.
  destruct x as [|d x]; [reflexivity|].
  change ((String d x ++ String a (String b ""))%string) with (String d (x ++ String a (String b ""))).
  destruct (x ++ String a (String b ""))%string eqn:E; [|reflexivity].
  destruct x; discriminate.
Qed.
Lemma split2_inv : forall n p l, split2 n = Some (p, l) -> n = (p ++ l)%string.
Proof.
  induction n as [|a t IH]; intros p l; [discriminate|].
  cbn [split2]. destruct t as [|b t'].
  - cbn. discriminate.
  - destruct t' as [|c t''].
    + intros [= <- <-]. reflexivity.
    + destruct (split2 (String b (String c t''))) as [[p' l']|] eqn:E; [|discriminate].
      intros [= <- <-]. rewrite (IH _ _ eq_refl). reflexivity.
Qed.
Lemma decode_suffix x s : decode (x ++ suffix s) = Some (x, s).
Proof. unfold decode. destruct s; cbn [suffix]; rewrite split2_app; reflexivity. Qed.
Lemma decode_inv n x s : decode n = Some (x, s) -> n = (x ++ suffix s)%string.
Proof.
  unfold decode. destruct (split2 n) as [[p l]|] eqn:E; [|discriminate].
  apply split2_inv in E. subst n.
  destruct (String.eqb_spec l "_g"); [intros [= <- <-]; subst; reflexivity|].
  destruct (String.eqb_spec l "_i"); [intros [= <- <-]; subst; reflexivity|].
  destruct (String.eqb_spec l "_s"); [intros [= <- <-]; subst; reflexivity|discriminate].
Qed.
Lemma decode_not_extremum n x : decode n = Some x ->
  String.eqb n "c__infimum__" = false /\ String.eqb n "c__supremum__" = false.
Proof.
  intros H; split.
  - destruct (String.eqb_spec n "c__infimum__"); [subst; discriminate|reflexivity].
  - destruct (String.eqb_spec n "c__supremum__"); [subst; discriminate|reflexivity].
Qed.

(* ---------- assignments ---------- *)
Definition env_rel (te : tenv) (e : env) : Prop := forall n, te n = tenv_of e n.
Lemma env_rel_of e : env_rel (tenv_of e) e.
Proof. intros n; reflexivity. Qed.

Definition tval_of (s : sort) (d : gval) : tval :=
  match s, d with
  | SInteger, VNum z => TI z
  | SSymbol, VSym x => TS x
  | _, _ => TG d
  end.
Lemma env_rel_upd te e x s d : env_rel te e -> in_sort s d ->
  env_rel (tupd te (x ++ suffix s) (tval_of s d)) (upd e (mkvar x s) d).
Proof.
  intros HR Hd n. unfold tupd.
  destruct (String.eqb_spec n (x ++ suffix s)) as [->|Hne].
  - unfold tenv_of. rewrite decode_suffix.
    destruct s, d; cbn in Hd |- *; try contradiction; rewrite ?String.eqb_refl; reflexivity.
  - rewrite HR. unfold tenv_of.
    destruct (decode n) as [[y s']|] eqn:E; [|reflexivity].
    apply decode_inv in E.
    assert (Hyx : s' = s -> String.eqb y x = false).
    { intros ->. destruct (String.eqb_spec y x); [subst; contradiction|reflexivity]. }
    destruct s, d; cbn in Hd |- *; try contradiction; destruct s'; cbn; try reflexivity;
      rewrite Hyx by reflexivity; reflexivity.
Qed.
Lemma has_type_tval_of s d : in_sort s d -> has_type (ty_of s) (tval_of s d).
Proof. destruct s, d; cbn; auto. Qed.
Lemma has_type_inv s v : has_type (ty_of s) v -> exists d, in_sort s d /\ v = tval_of s d.
Proof.
  destruct s, v; cbn; try contradiction; intros _.
  - exists d; auto.
  - exists (VNum z); auto.
  - exists (VSym s); auto.
Qed.

Section Sem.
Variable K : csig.      (* the constant signature of the problem the formula is printed in *)
Variable FI : fint.
Variable M : pint.
Let S := tstruct_in K FI M.

(* ---------- terms ---------- *)
Lemma tev_const te x s : place_in K x s = true ->
  tev S te (TApp (x ++ suffix s) []) =
  match s with SGeneral => TG (fg FI x) | SInteger => TI (fi FI x) | SSymbol => TS (fs FI x) end.
Proof.
  intros Hp. cbn [tev map std_fun].
  destruct (decode_not_extremum _ _ (decode_suffix x s)) as [-> ->].
  unfold S, tstruct_in; cbn [t_const]. unfold place_in in Hp.
  destruct (clookup K (x ++ suffix s)) as [[|c' s']|].
  - discriminate.
  - apply andb_true_iff in Hp. destruct Hp as [H1 H2]. apply String.eqb_eq in H1.
    destruct (sort_eqb_spec s' s); [|discriminate]. subst. destruct s; reflexivity.
  - unfold const_by_suffix. rewrite (decode_suffix x s). destruct s; reflexivity.
Qed.
Lemma tev_var te e x s : env_rel te e ->
  tev S te (TVar (x ++ suffix s)) =
  match s with SGeneral => TG (eg e x) | SInteger => TI (ei e x) | SSymbol => TS (es e x) end.
Proof.
  intros HR. cbn [tev]. rewrite HR. unfold tenv_of. rewrite (decode_suffix x s). destruct s; reflexivity.
Qed.

Lemma tev_iterm te e t : env_rel te e -> iterm_in K t = true -> tev S te (tff_of_iterm t) = TI (ev_i FI e t).
Proof.
  intros HR. induction t as [z|c|x|[] a IH|o l IHl r IHr]; cbn [tff_of_iterm ev_i iterm_in]; intros Hok.
  - destruct (Z.ltb_spec z 0); cbn; f_equal; rewrite Z2N.id; lia.
  - exact (tev_const te c SInteger Hok).
  - exact (tev_var te e x SInteger HR).
  - cbn [tev map]. rewrite IH by exact Hok. reflexivity.
  - apply andb_true_iff in Hok. destruct Hok as [Hl Hr].
    cbn [tev map]. rewrite IHl, IHr by assumption. destruct o; reflexivity.
Qed.
Lemma tev_sterm te e t : env_rel te e -> sterm_in K t = true -> tev S te (tff_of_sterm t) = TS (ev_s FI e t).
Proof.
  intros HR Hok. destruct t as [s|c|x]; cbn [tff_of_sterm ev_s sterm_in] in *.
  - unfold sym_in in Hok. rewrite !andb_true_iff, !negb_true_iff in Hok. destruct Hok as [[H1 H2] H3].
    cbn [tev map std_fun]. rewrite H1, H2. unfold S, tstruct_in; cbn [t_const].
    destruct (clookup K s) as [[|c' s']|]; [reflexivity|discriminate|].
    unfold const_by_suffix. destruct (decode s); [discriminate|reflexivity].
  - exact (tev_const te c SSymbol Hok).
  - exact (tev_var te e x SSymbol HR).
Qed.
Lemma tev_gterm te e t : env_rel te e -> gterm_in K t = true -> tev S te (tff_of_gterm t) = TG (ev_g FI e t).
Proof.
  intros HR Hok. destruct t as [| |c|x|a|a]; cbn [tff_of_gterm ev_g gterm_in] in *.
  - reflexivity.
  - reflexivity.
  - exact (tev_const te c SGeneral Hok).
  - exact (tev_var te e x SGeneral HR).
  - cbn [tev map]. rewrite (tev_iterm te e a HR Hok). reflexivity.
  - cbn [tev map]. rewrite (tev_sterm te e a HR Hok). reflexivity.
Qed.

(* ---------- one comparison ---------- *)
Lemma TG_eq a b : TG a = TG b <-> gval_eqb a b = true.
Proof. destruct (gval_eqb_spec a b); split; intros H; congruence. Qed.
Lemma glt_num a b : glt (VNum a) (VNum b) = true <-> (a < b)%Z.
Proof. unfold glt; cbn. destruct (Z.leb_spec a b), (Z.eqb_spec a b); cbn; split; intros; try discriminate; lia. Qed.

(* the general rendering `L rel R` / `p__rel__(L, R)` *)
Lemma sat_cmp_gen te r (a b : gval) (ta tb : tff_term) :
  tev S te ta = TG a -> tev S te tb = TG b ->
  (tff_sat S te (if is_eq_rel r then tff_eq r ta tb else TPred (rel_gen r) [ta; tb])
   <-> rel_sat r a b = true).
Proof.
  intros Ha Hb. destruct r; cbn [is_eq_rel tff_eq rel_gen tff_sat rel_sat map]; rewrite ?Ha, ?Hb.
  - apply TG_eq.
  - rewrite negb_true_iff. rewrite TG_eq. destruct (gval_eqb a b); split; intros; congruence.
  - cbn. tauto.
  - cbn. tauto.
  - cbn. tauto.
  - cbn. tauto.
Qed.
Lemma sat_cmp_int te r (a b : Z) (ta tb : tff_term) :
  tev S te ta = TI a -> tev S te tb = TI b ->
  (tff_sat S te (if is_eq_rel r then tff_eq r ta tb else TPred (rel_int r) [ta; tb])
   <-> rel_sat r (VNum a) (VNum b) = true).
Proof.
  intros Ha Hb. destruct r; cbn [is_eq_rel tff_eq rel_int tff_sat rel_sat map]; rewrite ?Ha, ?Hb.
  - cbn. rewrite Z.eqb_eq. split; [intros [= ->]; auto|intros ->; auto].
  - cbn. rewrite negb_true_iff, Z.eqb_neq. split; [intros H E; apply H; congruence|intros H [= E]; auto].
  - cbn -[glt]. rewrite glt_num. lia.
  - cbn -[glt]. rewrite glt_num. lia.
  - cbn. rewrite Z.leb_le. lia.
  - cbn. rewrite Z.leb_le. lia.
Qed.
Lemma sat_cmp_sym te r (a b : string) (ta tb : tff_term) :
  tev S te ta = TS a -> tev S te tb = TS b ->
  (tff_sat S te (tff_eq r ta tb) <-> (if match r with RNe => false | _ => true end
                                       then String.eqb a b = true else String.eqb a b = false)).
Proof.
  intros Ha Hb. destruct r; cbn [tff_eq tff_sat]; rewrite Ha, Hb;
    (destruct (String.eqb_spec a b); split; intros H; try congruence; try (injection H; auto)).
  all: try (exfalso; apply H; congruence).
Qed.

Lemma sat_cmp1 te e l r rhs : env_rel te e -> gterm_in K l = true -> gterm_in K rhs = true ->
  (tff_sat S te (tff_of_cmp1 l r rhs) <-> rel_sat r (ev_g FI e l) (ev_g FI e rhs) = true).
Proof.
  intros HR Hl Hr.
  pose proof (tev_gterm te e l HR Hl) as El. pose proof (tev_gterm te e rhs HR Hr) as Er.
  unfold tff_of_cmp1.
  destruct l as [| |c|x|a|a]; destruct rhs as [| |c'|x'|b|b]; try (apply sat_cmp_gen; assumption).
  - (* integer, integer *)
    cbn [ev_g]. apply sat_cmp_int; apply tev_iterm; assumption.
  - (* symbol, symbol *)
    destruct (is_eq_rel r) eqn:Eq.
    + cbn [ev_g]. rewrite (sat_cmp_sym te r _ _ _ _ (tev_sterm te e a HR Hl) (tev_sterm te e b HR Hr)).
      destruct r; try discriminate; cbn; [tauto|]. rewrite negb_true_iff. tauto.
    + pose proof (sat_cmp_gen te r _ _ _ _ El Er) as H. rewrite Eq in H. exact H.
Qed.

Lemma sat_chain te e : env_rel te e -> forall gs acc l, gterm_in K l = true ->
  forallb (fun g => gterm_in K (gterm_of g)) gs = true ->
  (tff_sat S te (tff_of_chain_from acc l gs) <-> tff_sat S te acc /\ chain_sat FI e (ev_g FI e l) gs = true).
Proof.
  intros HR. induction gs as [|g gs IH]; intros acc l Hl Hgs; cbn [tff_of_chain_from chain_sat].
  - tauto.
  - cbn in Hgs. apply andb_true_iff in Hgs. destruct Hgs as [Hg Hgs].
    rewrite IH by assumption. cbn [tff_sat]. rewrite (sat_cmp1 te e l (grel g) (gterm_of g) HR Hl Hg).
    rewrite andb_true_iff. tauto.
Qed.

(* ---------- atoms ---------- *)
Lemma std_pred_unreserved p args : is_reserved_pred p = false -> std_pred S p args = t_pred S p args.
Proof.
  unfold is_reserved_pred, reserved_preds. cbn [existsb]. rewrite !orb_false_iff.
  intros (H1 & H2 & H3 & H4 & H5 & H6 & H7 & H8 & H9 & H10 & H11 & H12 & _).
  unfold std_pred. rewrite H1, H2.
  destruct args as [|a [|b [|c l]]]; rewrite ?H3, ?H4, ?H5, ?H6, ?H7, ?H8, ?H9, ?H10, ?H11, ?H12; reflexivity.
Qed.
Lemma map_tev_gterms te e ts : env_rel te e -> forallb (gterm_in K) ts = true ->
  map as_gen (map (tev S te) (map tff_of_gterm ts)) = map (ev_g FI e) ts.
Proof.
  intros HR. induction ts as [|t ts IH]; cbn; [reflexivity|].
  rewrite andb_true_iff. intros [Ht Hts]. rewrite (tev_gterm te e t HR Ht), IH by assumption. reflexivity.
Qed.

Lemma sat_aformula te e a : env_rel te e -> aformula_in K a = true ->
  (tff_sat S te (tff_of_aformula a) <-> asat FI M e a).
Proof.
  intros HR Hok. destruct a as [| |p ts|t gs]; cbn [tff_of_aformula asat].
  - cbn. tauto.
  - cbn. tauto.
  - cbn [aformula_in] in Hok. apply andb_true_iff in Hok. destruct Hok as [Hp Hts].
    apply negb_true_iff in Hp.
    cbn [tff_sat]. rewrite (std_pred_unreserved p _ Hp). cbn [S tstruct_in t_pred].
    rewrite (map_tev_gterms te e ts HR Hts). tauto.
  - cbn [aformula_in] in Hok. rewrite !andb_true_iff in Hok. destruct Hok as [Ht Hgs].
    destruct gs as [|g gs]; [cbn; tauto|].
    cbn [forallb] in Hgs. apply andb_true_iff in Hgs. destruct Hgs as [Hg Hgs].
    rewrite (sat_chain te e HR gs _ _ Hg Hgs). rewrite (sat_cmp1 te e t (grel g) (gterm_of g) HR Ht Hg).
    cbn [chain_sat]. rewrite andb_true_iff. tauto.
Qed.

(* ---------- quantifier blocks ---------- *)
Lemma sat_quant q vs (k1 : tenv -> Prop) (k2 : env -> Prop) :
  (forall te e, env_rel te e -> (k1 te <-> k2 e)) ->
  forall te e, env_rel te e -> (tqsat q (map tff_of_var vs) k1 te <-> qsat q vs k2 e).
Proof.
  intros Hk. induction vs as [|[x s] vs IH]; intros te e HR; cbn [map tqsat qsat tff_of_var vname vsort].
  - apply Hk, HR.
  - destruct q; split.
    + intros H d Hd. apply (IH _ _ (env_rel_upd te e x s d HR Hd)). apply H, has_type_tval_of, Hd.
    + intros H v Hv. destruct (has_type_inv s v Hv) as [d [Hd ->]].
      apply (IH _ _ (env_rel_upd te e x s d HR Hd)). apply H, Hd.
    + intros [v [Hv H]]. destruct (has_type_inv s v Hv) as [d [Hd ->]].
      exists d; split; [exact Hd|]. apply (IH _ _ (env_rel_upd te e x s d HR Hd)). exact H.
    + intros [d [Hd H]]. exists (tval_of s d); split; [apply has_type_tval_of, Hd|].
      apply (IH _ _ (env_rel_upd te e x s d HR Hd)). exact H.
Qed.

(* ---------- formulas ---------- *)
Theorem tff_of_formula_sat_in F : names_in K F = true ->
  forall te e, env_rel te e -> (tff_sat S te (tff_of_formula F) <-> csat FI M e F).
Proof.
  induction F as [a|g IH|c l IHl r IHr|q vs g IH]; intros Hwf te e HR; cbn [tff_of_formula csat names_in] in *.
  - apply sat_aformula; assumption.
  - cbn [tff_sat]. rewrite (IH Hwf te e HR). tauto.
  - apply andb_true_iff in Hwf. destruct Hwf as [Hl Hr].
    pose proof (IHl Hl te e HR). pose proof (IHr Hr te e HR).
    destruct c; cbn [tff_sat]; tauto.
  - cbn [tff_sat]. apply sat_quant; [|exact HR]. intros te' e' HR'. apply IH; assumption.
Qed.
End Sem.

(* ---------- without declarations: the name half of wf_tptp ---------- *)
Lemma iterm_in_nil t : iterm_in [] t = true.
Proof. induction t as [| | |[] a IH|o l IHl r IHr]; cbn; auto. rewrite IHl, IHr. reflexivity. Qed.
Lemma gterm_ok_in t : gterm_ok t = true -> gterm_in [] t = true.
Proof.
  destruct t as [| | | |a|[s| |]]; cbn; auto using iterm_in_nil.
  unfold sym_ok, sym_in. cbn [clookup]. rewrite !andb_true_iff. tauto.
Qed.
Lemma wf_tptp_names F : wf_tptp F = true -> names_in [] F = true.
Proof.
  induction F as [a|g IH|c l IHl r IHr|q vs g IH]; cbn [wf_tptp names_in].
  - destruct a as [| |p ts|t gs]; cbn [aformula_ok aformula_in]; auto; rewrite !andb_true_iff.
    + intros [Hp Hts]. unfold pred_ok in Hp. apply andb_true_iff in Hp. split; [tauto|].
      rewrite forallb_forall in *. auto using gterm_ok_in.
    + intros [[Ht Hn] Hgs]. split; [apply gterm_ok_in, Ht|].
      rewrite forallb_forall in *. auto using gterm_ok_in.
  - exact IH.
  - rewrite !andb_true_iff. intros [H1 H2]. auto.
  - rewrite !andb_true_iff. intros [_ H3]. auto.
Qed.
Theorem tff_of_formula_sat FI M F : wf_tptp F = true ->
  forall te e, env_rel te e -> (tff_sat (tstruct_of FI M) te (tff_of_formula F) <-> csat FI M e F).
Proof. intros H. apply (tff_of_formula_sat_in [] FI M F), wf_tptp_names, H. Qed.
