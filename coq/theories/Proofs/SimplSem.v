(* Facts about the semantics (Sem/Sat.v) needed by the simplification proofs (C07):
   - assignments: getv/upd, agreement of two assignments on a set of variables;
   - coincidence: the truth of a formula depends only on the values of its free variables;
   - every sort is inhabited;
   - a quantifier block depends only on the SET of its variables (order, repetitions and
     nesting of blocks of the same quantifier are irrelevant), and variables that are not free
     in the body can be dropped.
   Self-contained (another cluster proves a coincidence lemma of its own; to be reconciled). *)
From Coq Require Import List Ascii String ZArith Bool Lia.
From Anthem Require Import Base.ISet Syntax.Fol Sem.Domain Sem.Sat.
Import ListNotations.
Open Scope string_scope.
Open Scope list_scope.

(* ---------- assignments ---------- *)
Lemma in_sort_getv e v : in_sort (vsort v) (getv e v).
Proof. unfold getv; destruct (vsort v); cbn; auto. Qed.

Lemma getv_upd_same e v d : in_sort (vsort v) d -> getv (upd e v d) v = d.
Proof.
  destruct v as [x s]; unfold upd, getv; cbn.
  destruct s, d; cbn; intros Hd; try contradiction; rewrite ?String.eqb_refl; reflexivity.
Qed.

Lemma getv_upd_other e v w d : w <> v -> getv (upd e v d) w = getv e w.
Proof.
  destruct v as [x s], w as [y s']; unfold upd, getv; cbn; intros Hne.
  destruct s, d, s'; cbn; try reflexivity;
    destruct (String.eqb_spec y x); subst; try reflexivity; congruence.
Qed.

Lemma sort_inhabited s : exists d, in_sort s d.
Proof. destruct s; [exists (VNum 0)|exists (VNum 0)|exists (VSym "")]; cbn; auto. Qed.

Definition agree (P : var -> Prop) (e e' : env) : Prop := forall v, P v -> getv e v = getv e' v.

Lemma agree_weaken (P Q : var -> Prop) e e' : (forall v, Q v -> P v) -> agree P e e' -> agree Q e e'.
Proof. intros HPQ Ha v Hv; apply Ha, HPQ, Hv. Qed.
Lemma agree_sym P e e' : agree P e e' -> agree P e' e.
Proof. intros Ha v Hv; symmetry; apply Ha, Hv. Qed.

Lemma agree_upd (P : var -> Prop) vs v d e e' :
  in_sort (vsort v) d ->
  agree (fun w => P w /\ ~ In w (v :: vs)) e e' ->
  agree (fun w => P w /\ ~ In w vs) (upd e v d) (upd e' v d).
Proof.
  intros Hd Ha w [HP Hn]. destruct (var_dec w v) as [->|Hne].
  - rewrite !getv_upd_same; auto.
  - rewrite !getv_upd_other by auto. apply Ha; split; auto. cbn; intuition congruence.
Qed.

(* ---------- membership in the IndexSet-style collectors ---------- *)
Lemma in_extend_all {A B} (dec : forall x y : B, {x = y} + {x <> y}) (f : A -> list B) l :
  forall init v, In v (extend_all dec f init l) <-> In v init \/ exists x, In x l /\ In v (f x).
Proof.
  unfold extend_all. induction l as [|a l IH]; intros init v; cbn.
  - split; [auto|]. intros [?|[x [[] _]]]; auto.
  - rewrite IH, in_iset_extend. split.
    + intros [[?|?]|[x [? ?]]]; eauto.
    + intros [?|[x [[<-|?] ?]]]; eauto.
Qed.
Lemma nodup_extend_all {A B} (dec : forall x y : B, {x = y} + {x <> y}) (f : A -> list B) l :
  forall init, NoDup init -> NoDup (extend_all dec f init l).
Proof.
  unfold extend_all. induction l as [|a l IH]; intros init Hi; cbn; auto.
  apply IH, nodup_iset_extend, Hi.
Qed.

Lemma nodup_iterm_vars t : NoDup (iterm_vars t).
Proof.
  induction t; cbn; try constructor; auto; try constructor.
  apply nodup_iset_extend; auto.
Qed.
Lemma nodup_gterm_vars t : NoDup (gterm_vars t).
Proof.
  destruct t as [| | | |t|t]; cbn; try constructor; auto; try constructor.
  - apply nodup_iterm_vars.
  - destruct t; cbn; constructor; auto; constructor.
Qed.
Lemma nodup_aformula_vars a : NoDup (aformula_vars a).
Proof.
  destruct a; cbn; try constructor; apply nodup_extend_all; [constructor|apply nodup_gterm_vars].
Qed.

Lemma in_fold_remove vs : forall (l : list var) v, NoDup l ->
  (In v (fold_left (fun acc x => iset_remove var_dec x acc) vs l) <-> In v l /\ ~ In v vs).
Proof.
  induction vs as [|x vs IH]; intros l v Hl; cbn; [tauto|].
  rewrite IH by (apply nodup_iset_remove; auto).
  rewrite in_iset_remove by auto. intuition congruence.
Qed.
Lemma nodup_fold_remove vs : forall (l : list var), NoDup l ->
  NoDup (fold_left (fun acc x => iset_remove var_dec x acc) vs l).
Proof.
  induction vs as [|x vs IH]; intros l Hl; cbn; auto. apply IH, nodup_iset_remove, Hl.
Qed.

Lemma nodup_free_variables f : NoDup (free_variables f).
Proof.
  induction f as [a|f IH|c l IHl r IHr|q vs f IH]; cbn; auto.
  - apply nodup_aformula_vars.
  - apply nodup_iset_extend; auto.
  - apply nodup_fold_remove; auto.
Qed.

Lemma fv_bin c l r v :
  In v (free_variables (FBin c l r)) <-> In v (free_variables l) \/ In v (free_variables r).
Proof. cbn. apply in_iset_extend. Qed.
Lemma fv_q q vs f v :
  In v (free_variables (FQ q vs f)) <-> In v (free_variables f) /\ ~ In v vs.
Proof. cbn. apply in_fold_remove, nodup_free_variables. Qed.

(* ---------- coincidence for terms and atoms ---------- *)
Section Coincidence.
Variable FI : fint.

Lemma ev_i_agree e e' t :
  (forall v, In v (iterm_vars t) -> getv e v = getv e' v) -> ev_i FI e t = ev_i FI e' t.
Proof.
  induction t as [z|c|x|o t IH|o l IHl r IHr]; cbn; intros Ha; auto.
  - specialize (Ha (mkvar x SInteger) (or_introl eq_refl)). unfold getv in Ha; cbn in Ha. congruence.
  - destruct o. rewrite IH; auto.
  - assert (Hl : ev_i FI e l = ev_i FI e' l).
    { apply IHl. intros v Hv. apply Ha. apply in_iset_extend; auto. }
    assert (Hr : ev_i FI e r = ev_i FI e' r).
    { apply IHr. intros v Hv. apply Ha. apply in_iset_extend; auto. }
    destruct o; rewrite Hl, Hr; reflexivity.
Qed.
Lemma ev_g_agree e e' t :
  (forall v, In v (gterm_vars t) -> getv e v = getv e' v) -> ev_g FI e t = ev_g FI e' t.
Proof.
  destruct t as [| |c|x|t|t]; cbn; intros Ha; auto.
  - specialize (Ha (mkvar x SGeneral) (or_introl eq_refl)). exact Ha.
  - f_equal. apply ev_i_agree, Ha.
  - destruct t as [s|c|x]; cbn in *; auto.
    specialize (Ha (mkvar x SSymbol) (or_introl eq_refl)). unfold getv in Ha; cbn in Ha. congruence.
Qed.

Lemma chain_sat_agree e e' gs : forall d,
  (forall g v, In g gs -> In v (gterm_vars (gterm_of g)) -> getv e v = getv e' v) ->
  chain_sat FI e d gs = chain_sat FI e' d gs.
Proof.
  induction gs as [|g gs IH]; intros d Ha; cbn; auto.
  rewrite (ev_g_agree e e' (gterm_of g)) by (intros v Hv; apply (Ha g v); cbn; auto).
  rewrite IH; auto. intros g' v Hg Hv. apply (Ha g' v); cbn; auto.
Qed.

Lemma asat_agree I e e' a :
  (forall v, In v (aformula_vars a) -> getv e v = getv e' v) -> (asat FI I e a <-> asat FI I e' a).
Proof.
  destruct a as [| |p ts|t gs]; cbn; intros Ha; try tauto.
  - assert (Hm : map (ev_g FI e) ts = map (ev_g FI e') ts).
    { apply map_ext_in. intros t Ht. apply ev_g_agree. intros v Hv. apply Ha.
      apply in_extend_all. right; eauto. }
    rewrite Hm; tauto.
  - rewrite (ev_g_agree e e' t) by (intros v Hv; apply Ha, in_extend_all; auto).
    rewrite (chain_sat_agree e e' gs); [tauto|].
    intros g v Hg Hv. apply Ha, in_extend_all. right; eauto.
Qed.

(* ---------- quantifier blocks ---------- *)
Lemma qsat_agree q vs (P : var -> Prop) (k : env -> Prop) :
  (forall e e', agree P e e' -> (k e <-> k e')) ->
  forall e e', agree (fun v => P v /\ ~ In v vs) e e' -> (qsat q vs k e <-> qsat q vs k e').
Proof.
  intros Hk. induction vs as [|v vs IH]; intros e e' Ha; cbn.
  - apply Hk. intros v Hv. apply Ha; auto.
  - destruct q.
    + split; intros Hq d Hd; [rewrite <- (IH (upd e v d) (upd e' v d))|rewrite (IH (upd e v d) (upd e' v d))];
        auto; apply agree_upd; auto.
    + split; intros [d [Hd Hq]]; exists d; split; auto;
        [rewrite <- (IH (upd e v d) (upd e' v d))|rewrite (IH (upd e v d) (upd e' v d))];
        auto; apply agree_upd; auto.
Qed.

Lemma coincidence_c I f : forall e e',
  agree (fun v => In v (free_variables f)) e e' -> (csat FI I e f <-> csat FI I e' f).
Proof.
  induction f as [a|f IH|c l IHl r IHr|q vs f IH]; intros e e' Ha.
  - cbn. apply asat_agree. exact Ha.
  - cbn. rewrite (IH e e'); [tauto|exact Ha].
  - assert (Hl : csat FI I e l <-> csat FI I e' l).
    { apply IHl. intros v Hv. apply Ha, fv_bin; auto. }
    assert (Hr : csat FI I e r <-> csat FI I e' r).
    { apply IHr. intros v Hv. apply Ha, fv_bin; auto. }
    destruct c; cbn; tauto.
  - cbn [csat]. apply (qsat_agree q vs (fun v => In v (free_variables f))); [exact IH|].
    intros v [Hv Hn]. apply Ha, fv_q; auto.
Qed.

Lemma coincidence_h H T f : forall e e',
  agree (fun v => In v (free_variables f)) e e' -> (hsat FI H T e f <-> hsat FI H T e' f).
Proof.
  induction f as [a|f IH|c l IHl r IHr|q vs f IH]; intros e e' Ha.
  - cbn. apply asat_agree. exact Ha.
  - cbn. rewrite (coincidence_c T f e e'); [tauto|exact Ha].
  - assert (Hl : hsat FI H T e l <-> hsat FI H T e' l).
    { apply IHl. intros v Hv. apply Ha, fv_bin; auto. }
    assert (Hr : hsat FI H T e r <-> hsat FI H T e' r).
    { apply IHr. intros v Hv. apply Ha, fv_bin; auto. }
    assert (Hcl : csat FI T e l <-> csat FI T e' l).
    { apply coincidence_c. intros v Hv. apply Ha, fv_bin; auto. }
    assert (Hcr : csat FI T e r <-> csat FI T e' r).
    { apply coincidence_c. intros v Hv. apply Ha, fv_bin; auto. }
    destruct c; cbn; tauto.
  - cbn [hsat]. apply (qsat_agree q vs (fun v => In v (free_variables f))); [exact IH|].
    intros v [Hv Hn]. apply Ha, fv_q; auto.
Qed.
End Coincidence.

(* a continuation that cannot tell apart two assignments with the same values *)
Definition extensional (k : env -> Prop) : Prop :=
  forall e e', agree (fun _ => True) e e' -> (k e <-> k e').

Lemma extensional_csat FI I f : extensional (fun e => csat FI I e f).
Proof. intros e e' Ha. apply coincidence_c. intros v _; apply Ha; exact Logic.I. Qed.
Lemma extensional_hsat FI H T f : extensional (fun e => hsat FI H T e f).
Proof. intros e e' Ha. apply coincidence_h. intros v _; apply Ha; exact Logic.I. Qed.

(* a block of universal (existential) quantifiers = for all (some) assignment that differs from
   the current one at most on the variables of the block *)
Lemma qsat_forall_char vs (k : env -> Prop) (Hk : extensional k) : forall e,
  qsat QForall vs k e <-> forall e', agree (fun v => ~ In v vs) e e' -> k e'.
Proof.
  induction vs as [|v vs IH]; intros e; cbn [qsat].
  - split.
    + intros Hq e' Ha. apply (Hk e e'); auto. intros w _. apply Ha. intros [].
    + intros Hq. apply Hq. intros w _; reflexivity.
  - split.
    + intros Hq e' Ha.
      apply (IH (upd e v (getv e' v))); [apply Hq, in_sort_getv|].
      intros w Hw. destruct (var_dec w v) as [->|Hne].
      * apply getv_upd_same, in_sort_getv.
      * rewrite getv_upd_other by auto. apply Ha. cbn; intuition congruence.
    + intros Hq d Hd. apply IH. intros e' Ha. apply Hq.
      intros w Hw. rewrite <- Ha by (cbn in Hw; tauto).
      symmetry. apply getv_upd_other. cbn in Hw; intuition congruence.
Qed.
Lemma qsat_exists_char vs (k : env -> Prop) (Hk : extensional k) : forall e,
  qsat QExists vs k e <-> exists e', agree (fun v => ~ In v vs) e e' /\ k e'.
Proof.
  induction vs as [|v vs IH]; intros e; cbn [qsat].
  - split.
    + intros Hq. exists e; split; auto. intros w _; reflexivity.
    + intros [e' [Ha Hq]]. apply (Hk e e'); auto. intros w _. apply Ha. intros [].
  - split.
    + intros [d [Hd Hq]]. apply IH in Hq. destruct Hq as [e' [Ha Hq]]. exists e'; split; auto.
      intros w Hw. rewrite <- Ha by (cbn in Hw; tauto).
      symmetry. apply getv_upd_other. cbn in Hw; intuition congruence.
    + intros [e' [Ha Hq]]. exists (getv e' v); split; [apply in_sort_getv|].
      apply IH. exists e'; split; auto.
      intros w Hw. destruct (var_dec w v) as [->|Hne].
      * apply getv_upd_same, in_sort_getv.
      * rewrite getv_upd_other by auto. apply Ha. cbn; intuition congruence.
Qed.

(* order and repetitions inside a block are irrelevant *)
Lemma qsat_same_set q vs ws (k : env -> Prop) (Hk : extensional k) e :
  (forall v, In v vs <-> In v ws) -> (qsat q vs k e <-> qsat q ws k e).
Proof.
  intros Hs.
  assert (Ha : forall e', agree (fun v => ~ In v vs) e e' <-> agree (fun v => ~ In v ws) e e').
  { intros e'; split; intros Ha v Hv; apply Ha; rewrite ?Hs in *; auto; rewrite Hs; auto. }
  destruct q.
  - rewrite !qsat_forall_char by auto. split; intros Hq e' He; apply Hq, Ha, He.
  - rewrite !qsat_exists_char by auto. split; intros [e' [He Hq]]; exists e'; split; auto; apply Ha, He.
Qed.

(* nested blocks of the same quantifier can be joined *)
Lemma qsat_app q vs ws (k : env -> Prop) : forall e,
  qsat q (vs ++ ws) k e <-> qsat q vs (qsat q ws k) e.
Proof.
  induction vs as [|v vs IH]; intros e; cbn; [tauto|].
  destruct q.
  - split; intros Hq d Hd; apply IH, Hq, Hd.
  - split; intros [d [Hd Hq]]; exists d; split; auto; apply IH, Hq.
Qed.

(* variables the continuation does not depend on can be dropped from a block (every sort is
   inhabited) *)
Lemma qsat_filter q (P : var -> bool) vs (k : env -> Prop) :
  (forall e e', agree (fun v => P v = true) e e' -> (k e <-> k e')) ->
  forall e, qsat q (filter P vs) k e <-> qsat q vs k e.
Proof.
  intros Hk. induction vs as [|v vs IH]; intros e; cbn [filter]; [tauto|].
  destruct (P v) eqn:HP; cbn [qsat].
  - destruct q.
    + split; intros Hq d Hd; apply IH, Hq, Hd.
    + split; intros [d [Hd Hq]]; exists d; split; auto; apply IH, Hq.
  - assert (Hdrop : forall d, qsat q (filter P vs) k (upd e v d) <-> qsat q (filter P vs) k e).
    { intros d. apply (qsat_agree q (filter P vs) (fun w => P w = true) k Hk).
      intros w [Hw _]. apply getv_upd_other. intros ->. congruence. }
    destruct (sort_inhabited (vsort v)) as [d0 Hd0].
    destruct q.
    + split.
      * intros Hq d Hd. apply IH, Hdrop, Hq.
      * intros Hq. apply (Hdrop d0), IH, Hq, Hd0.
    + split.
      * intros Hq. exists d0; split; auto. apply IH, Hdrop, Hq.
      * intros [d [Hd Hq]]. apply (Hdrop d), IH, Hq.
Qed.

(* ---------- comparisons between equal values ---------- *)
Lemma glt_irrefl a : glt a a = false.
Proof. unfold glt. rewrite gval_eqb_refl, gle_refl. reflexivity. Qed.
Lemma rel_sat_refl r a :
  rel_sat r a a = match r with REq | RGe | RLe => true | RNe | RGt | RLt => false end.
Proof. destruct r; cbn; rewrite ?gval_eqb_refl, ?gle_refl, ?glt_irrefl; reflexivity. Qed.
