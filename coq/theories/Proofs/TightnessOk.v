(* Exactness of the model's cycle test (Kahn's algorithm, Model/Tightness.v) and the
   declarative reading of [is_tight] and [has_private_recursion] (claims C11). *)
From Coq Require Import List String Bool Arith Lia Relations.
From Anthem Require Import Base.ISet Syntax.Fol Syntax.Asp Model.Tightness Model.PrivRec Proofs.ExtendAll.
Import ListNotations.
Open Scope list_scope.

Definition edge_rel (edges : list edge) (a b : pred) : Prop := In (a, b) edges.

(* ---------- is_sink ---------- *)

Lemma is_sink_true edges R n :
  is_sink edges R n = true -> forall b, In (n, b) edges -> ~ In b R.
Proof.
  unfold is_sink. intros H b Hin Hb.
  rewrite forallb_forall in H. specialize (H _ Hin).
  simpl fst in H; simpl snd in H.
  destruct (pred_eqb_spec n n) as [_|Hn]; [|congruence].
  destruct (memb_spec pred_dec b R) as [_|Hn]; [|contradiction].
  discriminate.
Qed.

Lemma is_sink_false edges R n :
  is_sink edges R n = false -> exists q, In (n, q) edges /\ In q R.
Proof.
  unfold is_sink. induction edges as [|[a b] es IH]; cbn [forallb]; intros H; [discriminate|].
  apply andb_false_iff in H. destruct H as [H|H].
  - simpl fst in H; simpl snd in H. apply orb_false_iff in H. destruct H as [H1 H2].
    apply negb_false_iff in H1. apply negb_false_iff in H2.
    destruct (pred_eqb_spec a n) as [->|]; [|discriminate].
    destruct (memb_spec pred_dec b R); [|discriminate].
    exists b. split; [left; reflexivity|assumption].
  - destruct (IH H) as [q [Hq1 Hq2]]. exists q. split; [right|]; assumption.
Qed.

(* ---------- unfolding of topo_order_from ---------- *)

Lemma topo_from_nil fuel edges order : topo_order_from fuel edges [] order = Some order.
Proof. destruct fuel; reflexivity. Qed.

Lemma topo_from_step fuel edges R order :
  R <> [] ->
  topo_order_from (S fuel) edges R order =
  match find (is_sink edges R) R with
  | None => None
  | Some n => topo_order_from fuel edges (iset_remove pred_dec n R) (order ++ [n])
  end.
Proof. destruct R; [congruence|reflexivity]. Qed.

Lemma topo_from_zero edges R order : R <> [] -> topo_order_from 0 edges R order = None.
Proof. destruct R; [congruence|reflexivity]. Qed.

(* ---------- Some order -> rank ---------- *)

Lemma in_remove_intro (n : pred) R y : NoDup R -> In y R -> y <> n -> In y (iset_remove pred_dec n R).
Proof. intros Hnd Hy Hne. apply in_iset_remove; auto. Qed.

Lemma in_remove_elim (n : pred) R y : NoDup R -> In y (iset_remove pred_dec n R) -> In y R /\ y <> n.
Proof. intros Hnd Hy. apply in_iset_remove in Hy; auto. Qed.

Lemma topo_from_rank edges : forall fuel remaining order final,
  NoDup remaining -> topo_order_from fuel edges remaining order = Some final ->
  exists rank : pred -> nat,
    (forall x, ~ In x remaining -> rank x = 0) /\
    (forall x, In x remaining -> 0 < rank x) /\
    (forall a b, In (a, b) edges -> In a remaining -> rank b < rank a).
Proof.
  assert (Hbase : exists rank : pred -> nat,
    (forall x, ~ In x (@nil pred) -> rank x = 0) /\
    (forall x, In x (@nil pred) -> 0 < rank x) /\
    (forall a b, In (a, b) edges -> In a (@nil pred) -> rank b < rank a)).
  { exists (fun _ => 0). split; [reflexivity|]. split; intros; contradiction. }
  induction fuel as [|fuel IH]; intros remaining order final Hnd H;
    destruct remaining as [|x l]; try exact Hbase.
  - rewrite topo_from_zero in H by discriminate. discriminate.
  - remember (x :: l) as R eqn:ER.
    rewrite topo_from_step in H by (subst; discriminate).
    destruct (find (is_sink edges R) R) as [n|] eqn:Ef; [|discriminate].
    apply find_some in Ef. destruct Ef as [Hn Hs].
    destruct (IH _ _ _ (nodup_iset_remove pred_dec n R Hnd) H) as [rk [H0 [H1 H2]]].
    exists (fun y => if pred_dec y n then 1 else match rk y with 0 => 0 | S k => S (S k) end).
    split; [|split].
    + intros y Hy. destruct (pred_dec y n) as [->|Hne]; [contradiction|].
      rewrite H0; [reflexivity|]. intros Hc. apply in_remove_elim in Hc; tauto.
    + intros y Hy. destruct (pred_dec y n); [lia|].
      assert (0 < rk y) by (apply H1, in_remove_intro; assumption).
      destruct (rk y); lia.
    + intros a b He Ha. destruct (pred_dec a n) as [->|Hane].
      * assert (Hb : ~ In b R) by (eapply is_sink_true; eauto).
        destruct (pred_dec b n) as [->|Hbne]; [contradiction|].
        rewrite H0; [lia|]. intros Hc. apply in_remove_elim in Hc; tauto.
      * assert (Ha' : In a (iset_remove pred_dec n R)) by (apply in_remove_intro; assumption).
        pose proof (H1 _ Ha'). pose proof (H2 _ _ He Ha').
        destruct (pred_dec b n); destruct (rk a), (rk b); lia.
Qed.

Theorem topo_order_rank nodes edges order :
  NoDup nodes -> topo_order nodes edges = Some order ->
  exists rank : pred -> nat, forall a b, In (a, b) edges -> In a nodes -> rank b < rank a.
Proof.
  unfold topo_order. intros Hnd H.
  destruct (topo_from_rank _ _ _ _ _ Hnd H) as [rank [_ [_ Hr]]].
  exists rank. exact Hr.
Qed.

(* ---------- None -> a non-empty set closed under "has a successor" ---------- *)

Lemma length_iset_remove (x : pred) l :
  In x l -> S (List.length (iset_remove pred_dec x l)) = List.length l.
Proof.
  induction l as [|y l IH]; cbn; intros H; [contradiction|].
  destruct (pred_dec x y) as [->|Hne]; [reflexivity|].
  cbn. f_equal. apply IH. destruct H; [congruence|assumption].
Qed.

Lemma topo_from_none edges : forall fuel remaining order,
  List.length remaining <= fuel -> topo_order_from fuel edges remaining order = None ->
  exists N, N <> [] /\ forall n, In n N -> exists q, In (n, q) edges /\ In q N.
Proof.
  induction fuel as [|fuel IH]; intros remaining order Hlen H;
    destruct remaining as [|x l]; try (rewrite topo_from_nil in H; discriminate).
  - cbn in Hlen. lia.
  - remember (x :: l) as R eqn:ER.
    rewrite topo_from_step in H by (subst; discriminate).
    destruct (find (is_sink edges R) R) as [n|] eqn:Ef.
    + apply find_some in Ef. destruct Ef as [Hn _].
      apply (IH _ _ ) in H; [exact H|].
      pose proof (length_iset_remove n R Hn). lia.
    + exists R. split; [subst; discriminate|].
      intros n Hn. apply is_sink_false. eapply find_none; eauto.
Qed.

(* ---------- walks and the pigeonhole argument ---------- *)

Section Walk.
Variable R : pred -> pred -> Prop.

Inductive walk : pred -> list pred -> Prop :=
| walk_nil a : walk a []
| walk_cons a b l : R a b -> walk b l -> walk a (b :: l).

Lemma walk_reach a l : walk a l -> forall x, In x l -> clos_trans pred R a x.
Proof.
  induction 1 as [a|a b l Hab Hw IH]; intros x Hx; [destruct Hx|].
  destruct Hx as [<-|Hx].
  - apply t_step; assumption.
  - eapply t_trans; [apply t_step; eassumption|apply IH; assumption].
Qed.

Lemma walk_nodup_or_cycle a l :
  walk a l -> NoDup (a :: l) \/ exists p, clos_trans pred R p p.
Proof.
  induction 1 as [a|a b l Hab Hw IH].
  - left. constructor; [intros []|constructor].
  - destruct IH as [IH|IH]; [|right; assumption].
    destruct (in_dec pred_dec a (b :: l)) as [Hin|Hnin].
    + right. exists a. eapply walk_reach; [|exact Hin]. constructor; assumption.
    + left. constructor; assumption.
Qed.
End Walk.

Lemma build_walk edges N :
  (forall n, In n N -> exists q, In (n, q) edges /\ In q N) ->
  forall k a, In a N ->
  exists l, List.length l = k /\ walk (edge_rel edges) a l /\ forall x, In x l -> In x N.
Proof.
  intros Hs. induction k as [|k IH]; intros a Ha.
  - exists []. split; [reflexivity|]. split; [constructor|intros x []].
  - destruct (Hs a Ha) as [q [He Hq]]. destruct (IH q Hq) as [l [Hl [Hw Hin]]].
    exists (q :: l). split; [cbn; congruence|]. split; [constructor; assumption|].
    intros x [<-|Hx]; auto.
Qed.

Lemma cycle_of_closed edges N :
  N <> [] -> (forall n, In n N -> exists q, In (n, q) edges /\ In q N) ->
  exists p, clos_trans pred (edge_rel edges) p p.
Proof.
  intros HN Hs. destruct N as [|a N']; [congruence|].
  destruct (build_walk edges (a :: N') Hs (List.length (a :: N')) a (or_introl eq_refl))
    as [l [Hl [Hw Hin]]].
  destruct (walk_nodup_or_cycle _ _ _ Hw) as [Hnd|Hc]; [|exact Hc].
  exfalso.
  assert (Hincl : incl (a :: l) (a :: N')).
  { intros x [<-|Hx]; [left; reflexivity|apply Hin; assumption]. }
  pose proof (NoDup_incl_length Hnd Hincl) as Hle.
  cbn [List.length] in Hle, Hl. lia.
Qed.

(* generic exactness of the model's cycle test *)
Theorem is_acyclic_exact nodes edges :
  NoDup nodes -> (forall a b, In (a, b) edges -> In a nodes /\ In b nodes) ->
  (is_acyclic nodes edges = true <-> ~ exists p, clos_trans pred (edge_rel edges) p p).
Proof.
  intros Hnd Hends. unfold is_acyclic.
  destruct (topo_order nodes edges) as [order|] eqn:E.
  - split; [|reflexivity]. intros _ [p Hp].
    destruct (topo_order_rank _ _ _ Hnd E) as [rank Hr].
    assert (Hdec : forall a b, clos_trans pred (edge_rel edges) a b -> rank b < rank a).
    { induction 1 as [a b Hab|a b c _ IH1 _ IH2]; [|lia].
      apply Hr; [exact Hab|]. apply (Hends _ _ Hab). }
    specialize (Hdec _ _ Hp). lia.
  - split; [discriminate|]. intros Hn. exfalso. apply Hn.
    unfold topo_order in E.
    destruct (topo_from_none _ _ _ _ (le_n _) E) as [N [HN Hs]].
    eapply cycle_of_closed; eauto.
Qed.

(* ---------- transport of clos_trans ---------- *)

Lemma clos_trans_mono (R1 R2 : pred -> pred -> Prop) :
  (forall a b, R1 a b -> R2 a b) -> forall a b, clos_trans pred R1 a b -> clos_trans pred R2 a b.
Proof.
  intros H a b Hc. induction Hc as [a b Hab|a b c _ IH1 _ IH2].
  - apply t_step, H, Hab.
  - eapply t_trans; eassumption.
Qed.

Lemma clos_trans_iff (R1 R2 : pred -> pred -> Prop) :
  (forall a b, R1 a b <-> R2 a b) -> forall a b, clos_trans pred R1 a b <-> clos_trans pred R2 a b.
Proof.
  intros H a b. split; apply clos_trans_mono; intros x y Hxy; apply H, Hxy.
Qed.

Lemma cycle_iff (R1 R2 : pred -> pred -> Prop) :
  (forall a b, R1 a b <-> R2 a b) ->
  ((~ exists p, clos_trans pred R1 p p) <-> (~ exists p, clos_trans pred R2 p p)).
Proof.
  intros H. split; intros Hn [p Hp]; apply Hn; exists p;
    apply (clos_trans_iff _ _ H); exact Hp.
Qed.

(* ---------- tightness ---------- *)

(* declarative positive dependency: head predicate -> predicate of an UNSIGNED body literal *)
Definition pos_dep (P : program) (h q : pred) : Prop :=
  exists r a, In r P /\ head_pred (rhead r) = Some h /\ In (BLit (mklit SNone a)) (rbody r) /\ q = atom_pred a.

Lemma pos_edges_spec P h q : In (h, q) (pos_edges P) <-> pos_dep P h q.
Proof.
  unfold pos_edges, pos_dep. rewrite in_flat_map. split.
  - intros [r [Hr Hin]]. unfold rule_pos_edges in Hin.
    destruct (head_pred (rhead r)) as [h'|] eqn:E; [|destruct Hin].
    apply in_map_iff in Hin. destruct Hin as [q' [Heq Hq]].
    inversion Heq; subst. apply in_body_pos_preds in Hq. destruct Hq as [a [Ha ->]].
    exists r, a. auto.
  - intros [r [a [Hr [Hh [Ha ->]]]]]. exists r. split; [assumption|].
    unfold rule_pos_edges. rewrite Hh. apply in_map_iff.
    exists (atom_pred a). split; [reflexivity|]. apply in_body_pos_preds. eauto.
Qed.

Lemma head_in_program_preds P r h :
  In r P -> head_pred (rhead r) = Some h -> In h (program_preds P).
Proof.
  intros Hr Hh. apply in_program_preds. exists r. split; [assumption|].
  apply in_rule_preds. left. assumption.
Qed.

Lemma body_in_program_preds P r l :
  In r P -> In (BLit l) (rbody r) -> In (atom_pred (latom l)) (program_preds P).
Proof.
  intros Hr Hl. apply in_program_preds. exists r. split; [assumption|].
  apply in_rule_preds. right. apply in_body_preds. exists l. auto.
Qed.

Lemma pos_edges_ends P a b :
  In (a, b) (pos_edges P) -> In a (program_preds P) /\ In b (program_preds P).
Proof.
  intros H. apply pos_edges_spec in H. destruct H as [r [x [Hr [Hh [Hx ->]]]]]. split.
  - eapply head_in_program_preds; eauto.
  - apply (body_in_program_preds P r (mklit SNone x)); assumption.
Qed.

Theorem C11_tight_proof P : is_tight P = true <-> ~ exists p, clos_trans pred (pos_dep P) p p.
Proof.
  unfold is_tight.
  rewrite (is_acyclic_exact _ _ (nodup_program_preds P) (pos_edges_ends P)).
  apply cycle_iff. intros a b. apply pos_edges_spec.
Qed.

Theorem is_tight_rank P : is_tight P = true ->
  exists rank : pred -> nat, forall r a h, In r P -> head_pred (rhead r) = Some h ->
    In (BLit (mklit SNone a)) (rbody r) -> rank (atom_pred a) < rank h.
Proof.
  unfold is_tight, is_acyclic. intros H.
  destruct (topo_order (program_preds P) (pos_edges P)) as [order|] eqn:E; [|discriminate].
  destruct (topo_order_rank _ _ _ (nodup_program_preds P) E) as [rank Hr].
  exists rank. intros r a h Hin Hh Ha. apply Hr.
  - apply pos_edges_spec. exists r, a. auto.
  - eapply head_in_program_preds; eauto.
Qed.

(* ---------- private recursion ---------- *)

Definition priv_dep (P : program) (priv : list pred) (h q : pred) : Prop :=
  In h priv /\ In q priv /\
  exists r l, In r P /\ head_pred (rhead r) = Some h /\ In (BLit l) (rbody r) /\ q = atom_pred (latom l).
Definition private_choice (P : program) (priv : list pred) : Prop :=
  exists r a, In r P /\ rhead r = HChoice a /\ In (atom_pred a) priv.

Lemma memb_true_iff (x : pred) l : memb pred_dec x l = true <-> In x l.
Proof. destruct (memb_spec pred_dec x l); split; auto; discriminate. Qed.

Lemma priv_edges_spec P priv h q : In (h, q) (priv_edges P priv) <-> priv_dep P priv h q.
Proof.
  unfold priv_edges, priv_dep. rewrite in_flat_map. split.
  - intros [r [Hr Hin]]. unfold rule_priv_edges in Hin.
    destruct (head_pred (rhead r)) as [h'|] eqn:E; [|destruct Hin].
    destruct (memb pred_dec h' priv) eqn:Em; [|destruct Hin].
    apply in_map_iff in Hin. destruct Hin as [q' [Heq Hq]].
    inversion Heq; subst. apply filter_In in Hq. destruct Hq as [Hq Hm].
    apply memb_true_iff in Em. apply memb_true_iff in Hm.
    apply in_body_preds in Hq. destruct Hq as [l [Hl Hql]].
    split; [assumption|]. split; [assumption|]. exists r, l. auto.
  - intros [Hh [Hq [r [l [Hr [Hhd [Hl ->]]]]]]]. exists r. split; [assumption|].
    unfold rule_priv_edges. rewrite Hhd.
    apply memb_true_iff in Hh. rewrite Hh. apply in_map_iff.
    exists (atom_pred (latom l)). split; [reflexivity|]. apply filter_In. split.
    + apply in_body_preds. eauto.
    + apply memb_true_iff. assumption.
Qed.

Lemma priv_edges_ends P priv a b :
  In (a, b) (priv_edges P priv) -> In a (priv_nodes P priv) /\ In b (priv_nodes P priv).
Proof.
  intros H. apply priv_edges_spec in H.
  destruct H as [Ha [Hb [r [l [Hr [Hh [Hl ->]]]]]]].
  unfold priv_nodes. split; apply filter_In; split.
  - eapply head_in_program_preds; eauto.
  - apply memb_true_iff; assumption.
  - eapply body_in_program_preds; eauto.
  - apply memb_true_iff; assumption.
Qed.

Lemma nodup_priv_nodes P priv : NoDup (priv_nodes P priv).
Proof. unfold priv_nodes. apply NoDup_filter, nodup_program_preds. Qed.

Lemma private_choice_spec P priv :
  existsb (private_choice_head priv) P = true <-> private_choice P priv.
Proof.
  rewrite existsb_exists. unfold private_choice, private_choice_head. split.
  - intros [r [Hr Hc]]. destruct (rhead r) as [a|a|] eqn:Eh; try discriminate.
    exists r, a. split; [assumption|]. split; [assumption|]. apply memb_true_iff, Hc.
  - intros [r [a [Hr [Hh Ha]]]]. exists r. split; [assumption|]. rewrite Hh.
    apply memb_true_iff, Ha.
Qed.

Theorem C11_priv_proof P priv :
  has_private_recursion P priv = false <->
  (~ private_choice P priv /\ ~ exists p, clos_trans pred (priv_dep P priv) p p).
Proof.
  unfold has_private_recursion.
  destruct (existsb (private_choice_head priv) P) eqn:E.
  - split; [discriminate|]. intros [Hnc _]. exfalso. apply Hnc.
    apply private_choice_spec. exact E.
  - rewrite negb_false_iff.
    rewrite (is_acyclic_exact _ _ (nodup_priv_nodes P priv) (priv_edges_ends P priv)).
    assert (Hnc : ~ private_choice P priv).
    { intros Hc. apply private_choice_spec in Hc. congruence. }
    assert (Hcy : (~ exists p, clos_trans pred (edge_rel (priv_edges P priv)) p p) <->
                  (~ exists p, clos_trans pred (priv_dep P priv) p p)).
    { apply cycle_iff. intros a b. apply priv_edges_spec. }
    rewrite Hcy. tauto.
Qed.

Print Assumptions is_acyclic_exact.
Print Assumptions C11_tight_proof.
Print Assumptions is_tight_rank.
Print Assumptions C11_priv_proof.
