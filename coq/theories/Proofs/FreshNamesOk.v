(* Properties of Model/FreshNames.choose_fresh_variable_names: the search never runs out of fuel,
   and the names returned are pairwise distinct, disjoint from [taken], and begin with [variant]. *)
From Coq Require Import List Ascii String NArith Bool Lia.
From Anthem Require Import Base.ISet Base.Fresh Model.FreshNames.
Import ListNotations.
Open Scope string_scope.
Open Scope list_scope.

Definition has_prefix (v x : string) : Prop := exists s, x = (v ++ s)%string.

Lemma has_prefix_refl v : has_prefix v v.
Proof. exists ""%string. induction v; cbn; congruence. Qed.

Lemma cfv_bad_true taken fresh c : cfv_bad taken fresh c = true -> In c (taken ++ fresh).
Proof.
  unfold cfv_bad. rewrite orb_true_iff, in_app_iff.
  destruct (memb_spec string_dec c taken), (memb_spec string_dec c fresh); intuition congruence.
Qed.
Lemma cfv_bad_false taken fresh c : cfv_bad taken fresh c = false -> ~ In c taken /\ ~ In c fresh.
Proof.
  unfold cfv_bad. rewrite orb_false_iff.
  destruct (memb_spec string_dec c taken), (memb_spec string_dec c fresh); intuition congruence.
Qed.

(* the fallback of cfv_candidate is dead code *)
Lemma cfv_candidate_total taken fresh variant n :
  exists c k, find_fresh_by (List.length taken + List.length fresh) variant (cfv_bad taken fresh) n = Some (c, k).
Proof.
  rewrite <- app_length. apply find_fresh_by_total. apply cfv_bad_true.
Qed.

Lemma cfv_candidate_spec taken fresh variant n :
  let c := cfv_candidate taken fresh variant n in
  ~ In c taken /\ ~ In c fresh /\ has_prefix variant c.
Proof.
  cbv zeta. unfold cfv_candidate.
  destruct (cfv_candidate_total taken fresh variant n) as [c [k E]]. rewrite E.
  destruct (find_fresh_by_sound _ _ _ _ _ _ E) as [Hb [Hc _]].
  apply cfv_bad_false in Hb. destruct Hb as [H1 H2]. repeat split; auto.
  exists (nat_str k). exact Hc.
Qed.

Definition fresh_inv (taken : list string) (variant : string) (fresh : list string) : Prop :=
  NoDup fresh /\ forall x, In x fresh -> ~ In x taken /\ has_prefix variant x.

Lemma cfv_loop_spec taken variant count : forall n fresh,
  fresh_inv taken variant fresh ->
  fresh_inv taken variant (cfv_loop taken variant count n fresh) /\
  List.length (cfv_loop taken variant count n fresh) = (List.length fresh + count)%nat.
Proof.
  induction count as [|c IH]; intros n fresh Hinv; cbn [cfv_loop].
  - split; [exact Hinv|lia].
  - destruct (cfv_candidate_spec taken fresh variant n) as [H1 [H2 H3]].
    destruct Hinv as [Hnd Hall].
    assert (Hinv' : fresh_inv taken variant (fresh ++ [cfv_candidate taken fresh variant n])).
    { split.
      - apply nodup_snoc; auto.
      - intros x Hx. apply in_app_iff in Hx. destruct Hx as [Hx|[<-|[]]]; auto. }
    destruct (IH (N.succ n) _ Hinv') as [Ha Hb]. split; [exact Ha|].
    rewrite Hb, app_length. cbn. lia.
Qed.

Theorem choose_fresh_spec taken variant arity :
  let l := choose_fresh_variable_names taken variant arity in
  List.length l = arity /\ NoDup l /\ forall x, In x l -> ~ In x taken /\ has_prefix variant x.
Proof.
  cbv zeta. unfold choose_fresh_variable_names. destruct arity as [|a].
  - split; [reflexivity|]. split; [constructor|]. intros x [].
  - destruct (memb_spec string_dec variant taken) as [Hin|Hnin].
    + destruct (cfv_loop_spec taken variant (S a) 1%N []) as [[Hnd Hall] Hlen].
      { split; [constructor|intros x []]. }
      cbn [List.length] in Hlen. repeat split; auto; apply Hall; auto.
    + destruct (cfv_loop_spec taken variant a 1%N [variant]) as [[Hnd Hall] Hlen].
      { split; [constructor; [intros []|constructor]|].
        intros x [<-|[]]. split; [exact Hnin|apply has_prefix_refl]. }
      cbn [List.length] in Hlen. repeat split; auto; try apply Hall; auto.
Qed.

Lemma choose_fresh_length taken variant arity :
  List.length (choose_fresh_variable_names taken variant arity) = arity.
Proof. apply choose_fresh_spec. Qed.
Lemma choose_fresh_nodup taken variant arity : NoDup (choose_fresh_variable_names taken variant arity).
Proof. apply choose_fresh_spec. Qed.
Lemma choose_fresh_notin taken variant arity x :
  In x (choose_fresh_variable_names taken variant arity) -> ~ In x taken.
Proof. intros H. apply (choose_fresh_spec taken variant arity); auto. Qed.
Lemma choose_fresh_prefix taken variant arity x :
  In x (choose_fresh_variable_names taken variant arity) -> has_prefix variant x.
Proof. intros H. apply (choose_fresh_spec taken variant arity); auto. Qed.

(* fresh_one: `.pop().unwrap()` of a one-element result *)
Lemma fresh_one_in taken variant :
  choose_fresh_variable_names taken variant 1 = [fresh_one taken variant].
Proof.
  unfold fresh_one. pose proof (choose_fresh_length taken variant 1) as L.
  destruct (choose_fresh_variable_names taken variant 1) as [|x [|y l]]; cbn in L; try lia.
  reflexivity.
Qed.
Lemma fresh_one_notin taken variant : ~ In (fresh_one taken variant) taken.
Proof.
  apply (choose_fresh_notin taken variant 1). rewrite fresh_one_in. left; reflexivity.
Qed.
Lemma fresh_one_prefix taken variant : has_prefix variant (fresh_one taken variant).
Proof.
  apply (choose_fresh_prefix taken variant 1). rewrite fresh_one_in. left; reflexivity.
Qed.
(* for one-letter variants: the fresh name begins with that letter *)
Lemma fresh_one_head taken (c : ascii) :
  exists s, fresh_one taken (String c EmptyString) = String c s.
Proof. destruct (fresh_one_prefix taken (String c EmptyString)) as [s E]. exists s. exact E. Qed.
