(* mu with the real tau* plugged in (Model/MuFull.v): composition of C08 (natural) with C01 (tau-star).
   - mu_full is the instantiation of Model/Mu.v's Section wherever it returns (mu_full_inst);
   - shape: one formula per rule, natural's on regular rules, tau*'s (with the program-wide
     globals) on the others (mu_full_shape, from C08_mu_shape);
   - every formula is HT-equivalent to its rule in the reference semantics (mu_full_rules_ok:
     natural branch by C08_nat, tau* branch by C01_rule + C01_globals_fresh), hence formula by
     formula HT-equivalent to the tau* theory of the same program (mu_full_vs_tau_star);
   - mu_full fails exactly on the overflow class of choose_fresh_global_variables (F11). *)
From Coq Require Import List String ZArith NArith Lia.
From Anthem Require Import Base.ISet Syntax.Fol Syntax.Asp Sem.Domain Sem.Sat Sem.AspRef
  Model.Natural Model.Mu Model.TauStar Model.MuFull
  Proofs.ExtendAll Proofs.NaturalMain Proofs.RegularOk Proofs.TauStarRule Proofs.TauStarProgram
  Proofs.TauStarClassical Proofs.NaturalVocab.
Import ListNotations.
Open Scope list_scope.

(* ---------- tau_star_rule is defined with enough globals ---------- *)
Lemma tau_star_rule_some r gs : head_arity (rhead r) <= List.length gs -> exists f, tau_star_rule r gs = Some f.
Proof.
  intros Hlen. unfold tau_star_rule. destruct (rhead r) as [a|a|] eqn:Hh; cbn [head_pred head_arity] in *.
  - destruct (Nat.ltb 0 (List.length (aterms a))).
    + unfold tau_star_fo_head_rule. rewrite Hh. cbn [head_atom].
      destruct (Nat.ltb_spec (List.length gs) (List.length (aterms a))); [lia|eauto].
    + unfold tau_star_prop_head_rule. rewrite Hh. cbn [head_atom]. eauto.
  - destruct (Nat.ltb 0 (List.length (aterms a))).
    + unfold tau_star_fo_head_rule. rewrite Hh. cbn [head_atom].
      destruct (Nat.ltb_spec (List.length gs) (List.length (aterms a))); [lia|eauto].
    + unfold tau_star_prop_head_rule. rewrite Hh. cbn [head_atom]. eauto.
  - eauto.
Qed.

(* ---------- the overflow class, exactly ---------- *)
Lemma globals_loop_bound m (count : nat) : forall i gs, globals_loop m i count = Some gs ->
  count = 0%nat \/ (m + i + N.of_nat count - 1 < two64)%N.
Proof.
  induction count as [|c IH]; intros i gs; cbn [globals_loop]; [auto|].
  destruct (N.leb_spec two64 (m + i)) as [|Hlt]; [discriminate|].
  destruct (globals_loop m (N.succ i) c) as [gs'|] eqn:E; [|discriminate]. intros _.
  right. destruct (IH _ _ E) as [->|Hb]; lia.
Qed.
Theorem globals_defined_iff P :
  (exists gs, choose_fresh_global_variables P = Some gs) <-> no_global_overflow P.
Proof.
  unfold choose_fresh_global_variables, no_global_overflow. split.
  - intros [gs E]. destruct (globals_loop_bound _ _ _ _ E) as [Hz|Hb]; [left; exact Hz|right; lia].
  - intros Hno. apply globals_loop_some. destruct Hno as [Hz|Hb]; [left; exact Hz|right; lia].
Qed.

(* ---------- mu_full vs the instantiated Section of Model/Mu.v ---------- *)
Lemma mu_full_rules_inst rules globals : forall th,
  mu_full_rules rules globals = Some th -> mu_rules tau_star_rule_or_true rules globals = NOk th.
Proof.
  induction rules as [|r rules IH]; intros th; cbn [mu_full_rules mu_rules].
  - intros [= <-]. reflexivity.
  - destruct (natural_rule r) as [f| |]; [| |discriminate].
    + destruct (mu_full_rules rules globals) as [fs|]; [|discriminate]. intros [= <-].
      rewrite (IH fs eq_refl). reflexivity.
    + destruct (tau_star_rule r globals) as [f|] eqn:Et; [|discriminate].
      destruct (mu_full_rules rules globals) as [fs|]; [|discriminate]. intros [= <-].
      rewrite (IH fs eq_refl). cbn [nbind]. unfold tau_star_rule_or_true. rewrite Et. reflexivity.
Qed.
Theorem mu_full_inst P th : mu_full P = Some th -> mu_inst P = NOk th.
Proof.
  unfold mu_full, mu_inst, mu, globals_or_nil.
  destruct (choose_fresh_global_variables P) as [gs|]; [|discriminate]. apply mu_full_rules_inst.
Qed.

(* ---------- shape (C08_mu_shape instantiated) ---------- *)
Theorem mu_full_shape P th globals :
  mu_full P = Some th -> choose_fresh_global_variables P = Some globals ->
  List.length th = List.length P /\
  forall i r, nth_error P i = Some r ->
    (regular_rule r -> exists f, natural_rule r = NOk f /\ nth_error th i = Some f) /\
    (~ regular_rule r -> exists f, tau_star_rule r globals = Some f /\ nth_error th i = Some f).
Proof.
  intros Em Eg. pose proof (mu_full_inst P th Em) as Ei.
  destruct (mu_shape globals_or_nil tau_star_rule_or_true P) as [th' [E' [Hlen Hall]]].
  unfold mu_inst in Ei. rewrite Ei in E'. inversion E'; subst th'. split; [exact Hlen|].
  intros i r Hi. destruct (Hall i r Hi) as [Hreg Hirr]. split; [exact Hreg|].
  intros Hn. specialize (Hirr Hn). unfold globals_or_nil in Hirr. rewrite Eg in Hirr.
  assert (Hr : In r P) by (eapply nth_error_In; eauto).
  destruct (globals_fresh P globals Eg r Hr) as [Hlen' _].
  destruct (tau_star_rule_some r globals Hlen') as [f Ef].
  unfold tau_star_rule_or_true in Hirr. rewrite Ef in Hirr. eauto.
Qed.

(* ---------- adequacy, formula by formula ---------- *)
Lemma mu_full_rules_ok FI H T (HS : sub H T) globals rules : forall th,
  (forall r, In r rules -> fresh_globals r globals) ->
  mu_full_rules rules globals = Some th ->
  Forall2 (fun r f => hvalid FI H T f <-> ref_rule_sat H T r) rules th.
Proof.
  induction rules as [|r rules IH]; intros th Hfresh; cbn [mu_full_rules].
  - intros [= <-]. constructor.
  - assert (Hrest : forall r', In r' rules -> fresh_globals r' globals) by (intros r' Hr'; apply Hfresh; right; exact Hr').
    destruct (natural_rule r) as [f| |] eqn:En; [| |discriminate].
    + destruct (mu_full_rules rules globals) as [fs|]; [|discriminate]. intros [= <-].
      constructor; [apply (natural_rule_ok r f En FI H T HS)|apply IH; auto].
    + destruct (tau_star_rule r globals) as [f|] eqn:Et; [|discriminate].
      destruct (mu_full_rules rules globals) as [fs|]; [|discriminate]. intros [= <-].
      constructor; [|apply IH; auto].
      apply (tau_star_rule_ok FI H T r globals f Et). apply Hfresh. left; reflexivity.
Qed.

Theorem mu_full_ok P th : mu_full P = Some th ->
  List.length th = List.length P /\
  forall FI H T, sub H T -> Forall2 (fun r f => hvalid FI H T f <-> ref_rule_sat H T r) P th.
Proof.
  unfold mu_full. destruct (choose_fresh_global_variables P) as [gs|] eqn:Eg; [|discriminate]. intros Em.
  assert (Hall : forall FI H T, sub H T -> Forall2 (fun r f => hvalid FI H T f <-> ref_rule_sat H T r) P th).
  { intros FI H T HS. apply (mu_full_rules_ok FI H T HS gs); [apply (globals_fresh P gs Eg)|exact Em]. }
  split; [|exact Hall].
  set (FI0 := mkfint (fun _ => VInf) (fun _ => 0%Z) (fun _ => ""%string)).
  symmetry. eapply forall2_length. apply (Hall FI0 (fun _ _ => False) (fun _ _ => False)). intros p a [].
Qed.

(* the statement with indices: the i-th formula is HT-equivalent to the i-th rule *)
Lemma forall2_nth_error {A B} (R : A -> B -> Prop) l m : Forall2 R l m ->
  forall i x y, nth_error l i = Some x -> nth_error m i = Some y -> R x y.
Proof.
  induction 1 as [|a b l m Hab _ IH]; intros [|i] x y; cbn; try discriminate.
  - intros [= <-] [= <-]. exact Hab.
  - apply IH.
Qed.
Theorem mu_full_nth P th : mu_full P = Some th ->
  List.length th = List.length P /\
  forall i r f, nth_error P i = Some r -> nth_error th i = Some f ->
  forall FI H T, sub H T -> (hvalid FI H T f <-> ref_rule_sat H T r).
Proof.
  intros Em. destruct (mu_full_ok P th Em) as [Hlen Hall]. split; [exact Hlen|].
  intros i r f Hi Hf FI H T HS. exact (forall2_nth_error _ _ _ (Hall FI H T HS) i r f Hi Hf).
Qed.

Theorem mu_full_theory P th : mu_full P = Some th ->
  forall FI H T, sub H T -> (theory_hsat FI H T th <-> ref_sat H T P).
Proof.
  intros Em FI H T HS. destruct (mu_full_ok P th Em) as [_ Hall]. specialize (Hall FI H T HS).
  unfold theory_hsat, ref_sat. clear Em. induction Hall as [|r f P' th' Hrf _ IH].
  - split; intros _ x [].
  - split.
    + intros Hv r' [<-|Hr']; [apply Hrf, Hv; left; reflexivity|].
      apply (proj1 IH); [|exact Hr']. intros g Hg. apply Hv. right; exact Hg.
    + intros Hv g [<-|Hg]; [apply Hrf, Hv; left; reflexivity|].
      apply (proj2 IH); [|exact Hg]. intros r' Hr'. apply Hv. right; exact Hr'.
Qed.

(* ---------- natural vs tau*, rule by rule and program by program ---------- *)
Theorem natural_vs_tau_star r F globals G :
  natural_rule r = NOk F -> tau_star_rule r globals = Some G -> fresh_globals r globals ->
  forall FI H T, sub H T -> (hvalid FI H T F <-> hvalid FI H T G).
Proof.
  intros En Et Hf FI H T HS.
  rewrite (natural_rule_ok r F En FI H T HS), (tau_star_rule_ok FI H T r globals G Et Hf). reflexivity.
Qed.

Theorem mu_full_vs_tau_star P th G : mu_full P = Some th -> tau_star P = Some G ->
  List.length th = List.length G /\
  forall FI H T, sub H T -> Forall2 (fun f g => hvalid FI H T f <-> hvalid FI H T g) th G.
Proof.
  unfold mu_full, tau_star. destruct (choose_fresh_global_variables P) as [gs|] eqn:Eg; [|discriminate].
  intros Em Et. apply map_opt_forall2 in Et.
  pose proof (globals_fresh P gs Eg) as Hfresh.
  assert (Hall : forall FI H T, sub H T -> Forall2 (fun f g => hvalid FI H T f <-> hvalid FI H T g) th G).
  { intros FI H T HS. pose proof (mu_full_rules_ok FI H T HS gs P th Hfresh Em) as Hmu.
    clear Em Eg. revert th Hmu. induction Et as [|r g P' G' Hrg _ IH]; intros th Hmu; inversion Hmu; subst.
    - constructor.
    - constructor.
      + match goal with Hx : hvalid _ _ _ _ <-> ref_rule_sat _ _ r |- _ => rewrite Hx end.
        symmetry. apply (tau_star_rule_ok FI H T r gs g Hrg). apply Hfresh. left; reflexivity.
      + apply IH; [intros r' Hr'; apply Hfresh; right; exact Hr'|assumption]. }
  split; [|exact Hall].
  set (FI0 := mkfint (fun _ => VInf) (fun _ => 0%Z) (fun _ => ""%string)).
  eapply forall2_length. apply (Hall FI0 (fun _ _ => False) (fun _ _ => False)). intros p a [].
Qed.

(* ---------- "mu never fails", up to the overflow class ---------- *)
Lemma mu_full_rules_some rules globals :
  (forall r, In r rules -> head_arity (rhead r) <= List.length globals) ->
  exists th, mu_full_rules rules globals = Some th.
Proof.
  induction rules as [|r rules IH]; intros Hlen; cbn [mu_full_rules]; [eauto|].
  destruct IH as [fs Efs]; [intros r' Hr'; apply Hlen; right; exact Hr'|]. rewrite Efs.
  pose proof (natural_rule_no_panic r) as Hnp.
  destruct (natural_rule r) as [f| |]; [cbn; eauto| |congruence].
  destruct (tau_star_rule_some r globals (Hlen r (or_introl eq_refl))) as [f Ef]. rewrite Ef. cbn. eauto.
Qed.
Theorem mu_full_defined_iff P : (exists th, mu_full P = Some th) <-> no_global_overflow P.
Proof.
  rewrite <- globals_defined_iff. unfold mu_full. split.
  - intros [th E]. destruct (choose_fresh_global_variables P) as [gs|]; [eauto|discriminate].
  - intros [gs Eg]. rewrite Eg. apply mu_full_rules_some. intros r Hr.
    destruct (globals_fresh P gs Eg r Hr) as [Hlen _]. exact Hlen.
Qed.
Theorem tau_star_defined_iff P : (exists G, tau_star P = Some G) <-> no_global_overflow P.
Proof.
  split; [|apply tau_star_defined]. rewrite <- globals_defined_iff. unfold tau_star.
  intros [G E]. destruct (choose_fresh_global_variables P) as [gs|]; [eauto|discriminate].
Qed.

(* ---------- vocabulary ---------- *)
Lemma mu_full_rules_predicates rules globals : forall th, mu_full_rules rules globals = Some th ->
  forall f p, In f th -> In p (predicates f) -> exists r, In r rules /\ In p (rule_preds r).
Proof.
  induction rules as [|r rules IH]; intros th; cbn [mu_full_rules].
  - intros [= <-] f p [].
  - destruct (natural_rule r) as [g| |] eqn:En; [| |discriminate].
    + destruct (mu_full_rules rules globals) as [fs|]; [|discriminate]. intros [= <-] f p [<-|Hf] Hp.
      * exists r. split; [left; reflexivity|]. eapply natural_rule_predicates; eauto.
      * destruct (IH fs eq_refl f p Hf Hp) as [r' [Hr' Hp']]. exists r'. split; [right; exact Hr'|exact Hp'].
    + destruct (tau_star_rule r globals) as [g|] eqn:Et; [|discriminate].
      destruct (mu_full_rules rules globals) as [fs|]; [|discriminate]. intros [= <-] f p [<-|Hf] Hp.
      * exists r. split; [left; reflexivity|]. apply (tau_star_rule_predicates r globals g p Et). exact Hp.
      * destruct (IH fs eq_refl f p Hf Hp) as [r' [Hr' Hp']]. exists r'. split; [right; exact Hr'|exact Hp'].
Qed.
Theorem mu_full_predicates P th : mu_full P = Some th ->
  forall f p, In f th -> In p (predicates f) -> In p (program_preds P).
Proof.
  unfold mu_full. destruct (choose_fresh_global_variables P) as [gs|]; [|discriminate].
  intros Em f p Hf Hp. apply in_program_preds. eapply mu_full_rules_predicates; eauto.
Qed.
Theorem tau_star_formula_predicates P G : tau_star P = Some G ->
  forall f p, In f G -> In p (predicates f) -> In p (program_preds P).
Proof.
  intros Et f p Hf Hp. apply (tau_star_predicates P G p Et). apply in_theory_predicates. eauto.
Qed.
