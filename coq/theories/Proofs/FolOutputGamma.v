(* C15 for the output of gamma (`translate --with gamma`): gamma preserves well-formedness and never
   creates a member of the recorded defect classes (F7b keyword-prefixed identifier in formula-start
   position, C15-RIMP): the classes of gamma(F) are inherited from F.  Hence the printed gamma of a
   parsed theory outside the classes re-parses to the same theory.  (gamma keeps `<-`: a C15-RIMP input
   stays C15-RIMP, see Properties/C15out.v.) *)
From Coq Require Import List Ascii String ZArith NArith Bool Lia.
From Anthem Require Import Base.Fresh Syntax.Fol Gen.TablesFol Model.Apply Model.Gamma
  Model.FolLex Model.FolParse Model.FolPrint Model.FolClass
  Proofs.GammaOk Proofs.FolRoundTrip Proofs.FolLexOk Proofs.FolOutput.
Import ListNotations.
Open Scope string_scope.
Open Scope list_scope.

(* ------------------------------------------------------------------ the copies hp / tp of a predicate *)
Definition copy_prefix (pre : string) : Prop := pre = "h" \/ pre = "t".

Lemma copy_symbol_name pre p : copy_prefix pre -> is_symbol_name p = true -> is_symbol_name (pre ++ p) = true.
Proof.
  intros [-> | ->] H; unfold is_symbol_name in *; apply andb_true_iff in H; destruct H as [H _];
    cbn [append]; change (chars (String ?c p)) with (c :: chars p);
    cbn [all_wordchars forallb word_class]; unfold all_wordchars in H; rewrite H; reflexivity.
Qed.
Lemma copy_not_keyword pre p : copy_prefix pre -> kw_prefixed (pre ++ p) = false.
Proof. intros [-> | ->]; reflexivity. Qed.

(* ------------------------------------------------------------------ ren (= prepend_predicate) *)
Lemma ren_kind pre f : fkind_of (ren pre f) = fkind_of f.
Proof. destruct f as [[| |p ts|t gs]|g|c l r|q vs g]; reflexivity. Qed.

Lemma ren_wf pre f : copy_prefix pre -> wf_formula f = true -> wf_formula (ren pre f) = true.
Proof.
  intros Hp. induction f as [a|g IH|c l IHl r IHr|q vs g IH]; cbn [ren wf_formula].
  - destruct a as [| |p ts|t gs]; cbn [wf_formula wf_atomic]; auto.
    intros H. apply andb_true_iff in H. destruct H as [H1 H2]. rewrite (copy_symbol_name _ _ Hp H1), H2. reflexivity.
  - exact IH.
  - intros H. apply andb_true_iff in H. destruct H. rewrite IHl, IHr; auto.
  - intros H. apply andb_true_iff in H. destruct H as [H1 H2]. rewrite H1, IH; auto.
Qed.

Lemma ren_keyword_ident pre f : copy_prefix pre -> keyword_ident (ren pre f) = true -> keyword_ident f = true.
Proof.
  intros Hp. induction f as [a|g IH|c l IHl r IHr|q vs g IH]; cbn [ren keyword_ident].
  - destruct a as [| |p ts|t gs]; cbn [keyword_ident]; auto.
    unfold kwi_atomic. cbn [print_atomic]. unfold print_atom.
    destruct ts; cbn [lead_ident]; rewrite (copy_not_keyword _ p Hp); discriminate.
  - exact IH.
  - intros H. apply orb_true_iff in H. apply orb_true_iff. destruct H; [left|right]; auto.
  - exact IH.
Qed.

(* ------------------------------------------------------------------ gamma: wf and F7b *)
Lemma here_ren f : here f = ren "h" f. Proof. apply prepend_predicate_ren. Qed.
Lemma there_ren f : there f = ren "t" f. Proof. apply prepend_predicate_ren. Qed.

Lemma gamma_wf f : wf_formula f = true -> wf_formula (gamma f) = true.
Proof.
  induction f as [a|g IH|c l IHl r IHr|q vs g IH]; cbn [gamma]; intros W.
  - rewrite here_ren. apply ren_wf; [left; reflexivity|exact W].
  - cbn [wf_formula]. rewrite there_ren. apply ren_wf; [right; reflexivity|exact W].
  - cbn [wf_formula] in W. apply andb_true_iff in W. destruct W as [Wl Wr].
    pose proof (ren_wf "t" l (or_intror eq_refl) Wl) as Tl.
    pose proof (ren_wf "t" r (or_intror eq_refl) Wr) as Tr.
    destruct c; cbn [wf_formula]; rewrite ?there_ren, ?IHl, ?IHr, ?Tl, ?Tr; auto.
  - cbn [wf_formula] in *. apply andb_true_iff in W. destruct W as [W1 W2]. rewrite W1, IH; auto.
Qed.

Lemma gamma_keyword_ident f : keyword_ident (gamma f) = true -> keyword_ident f = true.
Proof.
  induction f as [a|g IH|c l IHl r IHr|q vs g IH]; cbn [gamma].
  - rewrite here_ren. apply ren_keyword_ident. left; reflexivity.
  - cbn [keyword_ident]. rewrite there_ren. apply ren_keyword_ident. right; reflexivity.
  - assert (T : forall x, keyword_ident (there x) = true -> keyword_ident x = true)
      by (intros x; rewrite there_ren; apply ren_keyword_ident; right; reflexivity).
    destruct c; cbn [keyword_ident]; intros H;
      repeat (apply orb_true_iff in H; destruct H as [H|H]); apply orb_true_iff; auto.
  - exact IH.
Qed.

Lemma gamma_theory_wf t : wf_theory t = true -> wf_theory (gamma_theory t) = true.
Proof.
  unfold wf_theory, gamma_theory. induction t as [|f t IH]; cbn [map forallb]; [reflexivity|].
  intros H. apply andb_true_iff in H. destruct H as [H1 H2]. rewrite (gamma_wf _ H1), IH; auto.
Qed.

(* ------------------------------------------------------------------ the cc14b46 test, by head token *)
Definition is_var_tok (t : token) : bool := match t with TVar _ _ => true | _ => false end.

Lemma lower_not_upper c : is_lower c = true -> is_upper c = false.
Proof.
  unfold is_upper, is_lower, code_in, code. cbv zeta. intros H.
  apply andb_true_iff in H. destruct H as [H _]. apply Nat.leb_le in H.
  apply andb_false_iff. right. apply Nat.leb_gt. lia.
Qed.
Lemma lower_not_underscore c : is_lower c = true -> Ascii.eqb c "_" = false.
Proof. intros H. destruct (Ascii.eqb_spec c "_"); [subst; vm_compute in H; discriminate H|reflexivity]. Qed.

Lemma symbol_name_not_bwv s R : is_symbol_name s = true -> begins_with_variable (s ++ R)%string = false.
Proof.
  unfold is_symbol_name. intros H. apply andb_true_iff in H. destruct H as [_ H].
  destruct s as [|c s]; [discriminate|]. change (chars (String c s)) with (c :: chars s) in H.
  cbn [word_class] in H. cbn [append begins_with_variable].
  change FolLex.is_lower with is_lower in *.
  destruct (is_lower c) eqn:Lc.
  - rewrite (lower_not_upper c Lc), (lower_not_underscore c Lc). reflexivity.
  - destruct (is_upper c); [cbn in H; discriminate H|]. destruct (Ascii.eqb c "_"); [|reflexivity].
    destruct s as [|d s]; [cbn in H; discriminate H|]. change (chars (String d s)) with (d :: chars s) in H.
    cbv beta iota in H. cbn [append]. destruct (is_lower d) eqn:Ld; [apply lower_not_upper, Ld|].
    destruct (is_upper d); [cbn in H; discriminate H|reflexivity].
Qed.

Lemma nat_str_not_bwv n R : begins_with_variable (nat_str n ++ R)%string = false.
Proof.
  destruct (N.eq_dec n 0) as [->|Hn]; [reflexivity|].
  destruct (FolLexRT.nat_str_pos n) as (c & r & E & Hc); [lia|].
  destruct (nat_str n) as [|c' s]; [discriminate|]. change (chars (String c' s)) with (c' :: chars s) in E.
  injection E as -> _. cbn [append begins_with_variable].
  assert (is_upper c = false) as ->.
  { revert Hc. unfold is_nzdigit, is_upper, code_in, code. cbv zeta. intros H.
    apply andb_true_iff in H. destruct H as [_ H]. apply Nat.leb_le in H.
    apply andb_false_iff. left. apply Nat.leb_gt. lia. }
  destruct (Ascii.eqb_spec c "_"); [subst; vm_compute in Hc; discriminate Hc|reflexivity].
Qed.

Lemma tok_var_bwv x s R : is_variable_name x = true -> begins_with_variable (tok_str (TVar x s) ++ R)%string = true.
Proof.
  intros W. destruct (tok_str_var x s) as [s' ->]. rewrite sappend_assoc. apply variable_name_bwv, W.
Qed.

Lemma ihead_bwv t R : wf_iterm t = true ->
  begins_with_variable (tok_str (ihead_tok t) ++ R)%string = is_var_tok (ihead_tok t).
Proof.
  induction t as [z|c|y|[] a IH|o l IHl r IHr]; cbn [ihead_tok wf_iterm]; intros W.
  - unfold num_tok. destruct (z <? 0)%Z; cbn [tok_str is_var_tok]; [reflexivity|apply nat_str_not_bwv].
  - cbn [tok_str is_var_tok]. rewrite sappend_assoc. apply symbol_name_not_bwv, W.
  - cbn [is_var_tok]. apply tok_var_bwv, W.
  - reflexivity.
  - apply andb_true_iff in W. destruct (paren_lhs _ _ _ _); [reflexivity|]. apply IHl; tauto.
Qed.
Lemma ghead_bwv t R : wf_gterm t = true ->
  begins_with_variable (tok_str (ghead_tok t) ++ R)%string = is_var_tok (ghead_tok t).
Proof.
  destruct t as [| |c|y|t|[u|c|y]]; cbn [ghead_tok wf_gterm wf_sterm]; intros W; try reflexivity.
  - cbn [tok_str is_var_tok]. rewrite sappend_assoc. apply symbol_name_not_bwv, W.
  - cbn [is_var_tok]. apply tok_var_bwv, W.
  - apply ihead_bwv, W.
  - cbn [tok_str is_var_tok]. apply symbol_name_not_bwv, W.
  - cbn [tok_str is_var_tok]. rewrite sappend_assoc. apply symbol_name_not_bwv, W.
  - cbn [is_var_tok]. apply tok_var_bwv, W.
Qed.
Lemma fhead_bwv f R : wf_formula f = true ->
  begins_with_variable (tok_str (fhead_tok f) ++ R)%string = is_var_tok (fhead_tok f).
Proof.
  induction f as [a|g IH|c l IHl r IHr|q vs g IH]; cbn [fhead_tok wf_formula]; intros W.
  - destruct a as [| |p ts|t gs]; cbn [ahead_tok]; try reflexivity.
    + cbn [wf_atomic] in W. apply andb_true_iff in W. destruct W as [W _].
      cbn [tok_str is_var_tok]. apply symbol_name_not_bwv, W.
    + cbn [wf_atomic] in W. apply andb_true_iff in W. destruct W as [W _]. apply andb_true_iff in W. destruct W as [W _].
      apply ghead_bwv, W.
  - reflexivity.
  - apply andb_true_iff in W. destruct (lhs_paren _ _); [reflexivity|]. apply IHl; tauto.
  - destruct q; reflexivity.
Qed.

Theorem bwv_spec f : wf_formula f = true ->
  begins_with_variable (render (print_formula true f)) = is_var_tok (fhead_tok f).
Proof.
  intros W. destruct (print_formula_hd true f) as [rest E]. rewrite E, render_cons. apply fhead_bwv, W.
Qed.

(* ------------------------------------------------------------------ kinds decide the parentheses *)
Lemma lhs_paren_kind f l f' l' : fkind_of f = fkind_of f' -> fkind_of l = fkind_of l' ->
  lhs_paren f l = lhs_paren f' l'.
Proof. unfold lhs_paren, fprec, fmand, fassoc. intros -> ->. reflexivity. Qed.
Lemma rhs_paren_kind f r f' r' : fkind_of f = fkind_of f' -> fkind_of r = fkind_of r' ->
  rhs_paren f r = rhs_paren f' r'.
Proof. unfold rhs_paren, fprec, fmand, fassoc. intros -> ->. reflexivity. Qed.
Lemma un_paren_kind f g f' g' : fkind_of f = fkind_of f' -> fkind_of g = fkind_of g' ->
  un_paren f g = un_paren f' g'.
Proof. unfold un_paren, fprec, fmand. intros -> ->. reflexivity. Qed.
Lemma bin_kind c l r l' r' : fkind_of (FBin c l r) = fkind_of (FBin c l' r').
Proof. destruct c; reflexivity. Qed.

(* ------------------------------------------------------------------ ren preserves the class C15-RIMP *)
Section Ren.
Variable pre : string.
Hypothesis Hpre : copy_prefix pre.

Lemma ren_head_var f : is_var_tok (fhead_tok (ren pre f)) = is_var_tok (fhead_tok f).
Proof.
  induction f as [a|g IH|c l IHl r IHr|q vs g IH]; cbn [ren fhead_tok].
  - destruct a; reflexivity.
  - reflexivity.
  - rewrite (lhs_paren_kind (FBin c (ren pre l) (ren pre r)) (ren pre l) (FBin c l r) l)
      by (apply bin_kind || apply ren_kind).
    destruct (lhs_paren _ _); [reflexivity|exact IHl].
  - reflexivity.
Qed.

Lemma ren_q_paren q vs g : wf_formula g = true ->
  q_paren (FQ q vs (ren pre g)) (ren pre g) = q_paren (FQ q vs g) g.
Proof.
  intros W. unfold q_paren. rewrite (bwv_spec _ (ren_wf pre g Hpre W)), (bwv_spec _ W), ren_head_var.
  rewrite (un_paren_kind (FQ q vs (ren pre g)) (ren pre g) (FQ q vs g) g) by (reflexivity || apply ren_kind).
  reflexivity.
Qed.

Lemma ren_ends_term f : wf_formula f = true -> ends_term (ren pre f) = ends_term f.
Proof.
  induction f as [a|g IH|c l IHl r IHr|q vs g IH]; cbn [ren wf_formula]; intros W.
  - destruct a as [| |p ts|t gs]; reflexivity.
  - cbn [ends_term].
    rewrite (un_paren_kind (FNot (ren pre g)) (ren pre g) (FNot g) g) by (reflexivity || apply ren_kind).
    rewrite IH by exact W. reflexivity.
  - apply andb_true_iff in W. destruct W as [Wl Wr]. cbn [ends_term].
    rewrite (rhs_paren_kind (FBin c (ren pre l) (ren pre r)) (ren pre r) (FBin c l r) r)
      by (apply bin_kind || apply ren_kind).
    rewrite IHr by exact Wr. reflexivity.
  - apply andb_true_iff in W. destruct W as [_ Wg]. cbn [ends_term].
    rewrite ren_q_paren by exact Wg. rewrite IH by exact Wg. reflexivity.
Qed.

Lemma ren_starts_int f : starts_int (ren pre f) = starts_int f.
Proof.
  induction f as [a|g IH|c l IHl r IHr|q vs g IH]; cbn [ren].
  - destruct a as [| |p ts|t gs]; reflexivity.
  - reflexivity.
  - cbn [starts_int].
    rewrite (lhs_paren_kind (FBin c (ren pre l) (ren pre r)) (ren pre l) (FBin c l r) l)
      by (apply bin_kind || apply ren_kind).
    rewrite IHl. reflexivity.
  - reflexivity.
Qed.

Lemma ren_rimp_neg f : wf_formula f = true -> rimp_neg (ren pre f) = rimp_neg f.
Proof.
  induction f as [a|g IH|c l IHl r IHr|q vs g IH]; cbn [ren wf_formula]; intros W.
  - destruct a; reflexivity.
  - cbn [rimp_neg]. exact (IH W).
  - apply andb_true_iff in W. destruct W as [Wl Wr]. cbn [rimp_neg].
    rewrite (IHl Wl), (IHr Wr).
    rewrite (lhs_paren_kind (FBin c (ren pre l) (ren pre r)) (ren pre l) (FBin c l r) l)
      by (apply bin_kind || apply ren_kind).
    rewrite (rhs_paren_kind (FBin c (ren pre l) (ren pre r)) (ren pre r) (FBin c l r) r)
      by (apply bin_kind || apply ren_kind).
    rewrite (ren_ends_term l Wl), ren_starts_int. reflexivity.
  - apply andb_true_iff in W. destruct W as [_ Wg]. cbn [rimp_neg]. exact (IH Wg).
Qed.
End Ren.

(* ------------------------------------------------------------------ gamma *)
Definition mixed (c : bconn) : bool := match c with CImp | CRimp | CIff => true | CAnd | COr => false end.
Definition is_mixed (f : formula) : bool := match f with FBin c _ _ => mixed c | _ => false end.

Lemma copy_h : copy_prefix "h". Proof. left; reflexivity. Qed.
Lemma copy_t : copy_prefix "t". Proof. right; reflexivity. Qed.

Lemma gamma_kind_nonmixed f : is_mixed f = false -> fkind_of (gamma f) = fkind_of f.
Proof.
  destruct f as [a|g|c l r|q vs g]; cbn [gamma is_mixed]; intros M.
  - rewrite here_ren. apply ren_kind.
  - reflexivity.
  - destruct c; try discriminate; reflexivity.
  - reflexivity.
Qed.
Lemma gamma_nonmixed_bin c l r : mixed c = false -> gamma (FBin c l r) = FBin c (gamma l) (gamma r).
Proof. destruct c; try discriminate; reflexivity. Qed.
Lemma gamma_mixed_bin c l r : mixed c = true ->
  gamma (FBin c l r) = FBin CAnd (FBin c (gamma l) (gamma r)) (FBin c (there l) (there r)).
Proof. destruct c; try discriminate; reflexivity. Qed.

Lemma gamma_mixed_ends f : is_mixed f = true -> ends_term (gamma f) = false.
Proof.
  destruct f as [a|g|c l r|q vs g]; cbn [is_mixed]; try discriminate. intros M.
  rewrite (gamma_mixed_bin c l r M). cbn [ends_term].
  assert (rhs_paren (FBin CAnd (FBin c (gamma l) (gamma r)) (FBin c (there l) (there r))) (FBin c (there l) (there r)) = true) as ->
    by (destruct c; try discriminate; reflexivity).
  reflexivity.
Qed.
Lemma gamma_mixed_starts f : is_mixed f = true -> starts_int (gamma f) = false.
Proof.
  destruct f as [a|g|c l r|q vs g]; cbn [is_mixed]; try discriminate. intros M.
  rewrite (gamma_mixed_bin c l r M). cbn [starts_int].
  assert (lhs_paren (FBin CAnd (FBin c (gamma l) (gamma r)) (FBin c (there l) (there r))) (FBin c (gamma l) (gamma r)) = true) as ->
    by (destruct c; try discriminate; reflexivity).
  reflexivity.
Qed.

Lemma gamma_ends_term f : wf_formula f = true -> ends_term (gamma f) = true -> ends_term f = true.
Proof.
  induction f as [a|g IH|c l IHl r IHr|q vs g IH]; cbn [wf_formula]; intros W.
  - cbn [gamma]. rewrite here_ren, (ren_ends_term "h" copy_h) by exact W. auto.
  - cbn [gamma ends_term]. rewrite there_ren.
    rewrite (un_paren_kind (FNot (ren "t" g)) (ren "t" g) (FNot g) g) by (reflexivity || apply ren_kind).
    rewrite (ren_ends_term "t" copy_t) by exact W. auto.
  - apply andb_true_iff in W. destruct W as [Wl Wr].
    destruct (mixed c) eqn:Mc.
    + rewrite (gamma_mixed_ends (FBin c l r)) by exact Mc. discriminate.
    + rewrite (gamma_nonmixed_bin c l r Mc). cbn [ends_term].
      destruct (is_mixed r) eqn:Mr.
      * rewrite (gamma_mixed_ends r Mr). destruct (rhs_paren _ _); discriminate.
      * rewrite (rhs_paren_kind (FBin c (gamma l) (gamma r)) (gamma r) (FBin c l r) r)
          by (apply bin_kind || apply gamma_kind_nonmixed, Mr).
        destruct (rhs_paren (FBin c l r) r); [discriminate|]. apply IHr, Wr.
  - apply andb_true_iff in W. destruct W as [_ Wg]. cbn [gamma ends_term].
    destruct (is_mixed g) eqn:Mg.
    + rewrite (gamma_mixed_ends g Mg). destruct (q_paren _ _); discriminate.
    + assert (Q : q_paren (FQ q vs (gamma g)) (gamma g) = q_paren (FQ q vs g) g).
      { unfold q_paren. rewrite (bwv_spec _ (gamma_wf g Wg)), (bwv_spec _ Wg).
        rewrite (un_paren_kind (FQ q vs (gamma g)) (gamma g) (FQ q vs g) g)
          by (reflexivity || apply gamma_kind_nonmixed, Mg).
        destruct g as [a|g'|c l r|q' vs' g'].
        - cbn [gamma]. rewrite here_ren, ren_head_var. reflexivity.
        - reflexivity.
        - cbn [is_mixed] in Mg. destruct c; try discriminate; rewrite !orb_true_r; reflexivity.
        - reflexivity. }
      rewrite Q. destruct (q_paren (FQ q vs g) g); [discriminate|]. apply IH, Wg.
Qed.

Lemma gamma_starts_int f : starts_int (gamma f) = true -> starts_int f = true.
Proof.
  induction f as [a|g IH|c l IHl r IHr|q vs g IH].
  - cbn [gamma]. rewrite here_ren, ren_starts_int. auto.
  - discriminate.
  - destruct (mixed c) eqn:Mc.
    + rewrite (gamma_mixed_starts (FBin c l r)) by exact Mc. discriminate.
    + rewrite (gamma_nonmixed_bin c l r Mc). cbn [starts_int].
      destruct (is_mixed l) eqn:Ml.
      * rewrite (gamma_mixed_starts l Ml). destruct (lhs_paren _ _); discriminate.
      * rewrite (lhs_paren_kind (FBin c (gamma l) (gamma r)) (gamma l) (FBin c l r) l)
          by (apply bin_kind || apply gamma_kind_nonmixed, Ml).
        destruct (lhs_paren (FBin c l r) l); [discriminate|]. exact IHl.
  - discriminate.
Qed.

Theorem gamma_rimp_neg f : wf_formula f = true -> rimp_neg (gamma f) = true -> rimp_neg f = true.
Proof.
  induction f as [a|g IH|c l IHl r IHr|q vs g IH]; cbn [wf_formula]; intros W.
  - cbn [gamma]. rewrite here_ren. destruct a; discriminate.
  - cbn [gamma rimp_neg]. rewrite there_ren, (ren_rimp_neg "t" copy_t) by exact W. auto.
  - apply andb_true_iff in W. destruct W as [Wl Wr].
    destruct (mixed c) eqn:Mc.
    + rewrite (gamma_mixed_bin c l r Mc).
      assert (T : rimp_neg (FBin c (there l) (there r)) = rimp_neg (FBin c l r)).
      { rewrite !there_ren. change (FBin c (ren "t" l) (ren "t" r)) with (ren "t" (FBin c l r)).
        apply (ren_rimp_neg "t" copy_t). cbn [wf_formula]. rewrite Wl, Wr. reflexivity. }
      cbn [rimp_neg] in T |- *. intros H.
      rewrite orb_false_r in H. apply orb_true_iff in H. destruct H as [H|H]; [|rewrite <- T; exact H].
      apply orb_true_iff in H. destruct H as [H|H].
      * apply orb_true_iff in H. destruct H as [H|H]; [rewrite (IHl Wl H)|rewrite (IHr Wr H), orb_true_r]; reflexivity.
      * destruct c; try discriminate.
        apply andb_true_iff in H. destruct H as [H Hs]. apply andb_true_iff in H. destruct H as [H Hpr].
        apply andb_true_iff in H. destruct H as [Hpl He].
        destruct (is_mixed l) eqn:Ml; [rewrite (gamma_mixed_ends l Ml) in He; discriminate|].
        destruct (is_mixed r) eqn:Mr; [rewrite (gamma_mixed_starts r Mr) in Hs; discriminate|].
        rewrite (lhs_paren_kind (FBin CRimp (gamma l) (gamma r)) (gamma l) (FBin CRimp l r) l) in Hpl
          by (reflexivity || apply gamma_kind_nonmixed, Ml).
        rewrite (rhs_paren_kind (FBin CRimp (gamma l) (gamma r)) (gamma r) (FBin CRimp l r) r) in Hpr
          by (reflexivity || apply gamma_kind_nonmixed, Mr).
        rewrite Hpl, Hpr, (gamma_ends_term l Wl He), (gamma_starts_int r Hs). rewrite !orb_true_r. reflexivity.
    + rewrite (gamma_nonmixed_bin c l r Mc). cbn [rimp_neg]. intros H.
      assert (match c with CRimp => false | _ => true end = true) as Hc by (destruct c; try discriminate; reflexivity).
      destruct c; try discriminate; rewrite orb_false_r in H |- *;
        apply orb_true_iff in H; destruct H as [H|H];
        [rewrite (IHl Wl H)|rewrite (IHr Wr H), orb_true_r|rewrite (IHl Wl H)|rewrite (IHr Wr H), orb_true_r]; reflexivity.
  - apply andb_true_iff in W. destruct W as [_ Wg]. cbn [gamma rimp_neg]. exact (IH Wg).
Qed.

(* ------------------------------------------------------------------ the output of gamma re-parses *)
Theorem gamma_known_class f : wf_formula f = true -> known_class f = None -> known_class (gamma f) = None.
Proof.
  intros W. unfold known_class.
  destruct (keyword_ident f) eqn:K; [discriminate|]. destruct (rimp_neg f) eqn:R; [discriminate|]. intros _.
  destruct (keyword_ident (gamma f)) eqn:K'; [rewrite (gamma_keyword_ident f K') in K; discriminate|].
  destruct (rimp_neg (gamma f)) eqn:R'; [rewrite (gamma_rimp_neg f W R') in R; discriminate|]. reflexivity.
Qed.

Theorem gamma_theory_known_class t : wf_theory t = true -> known_class_theory t = None ->
  known_class_theory (gamma_theory t) = None.
Proof.
  unfold wf_theory, known_class_theory, gamma_theory.
  induction t as [|f t IH]; cbn [map forallb first_some]; [reflexivity|].
  intros W. apply andb_true_iff in W. destruct W as [Wf Wt].
  destruct (known_class f) eqn:K; [discriminate|]. intros Kt.
  rewrite (gamma_known_class f Wf K). apply IH; assumption.
Qed.

Theorem gamma_output_reparses t : wf_theory t = true -> known_class_theory t = None ->
  wf_theory (gamma_theory t) = true /\ known_class_theory (gamma_theory t) = None /\
  parse_theory_str (show_theory (gamma_theory t)) = PR_ok (gamma_theory t).
Proof.
  intros W K. pose proof (gamma_theory_wf t W) as W'. pose proof (gamma_theory_known_class t W K) as K'.
  split; [exact W'|]. split; [exact K'|]. apply text_theory; assumption.
Qed.

(* ------------------------------------------------------------------ CLI corollaries *)
From Anthem Require Import Model.Cli Proofs.CliOk Proofs.FolImage.

Theorem cli_translate_gamma_feeds_back s out :
  run_cli (Translate Gamma) s = Stdout out ->
  exists t,
    parse_theory_str s = PR_ok t /\ out = show_theory (gamma_theory t) /\
    (known_class_theory t = None ->
     known_class_theory (gamma_theory t) = None /\
     parse_theory_str out = PR_ok (gamma_theory t) /\ run_cli (Parse Theory) out = Stdout out).
Proof.
  unfold run_cli; cbn [run_cli_fuel run_translate]. intros E.
  apply theory_bind_stdout in E. destruct E as (t & Et & E).
  apply print_theory_inj_stdout in E. subst out.
  exists t. split; [exact Et|]. split; [reflexivity|]. intros K.
  destruct (gamma_output_reparses t (image_theory_str s t Et) K) as (_ & K' & R).
  split; [exact K'|]. split; [exact R|].
  unfold run_cli; cbn [run_cli_fuel run_parse]. unfold theory_from_file. rewrite R. reflexivity.
Qed.

(* NOT a statement about the simplifier: the text round trip (Proofs/FolLexOk.text_theory) restated for
   whatever theory g `simplify` prints.  Its premises, well-formedness and class-freedom of g, are
   properties of the OUTPUT, i.e. exactly what a theorem about `simplify` would have to establish; they
   are FALSE in general (every portfolio creates members of the classes from class-free input,
   Properties/C15out.v: C15_simplify_creates_RIMP, C15_simplify_creates_F7b_split, _subst).  Kept only as the glue
   the op fol_output_reparses relies on: a printed theory that is well-formed and outside the classes
   must be fed back. *)
Theorem cli_simplify_text_round_trip_restated pf st s out :
  run_cli (Simplify pf st) s = Stdout out ->
  exists t g,
    parse_theory_str s = PR_ok t /\ simplify_theory pf st t = Got g /\ out = show_theory g /\
    (wf_theory g = true -> known_class_theory g = None ->
     parse_theory_str out = PR_ok g /\ run_cli (Parse Theory) out = Stdout out).
Proof.
  unfold run_cli; cbn [run_cli_fuel]; unfold run_simplify_fuel. intros E.
  apply theory_bind_stdout in E. destruct E as (t & Et & E).
  fold (simplify_theory pf st t) in E.
  destruct (simplify_theory pf st t) as [g|r] eqn:Es; cbn [bind] in E.
  - apply print_theory_inj_stdout in E. subst out.
    exists t, g. split; [exact Et|]. split; [exact Es|]. split; [reflexivity|]. intros W K.
    pose proof (text_theory g W K) as R. split; [exact R|].
    unfold run_cli; cbn [run_cli_fuel run_parse]. unfold theory_from_file. rewrite R. reflexivity.
  - exfalso.
    assert (Hn : forall t r, simplify_theory_fuel classic_fuel pf st t = Stop r -> r = Panic \/ r = OutOfFuel).
    { clear. induction t as [|F t IH]; intros r; cbn [simplify_theory_fuel]; [discriminate|].
      destruct (simplify_formula_fuel classic_fuel pf st F) as [G|r0] eqn:EF.
      - destruct (simplify_theory_fuel classic_fuel pf st t) as [Gs|r1]; [discriminate|].
        intros [= <-]. apply IH; reflexivity.
      - intros [= <-]. unfold simplify_formula_fuel in EF. destruct pf.
        + destruct (StrategyCls.run_strategy_opt _ _ _ F); inversion EF; auto.
        + destruct (Strategy.run_strategy _ _ _ F); inversion EF; auto.
        + destruct (Strategy.run_strategy _ _ _ F); inversion EF; auto. }
    destruct (Hn t r Es) as [-> | ->]; discriminate E.
Qed.
