(* C13: proof outlines.
   - induction_sound (C13_induction): validity of the base and step obligations of an accepted
     inductive lemma implies validity of the lemma (integer induction from n, any sign of n; the
     induction variable may be re-bound inside F - all of that is inside the substitution lemma,
     which is a Section hypothesis here and is proved by the C17 cluster);
   - definition_conservative (C13_definition): an accepted definition is a definitional extension:
     every interpretation can be changed on the defined predicate only so that the definition holds;
   - def_chain / defs_conservative: the same for the sequence of definitions of an outline;
   - what from_specification accepts (loop invariant). *)
From Coq Require Import List Ascii String ZArith NArith Bool Lia.
From Anthem Require Import Base.ISet Base.Fresh Syntax.Fol Sem.Domain Sem.Sat
  Model.Subst Model.Problem Model.Outline Proofs.SemBase.
Import ListNotations.
Open Scope string_scope.
Open Scope list_scope.

(* ---------- boolean set tests ---------- *)
Lemma subsetb_spec {A} (dec : forall x y : A, {x = y} + {x <> y}) a b :
  subsetb dec a b = true <-> (forall x, In x a -> In x b).
Proof.
  unfold subsetb. rewrite forallb_forall. split; intros H x Hx; specialize (H x Hx).
  - destruct (memb_spec dec x b); [assumption|discriminate].
  - destruct (memb_spec dec x b); [reflexivity|contradiction].
Qed.
Lemma set_eqb_spec {A} (dec : forall x y : A, {x = y} + {x <> y}) a b :
  set_eqb dec a b = true <-> (forall x, In x a <-> In x b).
Proof.
  unfold set_eqb. rewrite andb_true_iff, !subsetb_spec. split.
  - intros [H1 H2] x. split; auto.
  - intros H. split; intros x; apply H.
Qed.
Lemma in_iset_of_list {A} (dec : forall x y : A, {x = y} + {x <> y}) l x : In x (iset_of_list dec l) <-> In x l.
Proof. unfold iset_of_list. rewrite (in_iset_extend dec). cbn. tauto. Qed.

(* ================= C13_induction ================= *)
Section Induction.
(* the substitution lemma (C17), in the shape proved by the `subst` cluster *)
Hypothesis subst_sem : forall F x t G, sort_ok x t = true -> substitute F x t = Some G ->
  forall FI I e, csat FI I e G <-> csat FI I (upd e x (ev_g FI e t)) F.

(* the shape of an accepted inductive lemma *)
Lemma inductive_lemma_shape f base step : inductive_lemma f = Ok (base, step) ->
  exists vs v n rhs b s,
    f = FQ QForall vs (FBin CImp (FAtomic (ACmp (GInt (IVar v)) [mkguard RGe (GInt (INum n))])) rhs) /\
    substitute rhs (mkvar v SInteger) (GInt (INum n)) = Some b /\
    substitute rhs (mkvar v SInteger) (GInt (IBin BAdd (IVar v) (INum 1))) = Some s /\
    base = universal_closure b /\
    step = universal_closure (FBin CImp (FBin CAnd (FAtomic (ACmp (GInt (IVar v)) [mkguard RGe (GInt (INum n))])) rhs) s).
Proof.
  unfold inductive_lemma. intros H.
  destruct f as [|?|?|q vs body]; try discriminate. destruct q; try discriminate.
  destruct body as [|?|c lhs rhs|]; try discriminate. destruct c; try discriminate.
  destruct lhs as [a|?|?|]; try discriminate. destruct a as [| |?|term guards]; try discriminate.
  destruct guards as [|guard [|? ?]]; try discriminate.
  destruct (negb (set_eqb var_dec (iset_of_list var_dec vs) (free_variables rhs))); try discriminate.
  destruct term as [| |?|?|it|?]; try discriminate. destruct it as [?|?|v|?|?]; try discriminate.
  destruct guard as [rl gt]. cbn [grel gterm_of] in H.
  destruct rl; try discriminate. destruct gt as [| |?|?|it|?]; try discriminate.
  destruct it as [n|?|?|?|?]; try discriminate.
  destruct (substitute rhs (mkvar v SInteger) (GInt (INum n))) as [b|] eqn:Eb;
    destruct (substitute rhs (mkvar v SInteger) (GInt (IBin BAdd (IVar v) (INum 1)))) as [s|] eqn:Es; try discriminate.
  injection H as <- <-. exists vs, v, n, rhs, b, s. repeat split; auto.
Qed.

Lemma upd_int_same e v z : ei e v = z -> env_same (upd e (mkvar v SInteger) (VNum z)) e.
Proof. intros <-. exact (upd_getv_same e (mkvar v SInteger)). Qed.
Lemma upd_int_twice e v a b :
  env_same (upd (upd e (mkvar v SInteger) (VNum a)) (mkvar v SInteger) (VNum b)) (upd e (mkvar v SInteger) (VNum b)).
Proof.
  intros w. destruct (var_dec w (mkvar v SInteger)) as [->|Hne].
  - rewrite !getv_upd_same; cbn; auto.
  - rewrite !getv_upd_other; auto.
Qed.
Lemma ei_upd_int e v z : ei (upd e (mkvar v SInteger) (VNum z)) v = z.
Proof. cbn. rewrite String.eqb_refl. reflexivity. Qed.

Lemma chain_ge FI I e v n :
  csat FI I e (FAtomic (ACmp (GInt (IVar v)) [mkguard RGe (GInt (INum n))])) <-> (n <= ei e v)%Z.
Proof. cbn. rewrite andb_true_r. apply Z.leb_le. Qed.

Theorem induction_sound f base step FI I :
  inductive_lemma f = Ok (base, step) -> cvalid FI I base -> cvalid FI I step -> cvalid FI I f.
Proof.
  intros Hf Hb Hs. destruct (inductive_lemma_shape f base step Hf) as [vs [v [n [rhs [b [s [-> [Eb [Es [-> ->]]]]]]]]]].
  apply (proj1 (cvalid_universal_closure FI I _)) in Hb. apply (proj1 (cvalid_universal_closure FI I _)) in Hs.
  set (x := mkvar v SInteger) in *.
  (* every assignment whose value of the induction variable is n + k satisfies the body *)
  assert (Hind : forall k : nat, forall e, ei e v = (n + Z.of_nat k)%Z -> csat FI I e rhs).
  { induction k as [|k IH]; intros e He.
    - specialize (Hb e). apply (proj1 (subst_sem rhs x (GInt (INum n)) b eq_refl Eb FI I e)) in Hb. cbn [ev_g ev_i] in Hb.
      refine (proj1 (csat_same FI I rhs _ e _) Hb). apply upd_int_same. rewrite He. cbn. lia.
    - set (e0 := upd e x (VNum (n + Z.of_nat k))).
      assert (He0 : ei e0 v = (n + Z.of_nat k)%Z) by apply ei_upd_int.
      pose proof (IH e0 He0) as Hk. specialize (Hs e0). cbn [csat] in Hs.
      assert (Hchain : csat FI I e0 (FAtomic (ACmp (GInt (IVar v)) [mkguard RGe (GInt (INum n))]))).
      { apply chain_ge. rewrite He0. lia. }
      specialize (Hs (conj Hchain Hk)).
      apply (proj1 (subst_sem rhs x (GInt (IBin BAdd (IVar v) (INum 1))) s eq_refl Es FI I e0)) in Hs. cbn [ev_g ev_i] in Hs. rewrite He0 in Hs.
      refine (proj1 (csat_same FI I rhs _ e _) Hs).
      intros w. unfold e0. rewrite (upd_int_twice e v _ _ w). apply upd_int_same. rewrite He. lia. }
  intros e. cbn [csat]. apply qsat_forall_intro. intros e' Hc.
  apply chain_ge in Hc.
  apply (Hind (Z.to_nat (ei e' v - n))). rewrite Z2Nat.id; lia.
Qed.
End Induction.

(* ================= C13_definition ================= *)
Lemma gterm_to_var_ev FI t v : gterm_to_var t = Some v -> forall e, ev_g FI e t = getv e v.
Proof.
  destruct t as [| |c|x|it|st]; cbn; try discriminate.
  - intros [= <-] e. reflexivity.
  - destruct it; try discriminate. intros [= <-] e. reflexivity.
  - destruct st; try discriminate. intros [= <-] e. reflexivity.
Qed.

Lemma terms_as_vars_in ts : forall acc tv, terms_as_vars ts acc = Some tv ->
  (forall t, In t ts -> exists v, gterm_to_var t = Some v) /\
  (forall v, In v tv -> In v acc \/ exists t, In t ts /\ gterm_to_var t = Some v).
Proof.
  induction ts as [|t ts IH]; intros acc tv; cbn.
  - intros [= <-]. split; [intros t []|auto].
  - destruct (gterm_to_var t) as [v|] eqn:Ev; [|discriminate]. intros H.
    destruct (IH _ _ H) as [H1 H2]. split.
    + intros t' [<-|Ht']; [eauto|apply H1, Ht'].
    + intros w Hw. destruct (H2 w Hw) as [Hacc|[t' [Ht' Hv]]].
      * apply (in_iset_insert var_dec) in Hacc. destruct Hacc as [Hacc| ->]; [auto|].
        right. exists t. split; [left; reflexivity|exact Ev].
      * right. exists t'. split; [right; exact Ht'|exact Hv].
Qed.

Lemma map_eq_in {A B} (f g : A -> B) l : map f l = map g l -> forall x, In x l -> f x = g x.
Proof.
  induction l as [|a l IH]; cbn; [tauto|]. intros H x [<-|Hx]; [injection H; auto|].
  apply IH; [injection H; auto|exact Hx].
Qed.

(* the shape and the side conditions of an accepted definition *)
Lemma definition_shape f taken p w : definition f taken = Ok (p, w) ->
  exists vs q ts rhs tv,
    f = FQ QForall vs (FBin CIff (FAtomic (AAtom q ts)) rhs) /\ p = mkpred q (List.length ts) /\
    NoDup vs /\
    terms_as_vars ts [] = Some tv /\ (forall v, In v vs <-> In v tv) /\
    ~ In p taken /\ (forall v, In v (free_variables rhs) -> In v vs) /\
    (forall r, In r (predicates rhs) -> In r taken).
Proof.
  unfold definition. intros H.
  destruct f as [|?|?|q vs body]; try discriminate. destruct q; try discriminate.
  destruct body as [|?|c lhs rhs|]; try discriminate. destruct c; try discriminate.
  destruct lhs as [a|?|?|]; try discriminate. destruct a as [| |q ts|]; try discriminate.
  destruct (Nat.ltb (List.length (iset_of_list var_dec vs)) (List.length vs)) eqn:Elen; [discriminate|].
  destruct (terms_as_vars ts []) as [tv|] eqn:Etv; [|discriminate].
  destruct (set_eqb var_dec (iset_of_list var_dec vs) tv) eqn:Eset; cbn [negb] in H; [|discriminate].
  destruct (memb_spec pred_dec (mkpred q (List.length ts)) taken) as [|Hfresh]; [discriminate|].
  destruct (subsetb var_dec (free_variables rhs) (iset_of_list var_dec vs)) eqn:Efv; cbn [negb] in H; [|discriminate].
  destruct (subsetb pred_dec (predicates rhs) taken) eqn:Epr; cbn [negb] in H; [|discriminate].
  injection H as <- _. exists vs, q, ts, rhs, tv. repeat split; auto.
  - (* no duplicates: the duplicate-free list is not shorter *)
    apply Nat.ltb_ge in Elen.
    assert (Hnd : NoDup (iset_of_list var_dec vs)) by (apply nodup_iset_extend; constructor).
    assert (Hincl : incl vs (iset_of_list var_dec vs)) by (intros x Hx; apply in_iset_of_list, Hx).
    apply (NoDup_incl_NoDup Hnd); [exact Elen|]. intros x Hx. apply in_iset_of_list in Hx. exact Hx.
  - intros Hv. apply (proj1 (set_eqb_spec var_dec _ _) Eset). apply in_iset_of_list, Hv.
  - intros Hv. apply in_iset_of_list with (dec := var_dec). apply (proj1 (set_eqb_spec var_dec _ _) Eset), Hv.
  - intros v Hv. apply in_iset_of_list with (dec := var_dec). apply (proj1 (subsetb_spec var_dec _ _) Efv), Hv.
  - apply (proj1 (subsetb_spec pred_dec _ _) Epr).
Qed.

(* predicates of an accepted definition: the defined one and taken ones *)
Lemma definition_predicates f taken p w : definition f taken = Ok (p, w) ->
  forall r, In r (predicates f) -> r = p \/ In r taken.
Proof.
  intros H. destruct (definition_shape f taken p w H) as [vs [q [ts [rhs [tv [-> [-> [_ [_ [_ [_ [_ Hp]]]]]]]]]]]].
  intros r Hr. cbn in Hr. apply (in_iset_extend pred_dec) in Hr. destruct Hr as [[<-|[]]|Hr]; [left; reflexivity|right; apply Hp, Hr].
Qed.

(* the extension of M by the defined predicate *)
Definition extend_by (FI : fint) (M : pint) (q : string) (ts : list gterm) (rhs : formula) : pint :=
  fun r a =>
    (r = q /\ List.length a = List.length ts /\ exists e, map (ev_g FI e) ts = a /\ csat FI M e rhs)
    \/ (~ (r = q /\ List.length a = List.length ts) /\ M r a).

Theorem definition_conservative f taken p w : definition f taken = Ok (p, w) ->
  forall FI M, exists M',
    (forall r a, mkpred r (List.length a) <> p -> (M' r a <-> M r a)) /\ cvalid FI M' f.
Proof.
  intros H FI M. destruct (definition_shape f taken p w H) as [vs [q [ts [rhs [tv [-> [-> [Hnd [Etv [Hset [Hfresh [Hfv Hpr]]]]]]]]]]]].
  exists (extend_by FI M q ts rhs). split.
  - intros r a Hne. unfold extend_by. split.
    + intros [[-> [El _]]|[_ Hm]]; [exfalso; apply Hne; rewrite El; reflexivity|exact Hm].
    + intros Hm. right. split; [|exact Hm]. intros [-> El]. apply Hne. rewrite El. reflexivity.
  - intros e0. cbn [csat]. apply qsat_forall_intro. intros e. cbn [csat asat].
    assert (Hrhs : csat FI (extend_by FI M q ts rhs) e rhs <-> csat FI M e rhs).
    { apply csat_pagree. intros r a Hin. unfold extend_by. split.
      - intros [[-> [El _]]|[_ Hm]]; [|exact Hm]. exfalso. apply Hfresh. apply Hpr. rewrite <- El. exact Hin.
      - intros Hm. right. split; [|exact Hm]. intros [-> El]. apply Hfresh. apply Hpr. rewrite <- El. exact Hin. }
    rewrite Hrhs. unfold extend_by. split.
    + intros [[_ [_ [e' [Emap Hsat]]]]|[Hn _]]; [|exfalso; apply Hn; split; [reflexivity|apply map_length]].
      apply (csat_agree FI M rhs e' e); [|exact Hsat].
      intros v Hv. apply Hfv in Hv. apply Hset in Hv.
      destruct (proj2 (terms_as_vars_in ts [] tv Etv) v Hv) as [[]|[t [Ht Etv']]].
      rewrite <- (gterm_to_var_ev FI t v Etv' e'), <- (gterm_to_var_ev FI t v Etv' e).
      apply (map_eq_in _ _ ts Emap t Ht).
    + intros Hsat. left. split; [reflexivity|]. split; [apply map_length|]. exists e. auto.
Qed.

(* ================= sequences of definitions ================= *)
(* each definition is accepted w.r.t. a set of taken predicates that contains the initial one, the
   predicates defined before and possibly more (definitions of the other direction) *)
Inductive def_chain : list pred -> list formula -> Prop :=
| dc_nil taken : def_chain taken []
| dc_cons taken taken' f p w rest :
    definition f taken = Ok (p, w) -> incl (p :: taken) taken' -> def_chain taken' rest ->
    def_chain taken (f :: rest)
| dc_weaken taken taken' fs : incl taken taken' -> def_chain taken' fs -> def_chain taken fs.

Theorem defs_conservative taken fs : def_chain taken fs ->
  forall FI M, exists M', pagree taken M M' /\ (forall f, In f fs -> cvalid FI M' f).
Proof.
  induction 1 as [taken|taken taken' f p w rest Hd Hincl Hrest IH|taken taken' fs Hincl Hrest IH]; intros FI M.
  - exists M. split; [intros r a _; tauto|intros f []].
  - destruct (definition_conservative f taken p w Hd FI M) as [M1 [Hoff Hf]].
    destruct (IH FI M1) as [M' [Hag Hv]]. exists M'. split.
    + intros r a Hin. rewrite <- (Hag r a (Hincl _ (or_intror Hin))). symmetry. apply Hoff.
      intros E. destruct (definition_shape f taken p w Hd) as [_ [_ [_ [_ [_ [_ [_ [_ [_ [_ [Hfresh _]]]]]]]]]]].
      apply Hfresh. rewrite <- E. exact Hin.
    + intros g [<-|Hg]; [|apply Hv, Hg].
      apply (cvalid_pagree FI M1 M' f); [|exact Hf].
      intros r a Hin. apply Hag. destruct (definition_predicates f taken p w Hd _ Hin) as [E|Ht];
        apply Hincl; [left; symmetry; exact E|right; exact Ht].
  - destruct (IH FI M) as [M' [Hag Hv]]. exists M'. split; [|exact Hv].
    intros r a Hin. apply Hag, Hincl, Hin.
Qed.

(* predicates of the definitions of a chain: taken ones and defined ones - never constrained
   beyond the chain: the defined predicates are outside the initial taken set *)
Lemma def_chain_incl taken taken0 fs : incl taken0 taken -> def_chain taken fs -> def_chain taken0 fs.
Proof. intros Hi Hc. exact (dc_weaken taken0 taken fs Hi Hc). Qed.

(* ================= lemmas ================= *)
(* a general lemma is sound if the truth of its conjectures implies the truth of its consequences *)
Definition lemma_sound (g : general_lemma) : Prop :=
  forall FI M, (forall c, In c (gl_conjectures g) -> cvalid FI M (pf_formula c)) ->
               (forall c, In c (gl_consequences g) -> cvalid FI M (pf_formula c)).
Definition lemma_roles (g : general_lemma) : Prop :=
  (forall c, In c (gl_conjectures g) -> pf_role c = PConjecture) /\
  (forall c, In c (gl_consequences g) -> pf_role c = PAxiom).

Section Lemmas.
Hypothesis subst_sem : forall F x t G, sort_ok x t = true -> substitute F x t = Some G ->
  forall FI I e, csat FI I e G <-> csat FI I (upd e x (ev_g FI e t)) F.

Theorem try_from_sound a g : general_lemma_try_from a = Ok g -> lemma_sound g /\ lemma_roles g.
Proof.
  unfold general_lemma_try_from. destruct (an_role a); try discriminate.
  - intros [= <-]. split.
    + intros FI M Hc c [<-|[]]. apply (Hc (into_problem_formula a PConjecture)). left; reflexivity.
    + split; intros c [<-|[]]; reflexivity.
  - destruct (inductive_lemma (an_formula a)) as [[base step]|e|] eqn:Ei; try discriminate.
    intros [= <-]. split.
    + intros FI M Hc c [<-|[]]. cbn.
      apply (induction_sound subst_sem (an_formula a) base step FI M Ei).
      * apply (Hc (mkpf (an_name a ++ "base_case") PConjecture base)). left; reflexivity.
      * apply (Hc (mkpf (an_name a ++ "inductive_step") PConjecture step)). right; left; reflexivity.
    + split; [intros c [<-|[<-|[]]]; reflexivity|intros c [<-|[]]; reflexivity].
Qed.

(* what from_specification accepts *)
Definition outline_ok (taken : list pred) (o0 o : proof_outline) : Prop :=
  exists fd bd fl bl,
    forward_definitions o = forward_definitions o0 ++ fd /\ backward_definitions o = backward_definitions o0 ++ bd /\
    forward_lemmas o = forward_lemmas o0 ++ fl /\ backward_lemmas o = backward_lemmas o0 ++ bl /\
    def_chain taken (map an_formula fd) /\ def_chain taken (map an_formula bd) /\
    Forall (fun g => lemma_sound g /\ lemma_roles g) fl /\ Forall (fun g => lemma_sound g /\ lemma_roles g) bl.

Lemma outline_ok_lemma taken taken' o0 o' o g (df db : bool) :
  incl taken taken' ->
  forward_lemmas o' = forward_lemmas o0 ++ (if df then [g] else []) ->
  backward_lemmas o' = backward_lemmas o0 ++ (if db then [g] else []) ->
  forward_definitions o' = forward_definitions o0 -> backward_definitions o' = backward_definitions o0 ->
  lemma_sound g /\ lemma_roles g -> outline_ok taken' o' o -> outline_ok taken o0 o.
Proof.
  intros Hincl E1 E2 E3 E4 Hg [fd [bd [fl [bl [F1 [F2 [F3 [F4 [C1 [C2 [L1 L2]]]]]]]]]]].
  exists fd, bd, ((if df then [g] else []) ++ fl), ((if db then [g] else []) ++ bl).
  rewrite F1, F2, F3, F4, E1, E2, E3, E4, <- !app_assoc. repeat split; auto.
  - eapply dc_weaken; eauto.
  - eapply dc_weaken; eauto.
  - destruct df; cbn; [constructor; auto|auto].
  - destruct db; cbn; [constructor; auto|auto].
Qed.

Lemma outline_ok_def taken o0 o' o anf p w (df db : bool) :
  definition (an_formula anf) taken = Ok (p, w) ->
  forward_definitions o' = forward_definitions o0 ++ (if df then [anf] else []) ->
  backward_definitions o' = backward_definitions o0 ++ (if db then [anf] else []) ->
  forward_lemmas o' = forward_lemmas o0 -> backward_lemmas o' = backward_lemmas o0 ->
  outline_ok (iset_insert pred_dec taken p) o' o -> outline_ok taken o0 o.
Proof.
  intros Hd E1 E2 E3 E4 [fd [bd [fl [bl [F1 [F2 [F3 [F4 [C1 [C2 [L1 L2]]]]]]]]]]].
  exists ((if df then [anf] else []) ++ fd), ((if db then [anf] else []) ++ bd), fl, bl.
  rewrite F1, F2, F3, F4, E1, E2, E3, E4, <- !app_assoc.
  assert (Hincl : incl (p :: taken) (iset_insert pred_dec taken p)).
  { intros x [<-|Hx]; apply (in_iset_insert pred_dec); auto. }
  assert (Hincl' : incl taken (iset_insert pred_dec taken p)).
  { intros x Hx; apply (in_iset_insert pred_dec); auto. }
  repeat split; auto.
  - destruct df; cbn; [eapply dc_cons; eauto|eapply dc_weaken; eauto].
  - destruct db; cbn; [eapply dc_cons; eauto|eapply dc_weaken; eauto].
Qed.

Theorem from_specification_loop_ok m : forall l taken o0 ws o ws',
  from_specification_loop l taken m o0 ws = Ok (o, ws') -> outline_ok taken o0 o.
Proof.
  induction l as [|anf0 l IH]; intros taken o0 ws o ws'; cbn [from_specification_loop].
  - intros [= <- _]. exists [], [], [], []. rewrite !app_nil_r. repeat split; auto; constructor.
  - set (anf := rp_annot m anf0).
    assert (Hlemma : forall closed,
      match general_lemma_try_from closed with
      | Err e => Err e
      | Panic => Panic
      | Ok g =>
          from_specification_loop l (iset_extend pred_dec taken (predicates (an_formula anf))) m
            match an_dir anf with
            | DUniversal => mkoutline (forward_lemmas o0 ++ [g]) (backward_lemmas o0 ++ [g]) (forward_definitions o0) (backward_definitions o0)
            | DForward => mkoutline (forward_lemmas o0 ++ [g]) (backward_lemmas o0) (forward_definitions o0) (backward_definitions o0)
            | DBackward => mkoutline (forward_lemmas o0) (backward_lemmas o0 ++ [g]) (forward_definitions o0) (backward_definitions o0)
            end ws
      end = Ok (o, ws') -> outline_ok taken o0 o).
    { intros closed. destruct (general_lemma_try_from closed) as [g|e|] eqn:Eg; try discriminate.
      intros Hrec. apply IH in Hrec. pose proof (try_from_sound closed g Eg) as Hg.
      assert (Hincl : incl taken (iset_extend pred_dec taken (predicates (an_formula anf)))).
      { intros x Hx. apply (in_iset_extend pred_dec). auto. }
      destruct (an_dir anf).
      - apply (outline_ok_lemma taken _ o0 _ o g true true Hincl) in Hrec; auto; cbn; rewrite ?app_nil_r; reflexivity.
      - apply (outline_ok_lemma taken _ o0 _ o g true false Hincl) in Hrec; auto; cbn; rewrite ?app_nil_r; reflexivity.
      - apply (outline_ok_lemma taken _ o0 _ o g false true Hincl) in Hrec; auto; cbn; rewrite ?app_nil_r; reflexivity. }
    destruct (an_role anf) eqn:Erole; try discriminate.
    + apply Hlemma.
    + destruct (definition (an_formula anf) taken) as [[p w]|e|] eqn:Ed; try discriminate.
      intros Hrec. apply IH in Hrec. destruct (an_dir anf).
      * apply (outline_ok_def taken o0 _ o anf p w true true Ed) in Hrec; auto; cbn; rewrite ?app_nil_r; reflexivity.
      * apply (outline_ok_def taken o0 _ o anf p w true false Ed) in Hrec; auto; cbn; rewrite ?app_nil_r; reflexivity.
      * apply (outline_ok_def taken o0 _ o anf p w false true Ed) in Hrec; auto; cbn; rewrite ?app_nil_r; reflexivity.
    + apply Hlemma.
Qed.

Corollary from_specification_ok s taken m o ws :
  from_specification s taken m = Ok (o, ws) ->
  def_chain taken (map an_formula (forward_definitions o)) /\
  def_chain taken (map an_formula (backward_definitions o)) /\
  Forall (fun g => lemma_sound g /\ lemma_roles g) (forward_lemmas o) /\
  Forall (fun g => lemma_sound g /\ lemma_roles g) (backward_lemmas o).
Proof.
  intros H. apply from_specification_loop_ok in H.
  destruct H as [fd [bd [fl [bl [F1 [F2 [F3 [F4 [C1 [C2 [L1 L2]]]]]]]]]]]. cbn in F1, F2, F3, F4. subst. auto.
Qed.
End Lemmas.

(* ================= freshness of defined predicates (finding F12, repaired) ================= *)
Definition defined_pred (f : formula) : option pred :=
  match f with
  | FQ QForall _ (FBin CIff (FAtomic (AAtom q ts)) _) => Some (mkpred q (List.length ts))
  | _ => None
  end.

(* the letter of C13: the predicate defined by an entry occurs nowhere in the task ([seen] starts
   as the taken predicates) nor in any earlier outline entry (lemma or definition) *)
Fixpoint strictly_fresh (m : placeholders) (l : specification) (seen : list pred) : Prop :=
  match l with
  | [] => True
  | a0 :: l' =>
      let a := rp_annot m a0 in
      (match an_role a with
       | RDefinition => forall p, defined_pred (an_formula a) = Some p -> ~ In p seen
       | _ => True
       end)
      /\ strictly_fresh m l' (seen ++ predicates (an_formula a))
  end.

(* the former known class F12 (a definition that defines a predicate occurring in an EARLIER LEMMA;
   [lp] collects the predicates of the lemmas seen so far).  Before the repair this was the
   hypothesis of the freshness theorem; it is kept only to state the regression example
   (Properties/C13.v: the old witness is outside [F12_free] and is now REFUSED). *)
Fixpoint F12_free (m : placeholders) (l : specification) (lp : list pred) : Prop :=
  match l with
  | [] => True
  | a0 :: l' =>
      let a := rp_annot m a0 in
      match an_role a with
      | RDefinition => (forall p, defined_pred (an_formula a) = Some p -> ~ In p lp) /\ F12_free m l' lp
      | _ => F12_free m l' (lp ++ predicates (an_formula a))
      end
  end.

(* every accepted outline is strictly fresh: [taken] now grows by the predicates of every accepted
   entry, so [seen <= taken] is an invariant of the loop *)
Theorem accepted_strictly_fresh m : forall l taken o0 ws o ws' seen,
  from_specification_loop l taken m o0 ws = Ok (o, ws') ->
  (forall q, In q seen -> In q taken) ->
  strictly_fresh m l seen.
Proof.
  induction l as [|anf0 l IH]; intros taken o0 ws o ws' seen; cbn [from_specification_loop strictly_fresh]; [auto|].
  set (anf := rp_annot m anf0).
  assert (Hlemma : forall closed,
    match general_lemma_try_from closed with
    | Err e => Err e
    | Panic => Panic
    | Ok g =>
        from_specification_loop l (iset_extend pred_dec taken (predicates (an_formula anf))) m
          match an_dir anf with
          | DUniversal => mkoutline (forward_lemmas o0 ++ [g]) (backward_lemmas o0 ++ [g]) (forward_definitions o0) (backward_definitions o0)
          | DForward => mkoutline (forward_lemmas o0 ++ [g]) (backward_lemmas o0) (forward_definitions o0) (backward_definitions o0)
          | DBackward => mkoutline (forward_lemmas o0) (backward_lemmas o0 ++ [g]) (forward_definitions o0) (backward_definitions o0)
          end ws
    end = Ok (o, ws') ->
    (forall q, In q seen -> In q taken) ->
    True /\ strictly_fresh m l (seen ++ predicates (an_formula anf))).
  { intros closed. destruct (general_lemma_try_from closed) as [g|e|]; try discriminate.
    intros Hrec Hseen. split; [exact I|].
    eapply IH; [exact Hrec|].
    intros q Hq. apply (in_iset_extend pred_dec). apply in_app_iff in Hq. destruct Hq as [Hq|Hq]; auto. }
  destruct (an_role anf) eqn:Erole; try discriminate.
  - apply Hlemma.
  - destruct (definition (an_formula anf) taken) as [[p w]|e|] eqn:Ed; try discriminate.
    intros Hrec Hseen.
    destruct (definition_shape _ _ _ _ Ed) as [vs [q [ts [rhs [tv [Ef [Ep [_ [_ [_ [Hfresh _]]]]]]]]]]].
    split.
    + intros p' Hp'. rewrite Ef in Hp'. cbn in Hp'. injection Hp' as <-. rewrite <- Ep.
      intros Hin. exact (Hfresh (Hseen p Hin)).
    + eapply IH; [exact Hrec|].
      intros r Hr. apply (in_iset_insert pred_dec). apply in_app_iff in Hr. destruct Hr as [Hr|Hr].
      * left. apply Hseen, Hr.
      * destruct (definition_predicates _ _ _ _ Ed r Hr) as [->|Ht]; auto.
  - apply Hlemma.
Qed.

(* in particular: an accepted outline is outside the former class F12 *)
Theorem accepted_F12_free m : forall l taken o0 ws o ws' lp,
  from_specification_loop l taken m o0 ws = Ok (o, ws') ->
  (forall q, In q lp -> In q taken) ->
  F12_free m l lp.
Proof.
  induction l as [|anf0 l IH]; intros taken o0 ws o ws' lp; cbn [from_specification_loop F12_free]; [auto|].
  set (anf := rp_annot m anf0).
  assert (Hlemma : forall closed,
    match general_lemma_try_from closed with
    | Err e => Err e
    | Panic => Panic
    | Ok g =>
        from_specification_loop l (iset_extend pred_dec taken (predicates (an_formula anf))) m
          match an_dir anf with
          | DUniversal => mkoutline (forward_lemmas o0 ++ [g]) (backward_lemmas o0 ++ [g]) (forward_definitions o0) (backward_definitions o0)
          | DForward => mkoutline (forward_lemmas o0 ++ [g]) (backward_lemmas o0) (forward_definitions o0) (backward_definitions o0)
          | DBackward => mkoutline (forward_lemmas o0) (backward_lemmas o0 ++ [g]) (forward_definitions o0) (backward_definitions o0)
          end ws
    end = Ok (o, ws') ->
    (forall q, In q lp -> In q taken) ->
    F12_free m l (lp ++ predicates (an_formula anf))).
  { intros closed. destruct (general_lemma_try_from closed) as [g|e|]; try discriminate.
    intros Hrec Hlp. eapply IH; [exact Hrec|].
    intros q Hq. apply (in_iset_extend pred_dec). apply in_app_iff in Hq. destruct Hq as [Hq|Hq]; auto. }
  destruct (an_role anf) eqn:Erole; try discriminate.
  - apply Hlemma.
  - destruct (definition (an_formula anf) taken) as [[p w]|e|] eqn:Ed; try discriminate.
    intros Hrec Hlp.
    destruct (definition_shape _ _ _ _ Ed) as [vs [q [ts [rhs [tv [Ef [Ep [_ [_ [_ [Hfresh _]]]]]]]]]]].
    split.
    + intros p' Hp'. rewrite Ef in Hp'. cbn in Hp'. injection Hp' as <-. rewrite <- Ep.
      intros Hin. exact (Hfresh (Hlp p Hin)).
    + eapply IH; [exact Hrec|].
      intros r Hr. apply (in_iset_insert pred_dec). left. apply Hlp, Hr.
  - apply Hlemma.
Qed.
