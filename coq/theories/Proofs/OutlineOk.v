(* C13: proof outlines.
   - induction_sound (C13_induction): validity of the base and step obligations of an accepted
     inductive lemma implies validity of the lemma (integer induction from n, any sign of n; the
     induction variable may be re-bound inside F - all of that is inside the substitution lemma,
     which is a Section hypothesis here and is proved by the C17 cluster);
   - definition_conservative (C13_definition): an accepted definition is a definitional extension:
     every interpretation can be changed on the defined predicate only so that the definition holds;
   - def_chain / defs_conservative: the same for the sequence of definitions of an outline;
   - what from_specification accepts (loop invariant). *)
From Coq Require Import List Ascii String ZArith NArith Bool Lia.
From Anthem Require Import Base.ISet Base.Fresh Syntax.Fol Sem.Domain Sem.Sat
  Model.Subst Model.Problem Model.Outline Proofs.SemBase.
Import ListNotations.
Open Scope string_scope.
Open Scope list_scope.

(* ---------- boolean set tests ---------- *)
Lemma subsetb_spec {A} (dec : forall x y : A, {x = y} + {x <> y}) a b :
  subsetb dec a b = true <-> (forall x, In x a -> In x b).
Proof.
  unfold subsetb. rewrite forallb_forall. split; intros H x Hx; specialize (H x Hx).
  - destruct (memb_spec dec x b); [assumption|discriminate].
  - destruct (memb_spec dec x b); [reflexivity|contradiction].
Qed.
Lemma set_eqb_spec {A} (dec : forall x y : A, {x = y} + {x <> y}) a b :
  set_eqb dec a b = true <-> (forall x, In x a <-> In x b).
Proof.
  unfold set_eqb. rewrite andb_true_iff, !subsetb_spec. split.
  - intros [H1 H2] x. split; auto.
  - intros H. split; intros x; apply H.
Qed.
Lemma in_iset_of_list {A} (dec : forall x y : A, {x = y} + {x <> y}) l x : In x (iset_of_list dec l) <-> In x l.
Proof. unfold iset_of_list. rewrite (in_iset_extend dec). cbn. tauto. Qed.

(* ================= C13_induction ================= *)
Section Induction.
(* the substitution lemma (C17), in the shape proved by the `subst` cluster *)
Hypothesis subst_sem : forall F x t G, sort_ok x t = true -> substitute F x t = Some G ->
  forall FI I e, csat FI I e G <-> csat FI I (upd e x (ev_g FI e t)) F.

(* the shape of an accepted inductive lemma *)
Lemma inductive_lemma_shape f base step : inductive_lemma f = Ok (base, step) ->
  exists vs v n rhs b s,
    f = FQ QForall vs (FBin CImp (FAtomic (ACmp (GInt (IVar v)) [mkguard RGe (GInt (INum n))])) rhs) /\
    substitute rhs (mkvar v SInteger) (GInt (INum n)) = Some b /\
    substitute rhs (mkvar v SInteger) (GInt (IBin BAdd (IVar v) (INum 1))) = Some s /\
    base = universal_closure b /\
    step = universal_closure (FBin CImp (FBin CAnd (FAtomic (ACmp (GInt (IVar v)) [mkguard RGe (GInt (INum n))])) rhs) s).
Proof.
  unfold inductive_lemma. intros H.
  destruct f as [|?|?|q vs body]; try discriminate. destruct q; try discriminate.
  destruct body as [|?|c lhs rhs|]; try discriminate. destruct c; try discriminate.
  destruct lhs as [a|?|?|]; try discriminate. destruct a as [| |?|term guards]; try discriminate.
  destruct guards as [|guard [|? ?]]; try discriminate.
  destruct (negb (set_eqb var_dec (iset_of_list var_dec vs) (free_variables rhs))); try discriminate.
  destruct term as [| |?|?|it|?]; try discriminate. destruct it as [?|?|v|?|?]; try discriminate.
  destruct guard as [rl gt]. cbn [grel gterm_of] in H.
  destruct rl; try discriminate. destruct gt as [| |?|?|it|?]; try discriminate.
  destruct it as [n|?|?|?|?]; try discriminate.
  destruct (substitute rhs (mkvar v SInteger) (GInt (INum n))) as [b|] eqn:Eb;
    destruct (substitute rhs (mkvar v SInteger) (GInt (IBin BAdd (IVar v) (INum 1)))) as [s|] eqn:Es; try discriminate.
  injection H as <- <-. exists vs, v, n, rhs, b, s. repeat split; auto.
Qed.

Lemma upd_int_same e v z : ei e v = z -> env_same (upd e (mkvar v SInteger) (VNum z)) e.
Proof. intros <-. exact (upd_getv_same e (mkvar v SInteger)). Qed.
Lemma upd_int_twice e v a b :
  env_same (upd (upd e (mkvar v SInteger) (VNum a)) (mkvar v SInteger) (VNum b)) (upd e (mkvar v SInteger) (VNum b)).
Proof.
  intros w. destruct (var_dec w (mkvar v SInteger)) as [->|Hne].
  - rewrite !getv_upd_same; cbn; auto.
  - rewrite !getv_upd_other; auto.
Qed.
Lemma ei_upd_int e v z : ei (upd e (mkvar v SInteger) (VNum z)) v = z.
Proof. cbn. rewrite String.eqb_refl. reflexivity. Qed.

Lemma chain_ge FI I e v n :
  csat FI I e (FAtomic (ACmp (GInt (IVar v)) [mkguard RGe (GInt (INum n))])) <-> (n <= ei e v)%Z.
Proof. cbn. rewrite andb_true_r. apply Z.leb_le. Qed.

Theorem induction_sound f base step FI I :
  inductive_lemma f = Ok (base, step) -> cvalid FI I base -> cvalid FI I step -> cvalid FI I f.
Proof.
  intros Hf Hb Hs. destruct (inductive_lemma_shape f base step Hf) as [vs [v [n [rhs [b [s [-> [Eb [Es [-> ->]]]]]]]]]].
  apply (proj1 (cvalid_universal_closure FI I _)) in Hb. apply (proj1 (cvalid_universal_closure FI I _)) in Hs.
  set (x := mkvar v SInteger) in *.
  (* every assignment whose value of the induction variable is n + k satisfies the body *)
  assert (Hind : forall k : nat, forall e, ei e v = (n + Z.of_nat k)%Z -> csat FI I e rhs).
  { induction k as [|k IH]; intros e He.
    - specialize (Hb e). apply (proj1 (subst_sem rhs x (GInt (INum n)) b eq_refl Eb FI I e)) in Hb. cbn [ev_g ev_i] in Hb.
      refine (proj1 (csat_same FI I rhs _ e _) Hb). apply upd_int_same. rewrite He. cbn. lia.
    - set (e0 := upd e x (VNum (n + Z.of_nat k))).
      assert (He0 : ei e0 v = (n + Z.of_nat k)%Z) by apply ei_upd_int.
      pose proof (IH e0 He0) as Hk. specialize (Hs e0). cbn [csat] in Hs.
      assert (Hchain : csat FI I e0 (FAtomic (ACmp (GInt (IVar v)) [mkguard RGe (GInt (INum n))]))).
      { apply chain_ge. rewrite He0. lia. }
      specialize (Hs (conj Hchain Hk)).
      apply (proj1 (subst_sem rhs x (GInt (IBin BAdd (IVar v) (INum 1))) s eq_refl Es FI I e0)) in Hs. cbn [ev_g ev_i] in Hs. rewrite He0 in Hs.
      refine (proj1 (csat_same FI I rhs _ e _) Hs).
      intros w. unfold e0. rewrite (upd_int_twice e v _ _ w). apply upd_int_same. rewrite He. lia. }
  intros e. cbn [csat]. apply qsat_forall_intro. intros e' Hc.
  apply chain_ge in Hc.
  apply (Hind (Z.to_nat (ei e' v - n))). rewrite Z2Nat.id; lia.
Qed.
End Induction.

(* ================= C13_definition ================= *)
Lemma gterm_to_var_ev FI t v : gterm_to_var t = Some v -> forall e, ev_g FI e t = getv e v.
Proof.
  destruct t as [| |c|x|it|st]; cbn; try discriminate.
  - intros [= <-] e. reflexivity.
  - destruct it; try discriminate. intros [= <-] e. reflexivity.
  - destruct st; try discriminate. intros [= <-] e. reflexivity.
Qed.

Lemma terms_as_vars_in ts : forall acc tv, terms_as_vars ts acc = inl tv ->
  (forall t, In t ts -> exists v, gterm_to_var t = Some v) /\
  (forall v, In v tv -> In v acc \/ exists t, In t ts /\ gterm_to_var t = Some v).
Proof.
  induction ts as [|t ts IH]; intros acc tv; cbn.
  - intros [= <-]. split; [intros t []|auto].
  - destruct (gterm_to_var t) as [v|] eqn:Ev; [|discriminate]. intros H.
    destruct (IH _ _ H) as [H1 H2]. split.
    + intros t' [<-|Ht']; [eauto|apply H1, Ht'].
    + intros w Hw. destruct (H2 w Hw) as [Hacc|[t' [Ht' Hv]]].
      * apply (in_iset_insert var_dec) in Hacc. destruct Hacc as [Hacc| ->]; [auto|].
        right. exists t. split; [left; reflexivity|exact Ev].
      * right. exists t'. split; [right; exact Ht'|exact Hv].
Qed.

Lemma map_eq_in {A B} (f g : A -> B) l : map f l = map g l -> forall x, In x l -> f x = g x.
Proof.
  induction l as [|a l IH]; cbn; [tauto|]. intros H x [<-|Hx]; [injection H; auto|].
  apply IH; [injection H; auto|exact Hx].
Qed.

(* the shape and the side conditions of an accepted definition *)
Lemma definition_shape f taken p w : definition f taken = Ok (p, w) ->
  exists vs q ts rhs tv,
    f = FQ QForall vs (FBin CIff (FAtomic (AAtom q ts)) rhs) /\ p = mkpred q (List.length ts) /\
    NoDup vs /\
    terms_as_vars ts [] = inl tv /\ (forall v, In v vs <-> In v tv) /\
    ~ In p taken /\ (forall v, In v (free_variables rhs) -> In v vs) /\
    (forall r, In r (predicates rhs) -> In r taken).
Proof.
  unfold definition. intros H.
  destruct f as [|?|?|q vs body]; try discriminate. destruct q; try discriminate.
  destruct body as [|?|c lhs rhs|]; try discriminate. destruct c; try discriminate.
  destruct lhs as [a|?|?|]; try discriminate. destruct a as [| |q ts|]; try discriminate.
  destruct (Nat.ltb (List.length (iset_of_list var_dec vs)) (List.length vs)) eqn:Elen; [discriminate|].
  destruct (terms_as_vars ts []) as [tv|bad] eqn:Etv; [|discriminate].
  destruct (set_eqb var_dec (iset_of_list var_dec vs) tv) eqn:Eset; cbn [negb] in H; [|discriminate].
  destruct (memb_spec pred_dec (mkpred q (List.length ts)) taken) as [|Hfresh]; [discriminate|].
  destruct (subsetb var_dec (free_variables rhs) (iset_of_list var_dec vs)) eqn:Efv; cbn [negb] in H; [|discriminate].
  destruct (find (fun q0 => negb (memb pred_dec q0 taken)) (predicates rhs)) as [q0|] eqn:Epr; [discriminate|].
  injection H as <- _. exists vs, q, ts, rhs, tv. repeat split; auto.
  - (* no duplicates: the duplicate-free list is not shorter *)
    apply Nat.ltb_ge in Elen.
    assert (Hnd : NoDup (iset_of_list var_dec vs)) by (apply nodup_iset_extend; constructor).
    assert (Hincl : incl vs (iset_of_list var_dec vs)) by (intros x Hx; apply in_iset_of_list, Hx).
    apply (NoDup_incl_NoDup Hnd); [exact Elen|]. intros x Hx. apply in_iset_of_list in Hx. exact Hx.
  - intros Hv. apply (proj1 (set_eqb_spec var_dec _ _) Eset). apply in_iset_of_list, Hv.
  - intros Hv. apply in_iset_of_list with (dec := var_dec). apply (proj1 (set_eqb_spec var_dec _ _) Eset), Hv.
  - intros v Hv. apply in_iset_of_list with (dec := var_dec). apply (proj1 (subsetb_spec var_dec _ _) Efv), Hv.
  - intros r Hr. assert (Hf := find_none _ _ Epr r Hr). cbn in Hf. apply negb_false_iff in Hf.
    destruct (memb_spec pred_dec r taken) as [Hin|]; [exact Hin|discriminate].
Qed.

(* predicates of an accepted definition: the defined one and taken ones *)
Lemma definition_predicates f taken p w : definition f taken = Ok (p, w) ->
  forall r, In r (predicates f) -> r = p \/ In r taken.
Proof.
  intros H. destruct (definition_shape f taken p w H) as [vs [q [ts [rhs [tv [-> [-> [_ [_ [_ [_ [_ Hp]]]]]]]]]]]].
  intros r Hr. cbn in Hr. apply (in_iset_extend pred_dec) in Hr. destruct Hr as [[<-|[]]|Hr]; [left; reflexivity|right; apply Hp, Hr].
Qed.

(* the extension of M by the defined predicate *)
Definition extend_by (FI : fint) (M : pint) (q : string) (ts : list gterm) (rhs : formula) : pint :=
  fun r a =>
    (r = q /\ List.length a = List.length ts /\ exists e, map (ev_g FI e) ts = a /\ csat FI M e rhs)
    \/ (~ (r = q /\ List.length a = List.length ts) /\ M r a).

Theorem definition_conservative f taken p w : definition f taken = Ok (p, w) ->
  forall FI M, exists M',
    (forall r a, mkpred r (List.length a) <> p -> (M' r a <-> M r a)) /\ cvalid FI M' f.
Proof.
  intros H FI M. destruct (definition_shape f taken p w H) as [vs [q [ts [rhs [tv [-> [-> [Hnd [Etv [Hset [Hfresh [Hfv Hpr]]]]]]]]]]]].
  exists (extend_by FI M q ts rhs). split.
  - intros r a Hne. unfold extend_by. split.
    + intros [[-> [El _]]|[_ Hm]]; [exfalso; apply Hne; rewrite El; reflexivity|exact Hm].
    + intros Hm. right. split; [|exact Hm]. intros [-> El]. apply Hne. rewrite El. reflexivity.
  - intros e0. cbn [csat]. apply qsat_forall_intro. intros e. cbn [csat asat].
    assert (Hrhs : csat FI (extend_by FI M q ts rhs) e rhs <-> csat FI M e rhs).
    { apply csat_pagree. intros r a Hin. unfold extend_by. split.
      - intros [[-> [El _]]|[_ Hm]]; [|exact Hm]. exfalso. apply Hfresh. apply Hpr. rewrite <- El. exact Hin.
      - intros Hm. right. split; [|exact Hm]. intros [-> El]. apply Hfresh. apply Hpr. rewrite <- El. exact Hin. }
    rewrite Hrhs. unfold extend_by. split.
    + intros [[_ [_ [e' [Emap Hsat]]]]|[Hn _]]; [|exfalso; apply Hn; split; [reflexivity|apply map_length]].
      apply (csat_agree FI M rhs e' e); [|exact Hsat].
      intros v Hv. apply Hfv in Hv. apply Hset in Hv.
      destruct (proj2 (terms_as_vars_in ts [] tv Etv) v Hv) as [[]|[t [Ht Etv']]].
      rewrite <- (gterm_to_var_ev FI t v Etv' e'), <- (gterm_to_var_ev FI t v Etv' e).
      apply (map_eq_in _ _ ts Emap t Ht).
    + intros Hsat. left. split; [reflexivity|]. split; [apply map_length|]. exists e. auto.
Qed.

(* ================= sequences of definitions ================= *)
(* THE EXACT CHAIN (audit A18 b).  An accepted outline is a sequence of entries each of which was
   checked against a set of taken predicates; [outline_chain m taken l] threads that set through the
   WHOLE entry list exactly as ProofOutline::from_specification does:
     a lemma / inductive lemma    adds the predicates of its formula   (repair of F12)
     a definition                 is accepted by [definition] w.r.t. the CURRENT set - defined
                                  predicate not in it, body over it only - and adds its predicate.
   There is no weakening constructor: the set a definition is checked against is the initial one
   plus the predicates of the EARLIER entries and nothing else (chain_taken_spec), so the clause
   "the body mentions only predicates of the task or of earlier entries" is carried by the chain
   (chain_definition_earlier).  The former [def_chain] had a constructor [dc_weaken] that let the
   set grow arbitrarily ([def_chain [] [forall X (p(X) <-> zzz(X))]] held although the code refuses
   that definition); it is gone. *)
Definition entry_formula (m : placeholders) (a0 : aformula_annot) : formula := an_formula (rp_annot m a0).
Definition is_lemma_entry (m : placeholders) (a0 : aformula_annot) : Prop :=
  an_role (rp_annot m a0) = RLemma \/ an_role (rp_annot m a0) = RInductiveLemma.

Inductive outline_chain (m : placeholders) : list pred -> specification -> Prop :=
| oc_nil taken : outline_chain m taken []
| oc_lemma taken a0 rest :
    is_lemma_entry m a0 ->
    outline_chain m (iset_extend pred_dec taken (predicates (entry_formula m a0))) rest ->
    outline_chain m taken (a0 :: rest)
| oc_def taken a0 rest p w :
    an_role (rp_annot m a0) = RDefinition ->
    definition (entry_formula m a0) taken = Ok (p, w) ->
    outline_chain m (iset_insert pred_dec taken p) rest ->
    outline_chain m taken (a0 :: rest).

(* the definitions of a chain (both directions), as the outline stores them *)
Definition is_definition_entry (a : aformula_annot) : bool :=
  match an_role a with RDefinition => true | _ => false end.
Definition chain_definitions (m : placeholders) (l : specification) : list aformula_annot :=
  filter is_definition_entry (map (rp_annot m) l).

(* a list of formulas is CONSERVATIVE over a vocabulary: every interpretation can be changed
   outside the vocabulary so that all of them become true *)
Definition conservative_over (taken : list pred) (fs : list formula) : Prop :=
  forall FI M, exists M', pagree taken M M' /\ (forall f, In f fs -> cvalid FI M' f).

Lemma conservative_over_incl taken fs fs' : incl fs' fs -> conservative_over taken fs -> conservative_over taken fs'.
Proof. intros Hi H FI M. destruct (H FI M) as [M' [Ha Hv]]. exists M'. split; [exact Ha|]. intros f Hf. apply Hv, Hi, Hf. Qed.

Lemma definition_head_pred f taken p w : definition f taken = Ok (p, w) -> In p (predicates f).
Proof.
  intros H. destruct (definition_shape f taken p w H) as [vs [q [ts [rhs [tv [-> [-> _]]]]]]].
  cbn. apply (in_iset_extend pred_dec). left. left. reflexivity.
Qed.

Theorem chain_conservative m taken l : outline_chain m taken l ->
  conservative_over taken (map an_formula (chain_definitions m l)).
Proof.
  unfold chain_definitions.
  induction 1 as [taken|taken a0 rest Hl Hrest IH|taken a0 rest p w Hr Hd Hrest IH]; intros FI M.
  - exists M. split; [intros r a _; tauto|intros f []].
  - cbn [map filter]. unfold is_definition_entry at 1.
    destruct Hl as [-> | ->]; destruct (IH FI M) as [M' [Hag Hv]]; exists M';
      (split; [intros r a Hin; apply Hag, (in_iset_extend pred_dec); auto|exact Hv]).
  - cbn [map filter]. unfold is_definition_entry at 1. rewrite Hr. cbn [map].
    destruct (definition_conservative _ taken p w Hd FI M) as [M1 [Hoff Hf]].
    destruct (IH FI M1) as [M' [Hag Hv]]. exists M'. split.
    + intros r a Hin. rewrite <- (Hag r a (proj2 (in_iset_insert pred_dec _ _ _) (or_introl Hin))).
      symmetry. apply Hoff. intros E.
      destruct (definition_shape _ taken p w Hd) as [_ [_ [_ [_ [_ [_ [_ [_ [_ [_ [Hfresh _]]]]]]]]]]].
      apply Hfresh. rewrite <- E. exact Hin.
    + intros g [<-|Hg]; [|apply Hv, Hg].
      apply (cvalid_pagree FI M1 M' (entry_formula m a0)); [|exact Hf].
      intros r a Hin. apply Hag. apply (in_iset_insert pred_dec).
      destruct (definition_predicates _ taken p w Hd _ Hin) as [E|Ht]; [right; exact E|left; exact Ht].
Qed.

(* the set an entry is checked against: the initial set and the predicates of the earlier entries *)
Definition defined_pred (f : formula) : option pred :=
  match f with
  | FQ QForall _ (FBin CIff (FAtomic (AAtom q ts)) _) => Some (mkpred q (List.length ts))
  | _ => None
  end.
Definition entry_preds (m : placeholders) (a0 : aformula_annot) : list pred := predicates (entry_formula m a0).

Lemma definition_defined_pred f taken p w : definition f taken = Ok (p, w) -> defined_pred f = Some p.
Proof.
  intros H. destruct (definition_shape f taken p w H) as [vs [q [ts [rhs [tv [-> [-> _]]]]]]]. reflexivity.
Qed.

(* the set the entry after [pre] is checked against = initial set + predicates of the entries of [pre] *)
Lemma chain_split m : forall pre taken a0 post, outline_chain m taken (pre ++ a0 :: post) ->
  exists taken', outline_chain m taken' (a0 :: post) /\
    (forall q, In q taken' <-> In q taken \/ exists b, In b pre /\ In q (entry_preds m b)).
Proof.
  induction pre as [|b pre IH]; intros taken a0 post H; cbn [app] in H.
  - exists taken. split; [exact H|]. intros q. split; [auto|intros [Hq|[b [[] _]]]; exact Hq].
  - inversion H as [|tk b' rest Hl Hrest|tk b' rest p w Hr Hd Hrest]; subst.
    + destruct (IH _ _ _ Hrest) as [taken' [Hc Hin]]. exists taken'. split; [exact Hc|].
      intros q. rewrite Hin, (in_iset_extend pred_dec). unfold entry_preds. split.
      * intros [[Hq|Hq]|[c [Hc' Hq]]]; [auto|right; exists b; split; [left; reflexivity|exact Hq]
                                        |right; exists c; split; [right; exact Hc'|exact Hq]].
      * intros [Hq|[c [[<-|Hc'] Hq]]]; [auto|auto|right; exists c; auto].
    + destruct (IH _ _ _ Hrest) as [taken' [Hc Hin]]. exists taken'. split; [exact Hc|].
      intros q. rewrite Hin, (in_iset_insert pred_dec). unfold entry_preds. split.
      * intros [[Hq|Hq]|[c [Hc' Hq]]]; [auto| |right; exists c; split; [right; exact Hc'|exact Hq]].
        subst q. right. exists b. split; [left; reflexivity|]. exact (definition_head_pred _ _ _ _ Hd).
      * intros [Hq|[c [[<-|Hc'] Hq]]]; [auto| |right; exists c; auto].
        destruct (definition_predicates _ _ _ _ Hd q Hq) as [->|Ht]; auto.
Qed.

(* THE PROPERTY CLAUSE: a definition at any position of an accepted outline has the shape
   forall Xs (p(ts) <-> F); p occurs neither in the task (the initial set) nor in an earlier entry;
   F mentions only predicates of the task or of earlier entries *)
Theorem chain_definition_earlier m taken pre a0 post :
  outline_chain m taken (pre ++ a0 :: post) -> an_role (rp_annot m a0) = RDefinition ->
  exists vs q ts rhs,
    entry_formula m a0 = FQ QForall vs (FBin CIff (FAtomic (AAtom q ts)) rhs) /\
    (~ In (mkpred q (List.length ts)) taken /\
     forall b, In b pre -> ~ In (mkpred q (List.length ts)) (entry_preds m b)) /\
    (forall r, In r (predicates rhs) -> In r taken \/ exists b, In b pre /\ In r (entry_preds m b)).
Proof.
  intros H Hr. destruct (chain_split m pre taken a0 post H) as [taken' [Hc Hin]].
  inversion Hc as [|tk b' rest [Hl|Hl] _|tk b' rest p w _ Hd _]; subst; try congruence.
  destruct (definition_shape _ _ _ _ Hd) as [vs [q [ts [rhs [tv [Ef [Ep [_ [_ [_ [Hfresh [_ Hbody]]]]]]]]]]]].
  exists vs, q, ts, rhs. split; [exact Ef|]. rewrite <- Ep. split.
  - split; [intros Hq; apply Hfresh, Hin; auto|].
    intros b Hb Hq. apply Hfresh, Hin. right. exists b. auto.
  - intros r Hrr. apply Hin, Hbody, Hrr.
Qed.

(* ================= lemmas ================= *)
(* a general lemma is sound if the truth of its conjectures implies the truth of its consequences *)
Definition lemma_sound (g : general_lemma) : Prop :=
  forall FI M, (forall c, In c (gl_conjectures g) -> cvalid FI M (pf_formula c)) ->
               (forall c, In c (gl_consequences g) -> cvalid FI M (pf_formula c)).
Definition lemma_roles (g : general_lemma) : Prop :=
  (forall c, In c (gl_conjectures g) -> pf_role c = PConjecture) /\
  (forall c, In c (gl_consequences g) -> pf_role c = PAxiom).

Section Lemmas.
Hypothesis subst_sem : forall F x t G, sort_ok x t = true -> substitute F x t = Some G ->
  forall FI I e, csat FI I e G <-> csat FI I (upd e x (ev_g FI e t)) F.

Theorem try_from_sound a g : general_lemma_try_from a = Ok g -> lemma_sound g /\ lemma_roles g.
Proof.
  unfold general_lemma_try_from. destruct (an_role a); try discriminate.
  - intros [= <-]. split.
    + intros FI M Hc c [<-|[]]. apply (Hc (into_problem_formula a PConjecture)). left; reflexivity.
    + split; intros c [<-|[]]; reflexivity.
  - destruct (inductive_lemma (an_formula a)) as [[base step]|e|] eqn:Ei; try discriminate.
    intros [= <-]. split.
    + intros FI M Hc c [<-|[]]. cbn.
      apply (induction_sound subst_sem (an_formula a) base step FI M Ei).
      * apply (Hc (mkpf (an_name a ++ "base_case") PConjecture base)). left; reflexivity.
      * apply (Hc (mkpf (an_name a ++ "inductive_step") PConjecture step)). right; left; reflexivity.
    + split; [intros c [<-|[<-|[]]]; reflexivity|intros c [<-|[]]; reflexivity].
Qed.

(* what from_specification accepts *)
(* the entries of a direction, in source order (direction filtering: an entry annotated
   `forward` goes to the forward lists, `backward` to the backward lists, no annotation to both) *)
Definition dir_selects (fwd : bool) (d : direction) : bool :=
  match d with
  | DUniversal => true
  | DForward => fwd
  | DBackward => negb fwd
  end.
Definition definitions_of_dir (fwd : bool) (m : placeholders) (l : specification) : list aformula_annot :=
  filter (fun a => is_definition_entry a && dir_selects fwd (an_dir a)) (map (rp_annot m) l).
Definition closed_entry (m : placeholders) (a0 : aformula_annot) : aformula_annot :=
  let anf := rp_annot m a0 in
  rp_annot m (mkannot (an_role anf) (an_dir anf) (an_name anf)
                (universal_closure_with_quantifier_joining (an_formula anf))).
Definition lemmas_of_dir (fwd : bool) (m : placeholders) (l : specification) : list general_lemma :=
  flat_map (fun a0 =>
              let anf := rp_annot m a0 in
              match an_role anf with
              | RLemma | RInductiveLemma =>
                  if dir_selects fwd (an_dir anf)
                  then match general_lemma_try_from (closed_entry m a0) with Ok g => [g] | _ => [] end
                  else []
              | _ => []
              end) l.

Definition outline_ok (m : placeholders) (taken : list pred) (l : specification) (o0 o : proof_outline) : Prop :=
  outline_chain m taken l /\
  forward_definitions o = forward_definitions o0 ++ definitions_of_dir true m l /\
  backward_definitions o = backward_definitions o0 ++ definitions_of_dir false m l /\
  forward_lemmas o = forward_lemmas o0 ++ lemmas_of_dir true m l /\
  backward_lemmas o = backward_lemmas o0 ++ lemmas_of_dir false m l /\
  Forall (fun g => lemma_sound g /\ lemma_roles g) (lemmas_of_dir true m l) /\
  Forall (fun g => lemma_sound g /\ lemma_roles g) (lemmas_of_dir false m l).

Lemma rp_annot_role m a : an_role (rp_annot m a) = an_role a.
Proof. reflexivity. Qed.
Lemma rp_annot_dir m a : an_dir (rp_annot m a) = an_dir a.
Proof. reflexivity. Qed.

Theorem from_specification_loop_ok m : forall l taken o0 ws o ws',
  from_specification_loop l taken m o0 ws = Ok (o, ws') -> outline_ok m taken l o0 o.
Proof.
  induction l as [|anf0 l IH]; intros taken o0 ws o ws'; cbn [from_specification_loop].
  - intros [= <- _]. unfold outline_ok, definitions_of_dir, lemmas_of_dir. cbn. rewrite !app_nil_r.
    repeat split; auto; constructor.
  - set (anf := rp_annot m anf0).
    assert (Hlemma : is_lemma_entry m anf0 ->
      match general_lemma_try_from (closed_entry m anf0) with
      | Err e => Err e
      | Panic => Panic
      | Ok g =>
          from_specification_loop l (iset_extend pred_dec taken (predicates (an_formula anf))) m
            match an_dir anf with
            | DUniversal => mkoutline (forward_lemmas o0 ++ [g]) (backward_lemmas o0 ++ [g]) (forward_definitions o0) (backward_definitions o0)
            | DForward => mkoutline (forward_lemmas o0 ++ [g]) (backward_lemmas o0) (forward_definitions o0) (backward_definitions o0)
            | DBackward => mkoutline (forward_lemmas o0) (backward_lemmas o0 ++ [g]) (forward_definitions o0) (backward_definitions o0)
            end ws
      end = Ok (o, ws') -> outline_ok m taken (anf0 :: l) o0 o).
    { intros Hle. destruct (general_lemma_try_from (closed_entry m anf0)) as [g|e|] eqn:Eg; try discriminate.
      intros Hrec. apply IH in Hrec. pose proof (try_from_sound _ g Eg) as Hg.
      destruct Hrec as [Hc [F1 [F2 [F3 [F4 [L1 L2]]]]]].
      assert (Hnd : is_definition_entry anf = false).
      { unfold is_definition_entry. destruct Hle as [E|E]; unfold anf; rewrite E; reflexivity. }
      assert (Hlem : forall fwd, lemmas_of_dir fwd m (anf0 :: l) =
                (if dir_selects fwd (an_dir anf) then [g] else []) ++ lemmas_of_dir fwd m l).
      { intros fwd. unfold lemmas_of_dir at 1. cbn [flat_map]. fold anf. fold (lemmas_of_dir fwd m l).
        destruct Hle as [E|E]; unfold anf in *; rewrite E; destruct (dir_selects fwd _); rewrite ?Eg; reflexivity. }
      assert (Hdef : forall fwd, definitions_of_dir fwd m (anf0 :: l) = definitions_of_dir fwd m l).
      { intros fwd. unfold definitions_of_dir. cbn [map filter]. fold anf. rewrite Hnd. reflexivity. }
      unfold outline_ok. rewrite !Hlem, !Hdef.
      split; [apply oc_lemma; [exact Hle|exact Hc]|].
      destruct (an_dir anf); cbn [dir_selects negb forward_lemmas backward_lemmas
                                   forward_definitions backward_definitions] in *;
        rewrite F1, F2, F3, F4, <- ?app_assoc; cbn [app];
        (split; [reflexivity|]); (split; [reflexivity|]); (split; [reflexivity|]); (split; [reflexivity|]);
        split; auto. }
    unfold closed_entry in Hlemma. fold anf in Hlemma. revert Hlemma.
    destruct (an_role anf) eqn:Erole; intros Hlemma; try discriminate.
    + apply Hlemma. left. exact Erole.
    + clear Hlemma. destruct (definition (an_formula anf) taken) as [[p w]|e|] eqn:Ed; try discriminate.
      intros Hrec. apply IH in Hrec. destruct Hrec as [Hc [F1 [F2 [F3 [F4 [L1 L2]]]]]].
      assert (Hlem : forall fwd, lemmas_of_dir fwd m (anf0 :: l) = lemmas_of_dir fwd m l).
      { intros fwd. unfold lemmas_of_dir at 1. cbn [flat_map]. fold anf. rewrite Erole. reflexivity. }
      assert (Hdef : forall fwd, definitions_of_dir fwd m (anf0 :: l) =
                (if dir_selects fwd (an_dir anf) then [anf] else []) ++ definitions_of_dir fwd m l).
      { intros fwd. unfold definitions_of_dir. cbn [map filter]. fold anf. unfold is_definition_entry at 1.
        rewrite Erole. cbn [andb]. destruct (dir_selects fwd (an_dir anf)); reflexivity. }
      unfold outline_ok. rewrite !Hlem, !Hdef.
      split; [eapply oc_def; [exact Erole|exact Ed|exact Hc]|].
      destruct (an_dir anf); cbn [dir_selects negb forward_lemmas backward_lemmas
                                   forward_definitions backward_definitions] in *;
        rewrite F1, F2, F3, F4, <- ?app_assoc; cbn [app];
        (split; [reflexivity|]); (split; [reflexivity|]); (split; [reflexivity|]); (split; [reflexivity|]);
        split; assumption.
    + apply Hlemma. right. exact Erole.
Qed.

(* what an accepted outline consists of *)
Corollary from_specification_ok s taken m o ws :
  from_specification s taken m = Ok (o, ws) ->
  outline_chain m taken s /\
  forward_definitions o = definitions_of_dir true m s /\
  backward_definitions o = definitions_of_dir false m s /\
  forward_lemmas o = lemmas_of_dir true m s /\
  backward_lemmas o = lemmas_of_dir false m s /\
  Forall (fun g => lemma_sound g /\ lemma_roles g) (forward_lemmas o) /\
  Forall (fun g => lemma_sound g /\ lemma_roles g) (backward_lemmas o).
Proof.
  intros H. apply from_specification_loop_ok in H.
  destruct H as [Hc [F1 [F2 [F3 [F4 [L1 L2]]]]]]. cbn in F1, F2, F3, F4. rewrite F3, F4. auto 10.
Qed.

(* ... hence the definitions of each direction are conservative over the task's predicates *)
Lemma definitions_of_dir_incl fwd m l : incl (definitions_of_dir fwd m l) (chain_definitions m l).
Proof.
  unfold definitions_of_dir, chain_definitions. intros a Ha. apply filter_In in Ha. apply filter_In.
  destruct Ha as [Hin Hb]. apply andb_true_iff in Hb. tauto.
Qed.
Corollary accepted_definitions_conservative s taken m o ws :
  from_specification s taken m = Ok (o, ws) ->
  conservative_over taken (map an_formula (forward_definitions o)) /\
  conservative_over taken (map an_formula (backward_definitions o)).
Proof.
  intros H. destruct (from_specification_ok _ _ _ _ _ H) as [Hc [F1 [F2 _]]]. rewrite F1, F2.
  pose proof (chain_conservative m taken s Hc) as Hcons.
  split; (eapply conservative_over_incl; [|exact Hcons]); intros f Hf; apply in_map_iff in Hf;
    destruct Hf as [a [<- Ha]]; apply in_map; eapply definitions_of_dir_incl; exact Ha.
Qed.
End Lemmas.

(* ================= freshness of defined predicates (finding F12, repaired) ================= *)

(* the letter of C13: the predicate defined by an entry occurs nowhere in the task ([seen] starts
   as the taken predicates) nor in any earlier outline entry (lemma or definition) *)
Fixpoint strictly_fresh (m : placeholders) (l : specification) (seen : list pred) : Prop :=
  match l with
  | [] => True
  | a0 :: l' =>
      let a := rp_annot m a0 in
      (match an_role a with
       | RDefinition => forall p, defined_pred (an_formula a) = Some p -> ~ In p seen
       | _ => True
       end)
      /\ strictly_fresh m l' (seen ++ predicates (an_formula a))
  end.

(* the former known class F12 (a definition that defines a predicate occurring in an EARLIER LEMMA;
   [lp] collects the predicates of the lemmas seen so far).  Before the repair this was the
   hypothesis of the freshness theorem; it is kept only to state the regression example
   (Properties/C13.v: the old witness is outside [F12_free] and is now REFUSED). *)
Fixpoint F12_free (m : placeholders) (l : specification) (lp : list pred) : Prop :=
  match l with
  | [] => True
  | a0 :: l' =>
      let a := rp_annot m a0 in
      match an_role a with
      | RDefinition => (forall p, defined_pred (an_formula a) = Some p -> ~ In p lp) /\ F12_free m l' lp
      | _ => F12_free m l' (lp ++ predicates (an_formula a))
      end
  end.

(* every accepted outline is strictly fresh: [taken] now grows by the predicates of every accepted
   entry, so [seen <= taken] is an invariant of the loop *)
Theorem accepted_strictly_fresh m : forall l taken o0 ws o ws' seen,
  from_specification_loop l taken m o0 ws = Ok (o, ws') ->
  (forall q, In q seen -> In q taken) ->
  strictly_fresh m l seen.
Proof.
  induction l as [|anf0 l IH]; intros taken o0 ws o ws' seen; cbn [from_specification_loop strictly_fresh]; [auto|].
  set (anf := rp_annot m anf0).
  assert (Hlemma : forall closed,
    match general_lemma_try_from closed with
    | Err e => Err e
    | Panic => Panic
    | Ok g =>
        from_specification_loop l (iset_extend pred_dec taken (predicates (an_formula anf))) m
          match an_dir anf with
          | DUniversal => mkoutline (forward_lemmas o0 ++ [g]) (backward_lemmas o0 ++ [g]) (forward_definitions o0) (backward_definitions o0)
          | DForward => mkoutline (forward_lemmas o0 ++ [g]) (backward_lemmas o0) (forward_definitions o0) (backward_definitions o0)
          | DBackward => mkoutline (forward_lemmas o0) (backward_lemmas o0 ++ [g]) (forward_definitions o0) (backward_definitions o0)
          end ws
    end = Ok (o, ws') ->
    (forall q, In q seen -> In q taken) ->
    True /\ strictly_fresh m l (seen ++ predicates (an_formula anf))).
  { intros closed. destruct (general_lemma_try_from closed) as [g|e|]; try discriminate.
    intros Hrec Hseen. split; [exact I|].
    eapply IH; [exact Hrec|].
    intros q Hq. apply (in_iset_extend pred_dec). apply in_app_iff in Hq. destruct Hq as [Hq|Hq]; auto. }
  destruct (an_role anf) eqn:Erole; try discriminate.
  - apply Hlemma.
  - destruct (definition (an_formula anf) taken) as [[p w]|e|] eqn:Ed; try discriminate.
    intros Hrec Hseen.
    destruct (definition_shape _ _ _ _ Ed) as [vs [q [ts [rhs [tv [Ef [Ep [_ [_ [_ [Hfresh _]]]]]]]]]]].
    split.
    + intros p' Hp'. rewrite Ef in Hp'. cbn in Hp'. injection Hp' as <-. rewrite <- Ep.
      intros Hin. exact (Hfresh (Hseen p Hin)).
    + eapply IH; [exact Hrec|].
      intros r Hr. apply (in_iset_insert pred_dec). apply in_app_iff in Hr. destruct Hr as [Hr|Hr].
      * left. apply Hseen, Hr.
      * destruct (definition_predicates _ _ _ _ Ed r Hr) as [->|Ht]; auto.
  - apply Hlemma.
Qed.

(* in particular: an accepted outline is outside the former class F12 *)
Theorem accepted_F12_free m : forall l taken o0 ws o ws' lp,
  from_specification_loop l taken m o0 ws = Ok (o, ws') ->
  (forall q, In q lp -> In q taken) ->
  F12_free m l lp.
Proof.
  induction l as [|anf0 l IH]; intros taken o0 ws o ws' lp; cbn [from_specification_loop F12_free]; [auto|].
  set (anf := rp_annot m anf0).
  assert (Hlemma : forall closed,
    match general_lemma_try_from closed with
    | Err e => Err e
    | Panic => Panic
    | Ok g =>
        from_specification_loop l (iset_extend pred_dec taken (predicates (an_formula anf))) m
          match an_dir anf with
          | DUniversal => mkoutline (forward_lemmas o0 ++ [g]) (backward_lemmas o0 ++ [g]) (forward_definitions o0) (backward_definitions o0)
          | DForward => mkoutline (forward_lemmas o0 ++ [g]) (backward_lemmas o0) (forward_definitions o0) (backward_definitions o0)
          | DBackward => mkoutline (forward_lemmas o0) (backward_lemmas o0 ++ [g]) (forward_definitions o0) (backward_definitions o0)
          end ws
    end = Ok (o, ws') ->
    (forall q, In q lp -> In q taken) ->
    F12_free m l (lp ++ predicates (an_formula anf))).
  { intros closed. destruct (general_lemma_try_from closed) as [g|e|]; try discriminate.
    intros Hrec Hlp. eapply IH; [exact Hrec|].
    intros q Hq. apply (in_iset_extend pred_dec). apply in_app_iff in Hq. destruct Hq as [Hq|Hq]; auto. }
  destruct (an_role anf) eqn:Erole; try discriminate.
  - apply Hlemma.
  - destruct (definition (an_formula anf) taken) as [[p w]|e|] eqn:Ed; try discriminate.
    intros Hrec Hlp.
    destruct (definition_shape _ _ _ _ Ed) as [vs [q [ts [rhs [tv [Ef [Ep [_ [_ [_ [Hfresh _]]]]]]]]]]].
    split.
    + intros p' Hp'. rewrite Ef in Hp'. cbn in Hp'. injection Hp' as <-. rewrite <- Ep.
      intros Hin. exact (Hfresh (Hlp p Hin)).
    + eapply IH; [exact Hrec|].
      intros r Hr. apply (in_iset_insert pred_dec). left. apply Hlp, Hr.
  - apply Hlemma.
Qed.
