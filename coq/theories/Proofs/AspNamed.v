(* The hypothesis [program_vars_named] of the no-panic theorems (Proofs/NoPanic.v) is what the ASP
   parser guarantees: every variable of a parsed program matches [A-Z][A-Za-z0-9]*, in particular
   has a non-empty name. *)
From Coq Require Import List Ascii String Bool.
From Anthem Require Import Base.ISet Syntax.Asp Model.AspParse
  Proofs.NatTerms Proofs.AspLex Proofs.AspImage Proofs.ParserImagePipeline.
Import ListNotations.
Open Scope string_scope.

Lemma wf_variable_nonempty x : wf_variable x = true -> x <> "".
Proof. intros H ->. discriminate H. Qed.

Lemma wf_term_vars t : wf_term t -> forall x, In x (term_vars t) -> x <> "".
Proof.
  induction t as [p|y|o a IH|o l IHl r IHr]; cbn [wf_term term_vars]; intros H x Hx.
  - destruct Hx.
  - destruct Hx as [<-|[]]. apply wf_variable_nonempty, H.
  - exact (IH H x Hx).
  - apply (in_iset_extend string_dec) in Hx. destruct H as [Hl Hr]. destruct Hx; [exact (IHl Hl x H)|exact (IHr Hr x H)].
Qed.
Lemma wf_atom_vars a : wf_atom a -> forall x, In x (atom_vars a) -> x <> "".
Proof.
  intros [_ Hts] x Hx. apply in_atom_vars in Hx. destruct Hx as [t [Ht Hx]].
  rewrite Forall_forall in Hts. exact (wf_term_vars t (Hts t Ht) x Hx).
Qed.

Theorem wf_program_vars_named p : wf_program p -> program_vars_named p.
Proof.
  intros Hp r Hr x Hx. unfold wf_program in Hp. rewrite Forall_forall in Hp. destruct (Hp r Hr) as [Hh Hb].
  unfold rule_vars in Hx. apply (in_iset_extend string_dec) in Hx. destruct Hx as [Hx|Hx].
  - destruct (rhead r) as [a|a|]; cbn [head_vars wf_head] in *; [exact (wf_atom_vars a Hh x Hx)|exact (wf_atom_vars a Hh x Hx)|destruct Hx].
  - unfold body_vars in Hx. apply NatTerms.in_extend_all in Hx. destruct Hx as [[]|[b [Hbin Hx]]].
    rewrite Forall_forall in Hb. specialize (Hb b Hbin).
    destruct b as [l|c]; cbn [bformula_vars wf_bformula] in *; [exact (wf_atom_vars _ Hb x Hx)|].
    unfold cmp_vars in Hx. apply (in_iset_extend string_dec) in Hx. destruct Hb as [H1 H2].
    destruct Hx as [Hx|Hx]; [exact (wf_term_vars _ H1 x Hx)|exact (wf_term_vars _ H2 x Hx)].
Qed.

(* every program the ASP parser accepts has named variables *)
Theorem parsed_program_vars_named s p : parse_program_text s = POk p -> program_vars_named p.
Proof. intros H. apply wf_program_vars_named. exact (proj1 (parse_text_image s p H)). Qed.
