(* Audit A8 (b): portfolio-level NO-PANIC.

   The rewrites of classic.rs panic only on trees outside the image of the parser: a comparison
   with an empty guard list (`guards[0]`) and a bound variable with an empty name
   (`ivar.name.chars().next().unwrap()`); Formula::substitute panics only on a sort mismatch,
   which the rewrites never produce (SimplClassicTotal.v).  Model/SimplClassic.v totalises these
   panics to the identity in [CLASSIC]; the panic-aware list [CLASSIC_opt] keeps them visible.

     parser_image F  :=  guards_ok F /\ names_ok F           (Proofs/SimplClassicTotal.v)

   This file proves that [parser_image] is an INVARIANT of the whole portfolio
   INTUITIONISTIC ++ HT ++ CLASSIC - every one of the fifteen rewrites, Formula::substitute,
   Apply::apply, Compose::compose, apply_fixpoint - and concludes that the panic-aware runner
   never answers RPanic on a parser-image formula, for every strategy and every fuel
   (classic_no_panic).  Proofs/ParserImagePipeline.v shows that the formulas the end-to-end
   pipelines hand to the classic portfolio are in the parser image. *)
From Coq Require Import List Ascii String ZArith NArith Bool Lia.
From Anthem Require Import Base.ISet Base.Fresh Syntax.Fol
  Model.Apply Model.Subst Model.SimplIntuit Model.SimplClassic Model.StrategyCls Model.ClsTerm
  Proofs.SubstTerm Proofs.SubstOk Proofs.SimplClassicBase Proofs.SimplClassicOk Proofs.StrategyClsOk
  Proofs.SimplClassicTotal Proofs.SimplClassicClosed.
Import ListNotations.
Open Scope string_scope.
Open Scope list_scope.

Definition parser_image (F : formula) : Prop := guards_ok F /\ names_ok F.
Definition names_nonempty (vs : list var) : Prop := forall v, In v vs -> vname v <> "".

Lemma pi_atomic_plain a : (forall t gs, a <> ACmp t gs) -> parser_image (FAtomic a).
Proof. intros H. split; [|exact I]. destruct a; cbn; auto. exfalso. eapply H; reflexivity. Qed.
Lemma pi_true : parser_image (FAtomic ATrue).  Proof. split; exact I. Qed.
Lemma pi_false : parser_image (FAtomic AFalse). Proof. split; exact I. Qed.
Lemma pi_not f : parser_image (FNot f) <-> parser_image f.
Proof. unfold parser_image. cbn. tauto. Qed.
Lemma pi_bin c l r : parser_image (FBin c l r) <-> parser_image l /\ parser_image r.
Proof. unfold parser_image. cbn. tauto. Qed.
Lemma pi_q q vs f : parser_image (FQ q vs f) <-> names_nonempty vs /\ parser_image f.
Proof. unfold parser_image, names_nonempty. cbn. tauto. Qed.
Lemma pi_cmp t gs : parser_image (FAtomic (ACmp t gs)) <-> gs <> [].
Proof. unfold parser_image. cbn. tauto. Qed.

Lemma pi_quantify f q vs : names_nonempty vs -> parser_image f -> parser_image (quantify f q vs).
Proof. intros Hn Hf. unfold quantify. destruct vs; [exact Hf|]. apply pi_q. auto. Qed.

Lemma pi_reduce_and x xs : parser_image x -> (forall y, In y xs -> parser_image y) ->
  parser_image (fold_left (fun acc e => FBin CAnd acc e) xs x).
Proof.
  revert x. induction xs as [|y ys IH]; intros x Hx H; cbn [fold_left]; [exact Hx|].
  apply IH; [apply pi_bin; split; [exact Hx|apply H; left; reflexivity]|intros z Hz; apply H; right; exact Hz].
Qed.
Lemma pi_conjoin l : (forall x, In x l -> parser_image x) -> parser_image (conjoin l).
Proof.
  intros H. unfold conjoin, reduce_bin. destruct l as [|x xs]; [apply pi_true|].
  apply pi_reduce_and; [apply H; left; reflexivity|intros y Hy; apply H; right; exact Hy].
Qed.
Lemma pi_conjoin_invert F : parser_image F -> forall ct, In ct (conjoin_invert F) -> parser_image ct.
Proof.
  intros [Hg Hn] ct Hct. split;
    [exact (guards_ok_conjoin_invert F Hg ct Hct)|exact (names_ok_conjoin_invert F Hn ct Hct)].
Qed.

(* =========================================================== the ten INTUITIONISTIC rewrites *)
Definition pi_pres (r : formula -> formula) : Prop := forall F, parser_image F -> parser_image (r F).

Lemma evaluate_comparisons_guards_pi lhs gs x :
  In x (evaluate_comparisons_guards lhs gs) -> parser_image x.
Proof.
  revert lhs. induction gs as [|g gs IH]; intros lhs; cbn [evaluate_comparisons_guards]; [intros []|].
  intros [<-|H]; [|exact (IH _ H)].
  destruct (gterm_eqb lhs (gterm_of g)).
  - destruct (grel g); (apply pi_true || apply pi_false).
  - apply pi_cmp. discriminate.
Qed.
Lemma evaluate_comparisons_pi : pi_pres evaluate_comparisons.
Proof.
  intros F H. destruct F as [[| |p ts|t gs]|f|c l r|q vs f]; try exact H.
  cbn [evaluate_comparisons]. apply pi_conjoin. apply evaluate_comparisons_guards_pi.
Qed.
Lemma apply_negation_definition_inverse_pi : pi_pres apply_negation_definition_inverse.
Proof.
  intros F H. destruct F as [a|f|c l r|q vs f]; try exact H.
  destruct c; try exact H. destruct r as [[| |p ts|t gs]|f|c' l' r'|q vs f]; try exact H.
  cbn. apply pi_not. apply pi_bin in H. tauto.
Qed.
Lemma apply_reverse_implication_definition_pi : pi_pres apply_reverse_implication_definition.
Proof.
  intros F H. destruct F as [a|f|c l r|q vs f]; try exact H. destruct c; try exact H.
  cbn. apply pi_bin in H. apply pi_bin. tauto.
Qed.
Lemma apply_equivalence_definition_inverse_pi : pi_pres apply_equivalence_definition_inverse.
Proof.
  intros F H. destruct F as [a|f|c l r|q vs f]; try exact H. destruct c; try exact H.
  assert (Hc : parser_image (conjoin [l; r])) by (cbn; exact H).
  cbn [apply_equivalence_definition_inverse].
  destruct l as [a|f|c l1 l2|q vs f]; try exact Hc. destruct c; try exact Hc.
  destruct r as [a|f|c r1 r2|q vs f]; try exact Hc. destruct c; try exact Hc.
  destruct (formula_eqb l1 r2 && formula_eqb l2 r1); [|exact Hc].
  apply pi_bin in H. destruct H as [H1 _]. apply pi_bin in H1. apply pi_bin. exact H1.
Qed.
Lemma remove_identities_pi : pi_pres remove_identities.
Proof.
  intros F H. destruct F as [a|f|c l r|q vs f]; try exact H.
  apply pi_bin in H. destruct H as [Hl Hr].
  assert (HF : parser_image (FBin c l r)) by (apply pi_bin; auto).
  destruct c; try exact HF; cbn [remove_identities];
    destruct l as [[| |p ts|t gs]|f|c' l1 l2|q vs f]; destruct r as [[| |p' ts'|t' gs']|f'|c'' r1 r2|q' vs' f'];
    first [exact HF|exact Hl|exact Hr].
Qed.
Lemma remove_annihilations_pi : pi_pres remove_annihilations.
Proof.
  intros F H. destruct F as [a|f|c l r|q vs f]; try exact H.
  destruct c; try exact H; cbn [remove_annihilations];
    destruct l as [[| |p ts|t gs]|f|c' l1 l2|q vs f]; destruct r as [[| |p' ts'|t' gs']|f'|c'' r1 r2|q' vs' f'];
    try (apply pi_true); try (apply pi_false); try exact H;
    match goal with |- context [if ?b then _ else _] => destruct b end; first [apply pi_true|exact H].
Qed.
Lemma remove_idempotences_pi : pi_pres remove_idempotences.
Proof.
  intros F H. destruct F as [a|f|c l r|q vs f]; try exact H.
  destruct c; try exact H; cbn [remove_idempotences]; destruct (formula_eqb l r); try exact H;
    apply pi_bin in H; tauto.
Qed.
Lemma remove_orphaned_variables_pi : pi_pres remove_orphaned_variables.
Proof.
  intros F H. destruct F as [a|f|c l r|q vs f]; try exact H.
  cbn [remove_orphaned_variables]. apply pi_q in H. destruct H as [Hn Hf]. apply pi_q. split; [|exact Hf].
  intros v Hv. apply filter_In in Hv. apply Hn, Hv.
Qed.
Lemma remove_empty_quantifications_pi : pi_pres remove_empty_quantifications.
Proof.
  intros F H. destruct F as [a|f|c l r|q vs f]; try exact H.
  destruct vs; [|exact H]. cbn. apply pi_q in H. tauto.
Qed.

Lemma var_insert_in v l w : In w (var_insert v l) -> w = v \/ In w l.
Proof.
  induction l as [|x l IH]; cbn [var_insert]; [intros [<-|[]]; auto|].
  destruct (var_leb v x); cbn [In]; [intros [<-|[<-|H]]; auto|intros [<-|H]; auto].
  destruct (IH H); auto.
Qed.
Lemma var_sort_in l w : In w (var_sort l) -> In w l.
Proof.
  induction l as [|x l IH]; cbn [var_sort fold_right]; [auto|].
  intros H. apply var_insert_in in H. destruct H as [->|H]; [left; reflexivity|right; apply IH, H].
Qed.
Lemma var_dedup_in l w : In w (var_dedup l) -> In w l.
Proof.
  induction l as [|x l IH]; [auto|]. cbn [var_dedup]. destruct l as [|y l'].
  - auto.
  - destruct (var_eqb x y); [intros H; right; apply IH, H|].
    intros [<-|H]; [left; reflexivity|right; apply IH, H].
Qed.
Lemma join_nested_quantifiers_pi : pi_pres join_nested_quantifiers.
Proof.
  intros F H. destruct F as [a|f|c l r|q vs f]; try exact H.
  destruct f as [a|f|c l r|q' vs' f]; try exact H.
  cbn [join_nested_quantifiers]. destruct (quant_dec q q'); [|exact H].
  apply pi_q in H. destruct H as [Hn H]. apply pi_q in H. destruct H as [Hn' Hf].
  apply pi_quantify; [|exact Hf].
  intros v Hv. apply var_dedup_in, var_sort_in, in_app_iff in Hv. destruct Hv; auto.
Qed.

Lemma INTUITIONISTIC_pi : Forall pi_pres INTUITIONISTIC.
Proof.
  unfold INTUITIONISTIC. repeat (apply Forall_cons || apply Forall_nil).
  - exact evaluate_comparisons_pi.
  - exact apply_negation_definition_inverse_pi.
  - exact apply_reverse_implication_definition_pi.
  - exact apply_equivalence_definition_inverse_pi.
  - exact remove_identities_pi.
  - exact remove_annihilations_pi.
  - exact remove_idempotences_pi.
  - exact remove_orphaned_variables_pi.
  - exact remove_empty_quantifications_pi.
  - exact join_nested_quantifiers_pi.
Qed.

(* =========================================================================== Formula::substitute *)
Lemma pick_name_nonempty v avoid : vname v <> "" -> vname (pick v avoid) <> "".
Proof.
  intros Hv. destruct (pick_least v avoid) as [k [_ [-> _]]]. cbn [vname].
  destruct (vname v); [congruence|discriminate].
Qed.

Lemma asubst_guards a x t a' : asubst a x t = Some a' -> guards_ok (FAtomic a) -> guards_ok (FAtomic a').
Proof.
  intros E. apply asubst_inv in E. destruct a as [| |p ts|l gs].
  - subst. auto.
  - subst. auto.
  - destruct E as [ts' [-> _]]. auto.
  - destruct E as [l' [gs' [-> [_ F]]]]. cbn. intros Hg ->. inversion F; subst. congruence.
Qed.

Section RenameBlock.
Variable sub : formula -> var -> gterm -> option formula.
Variables tvs avoid0 : list var.
Hypothesis Hsub : forall f v t f1, sub f v t = Some f1 -> parser_image f -> parser_image f1.
Lemma rb_pi : forall vs f ch f' o, rename_block sub tvs avoid0 vs f ch = Some (f', o) ->
  names_nonempty vs -> parser_image f -> names_nonempty o /\ parser_image f'.
Proof.
  induction vs as [|v vs IH]; intros f ch f' o EQ Hn Hf.
  - cbn in EQ. inversion EQ; subst. split; [intros w []|exact Hf].
  - apply (rb_cons_inv sub tvs avoid0) in EQ.
    assert (Hn' : names_nonempty vs) by (intros w Hw; apply Hn; right; exact Hw).
    destruct EQ as [[_ [f1 [o1 [E1 [E2 ->]]]]]|[_ [o1 [E2 ->]]]].
    + destruct (IH _ _ _ _ E2 Hn' (Hsub _ _ _ _ E1 Hf)) as [Ho Hf']. split; [|exact Hf'].
      intros w [<-|Hw]; [apply pick_name_nonempty, Hn; left; reflexivity|apply Ho, Hw].
    + destruct (IH _ _ _ _ E2 Hn' Hf) as [Ho Hf']. split; [|exact Hf'].
      intros w [<-|Hw]; [apply Hn; left; reflexivity|apply Ho, Hw].
Qed.
End RenameBlock.

Lemma subst_fuel_pi n : forall F x t G, subst_fuel n F x t = Some G -> parser_image F -> parser_image G.
Proof.
  induction n as [|n IH]; intros F x t G E HF; [cbn in E; inversion E; subst; exact HF|].
  destruct F as [a|f|c l r|q vs f].
  - apply subst_atomic_inv in E. destruct E as [a' [Ea ->]]. split; [|exact I].
    exact (asubst_guards a x t a' Ea (proj1 HF)).
  - apply subst_not_inv in E. destruct E as [f' [E ->]]. apply pi_not. apply pi_not in HF. eauto.
  - apply subst_bin_inv in E. destruct E as [l' [r' [El [Er ->]]]]. apply pi_bin in HF. apply pi_bin.
    split; [eapply IH; [exact El|tauto]|eapply IH; [exact Er|tauto]].
  - apply subst_q_inv in E. destruct E as [[_ ->]|[_ [f' [vs' [f'' [E1 [E2 ->]]]]]]]; [exact HF|].
    apply pi_q in HF. destruct HF as [Hn Hf].
    destruct (rb_pi (subst_fuel n) _ _ (fun f0 v t0 f1 => IH f0 v t0 f1) _ _ _ _ _ E1 Hn Hf) as [Hn' Hf'].
    apply pi_quantify; [exact Hn'|]. exact (IH _ _ _ _ E2 Hf').
Qed.
Theorem substitute_pi F x t G : substitute F x t = Some G -> parser_image F -> parser_image G.
Proof. apply subst_fuel_pi. Qed.

(* ================================================================== the five CLASSIC rewrites *)
Lemma remove_double_negation_pi : pi_pres remove_double_negation.
Proof.
  intros F H. destruct F as [a|[a|g|c l r|q vs g]|c l r|q vs g]; exact H.
Qed.

Lemma extend_quantifier_scope_pi : pi_pres extend_quantifier_scope.
Proof.
  intros F H.
  destruct (extend_quantifier_scope_cases F)
    as [E|[(c&q&vs&f&rhs&Hc&->&_&->)|(c&q&vs&f&lhs&Hc&->&_&->)]]; [rewrite E; exact H| |].
  - apply pi_bin in H. destruct H as [H1 H2]. apply pi_q in H1. apply pi_q. split; [tauto|]. apply pi_bin. tauto.
  - apply pi_bin in H. destruct H as [H1 H2]. apply pi_q in H2. apply pi_q. split; [tauto|]. apply pi_bin. tauto.
Qed.

Lemma sdv_loop_pi : forall vs f f', sdv_loop vs f = Some f' -> parser_image f -> parser_image f'.
Proof.
  induction vs as [|v vs IH]; intros f f'; cbn [sdv_loop]; [intros [= <-]; auto|].
  destruct (find_definition v f) as [d|]; [|apply IH].
  destruct (substitute f v d) as [f1|] eqn:Es; [|discriminate].
  intros H Hf. exact (IH _ _ H (substitute_pi _ _ _ _ Es Hf)).
Qed.
Lemma substitute_defined_variables_pi : pi_pres substitute_defined_variables.
Proof.
  intros F H. unfold substitute_defined_variables, total.
  destruct F as [a|g|c l r|q vs f]; cbn [substitute_defined_variables_opt]; try exact H.
  destruct q; try exact H.
  destruct (sdv_loop (rev vs) f) as [f'|] eqn:E; [|exact H].
  apply pi_q in H. destruct H as [Hn Hf]. apply pi_quantify; [exact Hn|]. exact (sdv_loop_pi _ _ _ E Hf).
Qed.

(* the fresh integer variable of restrict_quantifier_domain has a non-empty name *)
Lemma choose_fresh_one_name vars variant fvar rest : variant <> "" ->
  SimplClassic.choose_fresh_variable_names vars variant 1 = fvar :: rest -> fvar <> "".
Proof.
  intros Hv. unfold SimplClassic.choose_fresh_variable_names.
  destruct (memb string_dec variant (map vname vars)).
  - cbn [seq map cfvn_loop List.length].
    destruct (find_fresh_by _ variant _ (N.of_nat 1)) as [[c k]|] eqn:E; cbn [cfvn_loop app]; [|discriminate].
    intros [= <- _]. apply find_fresh_by_sound in E. destruct E as [_ [-> _]].
    destruct variant; [congruence|discriminate].
  - cbn. intros [= <- _]. exact Hv.
Qed.
Lemma first_char_nonempty s c : first_char s = Some c -> c <> "".
Proof. destruct s; cbn; [discriminate|]. intros [= <-]. discriminate. Qed.

Lemma replacement_helper_pi ivar ovar comp F G :
  replacement_helper ivar ovar comp F = Some (G, true) -> parser_image F -> parser_image G.
Proof.
  unfold replacement_helper.
  match goal with |- (if ?c then _ else _) = _ -> _ => destruct c end; [|intros [= _ ?]; discriminate].
  assert (Hvne : fresh_variant (vname ivar) <> "").
  { unfold fresh_variant. destruct (first_char (trim_start_underscores (vname ivar))) as [v|] eqn:Fc.
    - exact (first_char_nonempty _ _ Fc).
    - discriminate. }
  destruct (SimplClassic.choose_fresh_variable_names (variables F) (fresh_variant (vname ivar)) 1) as [|fvar rest] eqn:CF; [discriminate|].
  pose proof (choose_fresh_one_name _ _ _ _ Hvne CF) as Hf.
  destruct F as [a|g|c l r|q vars f]; try discriminate.
  destruct (substitute f ovar (GInt (IVar fvar))) as [f'|] eqn:Sub; [|discriminate].
  intros [= <-] H. apply pi_q in H. destruct H as [Hn HF]. apply pi_q. split.
  - intros v Hv. apply in_app_iff in Hv. destruct Hv as [Hv|[<-|[]]]; [|exact Hf].
    apply filter_In in Hv. apply Hn, Hv.
  - exact (substitute_pi _ _ _ _ Sub HF).
Qed.

Lemma rqd_hit_pi F outer inner cond comps G :
  rqd_hit F outer inner cond comps G -> parser_image F -> parser_image G.
Proof. intros (ivar & ovar & comp & _ & _ & _ & _ & _ & R). exact (replacement_helper_pi _ _ _ _ _ R). Qed.

Lemma restrict_quantifier_domain_pi : pi_pres restrict_quantifier_domain.
Proof.
  intros F HF. unfold restrict_quantifier_domain, total.
  destruct F as [a|g|c l r|q outer body]; cbn [restrict_quantifier_domain_opt]; try exact HF.
  destruct q.
  - destruct body as [a|g|c lhs rhs|q' vs' g]; try exact HF.
    destruct c; try exact HF.
    destruct lhs as [a|g|c l r|q' inner inner_formula]; try exact HF.
    destruct q'; try exact HF.
    set (B := FBin CImp (FQ QExists inner inner_formula) rhs) in *. set (F := FQ QForall outer B) in *.
    fold (cond_all inner rhs).
    match goal with |- context [option_map fst ?x] => destruct x as [s'|] eqn:L end; [|exact HF].
    cbn [option_map].
    assert (P : fst s' = F \/ rqd_hit F outer inner (cond_all inner rhs) (conjoin_invert inner_formula) (fst s')).
    { revert L.
      apply (for_break_inv (fun s => fst s = F \/
               rqd_hit F outer inner (cond_all inner rhs) (conjoin_invert inner_formula) (fst s)));
        [|left; reflexivity].
      intros s0 x s2 b0 Hx P0.
      apply (rqd_comp_body_inv F outer inner (cond_all inner rhs) (conjoin_invert inner_formula)
               (fun s => fst s = F \/
                  rqd_hit F outer inner (cond_all inner rhs) (conjoin_invert inner_formula) (fst s))
               (fun G HG => or_intror HG) false s0 x s2 b0 Hx P0). }
    destruct P as [->|P]; [exact HF|]. exact (rqd_hit_pi _ _ _ _ _ _ P HF).
  - destruct body as [a|g|c lhs rhs|q' vs' g]; try exact HF.
    destruct c; try exact HF.
    set (B := FBin CAnd lhs rhs) in *. set (F := FQ QExists outer B) in *.
    set (cts := conjoin_invert lhs ++ conjoin_invert rhs).
    match goal with |- context [option_map fst ?x] => destruct x as [s'|] eqn:L end; [|exact HF].
    cbn [option_map].
    assert (P : fst s' = F \/ rqd_hit_ex F outer cts (fst s')).
    { revert L. apply (for_break_inv (fun s => fst s = F \/ rqd_hit_ex F outer cts (fst s))); [|left; reflexivity].
      intros s0 x s2 b0 Hx P0. apply (rqd_ct_body_inv F outer cts s0 x s2 b0 Hx P0). }
    destruct P as [->|[inner [inner_formula [_ P]]]]; [exact HF|]. exact (rqd_hit_pi _ _ _ _ _ _ P HF).
Qed.

Lemma ste_good_pi vars f G : names_nonempty vars -> parser_image f ->
  ste_good vars (conjoin_invert f) G -> parser_image G.
Proof.
  intros Hn Hf (c1 & c2 & k & d & dt & inner & _ & _ & _ & _ & _ & _ & Sub & ->).
  apply pi_q. split; [exact Hn|]. apply (substitute_pi _ _ _ _ Sub).
  apply pi_conjoin. intros x Hx. apply filter_In in Hx. exact (pi_conjoin_invert f Hf x (proj1 Hx)).
Qed.
Lemma simplify_transitive_equality_pi : pi_pres simplify_transitive_equality.
Proof.
  intros F HF. unfold simplify_transitive_equality, total.
  destruct F as [a|g|c l r|q vs f]; cbn [simplify_transitive_equality_opt]; try exact HF.
  destruct q; try exact HF.
  destruct f as [a|g|c l r|q' vs' g]; try exact HF.
  destruct c; try exact HF.
  set (f := FBin CAnd l r) in *. set (F := FQ QExists vs f) in *.
  destruct (for_break (ste_outer_body vs (conjoin_invert f)) (F, false) (enumerate (conjoin_invert f)))
    as [s'|] eqn:L; [|exact HF].
  cbn [option_map].
  assert (P : fst s' = F \/ ste_good vs (conjoin_invert f) (fst s')).
  { revert L. apply (for_break_inv (fun s => fst s = F \/ ste_good vs (conjoin_invert f) (fst s))); [|left; reflexivity].
    intros s0 x s2 b0 Hx P0. apply (ste_outer_body_inv F vs (conjoin_invert f)); auto.
    destruct x as [j ct]. cbn [snd]. eapply in_enumerate; eauto. }
  destruct P as [->|P]; [exact HF|].
  apply pi_q in HF. destruct HF as [Hn Hf]. exact (ste_good_pi vs f _ Hn Hf P).
Qed.

Lemma CLASSIC_pi : Forall pi_pres CLASSIC.
Proof.
  unfold CLASSIC. repeat (apply Forall_cons || apply Forall_nil).
  - exact remove_double_negation_pi.
  - exact substitute_defined_variables_pi.
  - exact restrict_quantifier_domain_pi.
  - exact extend_quantifier_scope_pi.
  - exact simplify_transitive_equality_pi.
Qed.

Theorem portfolio_classic_pi : Forall pi_pres portfolio_classic.
Proof.
  unfold portfolio_classic, HT. rewrite app_nil_l. apply Forall_app. split; [exact INTUITIONISTIC_pi|exact CLASSIC_pi].
Qed.

(* ============================================================ compose, apply, apply_fixpoint *)
Lemma compose_pi rs : Forall pi_pres rs -> pi_pres (compose rs).
Proof.
  unfold compose. induction 1 as [|r rs Hr _ IH]; intros F HF; cbn [fold_left]; [exact HF|].
  apply IH, Hr, HF.
Qed.
Lemma apply_pi r : pi_pres r -> pi_pres (apply r).
Proof.
  intros Hr F. induction F as [a|f IH|c l IHl r' IHr|q vs f IH]; intros HF; cbn [apply]; apply Hr.
  - exact HF.
  - apply pi_not. apply pi_not in HF. auto.
  - apply pi_bin. apply pi_bin in HF. tauto.
  - apply pi_q. apply pi_q in HF. tauto.
Qed.
Lemma apply_fixpoint_from_pi fuel r : pi_pres r -> forall previous current G,
  parser_image current -> apply_fixpoint_from fuel r previous current = Some G -> parser_image G.
Proof.
  intros Hr. induction fuel as [|n IH]; intros previous current G Hc; cbn [apply_fixpoint_from];
    destruct (formula_eqb previous current); try discriminate; try (intros [= <-]; exact Hc).
  apply IH. apply apply_pi; assumption.
Qed.
Theorem apply_fixpoint_pi fuel r F G : pi_pres r -> parser_image F ->
  apply_fixpoint fuel r F = Some G -> parser_image G.
Proof. intros Hr HF. unfold apply_fixpoint. apply apply_fixpoint_from_pi; [exact Hr|apply apply_pi; assumption]. Qed.

Theorem run_strategy_pi fuel rs s F G : Forall pi_pres rs -> parser_image F ->
  run_strategy fuel rs s F = Some G -> parser_image G.
Proof.
  intros Hrs HF. pose proof (compose_pi rs Hrs) as Hc. destruct s; cbn [run_strategy].
  - intros [= <-]. apply Hc, HF.
  - intros [= <-]. apply apply_pi; assumption.
  - apply apply_fixpoint_pi; assumption.
Qed.

(* ======================================================================== the panic-aware runner *)
(* [safe fo ft]: on a parser-image tree the panic-aware rewrite returns a value - that of the total
   rewrite - and the value is again a parser-image tree *)
Definition safe (fo : formula -> option formula) (ft : formula -> formula) : Prop :=
  forall F, parser_image F -> fo F = Some (ft F) /\ parser_image (ft F).

Lemma safe_lift (r : formula -> formula) : pi_pres r -> safe (fun F => Some (r F)) r.
Proof. intros Hr F HF. split; [reflexivity|apply Hr, HF]. Qed.
Lemma safe_total fo : (forall F, parser_image F -> exists G, fo F = Some G) -> pi_pres (total fo) -> safe fo (total fo).
Proof.
  intros Ht Hp F HF. split; [|apply Hp, HF]. destruct (Ht F HF) as [G E]. unfold total. rewrite E. reflexivity.
Qed.

Lemma CLASSIC_opt_safe : Forall2 safe CLASSIC_opt CLASSIC.
Proof.
  unfold CLASSIC_opt, CLASSIC. repeat (apply Forall2_cons || apply Forall2_nil).
  - apply safe_lift, remove_double_negation_pi.
  - apply safe_total; [intros F _; apply substitute_defined_variables_no_panic|exact substitute_defined_variables_pi].
  - apply safe_total; [intros F [Hg Hn]; apply restrict_quantifier_domain_no_panic; assumption
                      |exact restrict_quantifier_domain_pi].
  - apply safe_lift, extend_quantifier_scope_pi.
  - apply safe_total; [intros F [Hg _]; apply simplify_transitive_equality_no_panic; assumption
                      |exact simplify_transitive_equality_pi].
Qed.
Lemma lift_safe (lift : (formula -> formula) -> formula -> option formula) rs :
  (forall r F, lift r F = Some (r F)) -> Forall pi_pres rs -> Forall2 safe (map lift rs) rs.
Proof.
  intros Hl. induction 1 as [|r rs Hr _ IH]; cbn [map]; constructor; [|exact IH].
  intros F HF. split; [apply Hl|apply Hr, HF].
Qed.

Lemma compose_opt_safe fos fts : Forall2 safe fos fts -> safe (compose_opt fos) (compose fts).
Proof.
  unfold compose_opt, compose. induction 1 as [|fo ft fos fts S _ IH]; intros F HF; cbn [fold_left].
  - split; [reflexivity|exact HF].
  - destruct (S F HF) as [E HF']. rewrite E. apply IH, HF'.
Qed.
Lemma apply_opt_safe fo ft : safe fo ft -> safe (apply_opt fo) (apply ft).
Proof.
  intros S F. induction F as [a|f IH|c l IHl r IHr|q vs f IH]; intros HF; cbn [apply_opt apply].
  - apply S, HF.
  - apply pi_not in HF. destruct (IH HF) as [E H']. rewrite E. apply S. apply pi_not. exact H'.
  - apply pi_bin in HF. destruct HF as [Hl Hr]. destruct (IHl Hl) as [El Hl']. destruct (IHr Hr) as [Er Hr'].
    rewrite El, Er. apply S. apply pi_bin. auto.
  - apply pi_q in HF. destruct HF as [Hn Hf]. destruct (IH Hf) as [E H']. rewrite E. apply S. apply pi_q. auto.
Qed.
Lemma apply_fixpoint_opt_from_no_panic fuel fo ft : safe fo ft -> forall previous current,
  parser_image current -> apply_fixpoint_opt_from fuel fo previous current <> RPanic.
Proof.
  intros S. induction fuel as [|n IH]; intros previous current Hc; cbn [apply_fixpoint_opt_from];
    destruct (formula_eqb previous current); try discriminate.
  destruct (apply_opt_safe fo ft S current Hc) as [E H']. rewrite E. apply IH, H'.
Qed.

Theorem run_strategy_opt_no_panic fuel fos fts s F : Forall2 safe fos fts -> parser_image F ->
  run_strategy_opt fuel fos s F <> RPanic.
Proof.
  intros S HF. pose proof (compose_opt_safe fos fts S) as Sc. destruct s; cbn [run_strategy_opt].
  - destruct (Sc F HF) as [-> _]. discriminate.
  - destruct (apply_opt_safe _ _ Sc F HF) as [-> _]. discriminate.
  - unfold apply_fixpoint_opt. destruct (apply_opt_safe _ _ Sc F HF) as [-> H'].
    apply (apply_fixpoint_opt_from_no_panic fuel _ _ Sc), H'.
Qed.

(* ... and the result, when there is one, is again in the parser image *)
Lemma apply_fixpoint_opt_from_pi fuel fo ft : safe fo ft -> forall previous current G,
  parser_image current -> apply_fixpoint_opt_from fuel fo previous current = RDone G -> parser_image G.
Proof.
  intros S. induction fuel as [|n IH]; intros previous current G Hc; cbn [apply_fixpoint_opt_from];
    destruct (formula_eqb previous current); try discriminate; try (intros [= <-]; exact Hc).
  destruct (apply_opt_safe fo ft S current Hc) as [E H']. rewrite E. apply IH, H'.
Qed.
Theorem run_strategy_opt_pi fuel fos fts s F G : Forall2 safe fos fts -> parser_image F ->
  run_strategy_opt fuel fos s F = RDone G -> parser_image G.
Proof.
  intros S HF. pose proof (compose_opt_safe fos fts S) as Sc. destruct s; cbn [run_strategy_opt].
  - destruct (Sc F HF) as [-> H']. intros [= <-]. exact H'.
  - destruct (apply_opt_safe _ _ Sc F HF) as [-> H']. intros [= <-]. exact H'.
  - unfold apply_fixpoint_opt. destruct (apply_opt_safe _ _ Sc F HF) as [-> H'].
    apply (apply_fixpoint_opt_from_pi fuel _ _ Sc), H'.
Qed.

(* the portfolio of `simplify --portfolio classic` and of `verify`, panics visible (ClsTerm's list) *)
Lemma portfolio_classic_opt_safe : Forall2 safe portfolio_classic_opt portfolio_classic.
Proof.
  unfold portfolio_classic_opt, portfolio_classic. rewrite app_assoc.
  apply Forall2_app; [|exact CLASSIC_opt_safe].
  apply lift_safe; [reflexivity|]. unfold HT. rewrite app_nil_r. exact INTUITIONISTIC_pi.
Qed.

Theorem classic_no_panic fuel s F : parser_image F ->
  run_strategy_opt fuel portfolio_classic_opt s F <> RPanic.
Proof. apply (run_strategy_opt_no_panic fuel _ _ s F portfolio_classic_opt_safe). Qed.
