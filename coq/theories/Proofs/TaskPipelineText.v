(* Audit B8 (C09 tie), part 7: composition with C09 / C06 / C12text.  For every problem of an accepted
   strong- or external-equivalence task (decidable premises Model/TaskPremises.v on the task,
   IdentClass on the emitted problem) the emitted bytes are read by the specification reader as a
   well-typed TFF problem, and every formula in it means what its source formula means. *)
From Coq Require Import List Ascii String ZArith NArith Bool Lia.
From Anthem Require Import Base.ISet Syntax.Fol Syntax.Asp Syntax.Tff Sem.TffSem Sem.TffWt
  Model.Problem Model.TptpPrint Model.ProblemPrint Model.TffText Model.Outline Model.Strong Model.StrongFull
  Model.External Model.ExternalFull Model.Tightness Model.PrivRec Model.Completion Model.TaskPremises
  Proofs.PipelineOk Proofs.ProblemWt Proofs.ProblemCtx Proofs.ProblemText Proofs.TptpSem
  Proofs.ParserImagePipeline Proofs.C19Ext
  Proofs.TaskPipelineBn Proofs.TaskPipelineClosed Proofs.TaskPipelineStrong Proofs.TaskPipelineExt Proofs.TaskPipelineExtFull.
Import ListNotations.
Open Scope string_scope.
Open Scope list_scope.

(* ---------- the printed file depends on the formula list only (not on the problem's name) ---------- *)
Lemma same_formulas pb pb' : pb_formulas pb = pb_formulas pb' ->
  problem_display pb = problem_display pb' /\ emit pb = emit pb' /\ ident_ok pb = ident_ok pb'.
Proof. destruct pb as [n fs], pb' as [n' fs']. cbn [pb_formulas]. intros ->. repeat split; reflexivity. Qed.

Section Problem.
Variable pb : problem.
Hypothesis Hok : task_problem_ok pb.

Lemma task_problem_parts : exists raw d pb', In pb' (pipeline raw d) /\
  problem_display pb = problem_display pb' /\ emit pb = emit pb' /\ ident_ok pb = ident_ok pb' /\
  pb_formulas pb = pb_formulas pb' /\
  (forall a, In a (pb_formulas raw) -> closed_formula (pf_formula a) = true) /\
  (forall a, In a (pb_formulas raw) -> cmps_nonempty (pf_formula a) = true).
Proof.
  destruct Hok as (raw & d & pb' & Hin & E & Hs). destruct (same_formulas pb pb' E) as (A & B & C).
  exists raw, d, pb'. repeat split; auto; intros a Ha; apply (Hs a Ha).
Qed.

Theorem task_problem_text : ~ (ident_ok pb = false) ->
  exists txt tp, problem_display pb = Some txt /\ read_problem txt = Some tp /\ wt_problem tp = true.
Proof.
  destruct task_problem_parts as (raw & d & pb' & Hin & A & B & C & _ & Hc & Hn). rewrite A, C.
  intros Hid. exact (pipeline_text_wt raw d pb' Hc Hn Hin Hid).
Qed.
Theorem task_problem_reads txt : ~ (ident_ok pb = false) ->
  problem_display pb = Some txt -> read_problem txt = Some (emit pb) /\ wt_problem (emit pb) = true.
Proof.
  destruct task_problem_parts as (raw & d & pb' & Hin & A & B & C & _ & Hc & Hn). rewrite A, B, C.
  intros Hid Hd. split; [exact (pipeline_display_reads_as_emit raw d pb' txt Hc Hn Hin Hid Hd)|].
  exact (pipeline_wt raw d pb' Hc Hin Hid).
Qed.
Lemma task_problem_wf_lex : ident_ok pb = true -> forall a, In a (pb_formulas pb) -> wf_lex (pf_formula a) = true.
Proof.
  destruct task_problem_parts as (raw & d & pb' & Hin & A & B & C & E & Hc & Hn). rewrite C, E.
  intros Hid a Ha. apply (ctx_wf_lex pb' Hid a Ha).
  - apply (pipeline_closed raw d pb' Hc Hin), Ha.
  - apply (pipeline_cmps raw d pb' Hn Hin), Ha.
Qed.
Theorem task_problem_meaning a : ident_ok pb = true -> In a (pb_formulas pb) ->
  exists g : tff_formula, tff_read (print_formula (pf_formula a)) = Some g /\
    forall (FI : Sat.fint) (M : Sat.pint) (e : Sat.env),
      tff_sat (tstruct_in (csig_of_decls (tp_decls (emit pb))) FI M) (tenv_of e) g <-> Sat.csat FI M e (pf_formula a).
Proof.
  intros Hid Ha. apply c06_in_problem; [exact Hid|exact Ha|]. apply task_problem_wf_lex; assumption.
Qed.
Theorem task_problem_text_meaning txt tp : ident_ok pb = true ->
  problem_display pb = Some txt -> read_problem txt = Some tp ->
  forall a, In a (pb_formulas pb) ->
  exists nf : tff_named, In nf (tp_formulas tp) /\ n_name nf = pf_name a /\ n_role nf = tff_role_of (pf_role a) /\
    forall (FI : Sat.fint) (M : Sat.pint) (e : Sat.env),
      tff_sat (tstruct_in (csig_of_decls (tp_decls tp)) FI M) (tenv_of e) (n_formula nf) <-> Sat.csat FI M e (pf_formula a).
Proof. intros Hid. apply c06_text; [exact Hid|apply task_problem_wf_lex, Hid]. Qed.
Theorem task_problem_preamble txt tp : ident_ok pb = true ->
  problem_display pb = Some txt -> read_problem txt = Some tp ->
  exists ds fs, tp_decls tp = pre_decls_tff ++ ds /\ tp_formulas tp = pre_named_tff ++ fs.
Proof. intros Hid. apply text_contains_preamble; [exact Hid|apply task_problem_wf_lex, Hid]. Qed.
End Problem.

(* the part that needs no premise at all: one conjecture, unique names *)
Theorem shape_one_conjecture_names pb : problem_P (fun _ => True) pb ->
  wt_one_conjecture (emit pb) = true /\ NoDup (map pf_name (pb_formulas pb)).
Proof.
  intros (raw & d & pb' & Hin & E & _). destruct (same_formulas pb pb' E) as (_ & B & _). rewrite B, E.
  split; [exact (pipeline_one_conjecture raw d pb' Hin)|exact (pipeline_names_nodup raw d pb' Hin)].
Qed.

(* ---------- the decidable task premises ---------- *)
Lemma program_named_ok P : program_named P = true -> program_vars_named P.
Proof.
  unfold program_named. rewrite forallb_forall. intros H r Hr x Hx. specialize (H r Hr).
  rewrite forallb_forall in H. specialize (H x Hx). unfold var_named in H.
  apply negb_true_iff, String.eqb_neq in H. exact H.
Qed.
Lemma sentence_sent f : sentence f = true -> sent f.
Proof. unfold sentence, sent. apply andb_true_iff. Qed.
Lemma in_image_ok f : in_image f = true -> user_image f.
Proof. unfold in_image, user_image, bn, gd. apply andb_true_iff. Qed.

Theorem strong_task_problem_ok fuel t pbs pb : strong_task_ok t = true ->
  strong_decompose_full_fuel fuel t = SOk pbs -> In pb pbs -> task_problem_ok pb.
Proof.
  unfold strong_task_ok. intros H E Hpb. apply andb_true_iff in H. destruct H as [Hl Hr].
  destruct (strong_full_sentences fuel t pbs pb (program_named_ok _ Hl) (program_named_ok _ Hr) E Hpb)
    as [raw [Hin Hs]].
  exists raw, (st_decomposition t), pb. auto.
Qed.
Lemma ext_task_ok_user t : ext_task_ok t = true ->
  program_vars_named (et_program t) /\ (forall L, et_specification t = inl L -> program_vars_named L) /\
  user_formulas_sent t.
Proof.
  unfold ext_task_ok. intros H. apply andb_true_iff in H. destruct H as [H Ho].
  apply andb_true_iff in H. destruct H as [H Hu]. apply andb_true_iff in H. destruct H as [Hp Hs].
  split; [apply program_named_ok, Hp|]. split; [|split; [|split]].
  - intros L E. rewrite E in Hs. apply program_named_ok, Hs.
  - intros s a E Ha. rewrite E in Hs. rewrite forallb_forall in Hs. apply sentence_sent, Hs, Ha.
  - intros a Ha Has. rewrite forallb_forall in Hu. specialize (Hu a Ha). rewrite Has in Hu. apply sentence_sent, Hu.
  - intros a Ha. rewrite forallb_forall in Ho. apply in_image_ok, Ho, Ha.
Qed.
Theorem ext_task_problem_ok fuel t w pbs pb : ext_task_ok t = true ->
  external_decompose_full fuel t = XOk w pbs -> In pb pbs -> task_problem_ok pb.
Proof.
  intros H E. destruct (ext_task_ok_user t H) as (Hp & Hl & Hu).
  exact (external_full_sentences fuel t w pbs E Hp Hl Hu pb).
Qed.

(* the bare shape *)
Theorem strong_task_shape fuel t pbs pb :
  strong_decompose_full_fuel fuel t = SOk pbs -> In pb pbs -> problem_P (fun _ => True) pb.
Proof.
  intros E Hpb. destruct (strong_full_in_pipeline fuel t pbs pb E Hpb) as [raw Hin].
  exists raw, (st_decomposition t), pb. auto.
Qed.
Theorem ext_task_shape fuel t w pbs pb :
  external_decompose_full fuel t = XOk w pbs -> In pb pbs -> problem_P (fun _ => True) pb.
Proof.
  intros H. unfold external_decompose_full in H.
  destruct (external_validate_full t) as [w0|e|]; try discriminate.
  assert (Hfin : forall r, of_result r = XOk w pbs -> r = Ok (w, pbs)).
  { intros [[w' pbs']|e|]; cbn; try discriminate. intros [= <- <-]. reflexivity. }
  assert (Hd : external_decompose_total fuel t = Ok (w, pbs)).
  { destruct (et_specification t) as [L|s].
    - destruct (translate_status fuel t _ L); try discriminate.
      destruct (translate_status fuel t _ (et_program t)); try discriminate. apply Hfin, H.
    - destruct (translate_status fuel t _ (et_program t)); try discriminate. apply Hfin, H. }
  exact (external_shape _ _ _ _ _ t w pbs Hd pb).
Qed.

(* ---------- the statement forms of Properties/C09tasks.v ---------- *)
Theorem ext_task_in_pipeline fuel t w pbs pb :
  external_decompose_full fuel t = XOk w pbs -> In pb pbs ->
  exists raw d pb', In pb' (pipeline raw d) /\ pb_formulas pb = pb_formulas pb'.
Proof. intros E H. destruct (ext_task_shape fuel t w pbs pb E H) as (raw & d & pb' & A & B & _). eauto. Qed.
Theorem strong_task_one_conjecture_names fuel t pbs pb :
  strong_decompose_full_fuel fuel t = SOk pbs -> In pb pbs ->
  wt_one_conjecture (emit pb) = true /\ NoDup (map pf_name (pb_formulas pb)).
Proof. intros E H. exact (shape_one_conjecture_names pb (strong_task_shape fuel t pbs pb E H)). Qed.
Theorem ext_task_one_conjecture_names fuel t w pbs pb :
  external_decompose_full fuel t = XOk w pbs -> In pb pbs ->
  wt_one_conjecture (emit pb) = true /\ NoDup (map pf_name (pb_formulas pb)).
Proof. intros E H. exact (shape_one_conjecture_names pb (ext_task_shape fuel t w pbs pb E H)). Qed.

Theorem strong_task_text fuel t pbs pb : strong_task_ok t = true ->
  strong_decompose_full_fuel fuel t = SOk pbs -> In pb pbs -> ~ (ident_ok pb = false) ->
  exists txt tp, problem_display pb = Some txt /\ read_problem txt = Some tp /\ wt_problem tp = true.
Proof. intros H E Hpb. exact (task_problem_text pb (strong_task_problem_ok fuel t pbs pb H E Hpb)). Qed.
Theorem ext_task_text fuel t w pbs pb : ext_task_ok t = true ->
  external_decompose_full fuel t = XOk w pbs -> In pb pbs -> ~ (ident_ok pb = false) ->
  exists txt tp, problem_display pb = Some txt /\ read_problem txt = Some tp /\ wt_problem tp = true.
Proof. intros H E Hpb. exact (task_problem_text pb (ext_task_problem_ok fuel t w pbs pb H E Hpb)). Qed.
Theorem strong_task_reads fuel t pbs pb txt : strong_task_ok t = true ->
  strong_decompose_full_fuel fuel t = SOk pbs -> In pb pbs -> ~ (ident_ok pb = false) ->
  problem_display pb = Some txt -> read_problem txt = Some (emit pb) /\ wt_problem (emit pb) = true.
Proof. intros H E Hpb. exact (task_problem_reads pb (strong_task_problem_ok fuel t pbs pb H E Hpb) txt). Qed.
Theorem ext_task_reads fuel t w pbs pb txt : ext_task_ok t = true ->
  external_decompose_full fuel t = XOk w pbs -> In pb pbs -> ~ (ident_ok pb = false) ->
  problem_display pb = Some txt -> read_problem txt = Some (emit pb) /\ wt_problem (emit pb) = true.
Proof. intros H E Hpb. exact (task_problem_reads pb (ext_task_problem_ok fuel t w pbs pb H E Hpb) txt). Qed.

Theorem strong_task_meaning fuel t pbs pb a : strong_task_ok t = true ->
  strong_decompose_full_fuel fuel t = SOk pbs -> In pb pbs -> ident_ok pb = true -> In a (pb_formulas pb) ->
  exists g : tff_formula, tff_read (print_formula (pf_formula a)) = Some g /\
    forall (FI : Sat.fint) (M : Sat.pint) (e : Sat.env),
      tff_sat (tstruct_in (csig_of_decls (tp_decls (emit pb))) FI M) (tenv_of e) g <-> Sat.csat FI M e (pf_formula a).
Proof. intros H E Hpb. exact (task_problem_meaning pb (strong_task_problem_ok fuel t pbs pb H E Hpb) a). Qed.
Theorem ext_task_meaning fuel t w pbs pb a : ext_task_ok t = true ->
  external_decompose_full fuel t = XOk w pbs -> In pb pbs -> ident_ok pb = true -> In a (pb_formulas pb) ->
  exists g : tff_formula, tff_read (print_formula (pf_formula a)) = Some g /\
    forall (FI : Sat.fint) (M : Sat.pint) (e : Sat.env),
      tff_sat (tstruct_in (csig_of_decls (tp_decls (emit pb))) FI M) (tenv_of e) g <-> Sat.csat FI M e (pf_formula a).
Proof. intros H E Hpb. exact (task_problem_meaning pb (ext_task_problem_ok fuel t w pbs pb H E Hpb) a). Qed.

Theorem strong_task_text_meaning fuel t pbs pb txt tp : strong_task_ok t = true ->
  strong_decompose_full_fuel fuel t = SOk pbs -> In pb pbs -> ident_ok pb = true ->
  problem_display pb = Some txt -> read_problem txt = Some tp ->
  (exists ds fs, tp_decls tp = pre_decls_tff ++ ds /\ tp_formulas tp = pre_named_tff ++ fs) /\
  forall a, In a (pb_formulas pb) ->
  exists nf : tff_named, In nf (tp_formulas tp) /\ n_name nf = pf_name a /\ n_role nf = tff_role_of (pf_role a) /\
    forall (FI : Sat.fint) (M : Sat.pint) (e : Sat.env),
      tff_sat (tstruct_in (csig_of_decls (tp_decls tp)) FI M) (tenv_of e) (n_formula nf) <-> Sat.csat FI M e (pf_formula a).
Proof.
  intros H E Hpb Hid Hd Hr. pose proof (strong_task_problem_ok fuel t pbs pb H E Hpb) as Hok. split.
  - exact (task_problem_preamble pb Hok txt tp Hid Hd Hr).
  - exact (task_problem_text_meaning pb Hok txt tp Hid Hd Hr).
Qed.
Theorem ext_task_text_meaning fuel t w pbs pb txt tp : ext_task_ok t = true ->
  external_decompose_full fuel t = XOk w pbs -> In pb pbs -> ident_ok pb = true ->
  problem_display pb = Some txt -> read_problem txt = Some tp ->
  (exists ds fs, tp_decls tp = pre_decls_tff ++ ds /\ tp_formulas tp = pre_named_tff ++ fs) /\
  forall a, In a (pb_formulas pb) ->
  exists nf : tff_named, In nf (tp_formulas tp) /\ n_name nf = pf_name a /\ n_role nf = tff_role_of (pf_role a) /\
    forall (FI : Sat.fint) (M : Sat.pint) (e : Sat.env),
      tff_sat (tstruct_in (csig_of_decls (tp_decls tp)) FI M) (tenv_of e) (n_formula nf) <-> Sat.csat FI M e (pf_formula a).
Proof.
  intros H E Hpb Hid Hd Hr. pose proof (ext_task_problem_ok fuel t w pbs pb H E Hpb) as Hok. split.
  - exact (task_problem_preamble pb Hok txt tp Hid Hd Hr).
  - exact (task_problem_text_meaning pb Hok txt tp Hid Hd Hr).
Qed.
