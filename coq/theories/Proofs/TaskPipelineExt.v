(* Audit B8 (C09 tie), part 5: EXTERNAL EQUIVALENCE.  Every problem of an accepted task
   (Model/External.external_decompose = Ok (w, pbs), any components; then Model/ExternalFull.v with
   the real ones) is

     - a member of [pipeline raw d]                       (the `<direction>_problem_<i>` files), or
     - [mkproblem name fs] where fs are the formulas of the one member of
       [pipeline raw DIndependent]                        (the `<direction>_outline_<i>_<j>` files:
       with_name(..).add_annotated_formulas(axioms).add_annotated_formulas([c])
       .rename_conflicting_symbols().create_unique_formula_names() is NOT decomposed, so the file
       name has no `_0` suffix; the formula list - hence the emitted text - is the same)

   and every formula of [raw] is a sentence without empty comparison, PROVIDED the user's own
   formulas are: anthem does not close or check the formulas of a specification or of the
   assumptions of a user guide (finding C09-free-variable: `spec: p(X).` is emitted as
   `tff(.., conjecture, p(X_g)).`).  Lemmas of a proof outline are universally closed by the code,
   definitions are checked to be closed; both only need the parser image (non-empty binders and
   guards). *)
From Coq Require Import List Ascii String ZArith NArith Bool Lia.
From Anthem Require Import Base.ISet Base.Fresh Syntax.Fol Syntax.Asp
  Model.Subst Model.Break Model.Problem Model.ProblemPrint Model.Outline Model.Strong Model.External
  Proofs.FreeVars Proofs.DecomposeOk Proofs.ExternalOk Proofs.AssemblyOk Proofs.OutlineOk Proofs.C19Ext Proofs.TasksClosed
  Proofs.TaskPipelineBn Proofs.TaskPipelineClosed.
Import ListNotations.
Open Scope string_scope.
Open Scope list_scope.

Section Shape.
(* [P]: the class of formulas tracked through the assembly; [sent] below, or [fun _ => True] for the
   bare shape *)
Variable P : formula -> Prop.
Hypothesis P_break : forall f, P f -> forall g, In g (break_equivalences_formula f) -> P g.

Definition all_P (l : list pformula) : Prop := forall a, In a l -> P (pf_formula a).
Lemma all_P_app l1 l2 : all_P (l1 ++ l2) <-> all_P l1 /\ all_P l2.
Proof.
  unfold all_P. split.
  - intros H. split; intros a Ha; apply H, in_app_iff; auto.
  - intros [H1 H2] a Ha. apply in_app_iff in Ha. destruct Ha; auto.
Qed.
Lemma all_P_nil : all_P [].
Proof. intros a []. Qed.

(* what C09_text / C06_in_pipeline need of an emitted problem *)
Definition problem_P (pb : problem) : Prop :=
  exists raw d pb', In pb' (pipeline raw d) /\ pb_formulas pb = pb_formulas pb' /\
    forall a, In a (pb_formulas raw) -> P (pf_formula a).

(* ---------- the two problem shapes ---------- *)
Lemma pipeline_finished name l d : pipeline (mkproblem name l) d = decompose (finished name l) d.
Proof. reflexivity. Qed.

Lemma unique_names_from_roles : forall l i, map pf_role (unique_names_from i l) = map pf_role l.
Proof. induction l as [|a l IH]; intros i; cbn; [reflexivity|]. rewrite IH. reflexivity. Qed.
Lemma finished_roles name l : map pf_role (pb_formulas (finished name l)) = map pf_role l.
Proof.
  unfold finished, create_unique_formula_names, rename_conflicting_symbols, pre_problem. cbn [pb_formulas pb_name].
  rewrite unique_names_from_roles, !map_map. apply map_ext. intros a. cbn. apply normalize_role.
Qed.
Lemma roles_split (L : list pformula) : forall R c0, map pf_role L = R ++ [c0] ->
  exists A c, L = A ++ [c] /\ map pf_role A = R /\ pf_role c = c0.
Proof.
  destruct L as [|x L'] using rev_ind; intros R c0 H.
  - destruct R; discriminate.
  - rewrite map_app in H. cbn in H. apply app_inj_tail in H. destruct H as [H1 H2]. eauto.
Qed.
Lemma all_role_of_map r A B : map pf_role A = map pf_role B -> all_role r B -> all_role r A.
Proof.
  intros E HB a Ha. apply (in_map pf_role) in Ha. rewrite E in Ha. apply in_map_iff in Ha.
  destruct Ha as [b [<- Hb]]. apply HB, Hb.
Qed.

Lemma finished_formulas name l a : In a (pb_formulas (pre_problem name l)) -> exists b, In b l /\ pf_formula a = pf_formula b.
Proof.
  unfold pre_problem. cbn. intros H. apply in_map_iff in H. destruct H as [b [<- Hb]].
  exists b. split; [exact Hb|apply normalize_formula].
Qed.

(* an outline problem: axioms followed by one conjecture, not decomposed *)
Lemma outline_problem_P name axs c : all_role PAxiom axs -> pf_role c = PConjecture ->
  all_P axs -> P (pf_formula c) -> problem_P (outline_problem name axs c).
Proof.
  intros Hax Hc Hs Hsc. rewrite outline_problem_finished.
  set (F := finished name (axs ++ [c])).
  pose proof (finished_roles name (axs ++ [c])) as Hr. fold F in Hr. rewrite map_app in Hr. cbn [map] in Hr.
  destruct (roles_split _ _ _ Hr) as [A [c' [EF [HA Hc']]]].
  assert (HA' : all_role PAxiom A) by (exact (all_role_of_map PAxiom A axs HA Hax)).
  exists (mkproblem name (axs ++ [c])), DIndependent, (mkproblem (pb_name F ++ "_" ++ nat_str 0) (pb_formulas F)).
  split; [|split; [reflexivity|]].
  - rewrite pipeline_finished. fold F. cbn [decompose]. unfold decompose_independent.
    destruct F as [n fs]. cbn [pb_formulas pb_name] in *. subst fs.
    destruct (axioms_snoc n A c' HA' (eq_trans Hc' Hc)) as [-> ->]. left. reflexivity.
  - cbn [pb_formulas]. intros a Ha. apply in_app_iff in Ha. destruct Ha as [Ha|[<-|[]]]; auto.
Qed.

Lemma final_problem_P name stable premises lemmas conclusions dec pb :
  all_P (stable ++ premises ++ flat_map gl_consequences lemmas ++ conclusions) ->
  In pb (final_problem name stable premises lemmas conclusions dec) -> problem_P pb.
Proof.
  intros Hs Hin. rewrite final_problem_eq, <- pipeline_finished in Hin.
  eexists _, dec, pb. split; [exact Hin|]. split; [reflexivity|exact Hs].
Qed.

Lemma in_firstn_in {A} k : forall (l : list A) x, In x (firstn k l) -> In x l.
Proof. induction k as [|k IH]; intros [|a l] x; cbn; try tauto. intros [->|H]; auto. Qed.

Definition lemma_P (g : general_lemma) : Prop :=
  lemma_roles g /\ all_P (gl_conjectures g) /\ all_P (gl_consequences g).

Lemma direction_problems_P prefix stable premises defs lemmas conclusions dec pb :
  all_role PAxiom stable -> all_role PAxiom premises ->
  all_P stable -> all_P premises -> all_P conclusions ->
  (forall d, In d defs -> P (an_formula d)) -> (forall g, In g lemmas -> lemma_P g) ->
  In pb (direction_problems prefix stable premises defs lemmas conclusions dec) -> problem_P pb.
Proof.
  intros Rs Rp Ss Sp Sc Sd Hl. unfold direction_problems. intros Hin. apply in_app_iff in Hin.
  assert (Hcons : forall ls, incl ls lemmas ->
            all_role PAxiom (flat_map gl_consequences ls) /\ all_P (flat_map gl_consequences ls)).
  { intros ls Hi. split; intros a Ha; apply in_flat_map in Ha; destruct Ha as [g [Hg Ha]];
      destruct (Hl g (Hi g Hg)) as [[_ R2] [_ S2]]; auto. }
  destruct Hin as [Hin|Hin].
  - apply outline_problems_in in Hin. destruct Hin as [k [g [j [c [Hk [Hj ->]]]]]].
    assert (Hg : In g lemmas) by (eapply nth_error_In; exact Hk).
    destruct (Hl g Hg) as [[R1 _] [S1 _]].
    assert (Hc : In c (gl_conjectures g)) by (eapply nth_error_In; exact Hj).
    destruct (Hcons (firstn k lemmas)) as [Rc Scs]; [intros x Hx; eapply in_firstn_in; exact Hx|].
    apply outline_problem_P; [| apply R1, Hc | | apply S1, Hc ].
    + repeat apply all_role_app; auto.
      intros a Ha. apply in_map_iff in Ha. destruct Ha as [d [<- _]]. reflexivity.
    + repeat (apply all_P_app; split); auto.
      intros a Ha. apply in_map_iff in Ha. destruct Ha as [d [<- Hd]]. cbn. apply Sd, Hd.
  - apply (final_problem_P _ _ _ _ _ _ _) in Hin; [exact Hin|].
    destruct (Hcons lemmas (incl_refl _)) as [_ Scs]. repeat (apply all_P_app; split); auto.
Qed.

(* ---------- the contributions of the two sides ---------- *)
Lemma conclusions_of_P brk a : P (an_formula a) -> all_P (conclusions_of brk a).
Proof.
  intros H c Hc. apply (in_map pf_formula) in Hc. rewrite conclusions_of_forms in Hc.
  destruct brk; [exact (P_break _ H _ Hc)|]. destruct Hc as [<-|[]]. exact H.
Qed.
Lemma all_P_one a : P (pf_formula a) -> all_P [a].
Proof. intros H x [<-|[]]. exact H. Qed.
Definition contrib_P (c : contrib) : Prop :=
  all_P (c_stable c) /\ all_P (c_fp c) /\ all_P (c_fc c) /\ all_P (c_bp c) /\ all_P (c_bc c).
Lemma left_contrib_P brk a c : left_contrib brk a = Some c -> P (an_formula a) -> contrib_P c.
Proof.
  intros E H. unfold left_contrib in E.
  assert (H1 : all_P [into_problem_formula a PAxiom]) by (apply all_P_one; exact H).
  destruct (an_role a); try discriminate.
  - destruct (an_dir a); injection E as <-; unfold contrib_P; repeat apply conj; cbn; try apply all_P_nil; exact H1.
  - injection E as <-. unfold contrib_P; repeat apply conj; cbn; try apply all_P_nil.
    + destruct (dir_forward (an_dir a)); [exact H1|apply all_P_nil].
    + destruct (dir_backward (an_dir a)); [apply conclusions_of_P, H|apply all_P_nil].
Qed.
Lemma right_contrib_P brk a c : right_contrib brk a = Some c -> P (an_formula a) -> contrib_P c.
Proof.
  intros E H. unfold right_contrib in E.
  assert (H1 : all_P [into_problem_formula a PAxiom]) by (apply all_P_one; exact H).
  destruct (an_role a); try discriminate.
  - destruct (an_dir a); injection E as <-; unfold contrib_P; repeat apply conj; cbn; try apply all_P_nil; exact H1.
  - injection E as <-. unfold contrib_P; repeat apply conj; cbn; try apply all_P_nil.
    + destruct (dir_forward (an_dir a)); [apply conclusions_of_P, H|apply all_P_nil].
    + destruct (dir_backward (an_dir a)); [exact H1|apply all_P_nil].
Qed.
Lemma contribs_P f l :
  (forall a c, f a = Some c -> P (an_formula a) -> contrib_P c) ->
  (forall a, In a l -> P (an_formula a)) ->
  forall cs, contribs f l = Some cs -> contrib_P cs.
Proof.
  intros Hf. induction l as [|a l IH]; intros Hl cs; cbn [contribs].
  - intros [= <-]. unfold contrib_P; repeat apply conj; apply all_P_nil.
  - destruct (f a) as [c|] eqn:Ec; [|discriminate]. destruct (contribs f l) as [cs'|]; [|discriminate].
    intros [= <-]. destruct (Hf a c Ec (Hl a (or_introl eq_refl))) as [H1 [H2 [H3 [H4 H5]]]].
    destruct (IH (fun b Hb => Hl b (or_intror Hb)) cs' eq_refl) as [G1 [G2 [G3 [G4 G5]]]].
    unfold contrib_P; repeat apply conj; cbn; apply all_P_app; split; assumption.
Qed.

(* the assembled task *)
Definition outline_P (o : proof_outline) : Prop :=
  (forall g, In g (forward_lemmas o) -> lemma_P g) /\ (forall g, In g (backward_lemmas o) -> lemma_P g) /\
  (forall d, In d (forward_definitions o) -> P (an_formula d)) /\
  (forall d, In d (backward_definitions o) -> P (an_formula d)).

Theorem assembled_P vt w' a : validated_assemble vt = Some (w', a) ->
  (forall x, In x (vt_left vt) -> P (an_formula x)) -> (forall x, In x (vt_right vt) -> P (an_formula x)) ->
  (forall x, In x (vt_user_guide_assumptions vt) -> P (an_formula x)) -> outline_P (vt_proof_outline vt) ->
  forall pb, In pb (assembled_decompose a) -> problem_P pb.
Proof.
  intros Ea HL HR HU [O1 [O2 [O3 O4]]].
  destruct (validated_assemble_contribs _ _ _ Ea) as (cl & cr & Ecl & Ecr & Est & Efp & Efc & Ebp & Ebc & Eout & Edec & Edir).
  destruct (contribs_roles _ _ (left_contrib_roles (vt_break vt)) cl Ecl) as [L1 [L2 [L3 [L4 L5]]]].
  destruct (contribs_roles _ _ (right_contrib_roles (vt_break vt)) cr Ecr) as [R1 [R2 [R3 [R4 R5]]]].
  destruct (contribs_P _ _ (left_contrib_P (vt_break vt)) HL cl Ecl) as [SL1 [SL2 [SL3 [SL4 SL5]]]].
  destruct (contribs_P _ _ (right_contrib_P (vt_break vt)) HR cr Ecr) as [SR1 [SR2 [SR3 [SR4 SR5]]]].
  assert (Rst : all_role PAxiom (at_stable_premises a)).
  { rewrite Est. repeat apply all_role_app; auto. intros x Hx. apply in_map_iff in Hx. destruct Hx as [y [<- _]]. reflexivity. }
  assert (Sst : all_P (at_stable_premises a)).
  { rewrite Est. repeat (apply all_P_app; split); auto.
    intros x Hx. apply in_map_iff in Hx. destruct Hx as [y [<- Hy]]. cbn. apply HU, Hy. }
  intros pb Hpb. unfold assembled_decompose in Hpb. apply in_app_iff in Hpb. destruct Hpb as [Hpb|Hpb].
  - destruct (dir_forward (at_direction a)); [|destruct Hpb].
    revert Hpb. apply direction_problems_P; rewrite ?Efp, ?Efc, ?Eout; auto.
    + apply all_role_app; auto.
    + apply all_P_app; auto.
    + apply all_P_app; auto.
  - destruct (dir_backward (at_direction a)); [|destruct Hpb].
    revert Hpb. apply direction_problems_P; rewrite ?Ebp, ?Ebc, ?Eout; auto.
    + apply all_role_app; auto.
    + apply all_P_app; auto.
    + apply all_P_app; auto.
Qed.
End Shape.

(* the instance used below: sentences without empty comparison *)
Notation all_sent := (all_P sent).
Notation lemma_ok := (lemma_P sent).
Notation task_problem_ok := (problem_P sent).
Notation outline_sent := (outline_P sent).
Definition all_sent_one := all_P_one sent.

(* ---------- the proof outline ---------- *)
Lemma rp_bn m f : binders_nonempty (rp_formula m f) = binders_nonempty f.
Proof.
  induction f as [a|g IH|c l IHl r IHr|q vs g IH]; cbn [rp_formula binders_nonempty]; auto.
  - rewrite IHl, IHr. reflexivity.
  - rewrite IH. reflexivity.
Qed.

(* an accepted definition is closed *)
Lemma definition_closed f taken p w : definition f taken = Ok (p, w) -> bn f -> closed_formula f = true.
Proof.
  intros Hd Hb. apply closed_iff. split; [exact Hb|].
  destruct (definition_shape f taken p w Hd) as (vs & q & ts & rhs & tv & -> & _ & _ & Etv & Hvt & _ & Hrhs & _).
  match goal with |- ?l = [] => destruct l as [|x xs] eqn:E; [reflexivity|exfalso] end.
  match type of E with ?l = _ => assert (Hx : In x l) by (rewrite E; left; reflexivity) end.
  apply in_fv_q in Hx. destruct Hx as [Hx Hn]. apply Hn. apply in_fv_bin in Hx. destruct Hx as [Hx|Hx]; [|apply Hrhs, Hx].
  cbn [free_variables] in Hx. apply in_aformula_vars_atom in Hx. destruct Hx as [g [Hg Hx]].
  destruct (terms_as_vars_in ts [] tv Etv) as [H1 H2]. destruct (H1 g Hg) as [v Ev].
  assert (x = v).
  { destruct g as [| |c0|y|it|st]; cbn in Ev; try discriminate.
    - injection Ev as <-. destruct Hx as [<-|[]]. reflexivity.
    - destruct it; try discriminate. injection Ev as <-. destruct Hx as [<-|[]]. reflexivity.
    - destruct st; try discriminate. injection Ev as <-. destruct Hx as [<-|[]]. reflexivity. }
  subst x. apply Hvt.
  (* v is in tv: terms_as_vars inserts every term's variable *)
  clear - Etv Hg Ev. revert Etv. generalize (@nil var) as acc. revert tv.
  induction ts as [|t ts IH]; [destruct Hg|]. intros tv acc. cbn [terms_as_vars].
  destruct (gterm_to_var t) as [u|] eqn:Eu; [|discriminate]. intros H. destruct Hg as [->|Hg].
  - rewrite Ev in Eu. injection Eu as <-.
    assert (K : forall ts acc tv, terms_as_vars ts acc = inl tv -> forall z, In z acc -> In z tv).
    { clear. induction ts as [|t ts IH]; intros acc tv; cbn [terms_as_vars]; [intros [= <-]; auto|].
      destruct (gterm_to_var t); [|discriminate]. intros H z Hz. apply (IH _ _ H). apply (in_iset_insert var_dec). auto. }
    apply (K _ _ _ H). apply (in_iset_insert var_dec). auto.
  - exact (IH Hg _ _ H).
Qed.

(* lemmas: roles, and sentences when the annotated formula is one *)
Lemma try_from_ok a g : general_lemma_try_from a = Ok g -> sent (an_formula a) -> lemma_ok g.
Proof.
  unfold general_lemma_try_from. intros E Hs. destruct (an_role a); try discriminate.
  - injection E as <-. split; [split; intros c [<-|[]]; reflexivity|].
    split; intros c [<-|[]]; exact Hs.
  - destruct (inductive_lemma (an_formula a)) as [[base step]|e|] eqn:Ei; try discriminate.
    injection E as <-. split; [split; [intros c [<-|[<-|[]]]; reflexivity|intros c [<-|[]]; reflexivity]|].
    destruct (inductive_lemma_shape _ _ _ Ei) as (vs & v & n & rhs & b & s & Ef & Eb & Es & -> & ->).
    pose proof Hs as [Hc Hg]. rewrite Ef in Hc, Hg.
    apply closed_iff in Hc. destruct Hc as [Hb _]. apply bn_q in Hb. destruct Hb as [_ Hb]. apply bn_bin in Hb.
    destruct Hb as [_ Hbr]. apply gd_q, gd_bin in Hg. destruct Hg as [_ Hgr].
    split.
    + intros c [<-|[<-|[]]]; cbn [pf_formula].
      * apply universal_closure_sent; [exact (substitute_bn _ _ _ _ Eb Hbr)|exact (substitute_gd _ _ _ _ Eb Hgr)].
      * apply universal_closure_sent.
        -- repeat (apply bn_bin; split); try reflexivity; [exact Hbr|exact (substitute_bn _ _ _ _ Es Hbr)].
        -- repeat (apply gd_bin; split); try reflexivity; [exact Hgr|exact (substitute_gd _ _ _ _ Es Hgr)].
    + intros c [<-|[]]. exact Hs.
Qed.

Lemma in_snoc {A} (P : A -> Prop) l x : (forall y, In y l -> P y) -> P x -> forall y, In y (l ++ [x]) -> P y.
Proof. intros H Hx y Hy. apply in_app_iff in Hy. destruct Hy as [Hy|[<-|[]]]; auto. Qed.

(* parser image of the user's outline formulas: non-empty binders and guards *)
Definition user_image (f : formula) : Prop := bn f /\ gd f.

Theorem from_specification_loop_sent m : forall l taken o0 ws o ws',
  (forall a, In a l -> user_image (an_formula a)) -> outline_sent o0 ->
  from_specification_loop l taken m o0 ws = Ok (o, ws') -> outline_sent o.
Proof.
  induction l as [|anf0 l IH]; intros taken o0 ws o ws' Hl Ho; cbn [from_specification_loop].
  - intros [= <- _]. exact Ho.
  - set (anf := rp_annot m anf0).
    assert (Himg : user_image (an_formula anf)).
    { destruct (Hl anf0 (or_introl eq_refl)) as [A B]. unfold anf. cbn. split.
      - unfold bn. rewrite rp_bn. exact A.
      - unfold gd. rewrite rp_cmps. exact B. }
    assert (Hl' : forall a, In a l -> user_image (an_formula a)) by (intros a Ha; apply Hl; right; exact Ha).
    destruct Ho as [O1 [O2 [O3 O4]]].
    assert (Hlemma :
      match general_lemma_try_from
              (rp_annot m (mkannot (an_role anf) (an_dir anf) (an_name anf)
                             (universal_closure_with_quantifier_joining (an_formula anf)))) with
      | Err e => Err e
      | Panic => Panic
      | Ok g =>
          from_specification_loop l (iset_extend pred_dec taken (predicates (an_formula anf))) m
            match an_dir anf with
            | DUniversal => mkoutline (forward_lemmas o0 ++ [g]) (backward_lemmas o0 ++ [g]) (forward_definitions o0) (backward_definitions o0)
            | DForward => mkoutline (forward_lemmas o0 ++ [g]) (backward_lemmas o0) (forward_definitions o0) (backward_definitions o0)
            | DBackward => mkoutline (forward_lemmas o0) (backward_lemmas o0 ++ [g]) (forward_definitions o0) (backward_definitions o0)
            end ws
      end = Ok (o, ws') -> outline_sent o).
    { match goal with |- match ?x with _ => _ end = _ -> _ => destruct x as [g|e|] eqn:Eg end; try discriminate.
      assert (Hg : lemma_ok g).
      { apply (try_from_ok _ g Eg). cbn [an_formula rp_annot]. apply rp_sent. destruct Himg. apply ucj_sent; assumption. }
      apply IH; [exact Hl'|].
      destruct (an_dir anf); unfold outline_P; cbn [forward_lemmas backward_lemmas forward_definitions backward_definitions];
        repeat apply conj; auto; apply in_snoc; auto. }
    revert Hlemma. destruct (an_role anf) eqn:Erole; intros Hlemma; try discriminate.
    + exact Hlemma.
    + clear Hlemma. destruct (definition (an_formula anf) taken) as [[p w]|e|] eqn:Ed; try discriminate.
      assert (Hd : sent (an_formula anf)).
      { destruct Himg as [A B]. split; [exact (definition_closed _ _ _ _ Ed A)|exact B]. }
      apply IH; [exact Hl'|].
      destruct (an_dir anf); unfold outline_P; cbn [forward_lemmas backward_lemmas forward_definitions backward_definitions];
        repeat apply conj; auto; apply in_snoc; auto.
    + exact Hlemma.
Qed.
Corollary from_specification_sent s taken m o ws :
  (forall a, In a s -> user_image (an_formula a)) -> from_specification s taken m = Ok (o, ws) -> outline_sent o.
Proof.
  intros Hs. unfold from_specification. apply from_specification_loop_sent; [exact Hs|].
  unfold outline_P; repeat apply conj; intros x [].
Qed.

(* ---------- user guide assumptions, control_translate ---------- *)
Lemma user_guide_assumptions_in outputs m : forall fs acc ws uga w1,
  user_guide_assumptions outputs m fs acc ws = Ok (uga, w1) ->
  forall a, In a uga -> In a acc \/ exists a0, In a0 fs /\ is_assumption a0 = true /\ a = rp_annot m a0.
Proof.
  induction fs as [|a0 fs IH]; intros acc ws uga w1; cbn [user_guide_assumptions].
  - intros [= <- _] a Ha. auto.
  - destruct (is_assumption a0) eqn:Ea.
    + destruct (is_nil (output_overlap outputs a0)); [|discriminate].
      intros H a Ha. destruct (IH _ _ _ _ H a Ha) as [Hacc|[b [Hb [Hb1 Hb2]]]].
      * apply in_app_iff in Hacc. destruct Hacc as [Hacc|[<-|[]]]; [auto|].
        right. exists a0. split; [left; reflexivity|auto].
      * right. exists b. split; [right; exact Hb|auto].
    + intros H a Ha. destruct (IH _ _ _ _ H a Ha) as [Hacc|[b [Hb [Hb1 Hb2]]]]; [auto|].
      right. exists b. split; [right; exact Hb|auto].
Qed.
Lemma control_translate_forms public th : forall k, map an_formula (control_translate_from public k th) = th.
Proof.
  induction th as [|f th IH]; intros k; cbn [control_translate_from map]; [reflexivity|].
  destruct (head_predicate f); cbn [map an_formula]; rewrite IH; reflexivity.
Qed.

(* =================================================== the accepted task, any components *)
Section Task.
Variable is_tight : program -> bool.
Variable has_private_recursion : program -> list pred -> bool.
Variable tau_star : program -> theory.
Variable completion : theory -> list pred -> option theory.
Variable simp_classic : formula -> formula.
Notation decompose_ext := (external_decompose is_tight has_private_recursion tau_star completion simp_classic).
Notation translate := (theory_translate tau_star completion simp_classic).

(* what `theory_translate` must deliver on the programs of the task *)
Definition translations_sent (t : ext_task) : Prop :=
  (forall th, translate t (task_m t) (et_program t) = Some th -> forall f, In f th -> sent f) /\
  (forall p th, et_specification t = inl p -> translate t (task_m t) p = Some th -> forall f, In f th -> sent f).
(* the user's own formulas: a specification's formulas and the user guide's assumptions must be
   sentences (NOT checked by anthem), the outline's entries in the parser image *)
Definition user_formulas_sent (t : ext_task) : Prop :=
  (forall s a, et_specification t = inr s -> In a s -> sent (an_formula a)) /\
  (forall a, In a (ug_formulas (et_user_guide t)) -> is_assumption a = true -> sent (an_formula a)) /\
  (forall a, In a (et_proof_outline t) -> user_image (an_formula a)).

Theorem external_sentences t w pbs :
  decompose_ext t = Ok (w, pbs) -> translations_sent t -> user_formulas_sent t ->
  forall pb, In pb pbs -> task_problem_ok pb.
Proof.
  intros H [Tr Tl] [Us [Uu Uo]].
  destruct (external_task_validated _ _ _ _ _ t w pbs H) as [vt [w3 [Hv Hvd]]].
  unfold validated_decompose in Hvd. destruct (validated_assemble vt) as [[w' a]|] eqn:Ea; [|discriminate].
  injection Hvd as _ <-.
  unfold task_validated in Hv.
  destruct (side_left tau_star completion simp_classic t) as [lft|] eqn:EL; [|discriminate].
  destruct (side_right tau_star completion simp_classic t) as [rgt|] eqn:ER; [|discriminate].
  destruct (user_guide_assumptions _ _ _ [] []) as [[uga w1]|e|] eqn:Eu; try discriminate.
  destruct (from_specification _ _ _) as [[o pw]|e|] eqn:Eo; try discriminate.
  injection Hv as <-.
  (* the two sides *)
  assert (HL : forall x, In x lft -> sent (an_formula x)).
  { unfold side_left in EL. destruct (et_specification t) as [p|s] eqn:Es.
    - destruct (translate t (task_m t) p) as [th|] eqn:Et; [|discriminate]. injection EL as <-.
      intros x Hx. apply (in_map an_formula) in Hx. unfold control_translate in Hx. rewrite control_translate_forms in Hx.
      exact (Tl p th eq_refl Et _ Hx).
    - injection EL as <-. intros x Hx. unfold rp_spec in Hx. apply in_map_iff in Hx. destruct Hx as [x0 [<- Hx0]].
      cbn. apply rp_sent. exact (Us s x0 eq_refl Hx0). }
  assert (HR : forall x, In x rgt -> sent (an_formula x)).
  { unfold side_right in ER. destruct (translate t (task_m t) (et_program t)) as [th|] eqn:Et; [|discriminate].
    injection ER as <-. intros x Hx. apply in_map_iff in Hx. destruct Hx as [x0 [<- Hx0]]. cbn.
    apply rename_predicates_sent. apply (in_map an_formula) in Hx0. unfold control_translate in Hx0.
    rewrite control_translate_forms in Hx0. exact (Tr th eq_refl _ Hx0). }
  assert (HU : forall x, In x uga -> sent (an_formula x)).
  { intros x Hx. destruct (user_guide_assumptions_in _ _ _ _ _ _ _ Eu x Hx) as [[]|[x0 [Hx0 [Ha ->]]]].
    cbn. apply rp_sent. exact (Uu x0 Hx0 Ha). }
  pose proof (from_specification_sent _ _ _ _ _ Uo Eo) as Ho.
  intros pb Hpb. revert Hpb. apply (assembled_P sent break_sent _ _ _ Ea); auto.
Qed.

(* the bare shape, no premise: every emitted problem has the formulas of a pipeline member *)
Theorem external_shape t w pbs :
  decompose_ext t = Ok (w, pbs) -> forall pb, In pb pbs -> problem_P (fun _ => True) pb.
Proof.
  intros H.
  destruct (external_task_validated _ _ _ _ _ t w pbs H) as [vt [w3 [Hv Hvd]]].
  unfold validated_decompose in Hvd. destruct (validated_assemble vt) as [[w' a]|] eqn:Ea; [|discriminate].
  injection Hvd as _ <-.
  unfold task_validated in Hv.
  destruct (side_left tau_star completion simp_classic t) as [lft|] eqn:EL; [|discriminate].
  destruct (side_right tau_star completion simp_classic t) as [rgt|] eqn:ER; [|discriminate].
  destruct (user_guide_assumptions _ _ _ [] []) as [[uga w1]|e|] eqn:Eu; try discriminate.
  destruct (from_specification _ _ _) as [[o pw]|e|] eqn:Eo; try discriminate.
  injection Hv as <-.
  destruct (from_specification_ok_closed _ _ _ _ _ Eo) as (_ & _ & _ & _ & _ & F1 & F2).
  apply (assembled_P (fun _ => True) (fun _ _ _ _ => I) _ _ _ Ea); cbn; auto.
  unfold outline_P, lemma_P, all_P. rewrite Forall_forall in F1, F2.
  repeat apply conj; auto; intros g Hg; [destruct (F1 g Hg) as [_ R]|destruct (F2 g Hg) as [_ R]]; auto.
Qed.
End Task.
