(* C15: token-level round trip  parse (print t) = t  for formulas, theories, annotated formulas,
   specifications and user guides; PEG part for formulas (prefix* primary (infix prefix* primary)* with
   keyword splitting, greedy binder lists, the two parenthesis ambiguities) and the top-level structures. *)
From Coq Require Import List Ascii String ZArith NArith Bool Arith Lia.
From Anthem Require Import Syntax.Fol Gen.TablesFol Model.FolPrint Model.FolLex Model.FolPratt Model.FolParse
  Model.FolClass Proofs.FolPrattOk Proofs.FolTermRT Proofs.FolFormulaRT.
Import ListNotations.
Open Scope list_scope.

(* ---------- keyword literals on printed tokens ---------- *)
Definition no_var_head (X : list token) : Prop := match X with TVar _ _ :: _ => False | _ => True end.

Lemma take_vars_nv X : no_var_head X -> take_vars X = ([], X).
Proof. destruct X as [|[] X]; cbn; tauto || reflexivity. Qed.

Lemma take_vars_print vs X : no_var_head X -> take_vars (print_vars false vs ++ X) = (vs, X).
Proof.
  intros HX. induction vs as [|[x s] vs IH]; [apply take_vars_nv; exact HX|].
  cbn [print_vars tsp app var_tok vname vsort take_vars]. rewrite IH. reflexivity.
Qed.

Lemma peg_prefix_not X : peg_prefix (TWord "not" :: X) = Some (PNot, X).
Proof. reflexivity. Qed.

Lemma strip_forall r : strip_kw "forall" (TWord "forall" :: r) = Some r.
Proof. reflexivity. Qed.
Lemma strip_forall_exists r : strip_kw "forall" (TWord "exists" :: r) = None.
Proof. reflexivity. Qed.
Lemma strip_exists r : strip_kw "exists" (TWord "exists" :: r) = Some r.
Proof. reflexivity. Qed.

Lemma peg_prefix_quant q vs X : vs <> [] -> no_var_head X ->
  peg_prefix (print_quantification false q vs ++ X) = Some (PQuant q vs, X).
Proof.
  intros Hvs HX. unfold print_quantification. destruct q; cbn [quant_tok app]; unfold peg_prefix, peg_quant.
  - rewrite strip_forall, take_vars_print by exact HX. destruct vs; [congruence|reflexivity].
  - rewrite strip_forall_exists, strip_exists, take_vars_print by exact HX. destruct vs; [congruence|reflexivity].
Qed.

Lemma peg_infix_conn c X : peg_infix (conn_tok c :: X) = Some (c, X).
Proof. destruct c; reflexivity. Qed.

(* re-lexed remainders never begin with a variable unless the remainder has the shape of one *)
Lemma relex_no_var rem suf rest : is_wupper rem = false -> no_var_head rest ->
  take_vars (relex rem suf ++ rest) = ([], relex rem suf ++ rest).
Proof.
  intros Hw Hr. apply take_vars_nv. unfold relex. cbn [relex_run].
  destruct rem as [|c r].
  - destruct suf; cbn; exact Hr || exact I.
  - destruct (Ascii.eqb c "0"); [exact I|]. destruct (is_digit c).
    + destruct (span is_digit (c :: r)) as [ds r']. exact I.
    + unfold is_wupper in Hw. unfold word_tok. destruct (word_class (c :: r)); try discriminate; destruct suf; exact I.
Qed.

Definition word_safe (w : string) (rest : list token) : Prop := kw_prefixed w = false /\ no_var_head rest.

Lemma strip_kw_word kw w suf rest (mk : string -> token) :
  (mk = TWord /\ suf = SufNone) \/ (exists s, mk = (fun c => TFun c s) /\ suf = SufSort s) ->
  strip_kw kw (mk w :: rest) =
  match has_prefix kw w with Some rem => Some (relex rem suf ++ rest) | None => None end.
Proof. intros [[-> ->]|(s & -> & ->)]; reflexivity. Qed.

Lemma forall_not_exists w r : has_prefix "forall" w = Some r -> has_prefix "exists" w = None.
Proof.
  unfold has_prefix. generalize (chars w). intros l. destruct l as [|c1 cs]; cbn -[Ascii.eqb]; [intros H; discriminate H|].
  destruct (Ascii.eqb "f" c1) eqn:E1; [|intros H; discriminate H]. apply Ascii.eqb_eq in E1. subst c1. intros _. reflexivity.
Qed.

Lemma peg_prefix_safe_gen w suf rest (mk : string -> token) :
  (mk = TWord /\ suf = SufNone) \/ (exists s, mk = (fun c => TFun c s) /\ suf = SufSort s) ->
  word_safe w rest -> peg_prefix (mk w :: rest) = None.
Proof.
  intros Hmk [Hk Hr]. unfold kw_prefixed in Hk. unfold peg_prefix, peg_quant.
  rewrite !(strip_kw_word _ w suf rest mk Hmk).
  destruct (has_prefix "not" w); [discriminate|].
  destruct (has_prefix "forall" w) as [rem|] eqn:EF.
  - rewrite relex_no_var by assumption. rewrite (forall_not_exists w rem EF). reflexivity.
  - destruct (has_prefix "exists" w) as [rem|]; [|reflexivity].
    rewrite relex_no_var by assumption. reflexivity.
Qed.

Lemma peg_prefix_word w rest : word_safe w rest -> peg_prefix (TWord w :: rest) = None.
Proof. apply (peg_prefix_safe_gen w SufNone rest TWord). left. split; reflexivity. Qed.
Lemma peg_prefix_fun w s rest : word_safe w rest -> peg_prefix (TFun w s :: rest) = None.
Proof. apply (peg_prefix_safe_gen w (SufSort s) rest (fun c => TFun c s)). right. exists s. split; reflexivity. Qed.

Definition plain_tok (t : token) : Prop :=
  match t with TWord _ | TFun _ _ | TFunBare _ => False | _ => True end.
Lemma peg_prefix_plain t rest : plain_tok t -> peg_prefix (t :: rest) = None.
Proof. destruct t; cbn; tauto || reflexivity. Qed.

(* ---------- the PEG sequence  prefix* primary (infix prefix* primary)*  on printed items ---------- *)
Section FormulaSeq.
  Variable rec : list token -> res formula.
  Variable afuel : nat.

  (* what may follow a primary: e = the primary ends in a general term; k = fuel to detect the end of a guard chain *)
  Definition pfollow (e : bool) (k : nat) (R : list token) : Prop :=
    ifollow R /\ no_lparen R /\ no_var_head R /\ (e = true -> stops_guards k R).

  Definition atom_ok (a : aformula) : Prop :=
    (forall k R, asize a + k < afuel -> pfollow (aends_term a) k R ->
       f_primary rec afuel (print_atomic false a ++ R) = Ok (FAtomic a) R) /\
    (forall k R, pfollow (aends_term a) k R -> peg_prefix (print_atomic false a ++ R) = None).
  Definition group_ok (g : formula) : Prop :=
    forall R, rec (print_formula false g ++ TRParen :: R) = Ok g (TRParen :: R).

  (* operand = prefix* primary; indices: ends in a term, fuel slack available for the follow test *)
  Inductive fopnd : list fit -> bool -> nat -> Prop :=
  | fo_atom a k : atom_ok a -> asize a + k < afuel -> fopnd [FIAtom a] (aends_term a) k
  | fo_group g k : group_ok g -> fopnd [FIGroup g] false k
  | fo_not its e k : fopnd its e k -> fopnd (FIPre PNot :: its) e k
  | fo_quant q vs its e k : fopnd its e k -> vs <> [] -> no_var_head (fflat its) -> fopnd (FIPre (PQuant q vs) :: its) e k.

  Definition conn_follow (e : bool) (k : nat) (c : bconn) (rest : list fit) : Prop :=
    e = true -> forall R, stops_guards k (conn_tok c :: fflat rest ++ R).

  Inductive fseq : list fit -> bool -> nat -> Prop :=
  | fs_one o e k : fopnd o e k -> fseq o e k
  | fs_more o e1 k1 c rest e k : fopnd o e1 k1 -> fseq rest e k -> conn_follow e1 k1 c rest -> fseq (o ++ FIIn c :: rest) e k.

  Lemma fseq_app a e1 k1 c b e k : fseq a e1 k1 -> fseq b e k -> conn_follow e1 k1 c b -> fseq (a ++ FIIn c :: b) e k.
  Proof.
    induction 1 as [o e0 k0 Ho|o e0 k0 c' rest e' k' Ho Hr IH HC]; intros Hb HCb.
    - eapply fs_more; eassumption.
    - rewrite <- app_assoc. cbn [app]. eapply fs_more; [exact Ho|apply IH; assumption|].
      intros He R. rewrite fflat_app. cbn [fflat flat_map fflat1]. fold (fflat b). rewrite <- !app_assoc. cbn [app].
      apply (HC He).
  Qed.

  Definition npre (its : list fit) : nat := List.length its.

  Lemma f_operand_pre fuel p ts r : peg_prefix ts = Some (p, r) ->
    f_operand rec afuel (S fuel) ts =
    match f_operand rec afuel fuel r with Ok its r' => Ok (PPre p :: its) r' | Fail => Fail | Oof => Oof end.
  Proof.
    intros H. unfold f_operand. cbn [f_prefixes]. rewrite H.
    destruct (f_prefixes fuel r) as [ps r'| |]; try reflexivity.
    destruct (f_primary rec afuel r'); reflexivity.
  Qed.

  Lemma fflat_nonempty_head o e k : fopnd o e k -> forall R, no_var_head (fflat o) -> no_var_head (fflat o ++ R).
  Proof.
    intros H R. assert (N : fflat o <> []).
    { destruct H as [a k0 [_ _] _|g k0 _|its e0 k0 _|q vs its e0 k0 _ _ _]; cbn; try discriminate.
      destruct a as [| |p [|t ts]|t gs]; cbn; try discriminate.
      destruct t as [| | | |t|[]]; cbn; try discriminate.
      destruct (print_iterm_head t) as (tok & rest & E & _). rewrite E. discriminate. }
    destruct (fflat o); [congruence|]. cbn. tauto.
  Qed.

  Lemma operand_ok o e k : fopnd o e k -> forall R fuel, pfollow e k R -> npre o <= fuel ->
    f_operand rec afuel fuel (fflat o ++ R) = Ok (map to_fp o) R.
  Proof.
    induction 1 as [a k [HA1 HA2] Hk|g k HG|its e k Hits IH|q vs its e k Hits IH Hvs Hnv]; intros R fuel HF Hfuel;
      (destruct fuel as [|f]; [cbn in Hfuel; lia|]).
    - cbn [fflat flat_map fflat1]. rewrite app_nil_r. unfold f_operand. cbn [f_prefixes].
      rewrite (HA2 k R HF). rewrite (HA1 k R Hk HF). reflexivity.
    - cbn [fflat flat_map fflat1 app]. rewrite app_nil_r. unfold f_operand. cbn [f_prefixes app].
      rewrite peg_prefix_plain by exact I. cbn [f_primary]. rewrite <- app_assoc. cbn [app]. rewrite HG. reflexivity.
    - cbn [fflat flat_map fflat1 fpre_toks app]. fold (fflat its).
      rewrite (f_operand_pre f PNot _ _ (peg_prefix_not _)).
      rewrite IH; [reflexivity|exact HF|cbn in Hfuel; unfold npre; lia].
    - cbn [fflat flat_map fflat1 fpre_toks]. fold (fflat its). rewrite <- app_assoc.
      rewrite (f_operand_pre f (PQuant q vs) _ (fflat its ++ R)).
      + rewrite IH; [reflexivity|exact HF|cbn in Hfuel; unfold npre; lia].
      + apply peg_prefix_quant; [exact Hvs|]. eapply fflat_nonempty_head; eassumption.
  Qed.

  Definition fnops (its : list fit) : nat := List.length (filter (fun i => match i with FIIn _ => true | _ => false end) its).

  (* what may follow a whole formula *)
  Definition ffollow (e : bool) (k : nat) (R : list token) : Prop := pfollow e k R /\ peg_infix R = None.

  Lemma pfollow_conn e k c X : (e = true -> stops_guards k (conn_tok c :: X)) -> pfollow e k (conn_tok c :: X).
  Proof. intros H. destruct c; (split; [reflexivity|split; [exact I|split; [exact I|exact H]]]). Qed.

  Lemma seq_ok s e k : fseq s e k -> forall R fuel, ffollow e k R -> List.length s < fuel ->
    exists a b R1, f_operand rec afuel fuel (fflat s ++ R) = Ok a R1 /\ f_tail rec afuel fuel R1 = Ok b R /\ a ++ b = map to_fp s.
  Proof.
    induction 1 as [o e k Ho|o e1 k1 c rest e k Ho Hrest IH HC]; intros R fuel [HF HI] Hfuel.
    - exists (map to_fp o), [], R. split; [eapply operand_ok; [exact Ho|exact HF|unfold npre; lia]|]. split; [|apply app_nil_r].
      destruct fuel as [|f]; [lia|]. cbn [f_tail]. rewrite HI. reflexivity.
    - rewrite fflat_app. cbn [fflat flat_map fflat1]. fold (fflat rest). rewrite <- !app_assoc. cbn [app].
      rewrite app_length in Hfuel. cbn [List.length] in Hfuel.
      destruct fuel as [|f]; [lia|].
      assert (Hn : List.length rest < f) by lia.
      destruct (IH R f (conj HF HI) Hn) as (a & b & R1 & E1 & E2 & E3).
      exists (map to_fp o), (PIn c :: a ++ b), (conn_tok c :: fflat rest ++ R). split.
      + eapply operand_ok; [exact Ho| |unfold npre; lia]. apply pfollow_conn. intros He. apply (HC He).
      + split.
        * cbn [f_tail]. rewrite peg_infix_conn, E1, E2. reflexivity.
        * rewrite map_app. cbn [map to_fp]. rewrite E3. reflexivity.
  Qed.
End FormulaSeq.

(* ---------- first tokens of printed forms ---------- *)
Fixpoint ihead_tok (t : iterm) : token :=
  match t with
  | INum z => num_tok z
  | IFun c => TFun c SInteger
  | IVar x => TVar x SInteger
  | IUn _ _ => TMinus
  | IBin o l r => if paren_lhs (iprec t) (iprec l) (imand l) (iassoc l) then TLParen else ihead_tok l
  end.
Definition ghead_tok (t : gterm) : token :=
  match t with
  | GInf => TInf | GSup => TSup | GFun c => TFun c SGeneral | GVar x => TVar x SGeneral
  | GInt t => ihead_tok t
  | GSym (SSym s) => TWord s | GSym (SFun c) => TFun c SSymbol | GSym (SVar x) => TVar x SSymbol
  end.
Definition ahead_tok (a : aformula) : token :=
  match a with ATrue => TTrue | AFalse => TFalse | AAtom p _ => TWord p | ACmp t _ => ghead_tok t end.
Fixpoint fhead_tok (f : formula) : token :=
  match f with
  | FAtomic a => ahead_tok a
  | FNot _ => TWord "not"
  | FQ q _ _ => quant_tok q
  | FBin _ l _ => if lhs_paren f l then TLParen else fhead_tok l
  end.

Lemma print_iterm_hd sp t : exists rest, print_iterm sp t = ihead_tok t :: rest.
Proof.
  induction t as [z|c|x|[] a IH|o l IHl r IHr]; try (eexists; reflexivity).
  - cbn [print_iterm ihead_tok]. unfold parens. destruct (paren_lhs _ _ _ _).
    + cbn. eexists; reflexivity.
    + destruct IHl as [rest E]. rewrite E. cbn. eexists; reflexivity.
Qed.
Lemma print_gterm_hd sp t : exists rest, print_gterm sp t = ghead_tok t :: rest.
Proof. destruct t as [| |c|x|t|[s|c|x]]; try (eexists; reflexivity). apply print_iterm_hd. Qed.
Lemma print_atomic_hd sp a : exists rest, print_atomic sp a = ahead_tok a :: rest.
Proof.
  destruct a as [| |p ts|t gs]; try (eexists; reflexivity).
  - destruct ts; eexists; reflexivity.
  - cbn [print_atomic ahead_tok]. destruct (print_gterm_hd sp t) as [rest E]. rewrite E. cbn. eexists; reflexivity.
Qed.
Lemma print_formula_hd sp f : exists rest, print_formula sp f = fhead_tok f :: rest.
Proof.
  induction f as [a|g IH|c l IHl r IHr|q vs g IH].
  - apply print_atomic_hd.
  - cbn [print_formula]. change (fassoc (FNot g)) with (Some ALeft). cbn. eexists; reflexivity.
  - cbn [print_formula fhead_tok]. unfold lhs_paren, parens. destruct (paren_lhs _ _ _ _).
    + cbn. eexists; reflexivity.
    + destruct IHl as [rest E]. rewrite E. cbn. eexists; reflexivity.
  - cbn [print_formula fhead_tok print_quantification app]. eexists; reflexivity.
Qed.

(* a valid variable name makes the commit-cc14b46 test fire *)
Lemma variable_name_bwv x s : is_variable_name x = true -> begins_with_variable (x ++ s) = true.
Proof.
  unfold is_variable_name. intros H. apply andb_true_iff in H. destruct H as [_ H].
  destruct x as [|c x]; [discriminate|]. cbn [chars list_ascii_of_string word_class] in H. cbn [append begins_with_variable].
  change FolLex.is_lower with is_lower in *.
  destruct (is_lower c); [discriminate|]. destruct (is_upper c); [reflexivity|].
  destruct (Ascii.eqb c "_"); [|discriminate].
  destruct x as [|d x]; [discriminate|]. cbn [list_ascii_of_string] in H. cbn [append].
  destruct (is_lower d); [discriminate|]. destruct (is_upper d); [reflexivity|discriminate].
Qed.

Lemma sappend_nil_r (s : string) : (s ++ "")%string = s.
Proof. induction s as [|c s IH]; cbn; [reflexivity|rewrite IH; reflexivity]. Qed.
Lemma render_cons t ts : render (t :: ts) = (tok_str t ++ render ts)%string.
Proof.
  unfold render. cbn [map]. destruct (map tok_str ts) as [|s l] eqn:E.
  - cbn. rewrite sappend_nil_r. reflexivity.
  - cbn [String.concat]. reflexivity.
Qed.

Lemma ihead_var_wf t x s : wf_iterm t = true -> ihead_tok t = TVar x s -> is_variable_name x = true.
Proof.
  induction t as [z|c|y|[] a IH|o l IHl r IHr]; cbn [ihead_tok wf_iterm]; intros W E.
  - unfold num_tok in E. destruct (z <? 0)%Z; discriminate.
  - discriminate.
  - injection E as <- <-. exact W.
  - discriminate.
  - apply andb_true_iff in W. destruct (paren_lhs _ _ _ _); [discriminate|]. apply IHl; tauto.
Qed.
Lemma ghead_var_wf t x s : wf_gterm t = true -> ghead_tok t = TVar x s -> is_variable_name x = true.
Proof.
  destruct t as [| |c|y|t|[u|c|y]]; cbn; intros W E; try discriminate.
  - injection E as <- <-. exact W.
  - eapply ihead_var_wf; eassumption.
  - injection E as <- <-. exact W.
Qed.
Lemma fhead_var_wf f x s : wf_formula f = true -> fhead_tok f = TVar x s -> is_variable_name x = true.
Proof.
  induction f as [a|g IH|c l IHl r IHr|q vs g IH]; cbn [fhead_tok wf_formula]; intros W E.
  - destruct a as [| |p ts|t gs]; cbn in E; try discriminate. cbn in W.
    apply andb_true_iff in W. destruct W as [W _]. apply andb_true_iff in W. destruct W as [W _].
    eapply ghead_var_wf; eassumption.
  - discriminate.
  - apply andb_true_iff in W. destruct (lhs_paren _ _); [discriminate|]. apply IHl; tauto.
  - destruct q; discriminate.
Qed.

Lemma tok_str_var x s : exists s', tok_str (TVar x s) = (x ++ s')%string.
Proof. destruct s; [exists ""%string; cbn; rewrite sappend_nil_r; reflexivity|eexists; reflexivity|eexists; reflexivity]. Qed.

Lemma sappend_assoc (a b c : string) : ((a ++ b) ++ c)%string = (a ++ (b ++ c))%string.
Proof. induction a as [|x a IH]; cbn; [reflexivity|rewrite IH; reflexivity]. Qed.

(* the test of commit cc14b46 is exact on well-formed formulas: it fires iff the first token is a variable *)
Lemma bwv_head g : wf_formula g = true -> begins_with_variable (render (print_formula true g)) = false ->
  no_var_head (print_formula false g).
Proof.
  intros W B. destruct (print_formula_hd true g) as [r1 E1]. destruct (print_formula_hd false g) as [r2 E2].
  rewrite E2. destruct (fhead_tok g) eqn:H; try exact I. exfalso.
  rewrite E1, render_cons in B. destruct (tok_str_var x s) as [s' Es]. rewrite Es in B. rewrite sappend_assoc in B.
  rewrite variable_name_bwv in B; [discriminate|]. eapply fhead_var_wf; eassumption.
Qed.

(* ---------- identifiers in formula-start position ---------- *)
Definition lead_safe (ts : list token) : Prop :=
  match lead_ident ts with Some w => kw_prefixed w = false | None => True end.

(* the token after a leading integer function constant is never a variable *)
Lemma print_iterm_second t c X : ihead_tok t = TFun c SInteger -> no_var_head X ->
  exists rest, print_iterm false t = TFun c SInteger :: rest /\ no_var_head (rest ++ X).
Proof.
  revert X. induction t as [z|c'|y|[] a IH|o l IHl r IHr]; cbn [ihead_tok]; intros X E HX.
  - unfold num_tok in E. destruct (z <? 0)%Z; discriminate.
  - injection E as ->. exists []. split; [reflexivity|exact HX].
  - discriminate.
  - discriminate.
  - destruct (paren_lhs (iprec (IBin o l r)) (iprec l) (imand l) (iassoc l)) eqn:W; [discriminate|].
    cbn [print_iterm tsp app]. rewrite W. unfold parens at 1.
    destruct (IHl (binop_tok o :: parens (paren_rhs (iprec (IBin o l r)) (iprec r) (imand r) (iassoc (IBin o l r))) (print_iterm false r) ++ X) E) as (rest & E1 & N1).
    { destruct o; exact I. }
    rewrite E1. eexists. split; [reflexivity|].
    change (no_var_head ((rest ++ binop_tok o :: parens (paren_rhs (iprec (IBin o l r)) (iprec r) (imand r) (iassoc (IBin o l r))) (print_iterm false r)) ++ X)).
    rewrite <- app_assoc. exact N1.
Qed.

Lemma ihead_cases t : plain_tok (ihead_tok t) \/ exists c, ihead_tok t = TFun c SInteger.
Proof.
  induction t as [z|c|y|[] a IH|o l IHl r IHr]; cbn [ihead_tok].
  - left. unfold num_tok. destruct (z <? 0)%Z; exact I.
  - right. eexists; reflexivity.
  - left. exact I.
  - left. exact I.
  - destruct (paren_lhs _ _ _ _); [left; exact I|exact IHl].
Qed.

Lemma ihead_tok_ok t : ihead (ihead_tok t).
Proof.
  destruct (print_iterm_head t) as (tok & rest & E & H). destruct (print_iterm_hd false t) as [r E2].
  rewrite E2 in E. injection E as -> _. exact H.
Qed.

Lemma guards_head gs R : gs <> [] -> exists rl rest, print_guards false gs ++ R = TRel rl :: rest.
Proof. destruct gs as [|[rl t] gs]; [congruence|]. intros _. cbn. eexists _, _; reflexivity. Qed.

Lemma atomic_no_prefix a R : kwi_atomic a = false -> (match a with ACmp _ [] => False | _ => True end) -> no_var_head R ->
  peg_prefix (print_atomic false a ++ R) = None.
Proof.
  intros K Hne HR. destruct a as [| |p ts|t gs].
  - reflexivity.
  - reflexivity.
  - assert (Kp : kw_prefixed p = false) by (destruct ts; exact K).
    destruct ts as [|t ts]; cbn [print_atomic print_atom app]; apply peg_prefix_word; split; auto; exact I.
  - destruct gs as [|g gs]; [tauto|]. cbn [print_atomic]. rewrite <- app_assoc.
    destruct (guards_head (g :: gs) R) as (rl & rest & EG); [discriminate|]. rewrite EG.
    unfold kwi_atomic in K. cbn [print_atomic] in K.
    destruct t as [| |c|x|it|[s|c|x]]; cbn [print_gterm print_sterm app] in *; try reflexivity.
    + apply peg_prefix_fun. split; [exact K|exact I].
    + destruct (ihead_cases it) as [HP|[c HC]].
      * destruct (print_iterm_hd false it) as [r E]. rewrite E. cbn [app]. apply peg_prefix_plain. exact HP.
      * destruct (print_iterm_second it c (TRel rl :: rest) HC I) as (r & E & N). rewrite E in *. cbn [app] in *.
        apply peg_prefix_fun. split; [exact K|exact N].
    + apply peg_prefix_word. split; [exact K|exact I].
    + apply peg_prefix_fun. split; [exact K|exact I].
Qed.

(* ---------- a comparison that begins with "(" : the alternative "(" formula ")" of primary fails ---------- *)
Fixpoint lead_paren (t : iterm) : option (iterm * list token) :=
  match t with
  | IBin o l r =>
      let tail := binop_tok o :: parens (paren_rhs (iprec t) (iprec r) (imand r) (iassoc t)) (print_iterm false r) in
      if paren_lhs (iprec t) (iprec l) (imand l) (iassoc l) then Some (l, tail)
      else match lead_paren l with Some (l0, rem) => Some (l0, rem ++ tail) | None => None end
  | _ => None
  end.

Lemma parens_app (a b : list token) : (TLParen :: a ++ [TRParen]) ++ b = TLParen :: a ++ TRParen :: b.
Proof. cbn [app]. rewrite <- app_assoc. reflexivity. Qed.

Lemma lead_paren_some t l0 rem : lead_paren t = Some (l0, rem) ->
  print_iterm false t = TLParen :: print_iterm false l0 ++ TRParen :: rem /\ isize l0 < isize t.
Proof.
  revert l0 rem. induction t as [z|c|y|[] a IH|o l IHl r IHr]; cbn [lead_paren]; try discriminate.
  intros l0 rem. cbn [print_iterm tsp app isize]. unfold parens at 1.
  destruct (paren_lhs (iprec (IBin o l r)) (iprec l) (imand l) (iassoc l)).
  - intros [= <- <-]. split; [|lia]. apply parens_app.
  - destruct (lead_paren l) as [[l1 rem1]|]; [|discriminate]. intros [= <- <-].
    destruct (IHl l1 rem1 eq_refl) as [E L]. split; [|lia]. rewrite E.
    unfold parens at 1. cbn [app]. rewrite <- app_assoc. reflexivity.
Qed.

Lemma lead_paren_none t : lead_paren t = None -> ihead_tok t <> TLParen.
Proof.
  induction t as [z|c|y|[] a IH|o l IHl r IHr]; cbn [lead_paren ihead_tok]; try discriminate.
  - intros _. unfold num_tok. destruct (z <? 0)%Z; discriminate.
  - destruct (paren_lhs _ _ _ _); [discriminate|]. destruct (lead_paren l) as [[? ?]|]; [discriminate|]. intros _. apply IHl. reflexivity.
Qed.

Lemma lead_ident_app_tok tok rest X : lead_ident ((tok :: rest) ++ X) = lead_ident (tok :: rest ++ X).
Proof. reflexivity. Qed.

(* formula fails on the contents of a parenthesised integer term *)
Lemma formula_fails_on_iterm : forall n t X, isize t + 2 < n -> lead_safe (print_iterm false t ++ TRParen :: X) ->
  peg_formula n (print_iterm false t ++ TRParen :: X) = Fail.
Proof.
  induction n as [|f IH]; intros t X Hn HS; [lia|].
  set (ts := print_iterm false t ++ TRParen :: X) in *.
  (* no prefix *)
  assert (P0 : peg_prefix ts = None).
  { subst ts. destruct (ihead_cases t) as [HP|[c HC]].
    - destruct (print_iterm_hd false t) as [r E]. rewrite E. apply peg_prefix_plain. exact HP.
    - destruct (print_iterm_second t c (TRParen :: X) HC I) as (r & E & N). rewrite E in *. cbn [app] in *.
      apply peg_prefix_fun. split; [exact HS|exact N]. }
  (* the atomic alternative fails: an integer term followed by ")" is neither a comparison nor an atom *)
  assert (A0 : f_atomic f ts = Fail).
  { unfold f_atomic, peg_atomic. subst ts.
    assert (EC : peg_comparison f (print_iterm false t ++ TRParen :: X) = Fail).
    { unfold peg_comparison.
      assert (G : peg_gterm f (print_gterm false (GInt t) ++ TRParen :: X) = Ok (GInt t) (TRParen :: X))
        by (apply gterm_rt; [cbn; lia|reflexivity]).
      cbn [print_gterm] in G. rewrite G.
      destruct f as [|f']; [lia|]. reflexivity. }
    destruct (print_iterm_hd false t) as [r E]. rewrite E in *. cbn [app] in *. rewrite EC.
    pose proof (ihead_tok_ok t) as HI.
    destruct (ihead_tok t); cbn in HI; try tauto; try reflexivity;
      match goal with s : sort |- _ => destruct s end; cbn in HI; try tauto; reflexivity. }
  (* the parenthesis alternative fails by induction *)
  assert (P1 : f_primary (peg_formula f) f ts = Fail).
  { destruct (lead_paren t) as [[l0 rem]|] eqn:LP.
    - destruct (lead_paren_some t l0 rem LP) as [E L].
      assert (Ets : ts = TLParen :: print_iterm false l0 ++ TRParen :: (rem ++ TRParen :: X)).
      { subst ts. rewrite E. cbn [app]. rewrite <- app_assoc. reflexivity. }
      unfold f_primary. rewrite Ets at 1.
      rewrite IH; [exact A0|lia|].
      unfold lead_safe in *. subst ts. rewrite E in HS. cbn [app lead_ident] in HS. rewrite <- app_assoc in HS. exact HS.
    - pose proof (lead_paren_none t LP) as NL. unfold f_primary.
      destruct (print_iterm_hd false t) as [r E]. subst ts. rewrite E in *. cbn [app] in *.
      destruct (ihead_tok t); try exact A0. congruence. }
  cbn [peg_formula]. unfold f_operand. destruct f as [|f']; [lia|]. cbn [f_prefixes]. rewrite P0, P1. reflexivity.
Qed.

(* ---------- sizes ---------- *)
Fixpoint fsize (f : formula) : nat :=
  match f with
  | FAtomic a => S (asize a)
  | FNot g => S (fsize g)
  | FBin _ l r => S (S (fsize l + fsize r))
  | FQ _ _ g => S (fsize g)
  end.

(* ---------- the integer-term parser on the printed form of a formula (for "<-" read as "<" "-") ---------- *)
Lemma wf_atomic_guards a : wf_atomic a = true -> match a with ACmp _ [] => False | _ => True end.
Proof. destruct a as [| |p ts|t [|g gs]]; try exact (fun _ => I). cbn. rewrite andb_false_r. discriminate. Qed.

Lemma iterm_on_formula : forall g n R, fsize g < n -> wf_formula g = true ->
  peg_iterm n (print_formula false g ++ R) = Fail \/
  exists t rl r', peg_iterm n (print_formula false g ++ R) = Ok t (TRel rl :: r').
Proof.
  induction g as [a|g IH|c l IHl r IHr|q vs g IH]; intros n R Hn W; (destruct n as [|f]; [lia|]).
  - cbn [print_formula]. cbn [fsize] in Hn. pose proof (wf_atomic_guards a W) as NE.
    destruct a as [| |p ts|t gs].
    + left. apply peg_iterm_fail_tok. exact I.
    + left. apply peg_iterm_fail_tok. exact I.
    + left. destruct ts; apply peg_iterm_fail_tok; exact I.
    + destruct gs as [|g0 gs]; [tauto|]. cbn [print_atomic]. rewrite <- app_assoc.
      destruct (guards_head (g0 :: gs) R) as (rl & rest & EG); [discriminate|]. rewrite EG.
      destruct t as [| |c|x|it|[s|c|x]]; cbn [print_gterm print_sterm app]; try (left; apply peg_iterm_fail_tok; exact I).
      right. exists it, rl, rest. apply iterm_rt; [cbn [asize gsize] in Hn; lia|reflexivity].
  - left. cbn [print_formula]. change (fassoc (FNot g)) with (Some ALeft). cbn [fmt_unary is_left tsp app].
    apply peg_iterm_fail_tok. exact I.
  - cbn [print_formula tsp app]. cbn [wf_formula] in W. apply andb_true_iff in W. destruct W as [Wl Wr]. cbn [fsize] in Hn.
    rewrite <- app_assoc. cbn [app].
    unfold parens at 1. destruct (paren_lhs _ _ _ _).
    + left. rewrite parens_app.
      cbn [peg_iterm]. unfold i_operand. cbn [unary_ops n_primary].
      destruct (IHl f (TRParen :: conn_tok c :: parens (paren_rhs (fprec (FBin c l r)) (fprec r) (fmand r) (fassoc (FBin c l r))) (print_formula false r) ++ R) ltac:(lia) Wl) as [E|(t & rl & r' & E)];
        rewrite E; reflexivity.
    + apply IHl; [lia|exact Wl].
  - left. cbn [print_formula print_quantification app]. destruct q; apply peg_iterm_fail_tok; exact I.
Qed.

Lemma i_operand_formula_fail : forall r f Y, wf_formula r = true -> starts_int r = false -> fsize r < f ->
  i_operand (peg_iterm f) (print_formula false r ++ Y) = Fail.
Proof.
  induction r as [a|g IH|c l IHl r IHr|q vs g IH]; intros f Y W SI Hf.
  - cbn [print_formula]. pose proof (wf_atomic_guards a W) as NE. destruct a as [| |p ts|t gs].
    + reflexivity.
    + reflexivity.
    + destruct ts; reflexivity.
    + destruct gs as [|g0 gs]; [tauto|]. cbn [print_atomic]. rewrite <- app_assoc.
      destruct t as [| |c|x|it|[s|c|x]]; cbn [starts_int] in SI; try discriminate; reflexivity.
  - cbn [print_formula]. change (fassoc (FNot g)) with (Some ALeft). reflexivity.
  - cbn [print_formula tsp app]. cbn [wf_formula] in W. apply andb_true_iff in W. destruct W as [Wl Wr].
    cbn [fsize] in Hf. cbn [starts_int] in SI. unfold lhs_paren in SI.
    rewrite <- app_assoc. cbn [app]. unfold parens at 1. destruct (paren_lhs _ _ _ _).
    + rewrite parens_app. unfold i_operand. cbn [unary_ops n_primary].
      destruct (iterm_on_formula l f (TRParen :: conn_tok c :: parens (paren_rhs (fprec (FBin c l r)) (fprec r) (fmand r) (fassoc (FBin c l r))) (print_formula false r) ++ Y) ltac:(lia) Wl) as [E|(t & rl & r' & E)];
        rewrite E; reflexivity.
    + apply IHl; [exact Wl|exact SI|lia].
  - cbn [print_formula print_quantification app]. destruct q; reflexivity.
Qed.

Lemma peg_gterm_minus_fail f X : i_operand (peg_iterm f) X = Fail -> peg_gterm (S f) (TMinus :: X) = Fail.
Proof.
  intros H. unfold peg_gterm. cbn [peg_iterm]. rewrite i_operand_neg, H. reflexivity.
Qed.

(* "<-" after a term is not read as "<" "-" when no integer term follows *)
Lemma rimp_stop_plain r R : wf_formula r = true -> starts_int r = false ->
  stops_guards (fsize r + 2) (TRimp :: print_formula false r ++ R).
Proof.
  intros W SI fuel Hf. destruct fuel as [|[|f]]; try lia.
  cbn [peg_guards split_rel]. rewrite peg_gterm_minus_fail; [reflexivity|].
  apply i_operand_formula_fail; [exact W|exact SI|lia].
Qed.
Lemma rimp_stop_group r R : wf_formula r = true ->
  stops_guards (fsize r + 2) (TRimp :: TLParen :: print_formula false r ++ TRParen :: R).
Proof.
  intros W fuel Hf. destruct fuel as [|[|f]]; try lia.
  cbn [peg_guards split_rel]. rewrite peg_gterm_minus_fail; [reflexivity|].
  unfold i_operand. cbn [unary_ops n_primary].
  destruct (iterm_on_formula r f (TRParen :: R) ltac:(lia) W) as [E|(t & rl & r' & E)]; rewrite E; reflexivity.
Qed.
Lemma other_conn_stops k c X : c <> CRimp -> stops_guards k (conn_tok c :: X).
Proof. intros Hc fuel Hf. destruct fuel as [|f]; [lia|]. destruct c; try congruence; reflexivity. Qed.

(* ---------- atomic formulas as primaries ---------- *)
Lemma lead_ident_iterm t X Y : lead_ident (print_iterm false t ++ X) = lead_ident (print_iterm false t ++ Y).
Proof.
  revert X Y. induction t as [z|c|y|[] a IH|o l IHl r IHr]; intros X Y.
  - cbn. unfold num_tok. destruct (z <? 0)%Z; reflexivity.
  - reflexivity.
  - reflexivity.
  - cbn [print_iterm]. rewrite iassoc_left. reflexivity.
  - cbn [print_iterm tsp app]. rewrite <- !app_assoc. unfold parens at 1 3. destruct (paren_lhs _ _ _ _).
    + rewrite !parens_app. cbn [lead_ident]. apply IHl.
    + apply IHl.
Qed.

Lemma lead_paren_of_head t : ihead_tok t = TLParen -> exists l0 rem, lead_paren t = Some (l0, rem).
Proof.
  intros H. destruct (lead_paren t) as [[l0 rem]|] eqn:E; [eauto|]. apply lead_paren_none in E. congruence.
Qed.

Lemma asize_guards_ge gs : gs <> [] -> 2 <= guards_size gs.
Proof. destruct gs as [|[rl t] gs]; [congruence|]. intros _. cbn. destruct t as [| | | |it|]; cbn; try lia. destruct it; cbn; lia. Qed.

Lemma atom_ok_wf f a : wf_atomic a = true -> kwi_atomic a = false -> atom_ok (peg_formula f) f a.
Proof.
  intros W K. pose proof (wf_atomic_guards a W) as NE. split.
  - intros k R Hk (HF & HL & HV & HS).
    assert (A : f_atomic f (print_atomic false a ++ R) = Ok (FAtomic a) R).
    { unfold f_atomic. rewrite (atomic_rt a k f R); [reflexivity|exact Hk|exact NE|]. split; [exact HF|split; [exact HL|exact HS]]. }
    destruct (print_atomic_hd false a) as [r E].
    destruct a as [| |p ts|t gs]; try (rewrite E in *; cbn [ahead_tok app] in *; exact A).
    destruct gs as [|g0 gs]; [tauto|].
    destruct t as [| |c|x|it|[s|c|x]]; try (rewrite E in *; cbn [ahead_tok ghead_tok app] in *; exact A).
    (* integer term first: it may begin with "(" *)
    cbn [ahead_tok ghead_tok] in E.
    destruct (lead_paren it) as [[l0 rem]|] eqn:LP.
    + destruct (lead_paren_some it l0 rem LP) as [EP L].
      cbn [print_atomic print_gterm] in *. rewrite EP in *. rewrite <- app_assoc in *. cbn [app] in *. rewrite <- app_assoc in *. cbn [app] in *.
      unfold f_primary. rewrite formula_fails_on_iterm; [exact A| |].
      * cbn [asize gsize] in Hk. pose proof (asize_guards_ge (g0 :: gs) ltac:(discriminate)). lia.
      * unfold kwi_atomic in K. cbn [print_atomic print_gterm] in K. rewrite EP in K. cbn [app lead_ident] in K.
        unfold lead_safe. rewrite <- app_assoc in K.
        rewrite (lead_ident_iterm l0 _ ((TRParen :: rem) ++ print_guards false (g0 :: gs))).
        destruct (lead_ident _); [exact K|exact I].
    + pose proof (lead_paren_none it LP) as NL. rewrite E in *. cbn [app] in *. unfold f_primary.
      destruct (ihead_tok it); try exact A. congruence.
  - intros k R (HF & HL & HV & HS). apply atomic_no_prefix; assumption.
Qed.

(* ---------- the main induction ---------- *)
Definition fgood (f : formula) : Prop := wf_formula f = true /\ keyword_ident f = false /\ rimp_neg f = false.

Lemma ends_term_atomic a : ends_term (FAtomic a) = aends_term a.
Proof. destruct a as [| |p [|t ts]|t gs]; reflexivity. Qed.

Lemma ffollow_rparen e k X : ffollow e k (TRParen :: X).
Proof.
  split; [|reflexivity]. split; [reflexivity|]. split; [exact I|]. split; [exact I|].
  intros _ fuel Hf. destruct fuel; [lia|reflexivity].
Qed.

Lemma fsize_pos f : 1 <= fsize f.
Proof. destruct f; cbn; lia. Qed.
Lemma fitems_length f : List.length (fitems f) <= fsize f.
Proof.
  induction f as [a|g IH|c l IHl r IHr|q vs g IH]; cbn [fitems fsize List.length];
    try pose proof (fsize_pos g); try pose proof (fsize_pos l); try pose proof (fsize_pos r).
  - lia.
  - unfold fwrap. destruct (un_paren _ _); cbn [List.length]; lia.
  - rewrite app_length. cbn [List.length]. unfold fwrap. destruct (lhs_paren _ _), (rhs_paren _ _); cbn [List.length]; lia.
  - unfold fwrap. destruct (q_paren _ _); cbn [List.length]; lia.
Qed.

Section MainStep.
  Variable f : nat.
  (* induction hypothesis of the main theorem: the recursive parser reads groups back *)
  Hypothesis IHf : forall g R, fsize g + 3 < f -> fgood g -> ffollow (ends_term g) 0 R ->
    peg_formula f (print_formula false g ++ R) = Ok g R.

  Lemma group_ok_sub g : fsize g + 3 < f -> fgood g -> group_ok (peg_formula f) g.
  Proof. intros Hs Hg R. apply IHf; [exact Hs|exact Hg|apply ffollow_rparen]. Qed.

  Notation SEQ := (fseq (peg_formula f) f).
  Notation OPND := (fopnd (peg_formula f) f).

  Lemma fitems_seq F : forall k, fsize F + k + 2 < f -> fgood F ->
    SEQ (fitems F) (ends_term F) k /\ (match F with FBin _ _ _ => True | _ => OPND (fitems F) (ends_term F) k end).
  Proof.
    induction F as [a|g IH|c l IHl r IHr|q vs g IH]; intros k Hk (W & K & RN).
    - assert (O : OPND [FIAtom a] (ends_term (FAtomic a)) k).
      { rewrite ends_term_atomic. apply fo_atom; [apply atom_ok_wf; assumption|cbn [fsize] in Hk; lia]. }
      split; [apply fs_one|]; exact O.
    - cbn [wf_formula keyword_ident rimp_neg fsize] in *.
      assert (O : OPND (fitems (FNot g)) (ends_term (FNot g)) k).
      { cbn [fitems ends_term]. apply fo_not. unfold fwrap. destruct (un_paren (FNot g) g) eqn:U.
        - apply fo_group. apply group_ok_sub; [lia|repeat split; assumption].
        - pose proof (un_paren_false (FNot g) g I U) as NB.
          destruct (IH k ltac:(lia) (conj W (conj K RN))) as [_ O]. destruct g; try tauto; exact O. }
      split; [apply fs_one|]; exact O.
    - split; [|exact I]. cbn [wf_formula keyword_ident rimp_neg fsize] in *.
      apply andb_true_iff in W. destruct W as [Wl Wr].
      apply orb_false_elim in K. destruct K as [Kl Kr].
      apply orb_false_elim in RN. destruct RN as [RN RC]. apply orb_false_elim in RN. destruct RN as [RNl RNr].
      set (k1 := fsize r + 2).
      cbn [fitems ends_term].
      (* left part, with the slack the connective needs *)
      assert (SL : SEQ (fwrap (lhs_paren (FBin c l r) l) (fitems l) l) (if lhs_paren (FBin c l r) l then false else ends_term l) k1).
      { unfold fwrap. destruct (lhs_paren (FBin c l r) l).
        - apply fs_one, fo_group. apply group_ok_sub; [lia|repeat split; assumption].
        - apply IHl; [subst k1; lia|repeat split; assumption]. }
      assert (SR : SEQ (fwrap (rhs_paren (FBin c l r) r) (fitems r) r) (if rhs_paren (FBin c l r) r then false else ends_term r) k).
      { unfold fwrap. destruct (rhs_paren (FBin c l r) r).
        - apply fs_one, fo_group. apply group_ok_sub; [lia|repeat split; assumption].
        - apply IHr; [lia|repeat split; assumption]. }
      eapply fseq_app; [exact SL|exact SR|].
      intros E1 R. destruct c; try (apply other_conn_stops; discriminate).
      (* reverse implication after a term: this is where the class C15-RIMP is excluded *)
      destruct (lhs_paren (FBin CRimp l r) l) eqn:LP; [discriminate|]. rewrite E1 in RC. cbn [negb andb] in RC.
      unfold fwrap. cbn [conn_tok]. destruct (rhs_paren (FBin CRimp l r) r) eqn:RP.
      + cbn [fflat flat_map fflat1 app]. rewrite app_nil_r, <- app_assoc. cbn [app]. apply rimp_stop_group. exact Wr.
      + cbn [negb andb] in RC. rewrite <- print_formula_items. apply rimp_stop_plain; assumption.
    - cbn [wf_formula keyword_ident rimp_neg fsize] in *.
      apply andb_true_iff in W. destruct W as [W Wg]. apply andb_true_iff in W. destruct W as [Wne Wvs].
      assert (O : OPND (fitems (FQ q vs g)) (ends_term (FQ q vs g)) k).
      { cbn [fitems ends_term]. unfold fwrap. destruct (q_paren (FQ q vs g) g) eqn:U.
        - apply fo_quant; [apply fo_group; apply group_ok_sub; [lia|repeat split; assumption]| |exact I].
          destruct vs; [discriminate|discriminate].
        - unfold q_paren in U. apply orb_false_elim in U. destruct U as [UB UP].
          pose proof (un_paren_false (FQ q vs g) g I UP) as NB.
          destruct (IH k ltac:(lia) (conj Wg (conj K RN))) as [_ O].
          apply fo_quant; [destruct g; try tauto; exact O|destruct vs; [discriminate|discriminate]|].
          rewrite <- print_formula_items. apply bwv_head; assumption. }
      split; [apply fs_one|]; exact O.
  Qed.
End MainStep.

(* C15 for formulas, token level: printing a well-formed formula outside the two known classes and
   parsing the tokens (followed by anything that may follow a formula) gives the formula back *)
Theorem formula_rt : forall n F R, fsize F + 3 < n -> fgood F -> ffollow (ends_term F) 0 R ->
  peg_formula n (print_formula false F ++ R) = Ok F R.
Proof.
  induction n as [|f IH]; intros F R Hn HG HF; [lia|].
  assert (IH' : forall g R0, fsize g + 3 < f -> fgood g -> ffollow (ends_term g) 0 R0 ->
                peg_formula f (print_formula false g ++ R0) = Ok g R0).
  { intros g R0 Hg Gg FF. apply IH; [lia|exact Gg|exact FF]. }
  destruct (fitems_seq f IH' F 0 ltac:(lia) HG) as [SQ _].
  pose proof (fitems_length F) as LEN.
  destruct (seq_ok (peg_formula f) f (fitems F) (ends_term F) 0 SQ R f HF ltac:(lia)) as (a & b & R1 & E1 & E2 & E3).
  cbn [peg_formula]. rewrite print_formula_items, E1, E2, E3, pratt_formula_items. reflexivity.
Qed.
