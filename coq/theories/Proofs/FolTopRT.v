(* C15, top level: theories, annotated formulas, specifications, user guides; fuel adequacy of the
   executable parsers [parse_*_toks] (fuel_of); layout stripping. *)
From Coq Require Import List Ascii String ZArith NArith Bool Arith Lia.
From Anthem Require Import Syntax.Fol Gen.TablesFol Model.FolPrint Model.FolLex Model.FolPratt Model.FolParse
  Model.FolClass Proofs.FolPrattOk Proofs.FolTermRT Proofs.FolFormulaRT Proofs.FolRoundTrip.
Import ListNotations.
Open Scope list_scope.

(* ---------- sizes versus token counts ---------- *)
Lemma parens_length b (l : list token) : List.length l <= List.length (parens b l).
Proof. destruct b; cbn; [rewrite app_length; cbn; lia|lia]. Qed.

Lemma isize_tokens t : isize t <= List.length (print_iterm false t).
Proof.
  induction t as [z|c|x|[] a IH|o l IHl r IHr]; cbn [isize print_iterm]; try (cbn; lia).
  - rewrite iassoc_left. cbn [fmt_unary is_left is_right app]. rewrite app_nil_r. cbn [List.length].
    pose proof (parens_length (paren_unary (iprec (IUn UNeg a)) (iprec a) (imand a)) (print_iterm false a)). lia.
  - cbn [tsp app]. rewrite app_length. cbn [List.length].
    pose proof (parens_length (paren_lhs (iprec (IBin o l r)) (iprec l) (imand l) (iassoc l)) (print_iterm false l)).
    pose proof (parens_length (paren_rhs (iprec (IBin o l r)) (iprec r) (imand r) (iassoc (IBin o l r))) (print_iterm false r)). lia.
Qed.
Lemma gsize_tokens t : gsize t <= List.length (print_gterm false t) /\ 1 <= List.length (print_gterm false t).
Proof.
  destruct t as [| |c|x|t|[s|c|x]]; cbn [gsize print_gterm print_sterm List.length]; try lia.
  pose proof (isize_tokens t). assert (1 <= isize t) by (destruct t; cbn; lia). lia.
Qed.
Lemma print_args_cons2 t t2 ts : print_args false (t :: t2 :: ts) = print_gterm false t ++ TComma :: print_args false (t2 :: ts).
Proof. reflexivity. Qed.
Lemma args_size_tokens ts : ts <> [] -> args_size ts <= List.length (print_args false ts) + 1.
Proof.
  induction ts as [|t ts IH]; [congruence|]. intros _. cbn [args_size fold_right]. fold (args_size ts).
  pose proof (gsize_tokens t) as [G1 G2]. destruct ts as [|t2 ts].
  - cbn [print_args args_size fold_right]. lia.
  - rewrite print_args_cons2, app_length. cbn [List.length]. specialize (IH ltac:(discriminate)). lia.
Qed.
Lemma guards_size_tokens gs : guards_size gs <= List.length (print_guards false gs).
Proof.
  induction gs as [|[rl t] gs IH]; [cbn; lia|]. cbn [guards_size fold_right gterm_of]. fold (guards_size gs).
  cbn [print_guards print_guard tsp app grel gterm_of List.length]. rewrite app_length.
  pose proof (gsize_tokens t). lia.
Qed.
Lemma asize_tokens a : asize a <= 2 * List.length (print_atomic false a) /\ 1 <= List.length (print_atomic false a).
Proof.
  destruct a as [| |p ts|t gs]; cbn [asize print_atomic]; try (cbn; lia).
  - destruct ts as [|t ts]; [cbn; lia|].
    change (print_atom false p (t :: ts)) with (TWord p :: TLParen :: print_args false (t :: ts) ++ [TRParen]).
    cbn [List.length]. rewrite app_length. cbn [List.length].
    pose proof (args_size_tokens (t :: ts) ltac:(discriminate)). lia.
  - rewrite app_length. pose proof (gsize_tokens t). pose proof (guards_size_tokens gs). lia.
Qed.
Lemma fsize_tokens f : fsize f <= 3 * List.length (print_formula false f) /\ 1 <= List.length (print_formula false f).
Proof.
  induction f as [a|g IH|c l IHl r IHr|q vs g IH]; cbn [fsize print_formula].
  - pose proof (asize_tokens a). lia.
  - change (fassoc (FNot g)) with (Some ALeft). unfold fmt_unary. cbn [is_left is_right tsp]. rewrite !app_length. cbn [List.length].
    pose proof (parens_length (paren_unary (fprec (FNot g)) (fprec g) (fmand g)) (print_formula false g)). lia.
  - cbn [tsp]. rewrite !app_length. cbn [List.length].
    pose proof (parens_length (paren_lhs (fprec (FBin c l r)) (fprec l) (fmand l) (fassoc l)) (print_formula false l)).
    pose proof (parens_length (paren_rhs (fprec (FBin c l r)) (fprec r) (fmand r) (fassoc (FBin c l r))) (print_formula false r)). lia.
  - cbn [tsp]. rewrite !app_length. cbn [print_quantification List.length].
    pose proof (parens_length (begins_with_variable (render (print_formula true g)) || fmand g || (fprec (FQ q vs g) <? fprec g)%nat) (print_formula false g)). lia.
Qed.

Lemma toks_size_length ts : List.length ts <= toks_size ts.
Proof. induction ts as [|t ts IH]; cbn [toks_size fold_right List.length]; [lia|]. fold (toks_size ts). destruct t; cbn; lia. Qed.
Lemma fuel_of_ge ts : 4 * List.length ts + 16 <= fuel_of ts.
Proof. unfold fuel_of. pose proof (toks_size_length ts). lia. Qed.

(* ---------- (entry ".")* ---------- *)
Section DottedOk.
  Context {A : Type}.
  Variable entry : nat -> list token -> res A.
  Variable px : A -> list token.
  Variable bound : A -> nat.
  Variable good : A -> Prop.
  Hypothesis entry_ok : forall x fuel R, good x -> bound x < fuel -> entry fuel (px x ++ TDot :: R) = Ok x (TDot :: R).
  Hypothesis entry_nil : forall fuel, 2 <= fuel -> entry fuel [] = Fail.

  Definition pdotted (xs : list A) : list token := flat_map (fun x => px x ++ [TDot]) xs.

  Lemma dotted_ok xs : (forall x, In x xs -> good x) ->
    forall fuel, (forall x, In x xs -> bound x + List.length xs + 3 < fuel) -> 3 <= fuel ->
    peg_dotted entry fuel (pdotted xs) = Ok xs [].
  Proof.
    induction xs as [|x xs IH]; intros HG fuel Hb H3; (destruct fuel as [|f]; [lia|]).
    - cbn [pdotted flat_map peg_dotted]. rewrite entry_nil by lia. reflexivity.
    - cbn [pdotted flat_map]. fold (pdotted xs). rewrite <- app_assoc. cbn [app peg_dotted].
      assert (Hx := Hb x (or_introl eq_refl)). cbn [List.length] in Hx.
      rewrite entry_ok; [|apply HG; left; reflexivity|lia]. rewrite IH; [reflexivity| | |lia].
      + intros y Hy. apply HG. right. exact Hy.
      + intros y Hy. specialize (Hb y (or_intror Hy)). cbn [List.length] in Hb. lia.
  Qed.
End DottedOk.

(* ---------- theories ---------- *)
Lemma ffollow_dot e R : ffollow e 0 (TDot :: R).
Proof.
  split; [|reflexivity]. split; [reflexivity|]. split; [exact I|]. split; [exact I|].
  intros _ fuel Hf. destruct fuel; [lia|reflexivity].
Qed.

Lemma print_theory_dotted t : print_theory false t = pdotted (print_formula false) t.
Proof. induction t as [|f t IH]; [reflexivity|]. cbn [print_theory tnl app pdotted flat_map]. fold (pdotted (print_formula false) t). rewrite IH, <- app_assoc. reflexivity. Qed.

Lemma peg_formula_nil fuel : 2 <= fuel -> peg_formula fuel [] = Fail.
Proof. intros H. destruct fuel as [|[|f]]; try lia. reflexivity. Qed.

Lemma pdotted_length {A} (px : A -> list token) xs :
  List.length (pdotted px xs) = fold_right (fun x n => List.length (px x) + 1 + n) 0 xs.
Proof. induction xs as [|x xs IH]; [reflexivity|]. cbn [pdotted flat_map fold_right]. fold (pdotted px xs). rewrite !app_length, IH. cbn. lia. Qed.
Lemma pdotted_length_ge {A} (px : A -> list token) xs x : In x xs ->
  List.length (px x) + List.length xs <= List.length (pdotted px xs).
Proof.
  rewrite pdotted_length. induction xs as [|y xs IH]; [intros []|]. cbn [fold_right List.length]. intros [->|H].
  - clear IH. assert (List.length xs <= fold_right (fun x0 n => List.length (px x0) + 1 + n) 0 xs) by (induction xs; cbn; lia). lia.
  - specialize (IH H). lia.
Qed.

Definition tgood (t : theory) : Prop := forall f, In f t -> fgood f.

Lemma wf_in_range_i t : wf_iterm t = true -> iterm_in_range t = true.
Proof. induction t as [z|c|x|o a IH|o l IHl r IHr]; cbn; auto. intros H. apply andb_true_iff in H. rewrite IHl, IHr by tauto. reflexivity. Qed.
Lemma wf_in_range_g t : wf_gterm t = true -> gterm_in_range t = true.
Proof. destruct t; cbn; auto. apply wf_in_range_i. Qed.
Lemma wf_in_range f : wf_formula f = true -> formula_in_range f = true.
Proof.
  induction f as [a|g IH|c l IHl r IHr|q vs g IH]; cbn [wf_formula formula_in_range]; auto.
  - destruct a as [| |p ts|t gs]; cbn; auto.
    + intros H. apply andb_true_iff in H. destruct H as [_ H]. rewrite forallb_forall in *. intros x Hx. apply wf_in_range_g, H, Hx.
    + intros H. apply andb_true_iff in H. destruct H as [H H2]. apply andb_true_iff in H. destruct H as [H1 _].
      rewrite wf_in_range_g by exact H1. cbn. rewrite forallb_forall in *. intros x Hx. apply wf_in_range_g. apply (H2 x Hx).
  - intros H. apply andb_true_iff in H. rewrite IHl, IHr by tauto. reflexivity.
  - intros H. apply andb_true_iff in H. apply IH. tauto.
Qed.

(* C15 for theories (token level) *)
Theorem theory_rt t : tgood t -> parse_theory_toks (print_theory false t) = PR_ok t.
Proof.
  intros HG. unfold parse_theory_toks. rewrite print_theory_dotted.
  set (ts := pdotted (print_formula false) t).
  assert (E : peg_dotted peg_formula (fuel_of ts) ts = Ok t []).
  { apply (dotted_ok peg_formula (print_formula false) (fun f => fsize f + 3) fgood).
    - intros f fuel R Gf Hf. apply formula_rt; [lia|exact Gf|apply ffollow_dot].
    - apply peg_formula_nil.
    - exact HG.
    - intros f Hf. pose proof (fuel_of_ge ts). pose proof (pdotted_length_ge (print_formula false) t f Hf).
      pose proof (fsize_tokens f). fold ts in H0. lia.
    - pose proof (fuel_of_ge ts). lia. }
  rewrite E. cbn [finish]. assert (R : forallb formula_in_range t = true).
  { apply forallb_forall. intros f Hf. apply wf_in_range. apply (HG f Hf). }
  rewrite R. reflexivity.
Qed.

(* ---------- annotated formulas and specifications ---------- *)
Lemma role_of_role_tok r : role_of_tok (role_tok r) = Some r.
Proof. destruct r; reflexivity. Qed.

Lemma direction_of_str d : direction_of_word (direction_str d) = Some d.
Proof. destruct d; reflexivity. Qed.
Lemma peg_direction_ok d X : no_lparen X ->
  peg_direction ((if is_universal d then [] else [TLParen; TWord (direction_str d); TRParen]) ++ X) = (d, X).
Proof.
  intros HX. destruct d; cbn [is_universal app].
  - unfold peg_direction. destruct X as [|[] X]; cbn in HX; try tauto; reflexivity.
  - unfold peg_direction. rewrite direction_of_str. reflexivity.
  - unfold peg_direction. rewrite direction_of_str. reflexivity.
Qed.
Lemma peg_name_ok n Y : peg_name ((if is_empty n then [] else [TLBrack; TWord n; TRBrack]) ++ TColon :: Y) = (n, TColon :: Y).
Proof. destruct n; reflexivity. Qed.

Lemma peg_annot_ok a fuel R : fsize (an_formula a) + 3 < fuel -> fgood (an_formula a) ->
  peg_annot fuel (print_annot false a ++ TDot :: R) = Ok a (TDot :: R).
Proof.
  intros Hf HG. destruct a as [ro d n F]. cbn [an_role an_dir an_name an_formula print_annot tsp app] in *.
  unfold peg_annot. rewrite role_of_role_tok. rewrite <- !app_assoc.
  rewrite peg_direction_ok by (destruct (is_empty n); exact I).
  cbn [app]. rewrite peg_name_ok.
  rewrite formula_rt; [reflexivity|exact Hf|exact HG|apply ffollow_dot].
Qed.

Lemma peg_annot_nil fuel : peg_annot fuel [] = Fail.
Proof. reflexivity. Qed.

Definition sgood (s : specification) : Prop := forall a, In a s -> fgood (an_formula a).

Lemma print_spec_dotted s : print_spec false s = pdotted (print_annot false) s.
Proof. induction s as [|a s IH]; [reflexivity|]. cbn [print_spec tnl app pdotted flat_map]. fold (pdotted (print_annot false) s). rewrite IH, <- app_assoc. reflexivity. Qed.

Lemma print_annot_length a : List.length (print_formula false (an_formula a)) <= List.length (print_annot false a).
Proof. destruct a as [ro d n F]. unfold print_annot. cbn [an_formula]. rewrite !app_length. lia. Qed.

Theorem spec_rt s : sgood s -> parse_spec_toks (print_spec false s) = PR_ok s.
Proof.
  intros HG. unfold parse_spec_toks. rewrite print_spec_dotted.
  set (ts := pdotted (print_annot false) s).
  assert (E : peg_dotted peg_annot (fuel_of ts) ts = Ok s []).
  { apply (dotted_ok peg_annot (print_annot false) (fun a => fsize (an_formula a) + 3) (fun a => fgood (an_formula a))).
    - intros a fuel R Ga Hf. apply peg_annot_ok; assumption.
    - intros fuel _. apply peg_annot_nil.
    - exact HG.
    - intros a Ha. pose proof (fuel_of_ge ts). pose proof (pdotted_length_ge (print_annot false) s a Ha).
      pose proof (fsize_tokens (an_formula a)). pose proof (print_annot_length a). fold ts in H0. lia.
    - pose proof (fuel_of_ge ts). lia. }
  rewrite E. cbn [finish].
  assert (R : forallb (fun a => formula_in_range (an_formula a)) s = true).
  { apply forallb_forall. intros a Ha. apply wf_in_range. apply (HG a Ha). }
  rewrite R. reflexivity.
Qed.

(* ---------- user guides ---------- *)
Definition raw_of (e : ug_entry) : raw_entry :=
  match e with
  | UGInput p => REInput (psym p) (N.of_nat (parity p))
  | UGOutput p => REOutput (psym p) (N.of_nat (parity p))
  | UGPlaceholder c s => REPlaceholder c s
  | UGFormula a => REFormula a
  end.
Lemma entry_of_raw_of e : entry_of_raw (raw_of e) = e.
Proof. destruct e as [[p n]|[p n]|c s|a]; cbn; rewrite ?Nat2N.id; reflexivity. Qed.

Lemma peg_ug_entry_role t1 ts fuel : is_word "input" t1 = false -> is_word "output" t1 = false ->
  peg_ug_entry fuel (t1 :: ts) = peg_ug_annot fuel (t1 :: ts).
Proof.
  intros H1 H2. unfold peg_ug_entry.
  repeat match goal with
         | |- context [match ?x with _ => _ end] => is_var x; destruct x
         end; rewrite ?H1, ?H2; reflexivity.
Qed.

Lemma role_tok_not_io ro : is_word "input" (role_tok ro) = false /\ is_word "output" (role_tok ro) = false.
Proof. destruct ro; split; reflexivity. Qed.

Lemma sort_of_letter s : sort_of_word (sort_letter s) = Some s.
Proof. destruct s; reflexivity. Qed.

Definition egood (e : ug_entry) : Prop :=
  match e with
  | UGInput p | UGOutput p => in_usize (N.of_nat (parity p)) = true
  | UGPlaceholder _ _ => True
  | UGFormula a => fgood (an_formula a)
  end.
Definition ebound (e : ug_entry) : nat := match e with UGFormula a => fsize (an_formula a) + 3 | _ => 0 end.

Lemma peg_ug_entry_ok e fuel R : ebound e < fuel -> egood e ->
  peg_ug_entry fuel (print_ug_entry false e ++ TDot :: R) = Ok (raw_of e) (TDot :: R).
Proof.
  intros Hf HG. destruct e as [[p n]|[p n]|c s|a]; cbn [print_ug_entry print_pred tsp app psym parity raw_of].
  - reflexivity.
  - reflexivity.
  - unfold peg_ug_entry. cbn [is_word String.eqb]. 
    change (is_word "input" (TWord "input")) with true. cbn [peg_placeholder_sort]. rewrite sort_of_letter. reflexivity.
  - cbn [ebound egood] in *.
    transitivity (peg_ug_annot fuel (print_annot false a ++ TDot :: R)).
    + assert (EX : exists rest, print_annot false a ++ TDot :: R = role_tok (an_role a) :: rest)
        by (destruct a; eexists; reflexivity).
      destruct EX as [rest EX]. destruct (role_tok_not_io (an_role a)) as [H1 H2].
      rewrite EX. apply peg_ug_entry_role; assumption.
    + unfold peg_ug_annot. rewrite peg_annot_ok; [reflexivity|exact Hf|exact HG].
Qed.

Lemma peg_ug_entry_nil fuel : peg_ug_entry fuel [] = Fail.
Proof. reflexivity. Qed.

Definition ugood (u : user_guide) : Prop := forall e, In e u -> egood e.

Definition praw (r : raw_entry) : list token := print_ug_entry false (entry_of_raw r).
Lemma print_ug_dotted u : print_ug false u = pdotted praw (map raw_of u).
Proof.
  induction u as [|e u IH]; [reflexivity|]. cbn [print_ug tnl app map pdotted flat_map]. fold (pdotted praw (map raw_of u)).
  change (praw (raw_of e)) with (print_ug_entry false (entry_of_raw (raw_of e))).
  rewrite entry_of_raw_of, IH, <- app_assoc. reflexivity.
Qed.

Lemma print_ug_entry_length e : ebound e <= 3 * List.length (print_ug_entry false e) + 3.
Proof.
  destruct e as [p|p|c s|a]; cbn [ebound]; try lia.
  cbn [print_ug_entry]. pose proof (print_annot_length a). pose proof (fsize_tokens (an_formula a)). lia.
Qed.

Theorem ug_rt u : ugood u -> parse_ug_toks (print_ug false u) = PR_ok u.
Proof.
  intros HG. unfold parse_ug_toks. rewrite print_ug_dotted.
  set (ts := pdotted praw (map raw_of u)).
  assert (E : peg_dotted peg_ug_entry (fuel_of ts) ts = Ok (map raw_of u) []).
  { apply (dotted_ok peg_ug_entry praw (fun r => ebound (entry_of_raw r)) (fun r => exists e, r = raw_of e /\ egood e)).
    - intros r fuel R (e & -> & Ge) Hf. unfold praw. rewrite entry_of_raw_of in *. apply peg_ug_entry_ok; assumption.
    - intros fuel _. apply peg_ug_entry_nil.
    - intros r Hr. apply in_map_iff in Hr. destruct Hr as (e & <- & He). exists e. split; [reflexivity|apply HG; exact He].
    - intros r Hr. pose proof (fuel_of_ge ts). pose proof (pdotted_length_ge praw (map raw_of u) r Hr).
      pose proof (print_ug_entry_length (entry_of_raw r)). unfold praw in H0 at 1. fold ts in H0. lia.
    - pose proof (fuel_of_ge ts). lia. }
  rewrite E. cbn [finish].
  assert (R : forallb raw_entry_in_range (map raw_of u) = true).
  { apply forallb_forall. intros r Hr. apply in_map_iff in Hr. destruct Hr as (e & <- & He).
    specialize (HG e He). destruct e as [p|p|c s|a]; cbn in *; try assumption; try reflexivity.
    apply wf_in_range. apply HG. }
  rewrite R. rewrite map_map. f_equal. rewrite <- (map_id u) at 2. apply map_ext. intros e. apply entry_of_raw_of.
Qed.
