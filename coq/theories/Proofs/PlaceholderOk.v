(* replace_placeholders (Model/Outline.rp_formula) commutes with satisfaction when the symbol is
   read as the placeholder's value, and commutes with tau*:

     csat FI I e (rp_formula m F)  <->  csat FI I e (rpv FI m F)
       rpv = the symbol n replaced by the ground term denoting FI's value of the placeholder n;
     tau_star (ph_program FI m P) = option_map (map (rpv FI m)) (tau_star P)
       ph_program = the program with the symbol n replaced by that value (a precomputed term);

   hence  rp_theory m (tau_star P)  represents (FagesBridge.represents)  ph_program FI m P:
   the theory `theory_translate` completes is the tau*-theory of the program in which the
   placeholders are read as FI reads them. *)
From Coq Require Import List Ascii String ZArith Bool Lia.
From Anthem Require Import Base.ISet Syntax.Fol Syntax.Asp Sem.Domain Sem.Sat Sem.AspRef
  Model.FreshNames Model.TauStar Model.Outline Model.Completion Model.Tightness
  Proofs.ExtendAll Proofs.TauStarBase Proofs.TauStarRule Proofs.TauStarProgram Proofs.TauStarClosed
  Proofs.CompletionShape Proofs.FagesBridge Proofs.FagesTauStar.
Import ListNotations.
Open Scope string_scope.
Open Scope list_scope.

(* ---------- a generic map over the leaf terms of a formula ---------- *)
Definition tmap_guard (g : gterm -> gterm) (x : guard) : guard := mkguard (grel x) (g (gterm_of x)).
Definition tmap_aformula (g : gterm -> gterm) (a : aformula) : aformula :=
  match a with
  | AAtom p ts => AAtom p (map g ts)
  | ACmp t gs => ACmp (g t) (map (tmap_guard g) gs)
  | _ => a
  end.
Fixpoint tmap (g : gterm -> gterm) (f : formula) : formula :=
  match f with
  | FAtomic a => FAtomic (tmap_aformula g a)
  | FNot h => FNot (tmap g h)
  | FBin c l r => FBin c (tmap g l) (tmap g r)
  | FQ q vs h => FQ q vs (tmap g h)
  end.

Lemma rp_formula_tmap m f : rp_formula m f = tmap (rp_gterm m) f.
Proof.
  induction f as [a|f IH|c l IHl r IHr|q vs f IH]; cbn; try congruence.
  destruct a; reflexivity.
Qed.

Section Tmap.
Variable g : gterm -> gterm.
Hypothesis g_vars : forall t, gterm_vars (g t) = gterm_vars t.

Lemma extend_all_map {A B C} (dec : forall x y : C, {x = y} + {x <> y}) (f : B -> list C) (h : A -> B) l :
  forall init, extend_all dec f init (map h l) = extend_all dec (fun x => f (h x)) init l.
Proof. unfold extend_all. induction l as [|x l IH]; intros init; cbn; auto. Qed.
Lemma extend_all_ext {A C} (dec : forall x y : C, {x = y} + {x <> y}) (f1 f2 : A -> list C) l :
  (forall x, f1 x = f2 x) -> forall init, extend_all dec f1 init l = extend_all dec f2 init l.
Proof. intros E. unfold extend_all. induction l as [|x l IH]; intros init; cbn; [auto|]. rewrite E. apply IH. Qed.

Lemma tmap_aformula_vars a : aformula_vars (tmap_aformula g a) = aformula_vars a.
Proof.
  destruct a as [| |p ts|t gs]; cbn; auto.
  - rewrite extend_all_map. apply extend_all_ext. exact g_vars.
  - rewrite extend_all_map, g_vars. apply extend_all_ext. intros x. cbn. apply g_vars.
Qed.
Lemma tmap_variables f : variables (tmap g f) = variables f.
Proof. induction f as [a|f IH|c l IHl r IHr|q vs f IH]; cbn; try congruence. apply tmap_aformula_vars. Qed.
Lemma tmap_free_variables f : free_variables (tmap g f) = free_variables f.
Proof. induction f as [a|f IH|c l IHl r IHr|q vs f IH]; cbn; try congruence. apply tmap_aformula_vars. Qed.
Lemma tmap_predicates f : predicates (tmap g f) = predicates f.
Proof.
  induction f as [a|f IH|c l IHl r IHr|q vs f IH]; cbn; try congruence.
  destruct a; cbn; auto. rewrite map_length. reflexivity.
Qed.
Lemma tmap_theory_predicates t : theory_predicates (map (tmap g) t) = theory_predicates t.
Proof.
  unfold theory_predicates. rewrite extend_all_map. apply extend_all_ext. apply tmap_predicates.
Qed.
End Tmap.

(* two leaf maps with the same values give the same truth values *)
Section TmapSem.
Variable FI : fint.
Variables g1 g2 : gterm -> gterm.
Hypothesis g_ev : forall e t, ev_g FI e (g1 t) = ev_g FI e (g2 t).

Lemma tmap_chain e gs : forall l,
  chain_sat FI e l (map (tmap_guard g1) gs) = chain_sat FI e l (map (tmap_guard g2) gs).
Proof. induction gs as [|x gs IH]; intros l; cbn; [reflexivity|]. rewrite g_ev, IH. reflexivity. Qed.
Lemma tmap_asat I e a : asat FI I e (tmap_aformula g1 a) <-> asat FI I e (tmap_aformula g2 a).
Proof.
  destruct a as [| |p ts|t gs]; cbn; try tauto.
  - rewrite !map_map. rewrite (map_ext _ _ (g_ev e)). tauto.
  - rewrite g_ev, tmap_chain. tauto.
Qed.
Lemma tmap_csat I f : forall e, csat FI I e (tmap g1 f) <-> csat FI I e (tmap g2 f).
Proof.
  induction f as [a|f IH|c l IHl r IHr|q vs f IH]; intros e; cbn [tmap csat].
  - apply tmap_asat.
  - rewrite IH. tauto.
  - destruct c; rewrite IHl, IHr; tauto.
  - apply qsat_iff. intros e'. apply IH.
Qed.
End TmapSem.

(* ---------- the value reading of placeholders ---------- *)
Definition ph_value (FI : fint) (so : sort) (s : string) : gval :=
  match so with SGeneral => fg FI s | SInteger => VNum (fi FI s) | SSymbol => VSym (fs FI s) end.
Definition gval_gterm (v : gval) : gterm :=
  match v with VInf => GInf | VSup => GSup | VNum z => GInt (INum z) | VSym s => GSym (SSym s) end.
Definition gval_pterm (v : gval) : pterm :=
  match v with VInf => PInf | VSup => PSup | VNum z => PNum z | VSym s => PSym s end.

Definition rpv_gterm (FI : fint) (m : placeholders) (t : gterm) : gterm :=
  match t with
  | GSym (SSym s) =>
      match ph_lookup m s with
      | Some so => gval_gterm (ph_value FI so s)
      | None => t
      end
  | _ => t
  end.
Definition rpv (FI : fint) (m : placeholders) : formula -> formula := tmap (rpv_gterm FI m).

Lemma rp_gterm_vars m t : gterm_vars (rp_gterm m t) = gterm_vars t.
Proof.
  destruct t as [| | | |t|t]; try reflexivity. destruct t as [s| |]; try reflexivity.
  cbn. destruct (ph_lookup m s) as [[| |]|]; reflexivity.
Qed.
Lemma rpv_gterm_vars FI m t : gterm_vars (rpv_gterm FI m t) = gterm_vars t.
Proof.
  destruct t as [| | | |t|t]; try reflexivity. destruct t as [s| |]; try reflexivity.
  cbn. destruct (ph_lookup m s) as [so|]; [|reflexivity]. destruct (ph_value FI so s); reflexivity.
Qed.
Lemma rp_rpv_ev FI m e t : ev_g FI e (rp_gterm m t) = ev_g FI e (rpv_gterm FI m t).
Proof.
  destruct t as [| | | |t|t]; try reflexivity. destruct t as [s| |]; try reflexivity.
  cbn. destruct (ph_lookup m s) as [[| |]|]; cbn; try reflexivity.
  destruct (fg FI s); reflexivity.
Qed.

(* (A) replace_placeholders under FI = the value reading *)
Theorem rp_rpv_csat FI m I f e : csat FI I e (rp_formula m f) <-> csat FI I e (rpv FI m f).
Proof. rewrite rp_formula_tmap. apply tmap_csat. intros e' t. apply rp_rpv_ev. Qed.

Lemma rp_free_variables m f : free_variables (rp_formula m f) = free_variables f.
Proof. rewrite rp_formula_tmap. apply tmap_free_variables, rp_gterm_vars. Qed.
Lemma rp_theory_predicates m t : theory_predicates (rp_theory m t) = theory_predicates t.
Proof.
  unfold rp_theory. rewrite (map_ext _ _ (rp_formula_tmap m)). apply tmap_theory_predicates.
Qed.
Lemma rp_predicates m f : predicates (rp_formula m f) = predicates f.
Proof. rewrite rp_formula_tmap. apply tmap_predicates. Qed.

(* ---------- the program with the placeholders read as values ---------- *)
Section PhProgram.
Variable FI : fint.
Variable m : placeholders.

Definition ph_pterm (p : pterm) : pterm :=
  match p with
  | PSym s => match ph_lookup m s with Some so => gval_pterm (ph_value FI so s) | None => p end
  | _ => p
  end.
Fixpoint ph_term (t : term) : term :=
  match t with
  | TPre p => TPre (ph_pterm p)
  | TVar x => TVar x
  | TUn o a => TUn o (ph_term a)
  | TBin o l r => TBin o (ph_term l) (ph_term r)
  end.
Definition ph_atom (a : atom) : atom := mkatom (apred a) (map ph_term (aterms a)).
Definition ph_bformula (b : bformula) : bformula :=
  match b with
  | BLit l => BLit (mklit (lsign l) (ph_atom (latom l)))
  | BCmp c => BCmp (mkcmp (crel c) (ph_term (clhs c)) (ph_term (crhs c)))
  end.
Definition ph_head (h : head) : head :=
  match h with HBasic a => HBasic (ph_atom a) | HChoice a => HChoice (ph_atom a) | HFalsity => HFalsity end.
Definition ph_rule (r : rule) : rule := mkrule (ph_head (rhead r)) (map ph_bformula (rbody r)).
Definition ph_program (P : program) : program := map ph_rule P.

(* --- variables and predicates are untouched --- *)
Lemma ph_term_vars t : term_vars (ph_term t) = term_vars t.
Proof. induction t as [p|x|o t IH|o l IHl r IHr]; cbn; congruence. Qed.
Lemma ph_atom_vars a : atom_vars (ph_atom a) = atom_vars a.
Proof. unfold atom_vars, ph_atom. cbn [aterms]. rewrite extend_all_map. apply extend_all_ext, ph_term_vars. Qed.
Lemma ph_atom_pred a : atom_pred (ph_atom a) = atom_pred a.
Proof. unfold atom_pred, ph_atom. cbn. rewrite map_length. reflexivity. Qed.
Lemma ph_bformula_vars b : bformula_vars (ph_bformula b) = bformula_vars b.
Proof.
  destruct b as [l|c]; cbn; [apply ph_atom_vars|]. unfold cmp_vars. cbn. rewrite !ph_term_vars. reflexivity.
Qed.
Lemma ph_bformula_preds b : bformula_preds (ph_bformula b) = bformula_preds b.
Proof. destruct b as [l|c]; cbn; [rewrite ph_atom_pred|]; reflexivity. Qed.
Lemma ph_bformula_pos_preds b : bformula_pos_preds (ph_bformula b) = bformula_pos_preds b.
Proof. destruct b as [[[| |] a]|c]; cbn; try reflexivity. rewrite ph_atom_pred. reflexivity. Qed.
Lemma ph_body_vars b : body_vars (map ph_bformula b) = body_vars b.
Proof. unfold body_vars. rewrite extend_all_map. apply extend_all_ext, ph_bformula_vars. Qed.
Lemma ph_body_preds b : body_preds (map ph_bformula b) = body_preds b.
Proof. unfold body_preds. rewrite extend_all_map. apply extend_all_ext, ph_bformula_preds. Qed.
Lemma ph_body_pos_preds b : body_pos_preds (map ph_bformula b) = body_pos_preds b.
Proof. unfold body_pos_preds. rewrite extend_all_map. apply extend_all_ext, ph_bformula_pos_preds. Qed.
Lemma ph_head_pred h : head_pred (ph_head h) = head_pred h.
Proof. destruct h; cbn; try rewrite ph_atom_pred; reflexivity. Qed.
Lemma ph_head_vars h : head_vars (ph_head h) = head_vars h.
Proof. destruct h; cbn; try apply ph_atom_vars; reflexivity. Qed.
Lemma ph_head_arity h : head_arity (ph_head h) = head_arity h.
Proof. destruct h; cbn; try apply map_length; reflexivity. Qed.
Lemma ph_rule_vars r : rule_vars (ph_rule r) = rule_vars r.
Proof. unfold rule_vars, ph_rule. cbn [rhead rbody]. rewrite ph_head_vars, ph_body_vars. reflexivity. Qed.
Lemma ph_rule_preds r : rule_preds (ph_rule r) = rule_preds r.
Proof. unfold rule_preds, ph_rule. cbn [rhead rbody]. rewrite ph_head_pred, ph_body_preds. reflexivity. Qed.
Lemma ph_program_vars P : program_vars (ph_program P) = program_vars P.
Proof. unfold program_vars, ph_program. rewrite extend_all_map. apply extend_all_ext, ph_rule_vars. Qed.
Lemma ph_program_preds P : program_preds (ph_program P) = program_preds P.
Proof. unfold program_preds, ph_program. rewrite extend_all_map. apply extend_all_ext, ph_rule_preds. Qed.
Lemma ph_pos_edges P : pos_edges (ph_program P) = pos_edges P.
Proof.
  unfold pos_edges, ph_program. induction P as [|r P IH]; cbn; [reflexivity|]. rewrite IH. f_equal.
  unfold rule_pos_edges, ph_rule. cbn [rhead rbody]. rewrite ph_head_pred, ph_body_pos_preds. reflexivity.
Qed.
Lemma ph_is_tight P : is_tight (ph_program P) = is_tight P.
Proof. unfold is_tight. rewrite ph_program_preds, ph_pos_edges. reflexivity. Qed.
Lemma ph_in_heads P r' h : In r' (ph_program P) -> head_pred (rhead r') = Some h ->
  exists r, In r P /\ head_pred (rhead r) = Some h.
Proof.
  unfold ph_program. intros Hin Hh. apply in_map_iff in Hin. destruct Hin as [r [<- Hr]].
  exists r. split; [exact Hr|]. cbn in Hh. rewrite ph_head_pred in Hh. exact Hh.
Qed.
End PhProgram.

(* ---------- (B) tau* commutes with the value reading ---------- *)
Section TauCommute.
Variable FI : fint.
Variable m : placeholders.
Notation R := (rpv FI m).
Notation Rg := (rpv_gterm FI m).
Notation pt := (ph_term FI m).

Lemma rpv_var_term z : Rg (var_to_gterm z) = var_to_gterm z.
Proof. destruct z as [n [| |]]; reflexivity. Qed.
Lemma rpv_eq_formula l r : R (eq_formula l r) = eq_formula (Rg l) (Rg r).
Proof. reflexivity. Qed.
Lemma rpv_variables f : variables (R f) = variables f.
Proof. apply tmap_variables, rpv_gterm_vars. Qed.

Lemma rpv_equality_pre p z :
  R (construct_equality_formula (TPre p) z) = construct_equality_formula (TPre (ph_pterm FI m p)) z.
Proof.
  unfold construct_equality_formula. rewrite rpv_eq_formula. unfold z_var_term. rewrite rpv_var_term.
  destruct p as [|i|s|]; try reflexivity.
  cbn. destruct (ph_lookup m s) as [so|]; [|reflexivity]. destruct (ph_value FI so s); reflexivity.
Qed.
Lemma rpv_equality_var x z :
  R (construct_equality_formula (TVar x) z) = construct_equality_formula (TVar x) z.
Proof. unfold construct_equality_formula. rewrite rpv_eq_formula. unfold z_var_term. rewrite rpv_var_term. reflexivity. Qed.

Lemma rpv_total a b o i j z :
  R (construct_total_function_formula a b o i j z) = construct_total_function_formula (R a) (R b) o i j z.
Proof.
  unfold construct_total_function_formula. cbn [rpv tmap]. rewrite rpv_eq_formula. unfold z_var_term.
  rewrite rpv_var_term. reflexivity.
Qed.
Lemma rpv_partial a b o i j z :
  R (construct_partial_function_formula a b o i j z) = construct_partial_function_formula (R a) (R b) o i j z.
Proof.
  unfold construct_partial_function_formula. rewrite !rpv_variables.
  cbn [rpv tmap]. f_equal. f_equal.
  destruct o; rewrite rpv_eq_formula; unfold z_var_term; rewrite rpv_var_term; reflexivity.
Qed.
Lemma rpv_interval a b i j k z :
  R (construct_interval_formula a b i j k z) = construct_interval_formula (R a) (R b) i j k z.
Proof.
  unfold construct_interval_formula. cbn [rpv tmap]. rewrite rpv_eq_formula. unfold z_var_term.
  rewrite rpv_var_term. reflexivity.
Qed.

Lemma val_taken_ph t z : val_taken (pt t) z = val_taken t z.
Proof. unfold val_taken. rewrite ph_term_vars. reflexivity. Qed.

Theorem rpv_val t : forall z, R (val t z) = val (pt t) z.
Proof.
  induction t as [p|x|o t IH|o l IHl r IHr]; intros z.
  - apply rpv_equality_pre.
  - apply rpv_equality_var.
  - destruct o. cbn [val ph_term].
    change (val_taken (TUn AUNeg (pt t)) z) with (val_taken (pt (TUn AUNeg t)) z). rewrite val_taken_ph.
    rewrite rpv_total, IH. rewrite (rpv_equality_pre (PNum 0)). reflexivity.
  - cbn [val ph_term].
    change (val_taken (TBin o (pt l) (pt r)) z) with (val_taken (pt (TBin o l r)) z). rewrite val_taken_ph.
    destruct o; rewrite ?rpv_total, ?rpv_partial, ?rpv_interval, IHl, IHr; reflexivity.
Qed.

Lemma rpv_fold_and xs : forall x,
  R (fold_left (fun acc y => FBin CAnd acc y) xs x) = fold_left (fun acc y => FBin CAnd acc y) (map R xs) (R x).
Proof. induction xs as [|y xs IH]; intros x; cbn [fold_left map]; [reflexivity|]. rewrite IH. reflexivity. Qed.
Lemma rpv_conjoin l : R (conjoin l) = conjoin (map R l).
Proof. unfold conjoin, reduce_bin. destruct l as [|x xs]; [reflexivity|]. cbn [map]. apply rpv_fold_and. Qed.

Lemma rpv_valtz_gen ts zs :
  R (conjoin (map (fun tv => val (fst tv) (snd tv)) (combine ts zs))) =
  conjoin (map (fun tv => val (fst tv) (snd tv)) (combine (map pt ts) zs)).
Proof.
  rewrite rpv_conjoin. f_equal. revert zs. induction ts as [|t ts IH]; intros [|z zs]; cbn; try reflexivity.
  rewrite rpv_val, IH. reflexivity.
Qed.
Lemma rpv_valtz ts zs : R (valtz ts zs) = valtz (map pt ts) zs.
Proof. apply rpv_valtz_gen. Qed.

Lemma rpv_sign_wrap s f : R (sign_wrap s f) = sign_wrap s (R f).
Proof. destruct s; reflexivity. Qed.
Lemma rpv_patom p xs : R (FAtomic (AAtom p (map (fun x => GVar x) xs))) = FAtomic (AAtom p (map (fun x => GVar x) xs)).
Proof. cbn. rewrite map_map. reflexivity. Qed.

Theorem rpv_tau_b b : R (tau_b b) = tau_b (ph_bformula FI m b).
Proof.
  unfold tau_b. rewrite ph_bformula_vars. destruct b as [l|c]; cbn [ph_bformula].
  - cbn [latom lsign ph_atom aterms]. destruct (aterms (latom l)) as [|t ts] eqn:Et; cbn [map].
    + unfold tau_b_propositional_literal. cbn [lsign latom ph_atom apred]. rewrite rpv_sign_wrap. reflexivity.
    + unfold tau_b_first_order_literal. cbn [lsign latom ph_atom apred aterms]. rewrite Et. cbn [rpv tmap].
      rewrite map_length. change (tmap (rpv_gterm FI m)) with R. rewrite rpv_valtz_gen, rpv_sign_wrap, rpv_patom. reflexivity.
  - unfold tau_b_comparison. cbn [crel clhs crhs]. cbn [rpv tmap]. change (tmap (rpv_gterm FI m)) with R.
    rewrite rpv_conjoin. cbn [map]. rewrite !rpv_val. reflexivity.
Qed.
Theorem rpv_tau_body b : R (tau_body b) = tau_body (map (ph_bformula FI m) b).
Proof.
  unfold tau_body. rewrite rpv_conjoin, !map_map. f_equal. apply map_ext. intros x. apply rpv_tau_b.
Qed.

Lemma head_atom_ph h : head_atom (ph_head FI m h) = option_map (ph_atom FI m) (head_atom h).
Proof. destruct h; reflexivity. Qed.
Lemma is_choice_ph h : is_choice (ph_head FI m h) = is_choice h.
Proof. destruct h; reflexivity. Qed.

Theorem rpv_tau_star_rule r globals :
  tau_star_rule (ph_rule FI m r) globals = option_map R (tau_star_rule r globals).
Proof.
  unfold tau_star_rule. cbn [ph_rule rhead]. rewrite ph_head_pred, ph_head_arity.
  destruct (head_pred (rhead r)) as [hp|].
  - destruct (Nat.ltb 0 (head_arity (rhead r))).
    + unfold tau_star_fo_head_rule. cbn [ph_rule rhead rbody]. rewrite head_atom_ph, is_choice_ph.
      change (mkrule (ph_head FI m (rhead r)) (map (ph_bformula FI m) (rbody r))) with (ph_rule FI m r).
      rewrite ph_rule_vars.
      destruct (head_atom (rhead r)) as [a|]; cbn [option_map]; [|reflexivity].
      cbn [ph_atom aterms apred]. rewrite map_length.
      destruct (Nat.ltb (List.length globals) (List.length (aterms a))); cbn [option_map]; [reflexivity|].
      f_equal. cbn [rpv tmap]. change (tmap (rpv_gterm FI m)) with R. f_equal.
      rewrite <- rpv_valtz, <- rpv_tau_body.
      destruct (is_choice (rhead r)); cbn [rpv tmap]; change (tmap (rpv_gterm FI m)) with R;
        rewrite ?rpv_patom; cbn [tmap_aformula]; rewrite ?map_map; reflexivity.
    + unfold tau_star_prop_head_rule. cbn [ph_rule rhead rbody]. rewrite head_atom_ph, is_choice_ph.
      change (mkrule (ph_head FI m (rhead r)) (map (ph_bformula FI m) (rbody r))) with (ph_rule FI m r).
      rewrite ph_rule_vars.
      destruct (head_atom (rhead r)) as [a|]; cbn [option_map]; [|reflexivity].
      cbn [ph_atom apred]. f_equal. rewrite <- rpv_tau_body.
      destruct (sort_vars (map gvar (rule_vars r))); destruct (is_choice (rhead r)); reflexivity.
  - cbn [option_map]. f_equal. unfold tau_star_constraint_rule. cbn [ph_rule rbody].
    change (mkrule (ph_head FI m (rhead r)) (map (ph_bformula FI m) (rbody r))) with (ph_rule FI m r).
    rewrite ph_rule_vars, <- rpv_tau_body. destruct (sort_vars (map gvar (rule_vars r))); reflexivity.
Qed.

Lemma max_head_arity_ph P : max_head_arity (ph_program FI m P) = max_head_arity P.
Proof.
  unfold max_head_arity, ph_program. generalize 0. induction P as [|r P IH]; intros n; cbn [map fold_left]; [reflexivity|].
  cbn [ph_rule rhead]. rewrite ph_head_arity. apply IH.
Qed.
Lemma globals_ph P : choose_fresh_global_variables (ph_program FI m P) = choose_fresh_global_variables P.
Proof.
  unfold choose_fresh_global_variables, max_taken_var. rewrite ph_program_vars, max_head_arity_ph. reflexivity.
Qed.
Lemma map_opt_map {A B C} (f : B -> option C) (h : A -> B) l : map_opt f (map h l) = map_opt (fun x => f (h x)) l.
Proof. induction l as [|x l IH]; cbn; [reflexivity|]. rewrite IH. reflexivity. Qed.
Lemma map_opt_option_map {A B C} (f : A -> option B) (h : B -> C) l :
  map_opt (fun x => option_map h (f x)) l = option_map (map h) (map_opt f l).
Proof.
  induction l as [|x l IH]; cbn; [reflexivity|]. rewrite IH.
  destruct (f x); cbn; [|reflexivity]. destruct (map_opt f l); reflexivity.
Qed.

Lemma map_opt_ext {A B} (f g : A -> option B) l : (forall x, f x = g x) -> map_opt f l = map_opt g l.
Proof. intros E. induction l as [|x l IH]; cbn; [reflexivity|]. rewrite E, IH. reflexivity. Qed.

Theorem rpv_tau_star P : tau_star (ph_program FI m P) = option_map (map R) (tau_star P).
Proof.
  unfold tau_star. rewrite globals_ph. destruct (choose_fresh_global_variables P) as [globals|]; [|reflexivity].
  unfold ph_program. rewrite map_opt_map.
  rewrite (map_opt_ext _ _ P (fun r => rpv_tau_star_rule r globals)). apply map_opt_option_map.
Qed.
End TauCommute.

(* ---------- transfer of [rule_formula] between two leaf maps with the same values ---------- *)
Section Transfer.
Variable FI : fint.
Variables g1 g2 : gterm -> gterm.
Hypothesis g1_vars : forall t, gterm_vars (g1 t) = gterm_vars t.
Hypothesis g2_vars : forall t, gterm_vars (g2 t) = gterm_vars t.
Hypothesis g_ev : forall e t, ev_g FI e (g1 t) = ev_g FI e (g2 t).
Hypothesis g_var : forall t v, g1 t = var_to_gterm v -> g2 t = var_to_gterm v.

Lemma strip_tmap g f : strip (tmap g f) = tmap g (strip f).
Proof. destruct f as [| | |[] vs h]; reflexivity. Qed.

Lemma g_var_list ts : forall V, map g1 ts = map var_to_gterm V -> map g2 ts = map var_to_gterm V.
Proof.
  induction ts as [|t ts IH]; intros [|v V]; cbn; try discriminate; [reflexivity|].
  intros [= E1 E2]. rewrite (g_var _ _ E1), (IH _ E2). reflexivity.
Qed.

Lemma implication_tmap_false h F1 :
  implication (tmap g1 h) F1 (FAtomic AFalse) -> exists B, implication (tmap g2 h) (tmap g2 B) (FAtomic AFalse).
Proof.
  unfold implication. destruct h as [a|k|c l r|q vs k]; cbn; intros [E|E]; try discriminate;
    destruct c; try discriminate; injection E as E1 E2.
  - destruct r as [[| | |]| | |]; cbn in E2; try discriminate. exists l. left. reflexivity.
  - destruct l as [[| | |]| | |]; cbn in E1; try discriminate. exists r. right. reflexivity.
Qed.
Lemma implication_tmap_atom h F1 p V :
  implication (tmap g1 h) F1 (FAtomic (AAtom p (map var_to_gterm V))) ->
  exists B, F1 = tmap g1 B /\ implication (tmap g2 h) (tmap g2 B) (FAtomic (AAtom p (map var_to_gterm V))).
Proof.
  unfold implication. destruct h as [a|k|c l r|q vs k]; cbn; intros [E|E]; try discriminate;
    destruct c; try discriminate; injection E as E1 E2.
  - destruct r as [[| |p' ts|]| | |]; cbn in E2; try discriminate. injection E2 as Ep Ets.
    exists l. split; [auto|]. left. cbn. rewrite (g_var_list _ _ Ets), Ep. reflexivity.
  - destruct l as [[| |p' ts|]| | |]; cbn in E1; try discriminate. injection E1 as Ep Ets.
    exists r. split; [auto|]. right. cbn. rewrite (g_var_list _ _ Ets), Ep. reflexivity.
Qed.

Lemma constraint_transfer f : constraint_formula (tmap g1 f) -> constraint_formula (tmap g2 f).
Proof.
  intros [Hc [F1 Hi]]. split.
  - rewrite (tmap_free_variables g2 g2_vars). rewrite (tmap_free_variables g1 g1_vars) in Hc. exact Hc.
  - rewrite strip_tmap in *. destruct (implication_tmap_false _ _ Hi) as [B HB]. eauto.
Qed.
Lemma definition_transfer f F1 p V : definition_of (tmap g1 f) F1 p V ->
  exists B, F1 = tmap g1 B /\ definition_of (tmap g2 f) (tmap g2 B) p V.
Proof.
  intros [Hc [Hi Hn]]. rewrite strip_tmap in Hi. destruct (implication_tmap_atom _ _ _ _ Hi) as [B [E HB]].
  exists B. split; [exact E|]. split; [|split; [|exact Hn]].
  - rewrite (tmap_free_variables g2 g2_vars). rewrite (tmap_free_variables g1 g1_vars) in Hc. exact Hc.
  - rewrite strip_tmap. exact HB.
Qed.

Lemma cvalid_transfer T f : cvalid FI T (tmap g1 f) <-> cvalid FI T (tmap g2 f).
Proof. unfold cvalid. split; intros H e; [apply (tmap_csat FI g1 g2 g_ev)|apply (tmap_csat FI g1 g2 g_ev)]; apply H. Qed.

Theorem rule_formula_transfer r f : rule_formula FI r (tmap g1 f) -> rule_formula FI r (tmap g2 f).
Proof.
  unfold rule_formula. destruct (rhead r) as [a|a|].
  - intros [F1 [V [HD [Hl [Hg Hsem]]]]]. destruct (definition_transfer _ _ _ _ HD) as [B [-> HD2]].
    exists (tmap g2 B), V. split; [exact HD2|]. split; [exact Hl|]. split; [exact Hg|].
    intros T d. rewrite <- (Hsem T d).
    split; intros [e [Ed Hc]]; exists e; (split; [exact Ed|]); apply (tmap_csat FI g1 g2 g_ev); exact Hc.
  - intros [F1 [V [HD [Hl [Hg Hsem]]]]]. destruct (definition_transfer _ _ _ _ HD) as [B [-> HD2]].
    exists (tmap g2 B), V. split; [exact HD2|]. split; [exact Hl|]. split; [exact Hg|].
    intros T d. rewrite <- (Hsem T d).
    split; intros [e [Ed Hc]]; exists e; (split; [exact Ed|]); apply (tmap_csat FI g1 g2 g_ev); exact Hc.
  - intros [Hk Hsem]. split; [apply constraint_transfer; exact Hk|].
    intros T. rewrite <- cvalid_transfer. apply Hsem.
Qed.
End Transfer.

Lemma rpv_gterm_var FI m t v : rpv_gterm FI m t = var_to_gterm v -> rp_gterm m t = var_to_gterm v.
Proof.
  destruct t as [| | | |t|t]; try (intros H; exact H). destruct t as [s| |]; try (intros H; exact H).
  cbn. destruct (ph_lookup m s) as [so|]; [|intros H; exact H].
  destruct v as [n [| |]]; destruct (ph_value FI so s); cbn; discriminate.
Qed.

(* THE PLACEHOLDER BRIDGE: the theory that theory_translate completes represents the program in
   which the placeholders are read as FI reads them *)
Theorem rp_tau_star_represents (FI : fint) (m : placeholders) (P : program) (G : theory) :
  tau_star P = Some G -> represents FI (rp_theory m G) (ph_program FI m P).
Proof.
  intros Hts.
  assert (Hts' : tau_star (ph_program FI m P) = Some (map (rpv FI m) G)) by (rewrite rpv_tau_star, Hts; reflexivity).
  destruct (tau_star_represents FI _ _ Hts') as [HF Hp]. split.
  - unfold rp_theory. clear Hp Hts Hts'. remember (ph_program FI m P) as P' eqn:E. clear E.
    revert P' HF. induction G as [|f G IH]; intros P' HF; inversion HF as [|r f' P'' G' Hrf HF']; subst; constructor.
    + rewrite rp_formula_tmap. apply (rule_formula_transfer FI (rpv_gterm FI m) (rp_gterm m)).
      * apply rpv_gterm_vars.
      * apply rp_gterm_vars.
      * intros e t. symmetry. apply rp_rpv_ev.
      * apply rpv_gterm_var.
      * exact Hrf.
    + apply IH. exact HF'.
  - intros p. rewrite rp_theory_predicates. rewrite <- (Hp p).
    unfold rpv. rewrite (tmap_theory_predicates (rpv_gterm FI m)). tauto.
Qed.
