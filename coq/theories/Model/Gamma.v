(* Model of /repo/src/translating/classical_reduction/gamma.rs *)
From Coq Require Import List Ascii String.
From Anthem Require Import Syntax.Fol Model.Apply.
Import ListNotations.
Open Scope string_scope.

(* prepend_predicate: apply (post-order) of the atom-renaming closure *)
Definition prepend_step (prefix : string) (f : formula) : formula :=
  match f with
  | FAtomic (AAtom p ts) => FAtomic (AAtom (prefix ++ p) ts)
  | x => x
  end.
Definition prepend_predicate (f : formula) (prefix : string) : formula := apply (prepend_step prefix) f.
Definition here (f : formula) : formula := prepend_predicate f "h".
Definition there (f : formula) : formula := prepend_predicate f "t".

Fixpoint gamma (f : formula) : formula :=
  match f with
  | FAtomic a => here (FAtomic a)
  | FNot g => FNot (there g)
  | FBin CAnd l r => FBin CAnd (gamma l) (gamma r)
  | FBin COr l r => FBin COr (gamma l) (gamma r)
  | FBin c l r => FBin CAnd (FBin c (gamma l) (gamma r)) (FBin c (there l) (there r))
  | FQ q vs g => FQ q vs (gamma g)
  end.
Definition gamma_theory (t : theory) : theory := map gamma t.

(* EXTRACT: gamma gamma_theory here there *)
