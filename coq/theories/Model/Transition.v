(* Model of StrongEquivalenceTask::transition_axioms
   (/repo/src/verifying/task/strong_equivalence.rs): for every predicate p/n of left ∪ right the
   axiom  forall X1..Xn (hp(X1..Xn) -> tp(X1..Xn));  for n = 0 the unquantified  hp -> tp. *)
From Coq Require Import List Ascii String ZArith NArith Bool.
From Anthem Require Import Base.ISet Base.Fresh Syntax.Fol Syntax.Asp Model.Apply Model.Gamma.
Import ListNotations.
Open Scope string_scope.

(* (1..=arity).map(|i| GeneralTerm::Variable(format!("X{i}"))) *)
Fixpoint xvars_from (i : N) (n : nat) : list gterm :=
  match n with O => [] | S m => GVar ("X" ++ nat_str i) :: xvars_from (N.succ i) m end.
(* Predicate::to_formula *)
Definition pred_to_formula (p : pred) : formula := FAtomic (AAtom (psym p) (xvars_from 1 (parity p))).

Definition transition (p : pred) : formula :=
  let hp := here (pred_to_formula p) in
  let tp := there (pred_to_formula p) in
  quantify (FBin CImp hp tp) QForall (free_variables hp).

Definition transition_axioms (left right : program) : theory :=
  map transition (iset_extend pred_dec (program_preds left) (program_preds right)).

(* EXTRACT: transition_axioms transition *)
