(* The three simplification strategies of /repo/src/command_line/procedures.rs
   (Shallow = call the composed portfolio once, Recursive = Apply::apply, Fixpoint = apply_fixpoint),
   in two forms:
     [run_strategy]      over total rewrites (same definition and constructor names as
                         Model/Strategy.v of the intuitionistic half, so that the two merge trivially);
     [run_strategy_opt]  over rewrites that can panic (option), with the three outcomes visible:
                         panic / fuel exhausted (the Rust loop is unbounded) / result.
   Proofs/SimplClassicOk.v relates the two: a [RDone G] of the option form is the [Some G] of the
   total form over the [total] wrappers. *)
From Coq Require Import List.
From Anthem Require Import Syntax.Fol Model.Apply.
Import ListNotations.

Inductive strategy := Shallow | Recursive | Fixpoint_.

Definition run_strategy (fuel : nat) (portfolio : list (formula -> formula)) (s : strategy) (F : formula)
  : option formula :=
  match s with
  | Shallow => Some (compose portfolio F)
  | Recursive => Some (apply (compose portfolio) F)
  | Fixpoint_ => apply_fixpoint fuel (compose portfolio) F
  end.

(* Compose::compose over functions that can panic *)
Definition compose_opt (fs : list (formula -> option formula)) (x : formula) : option formula :=
  fold_left (fun acc f => match acc with Some y => f y | None => None end) fs (Some x).

(* Apply::apply (post-order) over a function that can panic *)
Fixpoint apply_opt (f : formula -> option formula) (x : formula) : option formula :=
  match x with
  | FAtomic a => f (FAtomic a)
  | FNot g => match apply_opt f g with Some g' => f (FNot g') | None => None end
  | FBin c l r =>
      match apply_opt f l with
      | Some l' => match apply_opt f r with Some r' => f (FBin c l' r') | None => None end
      | None => None
      end
  | FQ q vs g => match apply_opt f g with Some g' => f (FQ q vs g') | None => None end
  end.

Inductive run_result := RPanic | RNonterminating | RDone (F : formula).

Fixpoint apply_fixpoint_opt_from (fuel : nat) (f : formula -> option formula) (previous current : formula) : run_result :=
  if formula_eqb previous current then RDone current
  else match fuel with
       | O => RNonterminating
       | S n => match apply_opt f current with
                | Some next => apply_fixpoint_opt_from n f current next
                | None => RPanic
                end
       end.
Definition apply_fixpoint_opt (fuel : nat) (f : formula -> option formula) (x : formula) : run_result :=
  match apply_opt f x with
  | Some y => apply_fixpoint_opt_from fuel f x y
  | None => RPanic
  end.

Definition run_strategy_opt (fuel : nat) (portfolio : list (formula -> option formula)) (s : strategy) (F : formula)
  : run_result :=
  match s with
  | Shallow => match compose_opt portfolio F with Some G => RDone G | None => RPanic end
  | Recursive => match apply_opt (compose_opt portfolio) F with Some G => RDone G | None => RPanic end
  | Fixpoint_ => apply_fixpoint_opt fuel (compose_opt portfolio) F
  end.

(* EXTRACT: strategy run_strategy run_strategy_opt compose_opt apply_opt apply_fixpoint_opt run_result *)
