(* Model of /repo/src/simplifying/fol/sigma_0/classic.rs (all of it), as repaired by the two fix
   commits a8f183d (restrict_quantifier_domain: `!inner_vars.contains(ovar)`) and 8f6101e
   (simplify_transitive_equality: `c1 != c2 || c1.term == c1.guards[0].term`).

   Conventions.
   * A Rust `Comparison {term, guards}` is the pair [(term, guards)] (type [comparison]).
   * Every reachable panic is an explicit [None]:
       - `guards[0]` on an empty guard list (equality_comparison, transitive_equality);
       - (before fix F18: `ivar.name.chars().next().unwrap()` on an empty variable name in
         replacement_helper; the repaired code falls back to the variant "I" and cannot panic there);
       - the two `panic!`s of GeneralTerm::substitute (through Model/Subst.substitute);
       - `varnames[0]` and `panic!("You are using the replacement helper function wrong")`
         (both unreachable, kept for faithfulness).
     The functions named [<rule>_opt] return [option formula]; [<rule>] is the total wrapper
     (identity when the code would panic) and is what [CLASSIC] lists.  Proofs/SimplClassicOk.v
     shows that the [_opt] functions never return None on trees whose comparisons have at least
     one guard and whose variable names are non-empty (what the parser produces).
   * The `for ... { ...; if replaced { break; } }` loops are transcribed with [for_break], a fold
     whose body returns the new state and whether to break; the state is the pair
     (simplified_formula, replaced) of the Rust code, so "which match wins" is the code's.
   * `chars().next()` is the first byte here: variable names are ASCII (parser) and the harness
     only generates ASCII names. *)
From Coq Require Import List Ascii String ZArith NArith Bool.
From Anthem Require Import Base.ISet Base.Fresh Syntax.Fol Model.Apply Model.Subst.
Import ListNotations.
Open Scope string_scope.
Open Scope list_scope.

Definition comparison := (gterm * list guard)%type.
Definition cmp_formula (c : comparison) : formula := FAtomic (ACmp (fst c) (snd c)).
Definition cmp_eqb (a b : comparison) : bool := aformula_eqb (ACmp (fst a) (snd a)) (ACmp (fst b) (snd b)).
Definition rel_eqb (a b : rel) : bool := if rel_dec a b then true else false.

(* ------------------------------------------------------------------ remove_double_negation *)
Definition remove_double_negation (F : formula) : formula :=
  match F with
  | FNot (FNot inner) => inner
  | x => x
  end.

(* ------------------------------------------------------------ substitute_defined_variables *)
(* Comparison::individuals *)
Fixpoint individuals (l : gterm) (gs : list guard) : list (gterm * rel * gterm) :=
  match gs with
  | [] => []
  | g :: gs' => (l, grel g, gterm_of g) :: individuals (gterm_of g) gs'
  end.

Fixpoint find_map {A B} (f : A -> option B) (l : list A) : option B :=
  match l with
  | [] => None
  | a :: l' => match f a with Some b => Some b | None => find_map f l' end
  end.

(* the last filter_map of find_definition: pattern (x, term, sort) with its `if` guard *)
Definition def_candidate (variable : var) (xt : gterm * gterm) : option gterm :=
  let '(x, term) := xt in
  let guard_ok (name : string) :=
    String.eqb (vname variable) name && negb (memb var_dec variable (gterm_vars term)) in
  match x, term, vsort variable with
  | GVar name, _, SGeneral => if guard_ok name then Some term else None
  | GInt (IVar name), GInt _, SInteger => if guard_ok name then Some term else None
  | GSym (SVar name), GSym _, SSymbol => if guard_ok name then Some term else None
  | _, _, _ => None
  end.

Definition equal_pairs (c : comparison) : list (gterm * gterm) :=
  flat_map (fun i => match i with
                     | (lhs, REq, rhs) => [(lhs, rhs); (rhs, lhs)]
                     | _ => []
                     end) (individuals (fst c) (snd c)).

Fixpoint find_definition (variable : var) (F : formula) : option gterm :=
  match F with
  | FAtomic (ACmp t gs) => find_map (def_candidate variable) (equal_pairs (t, gs))
  | FBin CAnd lhs rhs =>
      match find_definition variable lhs with
      | Some d => Some d
      | None => find_definition variable rhs
      end
  | _ => None
  end.

(* for variable in variables.iter().rev() *)
Fixpoint sdv_loop (rev_variables : list var) (f : formula) : option formula :=
  match rev_variables with
  | [] => Some f
  | variable :: rest =>
      match find_definition variable f with
      | Some definition =>
          match substitute f variable definition with
          | Some f' => sdv_loop rest f'
          | None => None
          end
      | None => sdv_loop rest f
      end
  end.

Definition substitute_defined_variables_opt (F : formula) : option formula :=
  match F with
  | FQ QExists variables f =>
      match sdv_loop (rev variables) f with
      | Some f' => Some (quantify f' QExists variables)
      | None => None
      end
  | x => Some x
  end.

(* ------------------------------------------------------------------------- mod unstable *)
Definition subsort (v1 v2 : var) : bool :=
  match vsort v1 with
  | SGeneral => match vsort v2 with SGeneral => true | SInteger | SSymbol => false end
  | SInteger => match vsort v2 with SGeneral | SInteger => true | SSymbol => false end
  | SSymbol => match vsort v2 with SGeneral | SSymbol => true | SInteger => false end
  end.

(* for n in 1..arity_bound { candidate = variant ++ n; m = n; while taken or fresh contains
   candidate { m += 1; candidate = variant ++ m }; fresh.push(candidate) }
   Fuel |taken| + |fresh| always suffices (Base/Fresh.v); the fallback is never reached. *)
Fixpoint cfvn_loop (taken : list string) (variant : string) (ns : list N) (fresh : list string) : list string :=
  match ns with
  | [] => fresh
  | n :: ns' =>
      let bad c := memb string_dec c taken || memb string_dec c fresh in
      match find_fresh_by (List.length taken + List.length fresh) variant bad n with
      | Some (c, _) => cfvn_loop taken variant ns' (fresh ++ [c])
      | None => cfvn_loop taken variant ns' fresh
      end
  end.

Definition choose_fresh_variable_names (variables : list var) (variant : string) (arity : nat) : list string :=
  let taken_vars := map vname variables in
  if memb string_dec variant taken_vars then
    cfvn_loop taken_vars variant (map N.of_nat (seq 1 arity)) []
  else
    cfvn_loop taken_vars variant (map N.of_nat (seq 1 (arity - 1))) [variant].

Definition first_char (s : string) : option string :=
  match s with
  | EmptyString => None
  | String c _ => Some (String c EmptyString)
  end.

(* `name.trim_start_matches('_')` *)
Fixpoint trim_start_underscores (s : string) : string :=
  match s with
  | String "_"%char rest => trim_start_underscores rest
  | x => x
  end.

(* fix F18: `ivar.name.trim_start_matches('_').chars().next().map_or("I".to_string(), |c| c.to_string())`
   (before the repair: `ivar.name.chars().next().unwrap().to_string()`, which made the variant "_" for a
   variable named `_X` — the fresh variable `_$i` is refused by anthem's parser — and panicked on the
   empty name). *)
Definition fresh_variant (name : string) : string :=
  match first_char (trim_start_underscores name) with
  | Some v => v
  | None => "I"
  end.

(* returns (simplified_formula, replace); None = panic *)
Definition replacement_helper (ivar ovar : var) (comp : comparison) (F : formula) : option (formula * bool) :=
  let ivar_term := GInt (IVar (vname ivar)) in
  let candidate1 : comparison := (GVar (vname ovar), [mkguard REq ivar_term]) in
  let candidate2 : comparison := (ivar_term, [mkguard REq (GVar (vname ovar))]) in
  let replace := if cmp_eqb comp candidate1 then true else cmp_eqb comp candidate2 in
  if replace then
    let variant := fresh_variant (vname ivar) in
    match choose_fresh_variable_names (variables F) variant 1 with
    | [] => None
    | fvar :: _ =>
        match F with
        | FQ q vars f =>
            let vars' := filter (fun x => negb (var_eqb x ovar)) vars ++ [mkvar fvar SInteger] in
            match substitute f ovar (GInt (IVar fvar)) with
            | Some f' => Some (FQ q vars' f', true)
            | None => None
            end
        | _ => None
        end
    end
  else Some (F, false).

Definition first_guard_term (c : comparison) : option gterm :=
  match snd c with
  | [] => None
  | g :: _ => Some (gterm_of g)
  end.

(* the closure is_var of transitive_equality *)
Definition is_var (variables : list var) (t : gterm) : option var :=
  match gterm_to_var t with
  | Some v => if memb var_dec v variables then Some v else None
  | None => None
  end.

(* the four identical `if subsort(&v1,&v2) {..} else if subsort(&v2,&v1) {..}` blocks *)
Definition te_result (v1 v2 : var) (c1 c2 : comparison) : option (var * var * comparison) :=
  if subsort v1 v2 then Some (v1, v2, c2)
  else if subsort v2 v1 then Some (v2, v1, c1)
  else None.

(* outer None = panic (guards[0]); inner option = the Rust result: (keep_var, drop_var, drop_term) *)
Definition transitive_equality (c1 c2 : comparison) (variables : list var)
  : option (option (var * var * comparison)) :=
  match first_guard_term c1, first_guard_term c2 with
  | Some rhs1, Some rhs2 =>
      let lhs1 := fst c1 in
      let lhs2 := fst c2 in
      Some
        match is_var variables lhs1 with
        | Some v1 =>
            match is_var variables lhs2 with
            | Some v2 => if gterm_eqb rhs1 rhs2 then te_result v1 v2 c1 c2 else None
            | None =>
                match is_var variables rhs2 with
                | Some v2 => if gterm_eqb rhs1 lhs2 then te_result v1 v2 c1 c2 else None
                | None => None
                end
            end
        | None =>
            match is_var variables rhs1 with
            | Some v1 =>
                match is_var variables lhs2 with
                | Some v2 => if gterm_eqb lhs1 rhs2 then te_result v1 v2 c1 c2 else None
                | None =>
                    match is_var variables rhs2 with
                    | Some v2 => if gterm_eqb lhs1 lhs2 then te_result v1 v2 c1 c2 else None
                    | None => None
                    end
                end
            | None => None
            end
        end
  | _, _ => None
  end.

Fixpoint conjoin_invert (F : formula) : list formula :=
  match F with
  | FBin CAnd lhs rhs => conjoin_invert lhs ++ conjoin_invert rhs
  | _ => [F]
  end.

(* None = panic (guards[0] on an empty list) *)
Definition equality_comparison (c : comparison) : option bool :=
  match snd c with
  | [] => None
  | first :: _ => Some (Nat.eqb (List.length (snd c)) 1 && rel_eqb (grel first) REq)
  end.

(* loop state of restrict_quantifier_domain / simplify_transitive_equality:
   (simplified_formula, replaced) *)
Definition lstate := (formula * bool)%type.

(* for x in xs { body }: the body returns the new state and whether it executed `break` *)
Fixpoint for_break {A} (body : lstate -> A -> option (lstate * bool)) (s : lstate) (xs : list A) : option lstate :=
  match xs with
  | [] => Some s
  | x :: xs' =>
      match body s x with
      | None => None
      | Some (s', true) => Some s'
      | Some (s', false) => for_break body s' xs'
      end
  end.

(* `if cond { let r = replacement_helper(..); if r.1 { simplified = r.0; replaced = true; break; } }`
   followed by [tail_break]: whether a trailing `if replaced { break; }` is present in this loop *)
Definition rqd_ivar_body (cond : var -> var -> bool) (tail_break : bool) (ovar : var) (comp : comparison)
           (F : formula) (s : lstate) (ivar : var) : option (lstate * bool) :=
  if cond ovar ivar then
    match replacement_helper ivar ovar comp F with
    | None => None
    | Some (G, true) => Some ((G, true), true)
    | Some (_, false) => Some (s, tail_break && snd s)
    end
  else Some (s, tail_break && snd s).

(* exists-case: for ovar { for ivar {..}; if replaced { break; } }
   forall-case: for ovar { for ivar {..; if replaced { break; }} }          (no break after the inner loop) *)
Definition rqd_ovar_body (cond : var -> var -> bool) (is_exists : bool) (inner_vars : list var)
           (comp : comparison) (F : formula) (s : lstate) (ovar : var) : option (lstate * bool) :=
  match for_break (rqd_ivar_body cond (negb is_exists) ovar comp F) s inner_vars with
  | None => None
  | Some s' => Some (s', is_exists && snd s')
  end.

(* `if let Comparison(comp) = ict { if equality_comparison(comp) { for ovar ..  <A> } <B> } <C>`
   exists-case: <B> = `if replaced {break}`, nothing at <A>, <C>;
   forall-case: <A> = `if replaced {break}`, <C> = `if replaced {break}`.
   In both cases the body breaks exactly when [replaced] holds after the comparison was handled
   (in the exists-case a non-comparison conjunct never breaks: the flag is tested inside the if-let). *)
Definition rqd_comp_body (cond : var -> var -> bool) (is_exists : bool) (outer_vars inner_vars : list var)
           (F : formula) (s : lstate) (ict : formula) : option (lstate * bool) :=
  match ict with
  | FAtomic (ACmp t gs) =>
      let comp : comparison := (t, gs) in
      match equality_comparison comp with
      | None => None
      | Some true =>
          match for_break (rqd_ovar_body cond is_exists inner_vars comp F) s outer_vars with
          | None => None
          | Some s' => Some (s', snd s')
          end
      | Some false => Some (s, snd s)
      end
  | _ => Some (s, negb is_exists && snd s)
  end.

(* exists-case, outer loop over the conjunctive terms of the body *)
Definition rqd_ct_body (outer_vars : list var) (F : formula) (s : lstate) (ct : formula) : option (lstate * bool) :=
  match ct with
  | FQ QExists inner_vars inner_formula =>
      let cond (ovar ivar : var) :=
        sort_eqb (vsort ovar) SGeneral && sort_eqb (vsort ivar) SInteger
        && negb (memb var_dec ovar inner_vars) in
      match for_break (rqd_comp_body cond true outer_vars inner_vars F) s (conjoin_invert inner_formula) with
      | None => None
      | Some s' => Some (s', snd s')
      end
  | _ => Some (s, snd s)
  end.

Definition restrict_quantifier_domain_opt (F : formula) : option formula :=
  match F with
  | FQ QExists outer_vars (FBin CAnd lhs rhs) =>
      let conjunctive_terms := conjoin_invert lhs ++ conjoin_invert rhs in
      option_map fst (for_break (rqd_ct_body outer_vars F) (F, false) conjunctive_terms)
  | FQ QForall outer_vars (FBin CImp lhs rhs) =>
      match lhs with
      | FQ QExists inner_vars inner_formula =>
          let cond (ovar ivar : var) :=
            sort_eqb (vsort ovar) SGeneral && sort_eqb (vsort ivar) SInteger
            && negb (memb var_dec ovar inner_vars)
            && negb (memb var_dec ovar (free_variables rhs)) in
          option_map fst (for_break (rqd_comp_body cond false outer_vars inner_vars F) (F, false)
                                    (conjoin_invert inner_formula))
      | _ => Some F
      end
  | _ => Some F
  end.

(* ------------------------------------------------------------------ extend_quantifier_scope *)
Definition collision (variables : list var) (other : formula) : bool :=
  existsb (fun v => memb var_dec v (free_variables other)) variables.

Definition extend_quantifier_scope (F : formula) : formula :=
  match F with
  | FBin connective (FQ quantifier variables f) rhs =>
      match connective with
      | CAnd | COr =>
          if collision variables rhs then F
          else FQ quantifier variables (FBin connective f rhs)
      | _ => F
      end
  | FBin connective lhs (FQ quantifier variables f) =>
      match connective with
      | CAnd | COr =>
          if collision variables lhs then F
          else FQ quantifier variables (FBin connective lhs f)
      | _ => F
      end
  | x => x
  end.

(* -------------------------------------------------------------- simplify_transitive_equality *)
Fixpoint enumerate_from {A} (i : nat) (l : list A) : list (nat * A) :=
  match l with
  | [] => []
  | x :: l' => (i, x) :: enumerate_from (S i) l'
  end.
Definition enumerate {A} (l : list A) : list (nat * A) := enumerate_from 0 l.

Definition ste_inner_body (variables : list var) (conjunctive_terms : list formula) (i : nat) (c1 : comparison)
           (s : lstate) (jct2 : nat * formula) : option (lstate * bool) :=
  let '(j, ct2) := jct2 in
  match ct2 with
  | FAtomic (ACmp t2 gs2) =>
      let c2 : comparison := (t2, gs2) in
      match equality_comparison c2 with
      | None => None
      | Some e2 =>
          let trivial1 := match snd c1 with g :: _ => gterm_eqb (fst c1) (gterm_of g) | [] => false end in
          if e2 && negb (Nat.eqb i j) && (negb (cmp_eqb c1 c2) || trivial1) then
            match transitive_equality c1 c2 variables with
            | None => None
            | Some (Some (keep_var, drop_var, drop_term)) =>
                let ct_copy := filter (fun t => negb (formula_eqb t (cmp_formula drop_term))) conjunctive_terms in
                let keep := var_to_gterm keep_var in
                match substitute (conjoin ct_copy) drop_var keep with
                | None => None
                | Some inner => Some ((FQ QExists variables inner, true), true)
                end
            | Some None => Some (s, snd s)
            end
          else Some (s, snd s)
      end
  | _ => Some (s, snd s)
  end.

Definition ste_outer_body (variables : list var) (conjunctive_terms : list formula)
           (s : lstate) (ict1 : nat * formula) : option (lstate * bool) :=
  let '(i, ct1) := ict1 in
  match ct1 with
  | FAtomic (ACmp t1 gs1) =>
      let c1 : comparison := (t1, gs1) in
      match equality_comparison c1 with
      | None => None
      | Some true =>
          match for_break (ste_inner_body variables conjunctive_terms i c1) s (enumerate conjunctive_terms) with
          | None => None
          | Some s' => Some (s', snd s')
          end
      | Some false => Some (s, snd s)
      end
  | _ => Some (s, snd s)
  end.

Definition simplify_transitive_equality_opt (F : formula) : option formula :=
  match F with
  | FQ QExists variables f =>
      match f with
      | FBin CAnd _ _ =>
          let conjunctive_terms := conjoin_invert f in
          option_map fst (for_break (ste_outer_body variables conjunctive_terms) (F, false)
                                    (enumerate conjunctive_terms))
      | _ => Some F
      end
  | x => Some x
  end.

(* ------------------------------------------------------------------------------ portfolio *)
(* total wrapper: the identity where the code would panic *)
Definition total (r : formula -> option formula) (F : formula) : formula :=
  match r F with Some G => G | None => F end.

Definition substitute_defined_variables : formula -> formula := total substitute_defined_variables_opt.
Definition restrict_quantifier_domain : formula -> formula := total restrict_quantifier_domain_opt.
Definition simplify_transitive_equality : formula -> formula := total simplify_transitive_equality_opt.

Definition CLASSIC : list (formula -> formula) :=
  [ remove_double_negation;
    substitute_defined_variables;
    restrict_quantifier_domain;
    extend_quantifier_scope;
    simplify_transitive_equality ].

(* the same list with panics visible *)
Definition CLASSIC_opt : list (formula -> option formula) :=
  [ (fun F => Some (remove_double_negation F));
    substitute_defined_variables_opt;
    restrict_quantifier_domain_opt;
    (fun F => Some (extend_quantifier_scope F));
    simplify_transitive_equality_opt ].

(* EXTRACT: remove_double_negation find_definition substitute_defined_variables_opt subsort choose_fresh_variable_names replacement_helper transitive_equality conjoin_invert equality_comparison restrict_quantifier_domain_opt extend_quantifier_scope simplify_transitive_equality_opt substitute_defined_variables restrict_quantifier_domain simplify_transitive_equality CLASSIC CLASSIC_opt *)
