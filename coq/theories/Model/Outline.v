(* Model of /repo/src/verifying/outline/mod.rs (CheckInternal::definition / inductive_lemma,
   GeneralLemma::try_from, ProofOutline::from_specification) together with the helpers of
   syntax_tree/fol/sigma_0.rs they use (replace_placeholders, join_nested_quantifiers via
   universal_closure_with_quantifier_joining, into_problem_formula).
   Errors are enum values (variant names of ProofOutlineError), checks in source order. *)
From Coq Require Import List Ascii String ZArith NArith Bool.
From Anthem Require Import Base.ISet Base.Fresh Syntax.Fol Model.Subst Model.Problem.
Import ListNotations.
Open Scope list_scope.
Open Scope string_scope.

(* Result<T, E> plus an explicit panic value *)
Inductive result (A E : Type) := Ok (a : A) | Err (e : E) | Panic.
Arguments Ok {A E} a.
Arguments Err {A E} e.
Arguments Panic {A E}.

(* ---------- replace_placeholders (mapping: IndexMap<String, FunctionConstant>) ---------- *)
Definition placeholders := list (string * sort).
Fixpoint ph_lookup (m : placeholders) (s : string) : option sort :=
  match m with
  | [] => None
  | (n, so) :: m' => if String.eqb n s then Some so else ph_lookup m' s
  end.
(* IndexMap::insert: replace the value in place when the key exists, append otherwise *)
Fixpoint ph_insert (m : placeholders) (n : string) (so : sort) : placeholders :=
  match m with
  | [] => [(n, so)]
  | (k, v) :: m' => if String.eqb k n then (k, so) :: m' else (k, v) :: ph_insert m' n so
  end.
Definition ph_of_fconsts (l : list fconst) : placeholders :=
  fold_left (fun m c => ph_insert m (fcname c) (fcsort c)) l [].

Definition rp_gterm (m : placeholders) (t : gterm) : gterm :=
  match t with
  | GSym (SSym s) =>
      match ph_lookup m s with
      | Some SGeneral => GFun s
      | Some SInteger => GInt (IFun s)
      | Some SSymbol => GSym (SFun s)
      | None => t
      end
  | _ => t
  end.
Definition rp_aformula (m : placeholders) (a : aformula) : aformula :=
  match a with
  | AAtom p ts => AAtom p (map (rp_gterm m) ts)
  | ACmp t gs => ACmp (rp_gterm m t) (map (fun g => mkguard (grel g) (rp_gterm m (gterm_of g))) gs)
  | _ => a
  end.
Fixpoint rp_formula (m : placeholders) (f : formula) : formula :=
  match f with
  | FAtomic a => FAtomic (rp_aformula m a)
  | FNot g => FNot (rp_formula m g)
  | FBin c l r => FBin c (rp_formula m l) (rp_formula m r)
  | FQ q vs g => FQ q vs (rp_formula m g)
  end.
Definition rp_annot (m : placeholders) (a : aformula_annot) : aformula_annot :=
  mkannot (an_role a) (an_dir a) (an_name a) (rp_formula m (an_formula a)).
Definition rp_theory (m : placeholders) (t : theory) : theory := map (rp_formula m) t.
Definition rp_spec (m : placeholders) (s : specification) : specification := map (rp_annot m) s.

(* ---------- join_nested_quantifiers (simplifying/fol/sigma_0/intuitionistic.rs) ---------- *)
(* derived Ord of Variable: name (byte-lexicographic), then sort General < Integer < Symbol *)
Definition sort_rank (s : sort) : nat := match s with SGeneral => 0 | SInteger => 1 | SSymbol => 2 end.
Definition var_cmp (a b : var) : comparison :=
  match String.compare (vname a) (vname b) with
  | Eq => Nat.compare (sort_rank (vsort a)) (sort_rank (vsort b))
  | c => c
  end.
Definition var_leb (a b : var) : bool := match var_cmp a b with Gt => false | _ => true end.
Fixpoint var_insert (v : var) (l : list var) : list var :=
  match l with
  | [] => [v]
  | w :: l' => if var_leb v w then v :: l else w :: var_insert v l'
  end.
Definition var_sort (l : list var) : list var := fold_right var_insert [] l.
(* Vec::dedup: remove consecutive duplicates *)
Fixpoint var_dedup (l : list var) : list var :=
  match l with
  | [] => []
  | v :: l' =>
      match l' with
      | w :: _ => if var_eqb v w then var_dedup l' else v :: var_dedup l'
      | [] => [v]
      end
  end.
Definition quant_eqb (a b : quant) : bool :=
  match a, b with QForall, QForall | QExists, QExists => true | _, _ => false end.
Definition join_nested_quantifiers (f : formula) : formula :=
  match f with
  | FQ q vs (FQ q' vs' g) =>
      if quant_eqb q q' then quantify g q (var_dedup (var_sort (vs ++ vs'))) else f
  | x => x
  end.
Definition universal_closure_with_quantifier_joining (f : formula) : formula :=
  join_nested_quantifiers (universal_closure f).

(* AnnotatedFormula::into_problem_formula *)
Definition into_problem_formula (a : aformula_annot) (r : prole) : pformula :=
  mkpf (an_name a) r (an_formula a).

(* ---------- errors and warnings ---------- *)
(* the variants of ProofOutlineError / ProofOutlineWarning WITH the values they carry (audit B16:
   the payload is part of the compared output).  The formula of a definition / inductive-lemma error
   is `self.clone()` resp. `original`: the formula the check was called on, i.e. AFTER the
   placeholder replacement(s) and, for lemmas, the universal closure with quantifier joining that
   from_specification applies before the call. *)
Inductive po_error :=
| AnnotatedFormulaWithInvalidRole (a : aformula_annot)
| DuplicatedVariables (f : formula)
| TakenPredicate (p : pred)
| FreeRhsVariables (f : formula)
| UndefinedRhsPredicate (definition : formula) (predicate : pred)
| DefinedPredicateVariableListMismatch (f : formula)
| TermsInDefinition (term : gterm) (f : formula)
| MalformedInductiveLemma (f : formula)
| MalformedInductiveAntecedent (f : formula)
| MalformedInductiveVariables (f : formula)
| MalformedInductiveTerm (f : formula)
| MalformedDefinition (f : formula)
| InvalidRoleForGeneralLemma (a : aformula_annot).
Inductive po_warning := ExcessQuantifiedVariables (f : formula).

(* set comparisons on IndexSets (IndexSet == is order-insensitive) *)
Definition subsetb {A} (dec : forall x y : A, {x = y} + {x <> y}) (a b : list A) : bool :=
  forallb (fun x => memb dec x b) a.
Definition set_eqb {A} (dec : forall x y : A, {x = y} + {x <> y}) (a b : list A) : bool :=
  subsetb dec a b && subsetb dec b a.

(* the loop `for t in a.terms.iter()`: inl = the set of the terms read as variables, inr = the first
   term that is not a variable (the `Err(e)` of Variable::try_from, which returns the term itself) *)
Fixpoint terms_as_vars (ts : list gterm) (acc : list var) : list var + gterm :=
  match ts with
  | [] => inl acc
  | t :: ts' =>
      match gterm_to_var t with
      | Some v => terms_as_vars ts' (iset_insert var_dec acc v)
      | None => inr t
      end
  end.

(* CheckInternal::definition *)
Definition definition (f : formula) (taken : list pred) : result (pred * list po_warning) po_error :=
  match f with
  | FQ QForall variables (FBin CIff lhs rhs) =>
      match lhs with
      | FAtomic (AAtom p ts) =>
          let uniques := iset_of_list var_dec variables in
          if Nat.ltb (List.length uniques) (List.length variables) then Err (DuplicatedVariables f)
          else match terms_as_vars ts [] with
          | inr e => Err (TermsInDefinition e f)
          | inl tv =>
              if negb (set_eqb var_dec uniques tv) then Err (DefinedPredicateVariableListMismatch f)
              else
                let predicate := mkpred p (List.length ts) in
                if memb pred_dec predicate taken then Err (TakenPredicate predicate)
                else if negb (subsetb var_dec (free_variables rhs) uniques) then Err (FreeRhsVariables f)
                else
                  let warnings := if negb (subsetb var_dec uniques (free_variables rhs))
                                  then [ExcessQuantifiedVariables f] else [] in
                  (* rhs.predicates().difference(taken_predicates).next() *)
                  match find (fun q => negb (memb pred_dec q taken)) (predicates rhs) with
                  | Some q => Err (UndefinedRhsPredicate f q)
                  | None => Ok (predicate, warnings)
                  end
          end
      | _ => Err (MalformedDefinition f)
      end
  | _ => Err (MalformedDefinition f)
  end.

(* CheckInternal::inductive_lemma; Panic = a panic of Formula::substitute (unreachable: the
   substituted terms are integer terms for an integer variable) *)
Definition inductive_lemma (f : formula) : result (formula * formula) po_error :=
  match f with
  | FQ QForall variables (FBin CImp lhs rhs) =>
      match lhs with
      | FAtomic (ACmp term guards) =>
          match guards with
          | [guard] =>
              if negb (set_eqb var_dec (iset_of_list var_dec variables) (free_variables rhs))
              then Err (MalformedInductiveVariables f)
              else match term with
              | GInt (IVar v) =>
                  let iv := mkvar v SInteger in
                  match grel guard, gterm_of guard with
                  | RGe, GInt (INum n) =>
                      match substitute rhs iv (GInt (INum n)),
                            substitute rhs iv (GInt (IBin BAdd (IVar v) (INum 1))) with
                      | Some b, Some s =>
                          Ok (universal_closure b,
                              universal_closure (FBin CImp (FBin CAnd lhs rhs) s))
                      | _, _ => Panic
                      end
                  | _, _ => Err (MalformedInductiveLemma f)
                  end
              | _ => Err (MalformedInductiveTerm f)
              end
          | _ => Err (MalformedInductiveAntecedent f)
          end
      | _ => Err (MalformedInductiveLemma f)
      end
  | _ => Err (MalformedInductiveLemma f)
  end.

(* GeneralLemma *)
Record general_lemma := mklemma { gl_conjectures : list pformula; gl_consequences : list pformula }.

(* TryFrom<AnnotatedFormula> for GeneralLemma *)
Definition general_lemma_try_from (a : aformula_annot) : result general_lemma po_error :=
  match an_role a with
  | RLemma => Ok (mklemma [into_problem_formula a PConjecture] [into_problem_formula a PAxiom])
  | RInductiveLemma =>
      match inductive_lemma (an_formula a) with
      | Ok (base, step) =>
          Ok (mklemma
                [mkpf (an_name a ++ "base_case") PConjecture base;
                 mkpf (an_name a ++ "inductive_step") PConjecture step]
                [into_problem_formula a PAxiom])
      | Err e => Err e
      | Panic => Panic
      end
  | RAssumption | RSpec | RDefinition => Err (InvalidRoleForGeneralLemma a)
  end.

Record proof_outline := mkoutline {
  forward_lemmas : list general_lemma; backward_lemmas : list general_lemma;
  forward_definitions : list aformula_annot; backward_definitions : list aformula_annot }.
Definition empty_outline := mkoutline [] [] [] [].

(* ProofOutline::from_specification: one loop over the entries; [taken] grows by each accepted
   definition's predicate and by the predicates of each accepted lemma / inductive lemma
   (`taken_predicates.extend(anf.formula.predicates())`, the repair of finding F12), so a later
   definition can neither define a predicate that an earlier entry mentions nor be refused for a body
   over a predicate that an earlier lemma introduced *)
Fixpoint from_specification_loop (l : specification) (taken : list pred) (m : placeholders)
         (o : proof_outline) (ws : list po_warning) : result (proof_outline * list po_warning) po_error :=
  match l with
  | [] => Ok (o, ws)
  | anf0 :: l' =>
      let anf := rp_annot m anf0 in
      match an_role anf with
      | RLemma | RInductiveLemma =>
          let closed := rp_annot m (mkannot (an_role anf) (an_dir anf) (an_name anf)
                                      (universal_closure_with_quantifier_joining (an_formula anf))) in
          match general_lemma_try_from closed with
          | Err e => Err e
          | Panic => Panic
          | Ok g =>
              let o' := match an_dir anf with
                        | DUniversal => mkoutline (forward_lemmas o ++ [g]) (backward_lemmas o ++ [g])
                                                  (forward_definitions o) (backward_definitions o)
                        | DForward => mkoutline (forward_lemmas o ++ [g]) (backward_lemmas o)
                                                (forward_definitions o) (backward_definitions o)
                        | DBackward => mkoutline (forward_lemmas o) (backward_lemmas o ++ [g])
                                                 (forward_definitions o) (backward_definitions o)
                        end in
              from_specification_loop l' (iset_extend pred_dec taken (predicates (an_formula anf))) m o' ws
          end
      | RDefinition =>
          match definition (an_formula anf) taken with
          | Err e => Err e
          | Panic => Panic
          | Ok (p, w) =>
              let o' := match an_dir anf with
                        | DForward => mkoutline (forward_lemmas o) (backward_lemmas o)
                                                (forward_definitions o ++ [anf]) (backward_definitions o)
                        | DBackward => mkoutline (forward_lemmas o) (backward_lemmas o)
                                                 (forward_definitions o) (backward_definitions o ++ [anf])
                        | DUniversal => mkoutline (forward_lemmas o) (backward_lemmas o)
                                                  (forward_definitions o ++ [anf]) (backward_definitions o ++ [anf])
                        end in
              from_specification_loop l' (iset_insert pred_dec taken p) m o' (ws ++ w)
          end
      | RAssumption | RSpec => Err (AnnotatedFormulaWithInvalidRole anf)
      end
  end.
Definition from_specification (s : specification) (taken : list pred) (m : placeholders)
  : result (proof_outline * list po_warning) po_error :=
  from_specification_loop s taken m empty_outline [].

(* ---------- the outline part of AssembledExternalEquivalenceTask::decompose ---------- *)
(* one problem:  with_name(n).add_annotated_formulas(axioms).add_annotated_formulas([c])
                 .rename_conflicting_symbols().create_unique_formula_names() *)
Definition outline_problem (name : string) (axioms : list pformula) (c : pformula) : problem :=
  create_unique_formula_names
    (rename_conflicting_symbols
       (add_annotated_formulas (add_annotated_formulas (with_name name) axioms) [c])).

Fixpoint lemma_problems (prefix : string) (i : N) (axioms : list pformula) (j : N) (cs : list pformula) : list problem :=
  match cs with
  | [] => []
  | c :: cs' =>
      outline_problem (prefix ++ "_outline_" ++ nat_str i ++ "_" ++ nat_str j) axioms c
        :: lemma_problems prefix i axioms (N.succ j) cs'
  end.
(* the loop over the lemmas: the axioms grow by a lemma's consequences AFTER its conjecture
   problems have been pushed *)
Fixpoint outline_problems (prefix : string) (i : N) (axioms : list pformula) (ls : list general_lemma) : list problem :=
  match ls with
  | [] => []
  | g :: ls' =>
      lemma_problems prefix i axioms 0 (gl_conjectures g)
        ++ outline_problems prefix (N.succ i) (axioms ++ gl_consequences g) ls'
  end.

(* EXTRACT: result definition inductive_lemma general_lemma_try_from from_specification proof_outline
   outline_problems rp_formula rp_annot rp_theory rp_spec ph_of_fconsts join_nested_quantifiers
   universal_closure_with_quantifier_joining into_problem_formula *)
