(* Executable mirror of the reference semantics Sem/AspRef.v over a FINITE WINDOW, used only by the
   semantic search sem_c03 (never a proof obligation).  Terms get finite lists of values; program
   variables range over the window's general values; intervals are enumerated (capped).
   Other clusters have similar evaluators; duplicates are reconciled at merge. *)
From Coq Require Import List Ascii String ZArith Bool.
From Anthem Require Import Syntax.Fol Syntax.Asp Sem.Domain Model.Eval.
Import ListNotations.
Open Scope string_scope.
Open Scope list_scope.

Definition asg := list (string * gval).
Fixpoint asg_lookup (s : asg) (x : string) : gval :=
  match s with
  | [] => VNum 0
  | (y, d) :: s' => if String.eqb x y then d else asg_lookup s' x
  end.

Definition pval_e (p : pterm) : gval :=
  match p with PInf => VInf | PNum z => VNum z | PSym s => VSym s | PSup => VSup end.
Definition nums (l : list gval) : list Z :=
  flat_map (fun d => match d with VNum z => [z] | _ => [] end) l.
Definition zrange (a b : Z) : list Z :=
  if (b <? a)%Z then [] else map (fun k => (a + Z.of_nat k)%Z) (seq 0 (Nat.min 64 (Z.to_nat (b - a + 1)))).

(* all values of a term under an assignment *)
Fixpoint vals_list (sg : asg) (t : term) : list gval :=
  match t with
  | TPre p => [pval_e p]
  | TVar x => [asg_lookup sg x]
  | TUn AUNeg t1 => map (fun n => VNum (0 - n)) (nums (vals_list sg t1))
  | TBin o l r =>
      let ls := nums (vals_list sg l) in
      let rs := nums (vals_list sg r) in
      flat_map (fun n1 => flat_map (fun n2 =>
        match o with
        | AAdd => [VNum (n1 + n2)]
        | ASub => [VNum (n1 - n2)]
        | AMul => [VNum (n1 * n2)]
        | ADiv => if (0 <? n2)%Z then [VNum (n1 / n2)] else []
        | AMod => if (0 <? n2)%Z then [VNum (n1 mod n2)] else []
        | AInterval => map VNum (zrange n1 n2)
        end) rs) ls
  end.

(* all tuples of values of a list of terms *)
Fixpoint tuple_vals_list (sg : asg) (ts : list term) : list (list gval) :=
  match ts with
  | [] => [[]]
  | t :: ts' => flat_map (fun v => map (fun tl => v :: tl) (tuple_vals_list sg ts')) (vals_list sg t)
  end.

(* body items at world W (positive atoms), negation read at T *)
Definition bformula_eval (W T : fpint) (sg : asg) (b : bformula) : bool :=
  match b with
  | BLit (mklit SNone a) => existsb (fun vs => fholds W (apred a) vs) (tuple_vals_list sg (aterms a))
  | BLit (mklit SNeg a) => existsb (fun vs => negb (fholds T (apred a) vs)) (tuple_vals_list sg (aterms a))
  | BLit (mklit SDNeg a) => existsb (fun vs => fholds T (apred a) vs) (tuple_vals_list sg (aterms a))
  | BCmp c => existsb (fun v1 => existsb (fun v2 => rel_sat (arel_to_rel (crel c)) v1 v2)
                                         (vals_list sg (crhs c))) (vals_list sg (clhs c))
  end.
Definition body_eval (W T : fpint) (sg : asg) (b : list bformula) : bool :=
  forallb (bformula_eval W T sg) b.
Definition head_eval (W T : fpint) (sg : asg) (h : head) : bool :=
  match h with
  | HBasic a => forallb (fun vs => fholds W (apred a) vs) (tuple_vals_list sg (aterms a))
  | HChoice a => forallb (fun vs => fholds W (apred a) vs || negb (fholds T (apred a) vs)) (tuple_vals_list sg (aterms a))
  | HFalsity => false
  end.

(* all assignments of the variables over the candidate values *)
Fixpoint assignments (vars : list string) (cands : list gval) : list asg :=
  match vars with
  | [] => [[]]
  | x :: vars' => flat_map (fun d => map (fun s => (x, d) :: s) (assignments vars' cands)) cands
  end.

(* HT satisfaction of a rule: every ground instance over the window, in both worlds *)
Definition ref_rule_eval (cands : list gval) (H T : fpint) (r : rule) : bool :=
  forallb (fun sg =>
             implb (body_eval H T sg (rbody r)) (head_eval H T sg (rhead r))
             && implb (body_eval T T sg (rbody r)) (head_eval T T sg (rhead r)))
          (assignments (rule_vars r) cands).
Definition ref_eval (cands : list gval) (H T : fpint) (P : program) : bool :=
  forallb (ref_rule_eval cands H T) P.

(* does any arithmetic occur (then the finite window may not be closed under the term's values) *)
Fixpoint term_has_arith (t : term) : bool :=
  match t with TPre _ | TVar _ => false | _ => true end.
Definition rule_has_arith (r : rule) : bool := existsb term_has_arith (rule_terms r).
Definition program_has_arith (P : program) : bool := existsb rule_has_arith P.

(* EXTRACT: ref_rule_eval ref_eval program_has_arith vals_list *)
