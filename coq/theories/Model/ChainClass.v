(* C12: the executable boundary of the class of finding F8c.

   `Problem::rename_conflicting_symbols` prints a symbolic constant s that equals a 0-ary predicate
   of the problem as `s__s` ([printed_symbol]; p is the problem BEFORE the renaming), and
   `impl Display for Problem` sorts the PRINTED names to build the symbol_order chain.  The chain is
   true for the constants the printed names stand for exactly when the renaming is strictly
   monotone for the byte order on the constants of the problem ([rename_monotoneb]; strict
   monotonicity includes injectivity: two constants are never merged).  It fails to be monotone
   precisely when some other constant d of the problem has  c < d <= c__s  for a renamed constant c
   (`a1`, `aB`, `a_`, `a__r` next to `a`; `d = a__s` is the merge) - the recorded class F8c.
   Proofs: Proofs/ChainMonotone.v.  Extracted: the oracle `sem_chain_orig` of the driver excuses a
   chain axiom that is false for the original constants only inside this class. *)
From Coq Require Import List Ascii String Bool.
From Anthem Require Import Base.ISet Syntax.Fol Model.Problem.
Import ListNotations.
Open Scope string_scope.

(* the name under which the constant s of problem p is printed *)
Definition printed_symbol (p : problem) (s : string) : string :=
  if memb pred_dec (mkpred s 0) (problem_predicates p) then s ++ "__s" else s.

(* s1 < s2  ->  printed s1 < printed s2, for all constants s1, s2 of p *)
Definition rename_monotoneb (p : problem) : bool :=
  forallb (fun s1 =>
    forallb (fun s2 => implb (String.ltb s1 s2) (String.ltb (printed_symbol p s1) (printed_symbol p s2)))
            (problem_symbols p))
          (problem_symbols p).

(* EXTRACT: printed_symbol rename_monotoneb *)
