(* Model of /repo/src/translating/formula_representation/natural.rs (everything outside `mod tests`).
   One Gallina definition per Rust function, same name, same argument order.

   Result type: the Rust functions return Option (None = "not regular", a refusal).  The code also
   contains `unwrap()`, `expect(..)` and `unreachable!(..)`; each of them is an explicit [NPanic]
   here, distinct from the refusal [NRefused].  Proofs/NaturalOk.v shows that [NPanic] is never
   produced ([natural_rule_no_panic]). *)
From Coq Require Import List Ascii String ZArith NArith Bool.
From Anthem Require Import Base.ISet Base.Fresh Syntax.Fol Syntax.Asp.
Import ListNotations.
Open Scope string_scope.
Open Scope list_scope.

Inductive nresult (A : Type) : Type :=
| NOk (a : A)        (* Some(..) *)
| NRefused           (* None: the rule is not regular *)
| NPanic.            (* unwrap / expect / unreachable! *)
Arguments NOk {A} a.
Arguments NRefused {A}.
Arguments NPanic {A}.

Definition nbind {A B} (x : nresult A) (f : A -> nresult B) : nresult B :=
  match x with NOk a => f a | NRefused => NRefused | NPanic => NPanic end.
(* `opt?` inside a function returning Option *)
Definition of_option {A} (x : option A) : nresult A :=
  match x with Some a => NOk a | None => NRefused end.
(* `opt.unwrap()` / `opt.expect(..)` *)
Definition unwrap {A} (x : option A) : nresult A :=
  match x with Some a => NOk a | None => NPanic end.

Fixpoint contains_symbol_or_infimum_or_supremum (t : term) : bool :=
  match t with
  | TVar _ => false
  | TPre (PSym _) => true
  | TPre PInf => true
  | TPre PSup => true
  | TPre (PNum _) => false
  | TUn AUNeg arg => contains_symbol_or_infimum_or_supremum arg
  | TBin _ lhs rhs =>
      contains_symbol_or_infimum_or_supremum lhs || contains_symbol_or_infimum_or_supremum rhs
  end.

Fixpoint is_term_regular_of_first_kind (t : term) : bool :=
  match t with
  | TVar _ => true
  | TPre _ => true
  | TUn AUNeg arg =>
      is_term_regular_of_first_kind arg && negb (contains_symbol_or_infimum_or_supremum arg)
  | TBin (AAdd | ASub | AMul) lhs rhs =>
      is_term_regular_of_first_kind lhs && negb (contains_symbol_or_infimum_or_supremum lhs)
      && is_term_regular_of_first_kind rhs && negb (contains_symbol_or_infimum_or_supremum rhs)
  | _ => false
  end.

Definition is_term_regular_of_second_kind (t : term) : bool :=
  match t with
  | TBin AInterval lhs rhs =>
      is_term_regular_of_first_kind lhs && negb (contains_symbol_or_infimum_or_supremum lhs)
      && is_term_regular_of_first_kind rhs && negb (contains_symbol_or_infimum_or_supremum rhs)
  | _ => false
  end.

(* translates an (integer) term of the first kind; None for anything else *)
Fixpoint p2f_int_term (t : term) : option iterm :=
  match t with
  | TVar v => Some (IVar v)
  | TPre (PNum i) => Some (INum i)
  | TUn AUNeg arg =>
      match p2f_int_term arg with Some a => Some (IUn UNeg a) | None => None end
  | TBin op lhs rhs =>
      match (match op with AAdd => Some BAdd | ASub => Some BSub | AMul => Some BMul | _ => None end) with
      | None => None
      | Some op' =>
          match p2f_int_term lhs with
          | None => None
          | Some l => match p2f_int_term rhs with None => None | Some r => Some (IBin op' l r) end
          end
      end
  | _ => None
  end.

Definition p2f (t : term) (int_vars : list string) : option gterm :=
  if negb (is_term_regular_of_first_kind t) then None
  else
    match t with
    | TVar v => if memb string_dec v int_vars then Some (GInt (IVar v)) else Some (GVar v)
    | TPre p =>
        Some (match p with
              | PInf => GInf
              | PNum i => GInt (INum i)
              | PSym s => GSym (SSym s)
              | PSup => GSup
              end)
    | _ => option_map GInt (p2f_int_term t)
    end.

(* all variables occurring in the scope of an operation in a top-level term of the rule, plus the
   variables of the left-hand side of every `t = t1..t2` body comparison *)
Definition int_variables (r : rule) : list string :=
  let vars :=
    fold_left (fun vars term =>
                 match term with
                 | TUn _ arg => iset_extend string_dec vars (term_vars arg)
                 | TBin _ lhs rhs =>
                     iset_extend string_dec (iset_extend string_dec vars (term_vars lhs)) (term_vars rhs)
                 | _ => vars
                 end) (rule_terms r) [] in
  fold_left (fun vars f =>
               match f with
               | BCmp c =>
                   if (match crel c with AEq => true | _ => false end) && is_term_regular_of_second_kind (crhs c)
                   then iset_extend string_dec vars (term_vars (clhs c))
                   else vars
               | BLit _ => vars
               end) (rbody r) vars.

Definition natural_comparison (c : comparison) (int_vars : list string) : option formula :=
  let f_relation := arel_to_rel (crel c) in
  match p2f (clhs c) int_vars with
  | None => None
  | Some lhs =>
      if (match f_relation with REq => true | _ => false end) && is_term_regular_of_second_kind (crhs c) then
        match crhs c with
        | TBin _ t2 t3 =>
            match p2f t2 int_vars with
            | None => None
            | Some t2' =>
                match p2f t3 int_vars with
                | None => None
                | Some t3' => Some (FAtomic (ACmp t2' [mkguard RLe lhs; mkguard RLe t3']))
                end
            end
        | _ => None
        end
      else
        match p2f (crhs c) int_vars with
        | None => None
        | Some rhs => Some (FAtomic (ACmp lhs [mkguard f_relation rhs]))
        end
  end.

(* `iter().map(f).collect::<Option<Vec<_>>>()` *)
Fixpoint collect_options {A B} (f : A -> option B) (l : list A) : option (list B) :=
  match l with
  | [] => Some []
  | x :: xs =>
      match f x with
      | None => None
      | Some y => match collect_options f xs with None => None | Some ys => Some (y :: ys) end
      end
  end.

Definition natural_b_atom (l : atom) (int_vars : list string) : option (string * list gterm) :=
  match collect_options (fun t => p2f t int_vars) (aterms l) with
  | None => None
  | Some ts => Some (apred l, ts)
  end.

Definition natural_b_literal (l : literal) (int_vars : list string) : option formula :=
  match natural_b_atom (latom l) int_vars with
  | None => None
  | Some (p, ts) =>
      Some (match lsign l with
            | SNone => FAtomic (AAtom p ts)
            | SNeg => FNot (FAtomic (AAtom p ts))
            | SDNeg => FNot (FNot (FAtomic (AAtom p ts)))
            end)
  end.

Definition natural_body (b : list bformula) (int_vars : list string) : option formula :=
  match collect_options (fun f =>
                           match f with
                           | BLit l => natural_b_literal l int_vars
                           | BCmp c => natural_comparison c int_vars
                           end) b with
  | None => None
  | Some formulas => Some (conjoin formulas)
  end.

(* `loop { N{i}_{j} }`: first j >= 0 whose name is not taken.  Fuel |taken| always suffices
   (Proofs/NaturalOk.v, [fresh_variables_for_head_atom_total]); running out of fuel would be a
   non-terminating loop in the code and is reported as None. *)
Definition fresh_var_at (taken : list string) (i : nat) : option string :=
  let var_name := String.append "N" (nat_str (N.of_nat i)) in
  if negb (memb string_dec var_name taken) then Some var_name
  else option_map fst
         (find_fresh_by (List.length taken) (String.append var_name "_")
                        (fun c => memb string_dec c taken) 0%N).

Fixpoint fresh_variables_from (taken : list string) (i : nat) (terms : list term) : option (list string) :=
  match terms with
  | [] => Some []
  | term :: rest =>
      if negb (is_term_regular_of_first_kind term) then
        match fresh_var_at taken i with
        | None => None
        | Some v => option_map (cons v) (fresh_variables_from taken (S i) rest)
        end
      else fresh_variables_from taken (S i) rest
  end.

Definition fresh_variables_for_head_atom (a : atom) : option (list string) :=
  fresh_variables_from (atom_vars a) 0 (aterms a).

(* the loop of natural_head_atom: terms left to right, consuming the iterator over fresh_vars *)
Fixpoint natural_head_atom_terms (ts : list term) (int_vars : list string) (fresh_vars : list string)
  : nresult (list gterm) :=
  match ts with
  | [] => NOk []
  | t :: rest =>
      if is_term_regular_of_first_kind t then
        nbind (of_option (p2f t int_vars))
              (fun g => nbind (natural_head_atom_terms rest int_vars fresh_vars) (fun gs => NOk (g :: gs)))
      else if is_term_regular_of_second_kind t then
        match fresh_vars with
        | [] => NPanic                                   (* fresh_vars.next().unwrap() *)
        | fresh_var :: fresh_rest =>
            nbind (natural_head_atom_terms rest int_vars fresh_rest)
                  (fun gs => NOk (GInt (IVar fresh_var) :: gs))
        end
      else NRefused
  end.

Definition natural_head_atom (a : atom) (int_vars : list string) (fresh_vars : list string)
  : nresult formula :=
  nbind (natural_head_atom_terms (aterms a) int_vars fresh_vars)
        (fun terms => NOk (FAtomic (AAtom (apred a) terms))).

Fixpoint natural_head_interval_formulas (ts : list term) (int_vars : list string) (fresh_vars : list string)
  : nresult (list formula) :=
  match ts with
  | [] => NOk []
  | t :: rest =>
      if is_term_regular_of_second_kind t then
        match t with
        | TBin _ t1 t2 =>
            match fresh_vars with
            | [] => NPanic                               (* fresh_vars.next().unwrap() *)
            | fresh_var :: fresh_rest =>
                nbind (unwrap (p2f t1 int_vars))         (* .expect(..) *)
                  (fun t1' =>
                     nbind (unwrap (p2f t2 int_vars))    (* .expect(..) *)
                       (fun t2' =>
                          nbind (natural_head_interval_formulas rest int_vars fresh_rest)
                            (fun fs =>
                               NOk (FAtomic (ACmp t1' [mkguard RLe (GInt (IVar fresh_var)); mkguard RLe t2'])
                                      :: fs))))
            end
        | _ => NPanic                                    (* unreachable!(..) *)
        end
      else natural_head_interval_formulas rest int_vars fresh_vars
  end.

Definition natural_head_interval (a : atom) (int_vars : list string) (fresh_vars : list string)
  : nresult formula :=
  nbind (natural_head_interval_formulas (aterms a) int_vars fresh_vars) (fun fs => NOk (conjoin fs)).

Definition int_binders (fresh_vars : list string) : list var :=
  map (fun v => mkvar v SInteger) fresh_vars.

Definition natural_basic_head (a : atom) (int_vars : list string) : nresult formula :=
  nbind (unwrap (fresh_variables_for_head_atom a))
    (fun fresh_vars =>
       nbind (natural_head_atom a int_vars fresh_vars)
         (fun conclusion =>
            match fresh_vars with
            | [] => NOk conclusion
            | _ =>
                nbind (natural_head_interval a int_vars fresh_vars)
                  (fun conditions =>
                     NOk (FQ QForall (int_binders fresh_vars) (FBin CImp conditions conclusion)))
            end)).

Definition natural_choice_head (a : atom) (int_vars : list string) : nresult formula :=
  nbind (unwrap (fresh_variables_for_head_atom a))
    (fun fresh_vars =>
       nbind (natural_head_atom a int_vars fresh_vars)
         (fun head_atom =>
            let conclusion := FBin COr head_atom (FNot head_atom) in
            match fresh_vars with
            | [] => NOk conclusion
            | _ =>
                nbind (natural_head_interval a int_vars fresh_vars)
                  (fun conditions =>
                     NOk (FQ QForall (int_binders fresh_vars) (FBin CImp conditions conclusion)))
            end)).

Definition natural_constraint : formula := FAtomic AFalse.

Definition natural_head (h : head) (int_vars : list string) : nresult formula :=
  match h with
  | HBasic a => natural_basic_head a int_vars
  | HChoice a => natural_choice_head a int_vars
  | HFalsity => NOk natural_constraint
  end.

Definition natural_rule (r : rule) : nresult formula :=
  let int_vars := int_variables r in
  nbind (natural_head (rhead r) int_vars)
    (fun head =>
       nbind (of_option (natural_body (rbody r) int_vars))
         (fun body => NOk (universal_closure (FBin CImp body head)))).

Fixpoint natural (program : program) : nresult theory :=
  match program with
  | [] => NOk []
  | r :: rest =>
      nbind (natural_rule r) (fun f => nbind (natural rest) (fun fs => NOk (f :: fs)))
  end.

(* EXTRACT: nresult natural natural_rule int_variables is_term_regular_of_first_kind is_term_regular_of_second_kind contains_symbol_or_infimum_or_supremum p2f fresh_variables_for_head_atom *)
