(* SPECIFICATION (trusted by inspection): a reader for the BYTES of a TFF problem file, restricted
   to the constructs anthem emits.  Three layers:
     [lex]            bytes -> problem-level tokens (a left-to-right machine without lookahead);
     [statements]     tokens -> statements, split at '.';
     [read_statement] `tff(<name>, type, <ident>: <signature>)` / `tff(<name>, axiom|conjecture, <formula>)`,
                      the formula being read by [tff_read] (Model/TptpPrint.v);
   [read_problem] composes them into a [tff_problem] (declarations and formulas in file order).

   Lexical conventions (TPTP): a WORD is a maximal run of letters, digits, '_' and '$'; a run that
   starts with a digit must consist of digits and is an unsigned decimal numeral.  The operators
   `<=> => <= != = ! >` are recognised as maximal runs of the characters `< = > !` (a run that is
   none of these is a lexical error: the reader is stricter than TPTP, which would split `=!`;
   anthem separates operators by spaces).  Blank, tab, CR and LF separate tokens.  Everything else
   is a single-character token `( ) [ ] , : ~ & | ? . *` or a lexical error (no comments, no
   quoted atoms: anthem emits neither). *)
From Coq Require Import List Ascii String ZArith NArith Bool DecimalString.
From Anthem Require Import Base.Fresh Syntax.Fol Syntax.Tff Model.TptpPrint.
Import ListNotations.
Open Scope string_scope.
Open Scope list_scope.

(* problem-level tokens: formula tokens plus '.', '*' and '>' (statement end, type products/arrows) *)
Inductive ptoken := PT (k : token) | PDot | PStar | PGt.

(* ================= the lexer ================= *)
Definition is_word_char (c : ascii) : bool := is_alnum_ c || Ascii.eqb c "$"%char.
Definition is_op_char (c : ascii) : bool :=
  Ascii.eqb c "<"%char || Ascii.eqb c "="%char || Ascii.eqb c ">"%char || Ascii.eqb c "!"%char.
Definition is_space (c : ascii) : bool :=
  let n := nat_of_ascii c in Nat.eqb n 32 || Nat.eqb n 10 || Nat.eqb n 9 || Nat.eqb n 13.
(* single-character tokens *)
Definition punct (c : ascii) : option ptoken :=
  if Ascii.eqb c "("%char then Some (PT KLPar) else if Ascii.eqb c ")"%char then Some (PT KRPar)
  else if Ascii.eqb c "["%char then Some (PT KLBrack) else if Ascii.eqb c "]"%char then Some (PT KRBrack)
  else if Ascii.eqb c ","%char then Some (PT KComma) else if Ascii.eqb c ":"%char then Some (PT KColon)
  else if Ascii.eqb c "~"%char then Some (PT KNot) else if Ascii.eqb c "&"%char then Some (PT KAnd)
  else if Ascii.eqb c "|"%char then Some (PT KOr) else if Ascii.eqb c "?"%char then Some (PT KEx)
  else if Ascii.eqb c "."%char then Some PDot else if Ascii.eqb c "*"%char then Some PStar
  else None.

(* the run being read *)
Inductive lstate := LIdle | LWord (w : string) | LOp (o : string).

Definition numeral_value (ds : string) : N :=
  match NilEmpty.uint_of_string ds with Some d => N.of_uint d | None => 0%N end.
Definition op_token (o : string) : option ptoken :=
  if String.eqb o "<=>" then Some (PT KIff) else if String.eqb o "=>" then Some (PT KImp)
  else if String.eqb o "<=" then Some (PT KRimp) else if String.eqb o "!=" then Some (PT KNeq)
  else if String.eqb o "=" then Some (PT KEq) else if String.eqb o "!" then Some (PT KAll)
  else if String.eqb o ">" then Some PGt else None.
(* the token a finished run stands for; None = lexical error *)
Definition flush (st : lstate) : option (list ptoken) :=
  match st with
  | LIdle => Some []
  | LWord w =>
      match w with
      | String c _ =>
          if is_digit c then (if all_chars is_digit w then Some [PT (KNum (numeral_value w))] else None)
          else Some [PT (KWord w)]
      | EmptyString => None
      end
  | LOp o => match op_token o with Some t => Some [t] | None => None end
  end.

(* one character: the tokens completed by it and the new state *)
Definition step (st : lstate) (c : ascii) : option (list ptoken * lstate) :=
  if is_word_char c then
    match st with
    | LWord w => Some ([], LWord (w ++ String c ""))
    | _ => match flush st with Some f => Some (f, LWord (String c "")) | None => None end
    end
  else if is_op_char c then
    match st with
    | LOp o => Some ([], LOp (o ++ String c ""))
    | _ => match flush st with Some f => Some (f, LOp (String c "")) | None => None end
    end
  else
    match flush st with
    | Some f =>
        if is_space c then Some (f, LIdle)
        else match punct c with Some t => Some (f ++ [t], LIdle) | None => None end
    | None => None
    end.

Fixpoint lex_go (st : lstate) (s : string) : option (list ptoken) :=
  match s with
  | EmptyString => flush st
  | String c r =>
      match step st c with
      | Some (out, st') => option_map (app out) (lex_go st' r)
      | None => None
      end
  end.
Definition lex (s : string) : option (list ptoken) := lex_go LIdle s.

(* ================= statements ================= *)
(* split at '.'; a non-empty remainder without '.' is an error *)
Fixpoint statements (ts : list ptoken) : option (list (list ptoken)) :=
  match ts with
  | [] => Some []
  | PDot :: r => option_map (cons []) (statements r)
  | t :: r => match statements r with Some (s :: ss) => Some ((t :: s) :: ss) | _ => None end
  end.

(* l ++ [x] *)
Fixpoint unsnoc {A} (l : list A) : option (list A * A) :=
  match l with
  | [] => None
  | [x] => Some ([], x)
  | x :: r => match unsnoc r with Some (l', y) => Some (x :: l', y) | None => None end
  end.
(* a formula body contains formula tokens only *)
Fixpoint formula_tokens (l : list ptoken) : option (list token) :=
  match l with
  | [] => Some []
  | PT k :: r => option_map (cons k) (formula_tokens r)
  | _ :: _ => None
  end.

Definition type_of_word (w : string) : option tff_type :=
  if String.eqb w "$int" then Some TyInt else if String.eqb w "general" then Some TyGeneral
  else if String.eqb w "symbol" then Some TySymbol else None.
(* the result of a signature: `$o` makes it a predicate *)
Definition sig_of (args : list tff_type) (res : string) : option tff_sig :=
  if String.eqb res "$o" then Some (SigPred args)
  else match type_of_word res with Some ty => Some (SigFun args ty) | None => None end.
(* after '(' : type ('*' type)* ')' '>' result *)
Fixpoint read_sig_args (l : list ptoken) : option tff_sig :=
  match l with
  | PT (KWord w) :: PStar :: r =>
      match type_of_word w, read_sig_args r with
      | Some ty, Some (SigFun a res) => Some (SigFun (ty :: a) res)
      | Some ty, Some (SigPred a) => Some (SigPred (ty :: a))
      | _, _ => None
      end
  | [PT (KWord w); PT KRPar; PGt; PT (KWord res)] =>
      match type_of_word w with Some ty => sig_of [ty] res | None => None end
  | _ => None
  end.
(* <signature> ::= $tType | $o | <type> | ( <type> * .. * <type> ) > <result> | <type> > <result> *)
Definition read_sig (l : list ptoken) : option tff_sig :=
  match l with
  | [PT (KWord w)] => if String.eqb w "$tType" then Some SigType else sig_of [] w
  | [PT (KWord a); PGt; PT (KWord res)] =>
      match type_of_word a with Some ty => sig_of [ty] res | None => None end
  | PT KLPar :: r => read_sig_args r
  | _ => None
  end.

Definition read_statement (st : list ptoken) : option (tff_decl + tff_named) :=
  match st with
  | PT (KWord t) :: PT KLPar :: PT (KWord name) :: PT KComma :: PT (KWord role) :: PT KComma :: body =>
      if String.eqb t "tff" then
        match unsnoc body with
        | Some (body', PT KRPar) =>
            if String.eqb role "type" then
              match body' with
              | PT (KWord ident) :: PT KColon :: sg =>
                  match read_sig sg with Some s => Some (inl (mkdecl name ident s)) | None => None end
              | _ => None
              end
            else
              match (if String.eqb role "axiom" then Some RoleAxiom
                     else if String.eqb role "conjecture" then Some RoleConjecture else None),
                    formula_tokens body' with
              | Some r, Some toks =>
                  match tff_read toks with Some f => Some (inr (mknamed name r f)) | None => None end
              | _, _ => None
              end
        | _ => None
        end
      else None
  | _ => None
  end.

(* all statements, declarations and formulas in file order *)
Fixpoint collect (sts : list (list ptoken)) : option (list tff_decl * list tff_named) :=
  match sts with
  | [] => Some ([], [])
  | st :: r =>
      match read_statement st, collect r with
      | Some (inl d), Some (ds, fs) => Some (d :: ds, fs)
      | Some (inr f), Some (ds, fs) => Some (ds, f :: fs)
      | _, _ => None
      end
  end.

Definition read_problem (text : string) : option tff_problem :=
  match lex text with
  | Some ts =>
      match statements ts with
      | Some sts => match collect sts with Some (ds, fs) => Some (mktp ds fs) | None => None end
      | None => None
      end
  | None => None
  end.

(* EXTRACT: read_problem lex *)
