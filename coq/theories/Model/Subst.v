(* Model of the substitute functions of /repo/src/syntax_tree/fol/sigma_0.rs
   (IntegerTerm / SymbolicTerm / GeneralTerm / Atom / Comparison / AtomicFormula / Formula),
   as repaired by the fix commit "substitution under a quantifier block could pick a fresh name ...".
   The two `panic!`s of GeneralTerm::substitute are explicit: results are [option], None = panic. *)
From Coq Require Import List Ascii String ZArith NArith Bool.
From Anthem Require Import Base.ISet Base.Fresh Syntax.Fol.
Import ListNotations.
Open Scope string_scope.
Open Scope list_scope.

Fixpoint isubst (t : iterm) (x : string) (u : iterm) : iterm :=
  match t with
  | IVar y => if String.eqb x y then u else t
  | INum _ | IFun _ => t
  | IUn o a => IUn o (isubst a x u)
  | IBin o l r => IBin o (isubst l x u) (isubst r x u)
  end.
Definition ssubst (t : sterm) (x : string) (u : sterm) : sterm :=
  match t with SVar y => if String.eqb x y then u else t | _ => t end.

(* GeneralTerm::substitute; None = panic!("cannot substitute general term ...") *)
Definition gsubst (g : gterm) (x : var) (t : gterm) : option gterm :=
  match g, vsort x with
  | GVar y, SGeneral => Some (if String.eqb (vname x) y then t else g)
  | GInt it, SInteger =>
      match t with GInt u => Some (GInt (isubst it (vname x) u)) | _ => None end
  | GSym st, SSymbol =>
      match t with GSym u => Some (GSym (ssubst st (vname x) u)) | _ => None end
  | _, _ => Some g
  end.

Fixpoint map_opt {A B} (f : A -> option B) (l : list A) : option (list B) :=
  match l with
  | [] => Some []
  | a :: l' => match f a, map_opt f l' with Some b, Some bs => Some (b :: bs) | _, _ => None end
  end.

Definition asubst (a : aformula) (x : var) (t : gterm) : option aformula :=
  match a with
  | ATrue | AFalse => Some a
  | AAtom p ts => option_map (AAtom p) (map_opt (fun g => gsubst g x t) ts)
  | ACmp l gs =>
      match gsubst l x t, map_opt (fun g => option_map (mkguard (grel g)) (gsubst (gterm_of g) x t)) gs with
      | Some l', Some gs' => Some (ACmp l' gs')
      | _, _ => None
      end
  end.

(* Variable::sequence(v).find(|c| !avoid.contains(c)).unwrap(): name ++ decimal i, i = 1, 2, ...
   Fuel |avoid| always suffices (Base/Fresh.v), the fallback is never reached. *)
Definition pick (v : var) (avoid : list var) : var :=
  match find_fresh_by (List.length avoid) (vname v)
          (fun c => memb var_dec (mkvar c (vsort v)) avoid) 1%N with
  | Some (c, _) => mkvar c (vsort v)
  | None => v
  end.

Fixpoint fsize (f : formula) : nat :=
  match f with
  | FAtomic _ => 1
  | FNot g => S (fsize g)
  | FBin _ l r => S (fsize l + fsize r)
  | FQ _ _ g => S (fsize g)
  end.

(* the renaming loop over the block: candidates avoid the term's variables, the body's free
   variables (computed once, before the loop), the substituted variable, the whole block and the
   variables pushed so far *)
Fixpoint rename_block (sub : formula -> var -> gterm -> option formula) (tvs avoid0 : list var)
         (vs : list var) (f : formula) (chosen : list var) : option (formula * list var) :=
  match vs with
  | [] => Some (f, [])
  | v :: vs' =>
      if memb var_dec v tvs then
        let v' := pick v (avoid0 ++ chosen) in
        match sub f v (var_to_gterm v') with
        | None => None
        | Some f1 =>
            match rename_block sub tvs avoid0 vs' f1 (chosen ++ [v']) with
            | Some (f', o) => Some (f', v' :: o)
            | None => None
            end
        end
      else
        match rename_block sub tvs avoid0 vs' f (chosen ++ [v]) with
        | Some (f', o) => Some (f', v :: o)
        | None => None
        end
  end.

(* Formula::substitute with explicit fuel (>= fsize F; the recursion on the renamed body is not
   structural).  [substitute] below supplies fsize F. *)
Fixpoint subst_fuel (n : nat) (F : formula) (x : var) (t : gterm) : option formula :=
  match n with
  | O => Some F
  | S n' =>
      match F with
      | FAtomic a => option_map FAtomic (asubst a x t)
      | FNot f => option_map FNot (subst_fuel n' f x t)
      | FBin c l r =>
          match subst_fuel n' l x t, subst_fuel n' r x t with
          | Some l', Some r' => Some (FBin c l' r')
          | _, _ => None
          end
      | FQ q vs f =>
          if memb var_dec x vs then Some F
          else
            let tvs := gterm_vars t in
            match rename_block (subst_fuel n') tvs (tvs ++ free_variables f ++ [x] ++ vs) vs f [] with
            | None => None
            | Some (f', vs') =>
                match subst_fuel n' f' x t with
                | Some f'' => Some (quantify f'' q vs')
                | None => None
                end
            end
      end
  end.
Definition substitute (F : formula) (x : var) (t : gterm) : option formula :=
  subst_fuel (fsize F) F x t.

(* sort compatibility: the precondition under which substitute never panics *)
Definition sort_ok (x : var) (t : gterm) : bool :=
  match vsort x, t with
  | SGeneral, _ => true
  | SInteger, GInt _ => true
  | SSymbol, GSym _ => true
  | _, _ => false
  end.

(* EXTRACT: substitute subst_fuel gsubst asubst pick sort_ok fsize *)
