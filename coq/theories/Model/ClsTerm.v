(* C18, classic portfolio: the termination measure of the CLI's / verify's classic portfolio
   INTUITIONISTIC ++ HT ++ CLASSIC under the fixpoint strategy, and an instrumented copy of the
   fixpoint loop (pass count, per-pass measure) that the correspondence op `classic_passes` runs
   against a bounded replay of the real `Apply::apply` loop.

   The measure is the 5-tuple (lexicographic order)
       ( mu F,          the measure of the intuitionistic portfolio (Model/SimplIntuit.v)
         m_gen F,       number of general-sorted variables in quantifier blocks
         m_qn F,        number of quantifier nodes
         m_scope F,     sum over the binary nodes of the number of quantifier nodes below them
         m_def F )      number of equations `l = r` inside comparisons with l <> r and a bare
                        variable on one side
   Proofs/SimplClsTerm.v shows that every rewrite of the portfolio either returns its argument
   or lexicographically decreases this tuple:
       the ten INTUITIONISTIC rewrites, remove_double_negation, simplify_transitive_equality: mu
       restrict_quantifier_domain:   mu does not grow, m_gen decreases
       extend_quantifier_scope:      mu, m_gen, m_qn unchanged, m_scope decreases by one
       substitute_defined_variables: mu, m_gen, m_qn, m_scope do not grow, m_def decreases *)
From Coq Require Import List Ascii String ZArith NArith Bool.
From Anthem Require Import Base.ISet Syntax.Fol Model.Apply Model.SimplIntuit Model.SimplClassic Model.StrategyCls.
Import ListNotations.
Open Scope list_scope.

(* the portfolio of `simplify --portfolio classic` and of `verify` (procedures.rs) *)
Definition portfolio_classic : list (formula -> formula) := INTUITIONISTIC ++ HT ++ CLASSIC.
Definition portfolio_classic_opt : list (formula -> option formula) :=
  map (fun (r : formula -> formula) (F : formula) => Some (r F)) (INTUITIONISTIC ++ HT) ++ CLASSIC_opt.

(* ---------- the measure ---------- *)
Definition is_general (v : var) : bool := sort_eqb (vsort v) SGeneral.
Definition gen_count (vs : list var) : nat := List.length (filter is_general vs).
Fixpoint m_gen (f : formula) : nat :=
  match f with
  | FAtomic _ => 0
  | FNot g => m_gen g
  | FBin _ l r => m_gen l + m_gen r
  | FQ _ vs g => gen_count vs + m_gen g
  end.
Fixpoint m_qn (f : formula) : nat :=
  match f with
  | FAtomic _ => 0
  | FNot g => m_qn g
  | FBin _ l r => m_qn l + m_qn r
  | FQ _ _ g => S (m_qn g)
  end.
Fixpoint m_scope (f : formula) : nat :=
  match f with
  | FAtomic _ => 0
  | FNot g => m_scope g
  | FBin _ l r => m_qn l + m_qn r + m_scope l + m_scope r
  | FQ _ _ g => m_scope g
  end.
Definition is_bare (t : gterm) : bool :=
  match gterm_to_var t with Some _ => true | None => false end.
(* an equation between two different terms, one of which is a bare variable *)
Definition def_eq (i : gterm * rel * gterm) : bool :=
  let '(l, r, rh) := i in
  rel_eqb r REq && negb (gterm_eqb l rh) && (is_bare l || is_bare rh).
Definition m_def_atomic (a : aformula) : nat :=
  match a with
  | ACmp t gs => List.length (filter def_eq (individuals t gs))
  | _ => 0
  end.
Fixpoint m_def (f : formula) : nat :=
  match f with
  | FAtomic a => m_def_atomic a
  | FNot g => m_def g
  | FBin _ l r => m_def l + m_def r
  | FQ _ _ g => m_def g
  end.

(* lexicographic order on the 5-tuples, spelled out (linear arithmetic only) *)
Definition lex5 (a1 a2 a3 a4 a5 b1 b2 b3 b4 b5 : nat) : Prop :=
  a1 < b1 \/ (a1 = b1 /\ (a2 < b2 \/ (a2 = b2 /\ (a3 < b3 \/ (a3 = b3 /\ (a4 < b4 \/ (a4 = b4 /\ a5 < b5))))))).
Definition cls_lt (G F : formula) : Prop :=
  lex5 (mu G) (m_gen G) (m_qn G) (m_scope G) (m_def G) (mu F) (m_gen F) (m_qn F) (m_scope F) (m_def F).

(* an explicit bound on the number of passes: with N >= mu F the tuple is a number in mixed radix
   (m_gen, m_qn, m_def <= mu <= N; m_scope <= mu * mu <= N * N) *)
Definition cls_rank (N : nat) (F : formula) : nat :=
  (((mu F * S N + m_gen F) * S N + m_qn F) * S (N * N) + m_scope F) * S N + m_def F.
Definition classic_fuel (F : formula) : nat := S (cls_rank (mu F) F).

(* ---------- full size (terms included), for the growth statistics ---------- *)
Fixpoint iterm_size (t : iterm) : N :=
  match t with
  | INum _ | IFun _ | IVar _ => 1
  | IUn _ a => 1 + iterm_size a
  | IBin _ l r => 1 + iterm_size l + iterm_size r
  end.
Definition gterm_size (t : gterm) : N := match t with GInt it => iterm_size it | _ => 1 end.
Definition aformula_size (a : aformula) : N :=
  match a with
  | ATrue | AFalse => 1
  | AAtom _ ts => fold_left (fun acc t => acc + gterm_size t) ts 1
  | ACmp t gs => fold_left (fun acc g => acc + gterm_size (gterm_of g)) gs (1 + gterm_size t)
  end%N.
Fixpoint tsize (f : formula) : N :=
  match f with
  | FAtomic a => aformula_size a
  | FNot g => 1 + tsize g
  | FBin _ l r => 1 + tsize l + tsize r
  | FQ _ vs g => 1 + N.of_nat (List.length vs) + tsize g
  end%N.

(* ---------- the instrumented loop ---------- *)
(* one trace entry per formula of the run: full size and the five components of the measure *)
Record trace_entry := mktrace { te_size : N; te_mu : nat; te_gen : nat; te_qn : nat; te_scope : nat; te_def : nat }.
Definition measure_of (f : formula) : trace_entry :=
  mktrace (tsize f) (mu f) (m_gen f) (m_qn f) (m_scope f) (m_def f).

Inductive passes_result :=
| PPanic
| PNonterminating (passes : nat)
| PTooLarge (passes : nat)
| PDone (passes : nat) (G : formula) (trace : list trace_entry).

(* bounds shared with harness/src/ext/clsterm.rs *)
Definition MAX_PASSES : nat := 400.
Definition SIZE_CAP : N := 200000.

Fixpoint classic_passes_from (fuel : nat) (f : formula -> option formula) (previous current : formula)
         (n : nat) (trace : list trace_entry) : passes_result :=
  if formula_eqb previous current then PDone n current (rev trace)
  else if (SIZE_CAP <? tsize current)%N then PTooLarge n
  else match fuel with
       | O => PNonterminating n
       | S k =>
           match apply_opt f current with
           | None => PPanic
           | Some next => classic_passes_from k f current next (S n) (measure_of current :: trace)
           end
       end.
Definition passes_of (portfolio : list (formula -> option formula)) (F : formula) : passes_result :=
  let f := compose_opt portfolio in
  match apply_opt f F with
  | None => PPanic
  | Some current => classic_passes_from MAX_PASSES f F current 1 [measure_of F]
  end.
Definition classic_passes (F : formula) : passes_result := passes_of portfolio_classic_opt F.
Definition classic_only_passes (F : formula) : passes_result := passes_of CLASSIC_opt F.

(* EXTRACT: portfolio_classic portfolio_classic_opt m_gen m_qn m_scope m_def cls_rank classic_fuel tsize measure_of passes_result classic_passes classic_only_passes *)
