(* END-TO-END model of StrongEquivalenceTask::decompose
   (/repo/src/verifying/task/strong_equivalence.rs): Model/Strong.v's pipeline with every component
   instantiated by its real model, in the order of the Rust function:

     transition_axioms
     left  := mu / tau_star of the left program          (Model/MuFull.mu_full, Model/TauStar.tau_star)
     right := mu / tau_star of the right program
     [simplify]  left, right := each formula .apply_fixpoint([INTUITIONISTIC, HT].concat().compose())
     left, right := gamma
     [simplify]  left, right := each formula .apply_fixpoint([INTUITIONISTIC, HT, CLASSIC].concat().compose())
     [break]     left, right := break_equivalences_theory
     forward / backward problems: add_theory x3, rename_conflicting_symbols,
     create_unique_formula_names; decomposition                      (Model/Strong.strong_assemble)

   Outcomes other than a list of problems:
     SPanic           a panic of the Rust code: the usize overflow of choose_fresh_global_variables
                      (F11), or a panic inside a CLASSIC rewrite (hand-built trees only);
     SNonterminating  a fixpoint loop did not stop.  The pre-gamma loop uses the fuel
                      [simplify_fuel f] = mu f + 1, which always suffices (C18_term_ht), so the
                      answer never comes from there.  Termination of the post-gamma loop
                      (INTUITIONISTIC ++ HT ++ CLASSIC) is NOT proved: the model runs it for at most
                      [classic_fuel] = 64 further passes after the first one and answers
                      SNonterminating beyond; the harness applies the same bound to the real loop.
   The first failure in the order above wins (left before right, earlier stage before later). *)
From Coq Require Import List String.
From Anthem Require Import Syntax.Fol Syntax.Asp Model.Apply Model.Gamma Model.Break Model.Problem
  Model.Strong Model.TauStar Model.MuFull Model.SimplIntuit Model.SimplClassic.
From Anthem Require Model.StrategyCls.
Import ListNotations.

Inductive sresult (A : Type) : Type :=
| SOk (a : A)
| SPanic
| SNonterminating.
Arguments SOk {A} a.
Arguments SPanic {A}.
Arguments SNonterminating {A}.

Definition sbind {A B} (x : sresult A) (f : A -> sresult B) : sresult B :=
  match x with SOk a => f a | SPanic => SPanic | SNonterminating => SNonterminating end.

Fixpoint smap {A B} (f : A -> sresult B) (l : list A) : sresult (list B) :=
  match l with
  | [] => SOk []
  | x :: xs => sbind (f x) (fun y => sbind (smap f xs) (fun ys => SOk (y :: ys)))
  end.

Definition of_panic {A} (x : option A) : sresult A :=
  match x with Some a => SOk a | None => SPanic end.

(* Program::mu / Program::tau_star *)
Definition repr_full (r : frepr) (p : program) : sresult theory :=
  of_panic (match r with ReprMu => mu_full p | ReprTauStar => tau_star p end).

(* [INTUITIONISTIC, HT].concat() *)
Definition PORTFOLIO_HT : list (formula -> formula) := INTUITIONISTIC ++ HT.
(* [INTUITIONISTIC, HT, CLASSIC].concat(), panics of the CLASSIC rewrites visible *)
Definition FULL_CLASSIC_opt : list (formula -> option formula) :=
  map (fun (r : formula -> formula) (F : formula) => Some (r F)) (INTUITIONISTIC ++ HT) ++ CLASSIC_opt.

Definition classic_fuel : nat := 64.

(* f.apply_fixpoint(&mut portfolio), pre-gamma *)
Definition simp_ht_full (f : formula) : sresult formula :=
  match apply_fixpoint (simplify_fuel f) (compose PORTFOLIO_HT) f with
  | Some g => SOk g
  | None => SNonterminating
  end.

(* f.apply_fixpoint(&mut portfolio), post-gamma *)
Definition simp_classic_full (f : formula) : sresult formula :=
  match StrategyCls.apply_fixpoint_opt classic_fuel (StrategyCls.compose_opt FULL_CLASSIC_opt) f with
  | StrategyCls.RDone g => SOk g
  | StrategyCls.RPanic => SPanic
  | StrategyCls.RNonterminating => SNonterminating
  end.

Definition stage (on : bool) (f : formula -> sresult formula) (t : theory) : sresult theory :=
  if on then smap f t else SOk t.

Definition strong_decompose_full (t : strong_task) : sresult (list problem) :=
  let ta := transition_axioms (st_left t) (st_right t) in
  sbind (repr_full (st_repr t) (st_left t)) (fun l0 =>
  sbind (repr_full (st_repr t) (st_right t)) (fun r0 =>
  sbind (stage (st_simplify t) simp_ht_full l0) (fun l1 =>
  sbind (stage (st_simplify t) simp_ht_full r0) (fun r1 =>
  let l2 := gamma_theory l1 in
  let r2 := gamma_theory r1 in
  sbind (stage (st_simplify t) simp_classic_full l2) (fun l3 =>
  sbind (stage (st_simplify t) simp_classic_full r2) (fun r3 =>
  let l4 := if st_break t then break_equivalences_theory l3 else l3 in
  let r4 := if st_break t then break_equivalences_theory r3 else r3 in
  SOk (strong_assemble ta l4 r4 (st_direction t) (st_decomposition t)))))))).

(* EXTRACT: sresult strong_decompose_full simp_ht_full simp_classic_full repr_full FULL_CLASSIC_opt *)
