(* END-TO-END model of StrongEquivalenceTask::decompose
   (/repo/src/verifying/task/strong_equivalence.rs): Model/Strong.v's pipeline with every component
   instantiated by its real model, in the order of the Rust function:

     transition_axioms
     left  := mu / tau_star of the left program          (Model/MuFull.mu_full, Model/TauStar.tau_star)
     right := mu / tau_star of the right program
     [simplify]  left, right := each formula .apply_fixpoint([INTUITIONISTIC, HT].concat().compose())
     left, right := gamma
     [simplify]  left, right := each formula .apply_fixpoint([INTUITIONISTIC, HT, CLASSIC].concat().compose())
     [break]     left, right := break_equivalences_theory
     forward / backward problems: add_theory x3, rename_conflicting_symbols,
     create_unique_formula_names; decomposition                      (Model/Strong.strong_assemble)

   Outcomes other than a list of problems:
     SPanic           a panic of the Rust code: the usize overflow of choose_fresh_global_variables
                      (F11), or a panic inside a CLASSIC rewrite (hand-built trees only: never on
                      tau*/mu output, C03_panic_only_overflow);
     SNonterminating  the fuel of a fixpoint loop was exhausted - A FUEL ARTEFACT, never a
                      behaviour of the code: both loops terminate (C18_term_ht, C18_term_cls).
                      The pre-gamma loop uses the fuel [simplify_fuel f] = mu f + 1, which always
                      suffices, so the answer never comes from there.  The post-gamma loop
                      (INTUITIONISTIC ++ HT ++ CLASSIC) is run for at most [fuel] further passes
                      after the first one; [strong_decompose_full_fuel fuel] is the model with
                      that parameter, [strong_decompose_full] its executable instance at
                      [classic_fuel] = 64 (what is extracted and compared with the code; the
                      harness applies the same bound to the real loop).  Proofs/StrongFullOk.v:
                      an SOk / SPanic answer is the same for every larger fuel
                      (strong_decompose_full_fuel_mono) and for every task there is a fuel from
                      which the answer is never SNonterminating (C03_never_nonterminating).
   The first failure in the order above wins (left before right, earlier stage before later). *)
From Coq Require Import List String.
From Anthem Require Import Syntax.Fol Syntax.Asp Model.Apply Model.Gamma Model.Break Model.Problem
  Model.Strong Model.TauStar Model.MuFull Model.SimplIntuit Model.SimplClassic.
From Anthem Require Model.StrategyCls.
Import ListNotations.

Inductive sresult (A : Type) : Type :=
| SOk (a : A)
| SPanic
| SNonterminating.
Arguments SOk {A} a.
Arguments SPanic {A}.
Arguments SNonterminating {A}.

Definition sbind {A B} (x : sresult A) (f : A -> sresult B) : sresult B :=
  match x with SOk a => f a | SPanic => SPanic | SNonterminating => SNonterminating end.

Fixpoint smap {A B} (f : A -> sresult B) (l : list A) : sresult (list B) :=
  match l with
  | [] => SOk []
  | x :: xs => sbind (f x) (fun y => sbind (smap f xs) (fun ys => SOk (y :: ys)))
  end.

Definition of_panic {A} (x : option A) : sresult A :=
  match x with Some a => SOk a | None => SPanic end.

(* Program::mu / Program::tau_star *)
Definition repr_full (r : frepr) (p : program) : sresult theory :=
  of_panic (match r with ReprMu => mu_full p | ReprTauStar => tau_star p end).

(* [INTUITIONISTIC, HT].concat() *)
Definition PORTFOLIO_HT : list (formula -> formula) := INTUITIONISTIC ++ HT.
(* [INTUITIONISTIC, HT, CLASSIC].concat(), panics of the CLASSIC rewrites visible *)
Definition FULL_CLASSIC_opt : list (formula -> option formula) :=
  map (fun (r : formula -> formula) (F : formula) => Some (r F)) (INTUITIONISTIC ++ HT) ++ CLASSIC_opt.

Definition classic_fuel : nat := 64.

(* f.apply_fixpoint(&mut portfolio), pre-gamma *)
Definition simp_ht_full (f : formula) : sresult formula :=
  match apply_fixpoint (simplify_fuel f) (compose PORTFOLIO_HT) f with
  | Some g => SOk g
  | None => SNonterminating
  end.

(* f.apply_fixpoint(&mut portfolio), post-gamma, with [fuel] further passes after the first *)
Definition simp_classic_full_fuel (fuel : nat) (f : formula) : sresult formula :=
  match StrategyCls.apply_fixpoint_opt fuel (StrategyCls.compose_opt FULL_CLASSIC_opt) f with
  | StrategyCls.RDone g => SOk g
  | StrategyCls.RPanic => SPanic
  | StrategyCls.RNonterminating => SNonterminating
  end.
Definition simp_classic_full : formula -> sresult formula := simp_classic_full_fuel classic_fuel.

Definition stage (on : bool) (f : formula -> sresult formula) (t : theory) : sresult theory :=
  if on then smap f t else SOk t.

Definition strong_decompose_full_fuel (fuel : nat) (t : strong_task) : sresult (list problem) :=
  let ta := transition_axioms (st_left t) (st_right t) in
  sbind (repr_full (st_repr t) (st_left t)) (fun l0 =>
  sbind (repr_full (st_repr t) (st_right t)) (fun r0 =>
  sbind (stage (st_simplify t) simp_ht_full l0) (fun l1 =>
  sbind (stage (st_simplify t) simp_ht_full r0) (fun r1 =>
  let l2 := gamma_theory l1 in
  let r2 := gamma_theory r1 in
  sbind (stage (st_simplify t) (simp_classic_full_fuel fuel) l2) (fun l3 =>
  sbind (stage (st_simplify t) (simp_classic_full_fuel fuel) r2) (fun r3 =>
  let l4 := if st_break t then break_equivalences_theory l3 else l3 in
  let r4 := if st_break t then break_equivalences_theory r3 else r3 in
  SOk (strong_assemble ta l4 r4 (st_direction t) (st_decomposition t)))))))).

(* the executable instance (extracted; tied to the code by the op strong_decompose_full) *)
Definition strong_decompose_full : strong_task -> sresult (list problem) :=
  strong_decompose_full_fuel classic_fuel.

(* EXTRACT: sresult strong_decompose_full simp_ht_full simp_classic_full repr_full FULL_CLASSIC_opt *)
