(* Model of /repo/src/translating/formula_representation/mu.rs.
   mu applies natural_rule to every rule on which it succeeds and tau_star_rule (with the fresh
   global variables chosen for the WHOLE program) to the others.  tau* itself is modelled in
   Model/TauStar.v by another cluster; here it is a Section variable, and [mu_branches] exposes
   exactly the part of mu that does not depend on tau*: which branch every rule takes and, on the
   natural branch, the formula. *)
From Coq Require Import List String.
From Anthem Require Import Syntax.Fol Syntax.Asp Model.Natural.
Import ListNotations.

(* Some F: the rule takes the natural branch and yields F; None: the rule goes to tau_star_rule.
   A panic of natural_rule would be a panic of mu. *)
Fixpoint mu_branches (p : program) : nresult (list (option formula)) :=
  match p with
  | [] => NOk []
  | r :: rest =>
      match natural_rule r with
      | NOk f => nbind (mu_branches rest) (fun bs => NOk (Some f :: bs))
      | NRefused => nbind (mu_branches rest) (fun bs => NOk (None :: bs))
      | NPanic => NPanic
      end
  end.

(* which rules take the natural branch *)
Definition mu_choice (p : program) : list (rule * bool) :=
  map (fun r => (r, match natural_rule r with NOk _ => true | _ => false end)) p.

Section Mu.
Variable choose_fresh_global_variables : program -> list string.
Variable tau_star_rule : rule -> list string -> formula.

Fixpoint mu_rules (rules : list rule) (globals : list string) : nresult theory :=
  match rules with
  | [] => NOk []
  | r :: rest =>
      match natural_rule r with
      | NOk f => nbind (mu_rules rest globals) (fun fs => NOk (f :: fs))
      | NRefused => nbind (mu_rules rest globals) (fun fs => NOk (tau_star_rule r globals :: fs))
      | NPanic => NPanic
      end
  end.

Definition mu (p : program) : nresult theory :=
  let globals := choose_fresh_global_variables p in
  mu_rules p globals.
End Mu.

(* EXTRACT: mu_branches mu_choice *)
