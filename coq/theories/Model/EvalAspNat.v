(* Executable reference evaluator for mini-gringo rules over finite data: mirrors Sem/AspRef.v
   ([vals], [bformula_sat], [head_sat], one ground instance of [ref_rule_sat]) with lists instead
   of predicates.  Used only by the semantic cross-check `sem_natural` (search for failing
   inputs); NOT a proof and never counted as an obligation.  The value set of a term under a
   finite assignment is finite (intervals between numerals are finite), so [ref_vals] is exact;
   [ref_rule_eval] enumerates the assignments of the rule's variables over a given finite list of
   values.  Proofs/EvalAspNatOk.v proves [ref_vals] exact against [vals] ([ref_vals_ok]). *)
From Coq Require Import List Ascii String ZArith Bool.
From Anthem Require Import Base.ISet Syntax.Fol Syntax.Asp Sem.Domain Sem.AspRef Model.Eval.
Import ListNotations.
Open Scope string_scope.
Open Scope list_scope.

Definition fassign := list (string * gval).
Fixpoint alookup (sg : fassign) (x : string) : gval :=
  match sg with
  | [] => VNum 0
  | (y, d) :: sg' => if String.eqb x y then d else alookup sg' x
  end.

Definition nums (l : list gval) : list Z :=
  flat_map (fun v => match v with VNum z => [z] | _ => [] end) l.
Definition zrange (a b : Z) : list Z :=
  map (fun i => (a + Z.of_nat i)%Z) (seq 0 (Z.to_nat (b - a + 1))).

Definition binop_vals (o : abinop) (n1 n2 : Z) : list gval :=
  match o with
  | AAdd => [VNum (n1 + n2)]
  | ASub => [VNum (n1 - n2)]
  | AMul => [VNum (n1 * n2)]
  | ADiv => if (0 <? n2)%Z then [VNum (n1 / n2)] else []
  | AMod => if (0 <? n2)%Z then [VNum (n1 mod n2)] else []
  | AInterval => map VNum (zrange n1 n2)
  end.

Fixpoint ref_vals (sg : fassign) (t : term) : list gval :=
  match t with
  | TPre p => [pval p]
  | TVar x => [alookup sg x]
  | TUn AUNeg t1 => map (fun n => VNum (0 - n)) (nums (ref_vals sg t1))
  | TBin o l r =>
      flat_map (fun n1 => flat_map (fun n2 => binop_vals o n1 n2) (nums (ref_vals sg r)))
               (nums (ref_vals sg l))
  end.

(* all tuples picking one value per position *)
Fixpoint tuples_of (ls : list (list gval)) : list (list gval) :=
  match ls with
  | [] => [[]]
  | l :: rest => flat_map (fun v => map (cons v) (tuples_of rest)) l
  end.
Definition ref_tuples (sg : fassign) (ts : list term) : list (list gval) :=
  tuples_of (map (ref_vals sg) ts).

Definition bformula_eval (W T : fpint) (sg : fassign) (b : bformula) : bool :=
  match b with
  | BLit (mklit SNone a) => existsb (fun vs => fholds W (apred a) vs) (ref_tuples sg (aterms a))
  | BLit (mklit SNeg a) => existsb (fun vs => negb (fholds T (apred a) vs)) (ref_tuples sg (aterms a))
  | BLit (mklit SDNeg a) => existsb (fun vs => fholds T (apred a) vs) (ref_tuples sg (aterms a))
  | BCmp c =>
      existsb (fun v1 => existsb (fun v2 => rel_sat (arel_to_rel (crel c)) v1 v2) (ref_vals sg (crhs c)))
              (ref_vals sg (clhs c))
  end.
Definition body_eval (W T : fpint) (sg : fassign) (b : list bformula) : bool :=
  forallb (bformula_eval W T sg) b.
Definition head_eval (W T : fpint) (sg : fassign) (h : head) : bool :=
  match h with
  | HBasic a => forallb (fun vs => fholds W (apred a) vs) (ref_tuples sg (aterms a))
  | HChoice a => forallb (fun vs => fholds W (apred a) vs || negb (fholds T (apred a) vs)) (ref_tuples sg (aterms a))
  | HFalsity => false
  end.

(* one ground instance, in both worlds *)
Definition ref_instance_eval (H T : fpint) (sg : fassign) (r : rule) : bool :=
  implb (body_eval H T sg (rbody r)) (head_eval H T sg (rhead r))
  && implb (body_eval T T sg (rbody r)) (head_eval T T sg (rhead r)).

Fixpoint all_assignments (xs : list string) (vals : list gval) : list fassign :=
  match xs with
  | [] => [[]]
  | x :: rest => flat_map (fun v => map (cons (x, v)) (all_assignments rest vals)) vals
  end.

(* every assignment of the rule's variables to values of [vals] *)
Definition ref_rule_eval (vals : list gval) (H T : fpint) (r : rule) : bool :=
  forallb (fun sg => ref_instance_eval H T sg r) (all_assignments (rule_vars r) vals).

(* EXTRACT: ref_vals ref_rule_eval ref_instance_eval all_assignments alookup *)
