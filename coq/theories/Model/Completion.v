(* Model of /repo/src/translating/classical_reduction/completion.rs (everything outside tests):
   completion, components, split, split_implication, has_head_mismatches, heads,
   atomic_formula_from, and of choose_fresh_variable_names (tau_star.rs) which
   atomic_formula_from calls.

   Data: IndexMap<AtomicFormula, Vec<Formula>> ("Definitions") = association list in insertion
   order.  Its keys are only ever built by the `Atom` arm of split_implication and by
   atomic_formula_from, so the key type of the model is the atom itself ([hatom] = predicate
   symbol + argument terms); this makes the `unreachable!()` of `heads` and the irrefutable
   `if let Atom(..)` patterns of `completion` structurally impossible instead of dead branches.
   `Option` results are the code's own `Option`s (None = "not completable"); there is no panic
   path in this file. *)
From Coq Require Import List Ascii String ZArith NArith Bool.
From Anthem Require Import Base.ISet Base.Fresh Syntax.Fol.
Import ListNotations.
Open Scope string_scope.
Open Scope list_scope.

(* ---------- choose_fresh_variable_names (tau_star.rs) ---------- *)
(* for n in 1..arity_bound: candidate = variant ++ n, m = n; while taken or already chosen:
   m += 1, candidate = variant ++ m.  Fuel |taken| + |fresh| always suffices (pigeonhole,
   Base/Fresh.v); the fallback of [fresh_step] is never reached (CompletionOk.fresh_step_total). *)
Definition fresh_step (taken fresh : list string) (variant : string) (n : N) : string :=
  match find_fresh_by (List.length taken + List.length fresh) variant
          (fun c => memb string_dec c taken || memb string_dec c fresh) n with
  | Some (c, _) => c
  | None => variant
  end.
Fixpoint fresh_loop (taken fresh : list string) (variant : string) (n : N) (count : nat) : list string :=
  match count with
  | O => fresh
  | S k => fresh_loop taken (fresh ++ [fresh_step taken fresh variant n]) variant (N.succ n) k
  end.
Definition choose_fresh_variable_names (variables : list var) (variant : string) (arity : nat) : list string :=
  match arity with
  | O => []
  | _ =>
    let taken_vars := map vname variables in
    if memb string_dec variant taken_vars
    then fresh_loop taken_vars [] variant 1%N arity               (* n in 1..arity+1 *)
    else fresh_loop taken_vars [variant] variant 1%N (arity - 1)  (* n in 1..arity   *)
  end.

(* ---------- components ---------- *)
Record hatom := mkhatom { hsym : string; hargs : list gterm }.
Definition hatom_formula (a : hatom) : aformula := AAtom (hsym a) (hargs a).
Definition hatom_pred (a : hatom) : pred := mkpred (hsym a) (List.length (hargs a)).
Definition hatom_dec (a b : hatom) : {a = b} + {a <> b}.
Proof. decide equality; auto using string_dec, gterm_dec, list_eq_dec. Defined.
Definition hatom_eqb (a b : hatom) : bool := if hatom_dec a b then true else false.

Inductive component :=
| PartialDefinition (f : formula) (a : hatom)
| Constraint (c : formula).

Definition definitions := list (hatom * list formula).
Definition constraints := list formula.

(* Itertools::all_unique *)
Fixpoint all_unique {A} (dec : forall x y : A, {x = y} + {x <> y}) (l : list A) : bool :=
  match l with
  | [] => true
  | x :: xs => negb (memb dec x xs) && all_unique dec xs
  end.
Definition ovar_dec (a b : option var) : {a = b} + {a <> b}.
Proof. decide equality; apply var_dec. Defined.

(* the head test of split_implication:  !(v.contains(&None) | !v.all_unique()) *)
Definition head_args_ok (ts : list gterm) : bool :=
  let v := map gterm_to_var ts in
  negb (memb ovar_dec None v || negb (all_unique ovar_dec v)).

Definition split_implication (formula : formula) : option component :=
  match formula with
  | FBin CImp f g | FBin CRimp g f =>
      match g with
      | FAtomic AFalse => Some (Constraint formula)
      | FAtomic (AAtom p ts) =>
          if head_args_ok ts then Some (PartialDefinition f (mkhatom p ts)) else None
      | _ => None
      end
  | _ => None
  end.

Definition split (formula : formula) : option component :=
  match free_variables formula with
  | _ :: _ => None
  | [] =>
    match formula with
    | FQ QForall _ f => split_implication f
    | f => split_implication f
    end
  end.

(* IndexMap::entry(a): Occupied -> push, Vacant -> insert vec![f] *)
Fixpoint defs_push (d : definitions) (a : hatom) (f : formula) : definitions :=
  match d with
  | [] => [(a, [f])]
  | (a', fs) :: rest =>
      if hatom_eqb a a' then (a', fs ++ [f]) :: rest else (a', fs) :: defs_push rest a f
  end.
(* IndexMap::insert: replace the value of an existing key (position kept), else append *)
Fixpoint defs_insert (d : definitions) (a : hatom) (v : list formula) : definitions :=
  match d with
  | [] => [(a, v)]
  | (a', fs) :: rest =>
      if hatom_eqb a a' then (a', v) :: rest else (a', fs) :: defs_insert rest a v
  end.

Fixpoint components_from (formulas : list formula) (d : definitions) (c : constraints)
  : option (definitions * constraints) :=
  match formulas with
  | [] => Some (d, c)
  | formula :: rest =>
      match split formula with
      | None => None
      | Some (Constraint x) => components_from rest d (c ++ [x])
      | Some (PartialDefinition f a) => components_from rest (defs_push d a f) c
      end
  end.
Definition components (t : theory) : option (definitions * constraints) := components_from t [] [].

(* ---------- heads / has_head_mismatches ---------- *)
Fixpoint heads_push (m : list (pred * list hatom)) (p : pred) (h : hatom) : list (pred * list hatom) :=
  match m with
  | [] => [(p, [h])]
  | (q, hs) :: rest => if pred_eqb p q then (q, hs ++ [h]) :: rest else (q, hs) :: heads_push rest p h
  end.
Definition heads (d : definitions) : list (pred * list hatom) :=
  fold_left (fun m e => heads_push m (hatom_pred (fst e)) (fst e)) d [].
(* Itertools::all_equal *)
Definition all_equal (hs : list hatom) : bool :=
  match hs with
  | [] => true
  | h :: rest => forallb (hatom_eqb h) rest
  end.
Definition has_head_mismatches (d : definitions) : bool :=
  existsb (fun e => negb (all_equal (snd e))) (heads d).

(* ---------- atomic_formula_from ---------- *)
Definition atomic_formula_from (p : pred) : hatom :=
  let taken_variables := [mkvar "V" SGeneral] in
  let variables := choose_fresh_variable_names taken_variables "V" (parity p) in
  mkhatom (psym p) (map GVar variables).

(* IndexSet::difference: the elements of the first set, in its order, that are not in the second *)
Definition iset_difference {A} (dec : forall x y : A, {x = y} + {x <> y}) (l m : list A) : list A :=
  filter (fun x => negb (memb dec x m)) l.

(* ---------- completion ---------- *)
Definition complete_definition (e : hatom * list formula) : formula :=
  let g := hatom_formula (fst e) in
  let v := aformula_vars g in
  quantify
    (FBin CIff (FAtomic g)
       (disjoin (map (fun f_i =>
                        let u_i := iset_difference var_dec (free_variables f_i) v in
                        quantify f_i QExists u_i) (snd e))))
    QForall v.

Definition completion (t : theory) (inputs : list pred) : option theory :=
  let theory_preds := theory_predicates t in
  match components t with
  | None => None
  | Some (explicit_definitions, constraints) =>
      let explicit_predicates :=
        fold_left (fun acc e => iset_insert pred_dec acc (hatom_pred (fst e))) explicit_definitions [] in
      let definitions :=
        fold_left (fun d p => defs_insert d (atomic_formula_from p) [])
                  (iset_difference pred_dec theory_preds explicit_predicates) explicit_definitions in
      if has_head_mismatches definitions then None
      else
        let final_definitions :=
          filter (fun e => negb (memb pred_dec (hatom_pred (fst e)) inputs)) definitions in
        Some (map universal_closure constraints ++ map complete_definition final_definitions)
  end.

(* EXTRACT: completion components split split_implication has_head_mismatches heads atomic_formula_from choose_fresh_variable_names *)
