(* END-TO-END TEXT MODEL of the non-interactive sub-commands of the anthem command line:
   /repo/src/command_line/arguments.rs (clap definitions) and procedures.rs (`main`), every arm but
   `verify`.  Input: the command (sub-command + option values) and the TEXT of the input file;
   output: what the process prints on stdout, or that it fails / panics.

       run_cli : command -> string -> cli_result

   Nothing is re-modelled here: this file is only the GLUE -- which parser reads the input, which
   function each option value selects, in which order parse / transform / print happen, how the
   portfolios are assembled, what `translate --with completion` passes as inputs, and whether the
   output ends with the newline of `println!` -- composed from the models that are tied to the
   individual Rust functions elsewhere (C01, C04, C05, C07, C08, C11, C14, C15, C18).  The tie of THIS
   file is the op `cli_run`: the extracted [run_cli] against the real binary, byte for byte
   (props/CLI.py).

   Not modelled: `--output debug` (Rust's derived `{:#?}`), reading from stdin instead of a file
   (same code path after `read_to_string`), I/O errors, clap's own errors (unknown option value:
   exit 2, never reaches `main`), the text of error messages (stderr). *)
From Coq Require Import List Ascii String.
From Anthem Require Import Syntax.Fol Syntax.Asp Model.Natural.
From Anthem Require Model.AspParse Model.AspPrint Model.FolLex Model.FolParse Model.FolPrint
  Model.TauStar Model.CliMu Model.Gamma Model.Completion Model.Apply Model.SimplIntuit
  Model.SimplClassic Model.Strategy Model.StrategyCls Model.Tightness Model.Regularity.
Import ListNotations.
Open Scope list_scope.
Open Scope string_scope.

(* ------------------------------------------------------------------ arguments.rs *)
(* #[derive(ValueEnum)] enums, constructors in source order; clap spells them in kebab case:
   `user-guide`, `tau-star` *)
Inductive property := Regularity | Tightness.
Inductive parse_as := Program | Theory | Specification | UserGuide.
Inductive simplification_portfolio := Classic | Ht | Intuitionistic.
Inductive simplification_strategy := Shallow | Recursive | Fixpoint_.   (* `Fixpoint` is a Coq keyword *)
Inductive translation := Completion | Gamma | Mu | Natural | TauStar.

(* enum Command, without the `input: Option<PathBuf>` fields (the text is the second argument of
   [run_cli]) and with `output` fixed to `default` *)
Inductive command :=
| Analyze (property : property)
| Parse (as_ : parse_as)
| Simplify (portfolio : simplification_portfolio) (strategy : simplification_strategy)
| Translate (with_ : translation).

(* ------------------------------------------------------------------ results *)
Inductive cli_result :=
| Stdout (out : string)   (* exit status 0, these bytes on stdout *)
| Error                   (* `main` returned Err: message on stderr, exit status 1, nothing on stdout *)
| Panic                   (* a Rust panic: exit status 101 *)
| OutOfFuel.              (* the MODEL gave up (the Rust loop is unbounded / a fuel bound of a
                             parser model was hit); never expected to agree with a real run *)

(* `?` on a Result / the point where a panic unwinds *)
Inductive step (A : Type) := Got (a : A) | Stop (r : cli_result).
Arguments Got {A} a.
Arguments Stop {A} r.
Definition bind {A} (x : step A) (k : A -> cli_result) : cli_result :=
  match x with Got a => k a | Stop r => r end.

(* ------------------------------------------------------------------ Node::from_file(...)? *)
(* `fs::read_to_string(path)?.parse().with_context(..)?` -- one per node type *)
Definition program_from_file (text : string) : step program :=
  match AspParse.parse_program_text text with
  | AspParse.POk p => Got p
  | AspParse.PFail => Stop Error
  | AspParse.PPanic => Stop Panic         (* numerals outside isize: F3a *)
  end.

Definition of_presult {A} (r : FolParse.presult A) : step A :=
  match r with
  | FolParse.PR_ok t => Got t
  | FolParse.PR_err => Stop Error
  | FolParse.PR_panic => Stop Panic       (* numerals outside isize, arities outside usize *)
  | FolParse.PR_oof => Stop OutOfFuel
  end.
Definition theory_from_file (text : string) : step theory := of_presult (FolParse.parse_theory_str text).
Definition specification_from_file (text : string) : step specification := of_presult (FolParse.parse_spec_str text).
Definition user_guide_from_file (text : string) : step user_guide := of_presult (FolParse.parse_ug_str text).

(* ------------------------------------------------------------------ print!/println! *)
Definition nl : string := String (ascii_of_nat 10) "".
Definition bool_str (b : bool) : string := if b then "true" else "false".
(* println!("{b}") *)
Definition println_bool (b : bool) : cli_result := Stdout (bool_str b ++ nl).
(* print!("{program}") / print!("{theory}") ...: the Display bytes and nothing else *)
Definition print_program (p : program) : cli_result := Stdout (AspPrint.display_program p).
Definition print_theory (t : theory) : cli_result := Stdout (FolPrint.show_theory t).
Definition print_specification (s : specification) : cli_result := Stdout (FolPrint.show_spec s).
Definition print_user_guide (u : user_guide) : cli_result := Stdout (FolPrint.show_ug u).

(* ------------------------------------------------------------------ Command::Analyze *)
Definition of_nresult_bool (r : nresult bool) : cli_result :=
  match r with NOk b => println_bool b | NRefused => Error | NPanic => Panic end.

Definition run_analyze (property : property) (text : string) : cli_result :=
  match property with
  | Regularity => bind (program_from_file text) (fun program => of_nresult_bool (Regularity.is_regular program))
  | Tightness => bind (program_from_file text) (fun program => println_bool (Tightness.is_tight program))
  end.

(* ------------------------------------------------------------------ Command::Parse (--output default) *)
Definition run_parse (as_ : parse_as) (text : string) : cli_result :=
  match as_ with
  | Program => bind (program_from_file text) print_program
  | Theory => bind (theory_from_file text) print_theory
  | Specification => bind (specification_from_file text) print_specification
  | UserGuide => bind (user_guide_from_file text) print_user_guide
  end.

(* ------------------------------------------------------------------ Command::Simplify *)
(*   match portfolio {
       Classic => [INTUITIONISTIC, HT, CLASSIC].concat(),
       Ht => [INTUITIONISTIC, HT].concat(),
       Intuitionistic => [INTUITIONISTIC].concat(),
     }.into_iter().compose()
   The rewrites of intuitionistic.rs are total; those of classic.rs can panic (on trees the parser
   does not produce), which the classic arm keeps visible ([CLASSIC_opt]). *)
Definition portfolio_total (portfolio : simplification_portfolio) : list (formula -> formula) :=
  match portfolio with
  | Classic => SimplIntuit.INTUITIONISTIC ++ SimplIntuit.HT ++ SimplClassic.CLASSIC
  | Ht => SimplIntuit.INTUITIONISTIC ++ SimplIntuit.HT
  | Intuitionistic => SimplIntuit.INTUITIONISTIC
  end.

Definition lift (r : formula -> formula) : formula -> option formula := fun F => Some (r F).
Definition portfolio_classic_opt : list (formula -> option formula) :=
  map lift SimplIntuit.INTUITIONISTIC ++ map lift SimplIntuit.HT ++ SimplClassic.CLASSIC_opt.

(*   match strategy { Shallow => simplification(formula),
                      Recursive => formula.apply(&mut simplification),
                      Fixpoint => formula.apply_fixpoint(&mut simplification) }   *)
Definition strategy_int (s : simplification_strategy) : Strategy.strategy :=
  match s with
  | Shallow => Strategy.Shallow
  | Recursive => Strategy.Recursive
  | Fixpoint_ => Strategy.Fixpoint_
  end.
Definition strategy_cls (s : simplification_strategy) : StrategyCls.strategy :=
  match s with
  | Shallow => StrategyCls.Shallow
  | Recursive => StrategyCls.Recursive
  | Fixpoint_ => StrategyCls.Fixpoint_
  end.

(* passes allowed to the (unbounded) fixpoint loop of the classic portfolio: a PARAMETER [fuel] of
   the model ([simplify_formula_fuel], ..., [run_cli_fuel]); [classic_fuel] = 64 is the executable
   instance ([run_cli], extracted and compared with the binary).  The loop terminates
   (C18_term_cls); Proofs/CliOk.v: a Stdout / Error / Panic answer is the same for every larger
   fuel, and for every input there is a fuel from which OutOfFuel can only come from the parser
   model (Cli_simplify_never_out_of_fuel).  For the other two portfolios [simplify_fuel] provably
   suffices. *)
Definition classic_fuel : nat := 64.

Definition simplify_formula_fuel (fuel : nat) (portfolio : simplification_portfolio) (strategy : simplification_strategy)
  (F : formula) : step formula :=
  match portfolio with
  | Classic =>
      match StrategyCls.run_strategy_opt fuel portfolio_classic_opt (strategy_cls strategy) F with
      | StrategyCls.RDone G => Got G
      | StrategyCls.RPanic => Stop Panic
      | StrategyCls.RNonterminating => Stop OutOfFuel
      end
  | Ht | Intuitionistic =>
      match Strategy.run_strategy (SimplIntuit.simplify_fuel F) (portfolio_total portfolio) (strategy_int strategy) F with
      | Some G => Got G
      | None => Stop OutOfFuel
      end
  end.

(* theory.into_iter().map(..).collect() *)
Fixpoint simplify_theory_fuel (fuel : nat) (portfolio : simplification_portfolio) (strategy : simplification_strategy)
  (t : theory) : step theory :=
  match t with
  | [] => Got []
  | F :: rest =>
      match simplify_formula_fuel fuel portfolio strategy F with
      | Got G =>
          match simplify_theory_fuel fuel portfolio strategy rest with
          | Got Gs => Got (G :: Gs)
          | Stop r => Stop r
          end
      | Stop r => Stop r
      end
  end.

Definition run_simplify_fuel (fuel : nat) (portfolio : simplification_portfolio) (strategy : simplification_strategy)
  (text : string) : cli_result :=
  bind (theory_from_file text) (fun theory =>
  bind (simplify_theory_fuel fuel portfolio strategy theory) print_theory).

(* the instances at the executable fuel *)
Definition simplify_formula := simplify_formula_fuel classic_fuel.
Definition simplify_theory := simplify_theory_fuel classic_fuel.
Definition run_simplify := run_simplify_fuel classic_fuel.

(* ------------------------------------------------------------------ Command::Translate *)
Definition of_nresult_theory (r : nresult theory) : cli_result :=
  match r with NOk t => print_theory t | NRefused => Error | NPanic => Panic end.

Definition run_translate (with_ : translation) (text : string) : cli_result :=
  match with_ with
  | Completion =>
      (* theory.completion(IndexSet::new()).context("the given theory is not completable")? *)
      bind (theory_from_file text) (fun theory =>
      match Completion.completion theory [] with
      | Some completed_theory => print_theory completed_theory
      | None => Error
      end)
  | Gamma => bind (theory_from_file text) (fun theory => print_theory (Gamma.gamma_theory theory))
  | Mu => bind (program_from_file text) (fun program => of_nresult_theory (CliMu.mu program))
  | Natural =>
      (* program.natural().context("the given program is not regular")? *)
      bind (program_from_file text) (fun program => of_nresult_theory (Natural.natural program))
  | TauStar =>
      bind (program_from_file text) (fun program =>
      match TauStar.tau_star program with
      | Some theory => print_theory theory
      | None => Panic                     (* F11: overflow in choose_fresh_global_variables *)
      end)
  end.

(* ------------------------------------------------------------------ main *)
Definition run_cli_fuel (fuel : nat) (c : command) (text : string) : cli_result :=
  match c with
  | Analyze property => run_analyze property text
  | Parse as_ => run_parse as_ text
  | Simplify portfolio strategy => run_simplify_fuel fuel portfolio strategy text
  | Translate with_ => run_translate with_ text
  end.
(* the executable instance (extracted; tied to the binary by the op cli_run) *)
Definition run_cli : command -> string -> cli_result := run_cli_fuel classic_fuel.

(* EXTRACT: run_cli command cli_result *)
