(* Model of /repo/src/analyzing/private_recursion.rs:
   true when some choice rule has a private head predicate, or when the graph on the private
   predicates of the program (edge head -> every private predicate of the body, whatever its
   sign) has a cycle.  The cycle test is the model's own [is_acyclic] (Model/Tightness.v). *)
From Coq Require Import List Ascii String ZArith Bool.
From Anthem Require Import Base.ISet Syntax.Fol Syntax.Asp Model.Tightness.
Import ListNotations.
Open Scope list_scope.

Definition private_choice_head (private_predicates : list pred) (r : rule) : bool :=
  match rhead r with
  | HChoice a => memb pred_dec (atom_pred a) private_predicates
  | HBasic _ | HFalsity => false
  end.

Definition rule_priv_edges (private_predicates : list pred) (r : rule) : list edge :=
  match head_pred (rhead r) with
  | Some h =>
      if memb pred_dec h private_predicates then
        map (fun q => (h, q)) (filter (fun q => memb pred_dec q private_predicates) (body_preds (rbody r)))
      else []
  | None => []
  end.
Definition priv_edges (p : program) (private_predicates : list pred) : list edge :=
  flat_map (rule_priv_edges private_predicates) p.
Definition priv_nodes (p : program) (private_predicates : list pred) : list pred :=
  filter (fun q => memb pred_dec q private_predicates) (program_preds p).

Definition has_private_recursion (p : program) (private_predicates : list pred) : bool :=
  if existsb (private_choice_head private_predicates) p then true
  else negb (is_acyclic (priv_nodes p private_predicates) (priv_edges p private_predicates)).

(* EXTRACT: has_private_recursion *)
