(* Model of /repo/src/verifying/task/strong_equivalence.rs: the ASSEMBLY of the strong-equivalence
   task.  The component translations (tau-star, mu, the two fixpoint simplifications) are parameters of
   the model (Section variables); gamma, equivalence breaking, problem assembly and decomposition are
   the models of this development.  The correspondence run instantiates the parameters with tables
   computed by the real component functions in the documented order, so a different pipeline order
   in the code shows up as a disagreement. *)
From Coq Require Import List Ascii String ZArith NArith Bool.
From Anthem Require Import Base.ISet Base.Fresh Syntax.Fol Syntax.Asp Model.Apply Model.Gamma Model.Break Model.Problem.
Import ListNotations.
Open Scope list_scope.
Open Scope string_scope.

(* command_line::arguments::FormulaRepresentation *)
Inductive frepr := ReprMu | ReprTauStar.

Record strong_task := mkstrong {
  st_left : program; st_right : program;
  st_decomposition : decomposition; st_direction : direction;
  st_repr : frepr; st_simplify : bool; st_break : bool }.

(* Predicate::to_formula: p(X1, ..., Xn) with general variables *)
Fixpoint xvars_from (i : N) (n : nat) : list gterm :=
  match n with O => [] | S n' => GVar ("X" ++ nat_str i) :: xvars_from (N.succ i) n' end.
Definition pred_to_formula (p : pred) : formula :=
  FAtomic (AAtom (psym p) (xvars_from 1 (parity p))).

(* transition: forall X (hp(X) -> tp(X)); no quantifier for arity 0 *)
Definition transition (p : pred) : formula :=
  let hp := here (pred_to_formula p) in
  let tp := there (pred_to_formula p) in
  quantify (FBin CImp hp tp) QForall (free_variables hp).

Definition strong_predicates (l r : program) : list pred :=
  iset_extend pred_dec (program_preds l) (program_preds r).
Definition transition_axioms (l r : program) : theory := map transition (strong_predicates l r).

(* Problem::add_theory with names  <prefix>_<i> *)
Fixpoint name_theory_from (prefix : string) (role : prole) (i : N) (t : theory) : list pformula :=
  match t with
  | [] => []
  | f :: t' => mkpf (prefix ++ "_" ++ nat_str i) role f :: name_theory_from prefix role (N.succ i) t'
  end.
Definition add_theory (p : problem) (prefix : string) (role : prole) (t : theory) : problem :=
  mkproblem (pb_name p) (pb_formulas p ++ name_theory_from prefix role 0 t).

(* the problem "forward" (axioms = ax_t named ax_n, conjectures = cj_t named cj_n) resp. "backward" *)
Definition strong_problem (name : string) (ta : theory) (ax_n : string) (ax_t : theory) (cj_n : string) (cj_t : theory) : problem :=
  create_unique_formula_names
    (rename_conflicting_symbols
       (add_theory (add_theory (add_theory (with_name name) "transition_axiom" PAxiom ta) ax_n PAxiom ax_t)
                   cj_n PConjecture cj_t)).

Definition dir_forward (d : direction) : bool := match d with DUniversal | DForward => true | DBackward => false end.
Definition dir_backward (d : direction) : bool := match d with DUniversal | DBackward => true | DForward => false end.

(* strong_assemble: from the final left/right theories to the list of problems *)
Definition strong_assemble (ta left right : theory) (dir : direction) (dec : decomposition) : list problem :=
  let fw := if dir_forward dir then [strong_problem "forward" ta "left" left "right" right] else [] in
  let bw := if dir_backward dir then [strong_problem "backward" ta "right" right "left" left] else [] in
  flat_map (fun p => decompose p dec) (fw ++ bw).

Section Components.
(* program -> theory: Program::tau_star, Program::mu *)
Variable tau_star : program -> theory.
Variable mu : program -> theory.
(* f.apply_fixpoint(INTUITIONISTIC ++ HT)  and  f.apply_fixpoint(INTUITIONISTIC ++ HT ++ CLASSIC) *)
Variable simp_ht : formula -> formula.
Variable simp_classic : formula -> formula.

(* the pipeline applied to each side, in the order of StrongEquivalenceTask::decompose *)
Definition strong_side (t : strong_task) (p : program) : theory :=
  let t0 := match st_repr t with ReprMu => mu p | ReprTauStar => tau_star p end in
  let t1 := if st_simplify t then map simp_ht t0 else t0 in
  let t2 := gamma_theory t1 in
  let t3 := if st_simplify t then map simp_classic t2 else t2 in
  if st_break t then break_equivalences_theory t3 else t3.

Definition strong_decompose (t : strong_task) : list problem :=
  strong_assemble (transition_axioms (st_left t) (st_right t))
                  (strong_side t (st_left t)) (strong_side t (st_right t))
                  (st_direction t) (st_decomposition t).
End Components.

(* EXTRACT: strong_task transition_axioms strong_assemble strong_decompose strong_side strong_predicates *)
