(* The external-equivalence pipeline with ALL components instantiated by their models:

     ExternalEquivalenceTask{..}.decompose()
       = external_validate                       (Model/External.v; is_tight = Model/Tightness.v,
                                                  has_private_recursion = Model/PrivRec.v)
       ; program.tau_star()                      (Model/TauStar.v;   None = overflow panic, F11)
           .replace_placeholders(..)             (Model/Outline.v)
           .completion(inputs).expect(..)        (Model/Completion.v; None = panic)
           + the empty completed definitions of the missing output predicates that occur in the task
                                                 (Model/External.v missing_output_definitions,
                                                  task_occurring_predicates; /repo 70e6ace, 18b2e85)
       ; [INTUITIONISTIC, HT, CLASSIC].concat().compose(), apply_fixpoint on every formula
                                                 (Model/SimplIntuit.v, SimplClassic.v, StrategyCls.v;
                                                  panics of the classic rewrites visible)
       ; control_translate / renaming / outline / assembly   (Model/External.v)

   Model/External.v takes the components as Section variables of TOTAL type
   (tau_star : program -> theory, simp_classic : formula -> formula).  The real components are
   partial (tau* can panic; the classic fixpoint loop is unbounded - it terminates, C18_term_cls, but
   the bound is not executable; the classic rewrites contain `panic!`s - unreachable on completed
   tau* theories, Proofs/NoPanic.v), so the instantiation is guarded: the
   translations are first run with all outcomes visible ([translate_status], same order of effects
   as the closures `theory_translate` in the source: specification program first, then the program;
   within one program tau*, completion, then the formulas left to right); only when every step
   returns a value is External.external_decompose run, with the totalised components, which then
   take exactly those values.  The fixpoint loop gets explicit fuel: [XNonterminating] stands for
   "more than [fuel] further passes" - a fuel artefact: Proofs/ExtFuel.v shows that an answer other
   than XNonterminating is the answer of every larger fuel and that from [ext_fuel_bound t] on the
   answer is never XNonterminating. *)
From Coq Require Import List Ascii String ZArith NArith Bool.
From Anthem Require Import Base.ISet Syntax.Fol Syntax.Asp Model.Apply
  Model.Break Model.Problem Model.Outline Model.Strong Model.External
  Model.Tightness Model.PrivRec Model.TauStar Model.Completion Model.SimplIntuit Model.SimplClassic
  Model.StrategyCls.
Import ListNotations.
Open Scope string_scope.
Open Scope list_scope.

(* ---------- program.tau_star().completion(inputs), end to end ---------- *)
(* Panic: tau* overflow.  Ok None: completion refused (C04_tau_star_completable: never). *)
Definition tau_star_completion (p : program) (inputs : list pred) : result (option theory) unit :=
  match TauStar.tau_star p with
  | None => Panic
  | Some g => Ok (completion g inputs)
  end.

(* ---------- the classic portfolio of `verify`, panics and fuel visible ---------- *)
Definition lift_total (r : formula -> formula) : formula -> option formula := fun F => Some (r F).
Definition FULL_CLASSIC_opt : list (formula -> option formula) :=
  map lift_total (INTUITIONISTIC ++ HT) ++ CLASSIC_opt.
Definition FULL_CLASSIC_total : list (formula -> formula) := INTUITIONISTIC ++ HT ++ CLASSIC.

Definition simp_classic_run (fuel : nat) (F : formula) : run_result :=
  run_strategy_opt fuel FULL_CLASSIC_opt Fixpoint_ F.
(* the total function handed to Model/External.v; only used where simp_classic_run is RDone *)
Definition simp_classic_total (fuel : nat) (F : formula) : formula :=
  match simp_classic_run fuel F with RDone G => G | _ => F end.

Definition tau_star_total (p : program) : theory :=
  match TauStar.tau_star p with Some g => g | None => [] end.

(* ---------- outcome of one `theory_translate` ---------- *)
Inductive tstatus := TDone | TPanic | TNonterminating.

Fixpoint simplify_status (fuel : nat) (th : theory) : tstatus :=
  match th with
  | [] => TDone
  | F :: th' =>
      match simp_classic_run fuel F with
      | RDone _ => simplify_status fuel th'
      | RPanic => TPanic
      | RNonterminating => TNonterminating
      end
  end.

Definition translate_status (fuel : nat) (t : ext_task) (m : placeholders) (p : program) : tstatus :=
  match TauStar.tau_star p with
  | None => TPanic
  | Some g =>
      match completion (rp_theory m g) (ug_input_predicates (et_user_guide t)) with
      | None => TPanic
      | Some th =>
          if et_simplify t
          then simplify_status fuel (th ++ missing_output_definitions (ug_output_predicates (et_user_guide t))
                                                                      (task_occurring_predicates t) th)
          else TDone
      end
  end.

Inductive ext_outcome :=
| XOk (w : list ext_warning) (pbs : list problem)
| XErr (e : ext_error)
| XPanic
| XNonterminating.

Definition of_result (r : result (list ext_warning * list problem) ext_error) : ext_outcome :=
  match r with
  | Ok (w, pbs) => XOk w pbs
  | Err e => XErr e
  | Panic => XPanic
  end.

Definition external_validate_full : ext_task -> result (list ext_warning) ext_error :=
  external_validate is_tight has_private_recursion.

(* External.external_decompose over the totalised real components *)
Definition external_decompose_total (fuel : nat) (t : ext_task) : result (list ext_warning * list problem) ext_error :=
  external_decompose is_tight has_private_recursion tau_star_total completion (simp_classic_total fuel) t.

Definition external_decompose_full (fuel : nat) (t : ext_task) : ext_outcome :=
  match external_validate_full t with
  | Err e => XErr e
  | Panic => XPanic
  | Ok _ =>
      let m := ph_of_fconsts (ug_placeholders (et_user_guide t)) in
      let left :=
        match et_specification t with
        | inl p => translate_status fuel t m p
        | inr _ => TDone
        end in
      match left with
      | TPanic => XPanic
      | TNonterminating => XNonterminating
      | TDone =>
          match translate_status fuel t m (et_program t) with
          | TPanic => XPanic
          | TNonterminating => XNonterminating
          | TDone => of_result (external_decompose_total fuel t)
          end
      end
  end.

(* the fuel used by the correspondence (the harness bounds its side by the same number) *)
Definition full_fuel : nat := 64.

(* EXTRACT: tau_star_completion external_decompose_full ext_outcome full_fuel simp_classic_run translate_status external_validate_full *)
