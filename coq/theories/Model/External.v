(* Model of /repo/src/verifying/task/external_equivalence.rs: the ensure_* applicability checks in
   source order, head_predicate, the public/private split, RenamePredicates, control_translate and
   the assembly ExternalEquivalenceTask -> ValidatedExternalEquivalenceTask ->
   AssembledExternalEquivalenceTask -> problems.
   The component analyses and translations (is_tight, has_private_recursion, tau_star, completion,
   the fixpoint simplification) are parameters (Section variables); the correspondence run
   instantiates them with the values computed by the real functions. *)
From Coq Require Import List Ascii String ZArith NArith Bool.
From Anthem Require Import Base.ISet Base.Fresh Syntax.Fol Syntax.Asp Model.Break Model.Problem Model.Outline Model.Strong.
From Anthem Require Model.Completion.
Import ListNotations.
Open Scope string_scope.
Open Scope list_scope.

(* the variants of ExternalEquivalenceTaskError / ExternalEquivalenceTaskWarning WITH the values
   they carry (audit B16: the payload is part of the compared output) *)
Inductive ext_error :=
| UnsupportedFormulaRepresentation
| NonTightProgram (p : program)
| ProgramContainsPrivateRecursion (p : program)
| InputOutputPredicatesOverlap (ps : list pred)
| InputPredicateInRuleHead (ps : list pred)
| OutputPredicateInUserGuideAssumption (ps : list pred)
| OutputPredicateInSpecificationAssumption (ps : list pred)
| PlaceholdersWithIdenticalNamesDifferentSorts (name : string)
| AssumptionContainsNonInputSymbols (a : aformula_annot)
| SpecificationContainsUnsupportedRoles (a : aformula_annot)
| ProofOutlineError (e : po_error).
Inductive ext_warning :=
| WNonTightProgram (p : program)
| WInconsistentDirectionAnnotation (a : aformula_annot)
| WInvalidRoleWithinUserGuide (a : aformula_annot)
| WDefinitionWithWarning (w : po_warning).

Record ext_task := mkext {
  et_specification : program + specification;
  et_program : program;
  et_user_guide : user_guide;
  et_proof_outline : specification;
  et_decomposition : decomposition;
  et_direction : direction;
  et_repr : frepr;
  et_bypass_tightness : bool;
  et_simplify : bool;
  et_break : bool }.

(* ---------- UserGuide accessors ---------- *)
Definition ug_input_predicates (u : user_guide) : list pred :=
  fold_left (fun acc e => match e with UGInput p => iset_insert pred_dec acc p | _ => acc end) u [].
Definition ug_output_predicates (u : user_guide) : list pred :=
  fold_left (fun acc e => match e with UGOutput p => iset_insert pred_dec acc p | _ => acc end) u [].
Definition ug_public_predicates (u : user_guide) : list pred :=
  iset_extend pred_dec (ug_input_predicates u) (ug_output_predicates u).
Definition ug_placeholders (u : user_guide) : list fconst :=
  fold_left (fun acc e => match e with UGPlaceholder n s => iset_insert fconst_dec acc (mkfconst n s) | _ => acc end) u [].
Definition ug_formulas (u : user_guide) : list aformula_annot :=
  flat_map (fun e => match e with UGFormula a => [a] | _ => [] end) u.

Definition spec_predicates (s : specification) : list pred :=
  extend_all pred_dec (fun a => predicates (an_formula a)) [] s.

(* IndexSet::intersection: elements of the first set that are in the second, in the first's order *)
Definition iset_inter {A} (dec : forall x y : A, {x = y} + {x <> y}) (a b : list A) : list A :=
  filter (fun x => memb dec x b) a.
Definition iset_diff {A} (dec : forall x y : A, {x = y} + {x <> y}) (a b : list A) : list A :=
  filter (fun x => negb (memb dec x b)) a.

(* ---------- RenamePredicates (mapping: predicate -> name extension) ---------- *)
Fixpoint rn_lookup (m : list (pred * string)) (p : pred) : option string :=
  match m with
  | [] => None
  | (q, e) :: m' => if pred_eqb q p then Some e else rn_lookup m' p
  end.
Definition rn_aformula (m : list (pred * string)) (a : aformula) : aformula :=
  match a with
  | AAtom p ts =>
      match rn_lookup m (mkpred p (List.length ts)) with
      | Some ext => AAtom (p ++ "_" ++ ext)%string ts
      | None => a
      end
  | _ => a
  end.
Fixpoint rename_predicates (m : list (pred * string)) (f : formula) : formula :=
  match f with
  | FAtomic a => FAtomic (rn_aformula m a)
  | FNot g => FNot (rename_predicates m g)
  | FBin c l r => FBin c (rename_predicates m l) (rename_predicates m r)
  | FQ q vs g => FQ q vs (rename_predicates m g)
  end.
Definition rename_predicates_annot (m : list (pred * string)) (a : aformula_annot) : aformula_annot :=
  mkannot (an_role a) (an_dir a) (an_name a) (rename_predicates m (an_formula a)).

(* ---------- head_predicate / control_translate ---------- *)
Fixpoint head_predicate (f : formula) : option pred :=
  match f with
  | FBin CIff (FAtomic (AAtom p ts)) _ => Some (mkpred p (List.length ts))
  | FQ QForall _ g => head_predicate g
  | _ => None
  end.

Definition nat_to_str (n : nat) : string := nat_str (N.of_nat n).

Fixpoint control_translate_from (public : list pred) (k : N) (t : theory) : specification :=
  match t with
  | [] => []
  | f :: t' =>
      match head_predicate f with
      | Some p =>
          let name := ("completed_definition_of_" ++ psym p ++ "_" ++ nat_to_str (parity p))%string in
          mkannot (if memb pred_dec p public then RSpec else RAssumption) DUniversal name f
            :: control_translate_from public k t'
      | None =>
          mkannot RSpec DUniversal ("constraint_" ++ nat_str k)%string f
            :: control_translate_from public (N.succ k) t'
      end
  end.
Definition control_translate (public : list pred) (t : theory) : specification :=
  control_translate_from public 0 t.

(* ---------- ValidatedExternalEquivalenceTask ---------- *)
Record validated_task := mkvalidated {
  vt_left : list aformula_annot; vt_right : list aformula_annot;
  vt_user_guide_assumptions : list aformula_annot;
  vt_proof_outline : proof_outline;
  vt_decomposition : decomposition; vt_direction : direction; vt_break : bool }.

Record assembled_task := mkassembled {
  at_stable_premises : list pformula;
  at_forward_premises : list pformula; at_forward_conclusions : list pformula;
  at_backward_premises : list pformula; at_backward_conclusions : list pformula;
  at_proof_outline : proof_outline;
  at_decomposition : decomposition; at_direction : direction }.

Definition conclusions_of (brk : bool) (a : aformula_annot) : list pformula :=
  if brk then map (fun b => into_problem_formula b PConjecture) (break_equivalences_annotated_formula a)
  else [into_problem_formula a PConjecture].

(* accumulator of the two loops of ValidatedExternalEquivalenceTask::decompose *)
Record vacc := mkvacc {
  va_stable : list pformula; va_fp : list pformula; va_fc : list pformula;
  va_bp : list pformula; va_bc : list pformula; va_warn : list ext_warning }.

(* one formula of the LEFT side; None = unreachable!() *)
Definition validated_left_step (brk : bool) (s : vacc) (a : aformula_annot) : option vacc :=
  match an_role a with
  | RAssumption =>
      match an_dir a with
      | DUniversal => Some (mkvacc (va_stable s ++ [into_problem_formula a PAxiom]) (va_fp s) (va_fc s) (va_bp s) (va_bc s) (va_warn s))
      | DForward => Some (mkvacc (va_stable s) (va_fp s ++ [into_problem_formula a PAxiom]) (va_fc s) (va_bp s) (va_bc s) (va_warn s))
      | DBackward => Some (mkvacc (va_stable s) (va_fp s) (va_fc s) (va_bp s) (va_bc s) (va_warn s ++ [WInconsistentDirectionAnnotation a]))
      end
  | RSpec =>
      let fp := if dir_forward (an_dir a) then va_fp s ++ [into_problem_formula a PAxiom] else va_fp s in
      let bc := if dir_backward (an_dir a) then va_bc s ++ conclusions_of brk a else va_bc s in
      Some (mkvacc (va_stable s) fp (va_fc s) (va_bp s) bc (va_warn s))
  | RLemma | RDefinition | RInductiveLemma => None
  end.
Definition validated_right_step (brk : bool) (s : vacc) (a : aformula_annot) : option vacc :=
  match an_role a with
  | RAssumption =>
      match an_dir a with
      | DUniversal => Some (mkvacc (va_stable s ++ [into_problem_formula a PAxiom]) (va_fp s) (va_fc s) (va_bp s) (va_bc s) (va_warn s))
      | DForward => Some (mkvacc (va_stable s) (va_fp s) (va_fc s) (va_bp s) (va_bc s) (va_warn s ++ [WInconsistentDirectionAnnotation a]))
      | DBackward => Some (mkvacc (va_stable s) (va_fp s) (va_fc s) (va_bp s ++ [into_problem_formula a PAxiom]) (va_bc s) (va_warn s))
      end
  | RSpec =>
      let bp := if dir_backward (an_dir a) then va_bp s ++ [into_problem_formula a PAxiom] else va_bp s in
      let fc := if dir_forward (an_dir a) then va_fc s ++ conclusions_of brk a else va_fc s in
      Some (mkvacc (va_stable s) (va_fp s) fc bp (va_bc s) (va_warn s))
  | RLemma | RDefinition | RInductiveLemma => None
  end.
Fixpoint fold_opt {A B} (f : A -> B -> option A) (l : list B) (a : A) : option A :=
  match l with
  | [] => Some a
  | b :: l' => match f a b with Some a' => fold_opt f l' a' | None => None end
  end.

(* ---------- AssembledExternalEquivalenceTask::decompose ---------- *)
Definition final_problem (name : string) (stable premises : list pformula) (lemmas : list general_lemma)
           (conclusions : list pformula) (dec : decomposition) : list problem :=
  decompose
    (create_unique_formula_names
       (rename_conflicting_symbols
          (add_annotated_formulas
             (add_annotated_formulas
                (add_annotated_formulas
                   (add_annotated_formulas (with_name name) stable) premises)
                (flat_map gl_consequences lemmas))
             conclusions)))
    dec.

Definition direction_problems (prefix : string) (stable premises : list pformula)
           (definitions : list aformula_annot) (lemmas : list general_lemma)
           (conclusions : list pformula) (dec : decomposition) : list problem :=
  let axioms := stable ++ premises ++ map (fun d => into_problem_formula d PAxiom) definitions in
  outline_problems prefix 0 axioms lemmas
    ++ final_problem (prefix ++ "_problem")%string stable premises lemmas conclusions dec.

Definition assembled_decompose (t : assembled_task) : list problem :=
  (if dir_forward (at_direction t)
   then direction_problems "forward" (at_stable_premises t) (at_forward_premises t)
          (forward_definitions (at_proof_outline t)) (forward_lemmas (at_proof_outline t))
          (at_forward_conclusions t) (at_decomposition t)
   else [])
  ++
  (if dir_backward (at_direction t)
   then direction_problems "backward" (at_stable_premises t) (at_backward_premises t)
          (backward_definitions (at_proof_outline t)) (backward_lemmas (at_proof_outline t))
          (at_backward_conclusions t) (at_decomposition t)
   else []).

(* ValidatedExternalEquivalenceTask::decompose; Panic = unreachable!() on a Lemma / Definition /
   InductiveLemma role among the left or right formulas (no longer reachable from
   external_decompose since /repo be1055e: ensure_specification_roles_are_supported admits
   assumption / spec only, [spec_roles_supported]; kept for validated tasks built by hand) *)
Definition validated_assemble (t : validated_task) : option (list ext_warning * assembled_task) :=
  let s0 := mkvacc (map (fun a => into_problem_formula a PAxiom) (vt_user_guide_assumptions t)) [] [] [] [] [] in
  match fold_opt (validated_left_step (vt_break t)) (vt_left t) s0 with
  | None => None
  | Some s1 =>
      match fold_opt (validated_right_step (vt_break t)) (vt_right t) s1 with
      | None => None
      | Some s =>
          Some (va_warn s,
                mkassembled (va_stable s) (va_fp s) (va_fc s) (va_bp s) (va_bc s)
                            (vt_proof_outline t) (vt_decomposition t) (vt_direction t))
      end
  end.
Definition validated_decompose (t : validated_task) : result (list ext_warning * list problem) ext_error :=
  match validated_assemble t with
  | None => Panic
  | Some (w, a) => Ok (w, assembled_decompose a)
  end.

(* ---------- the ensure_* checks ---------- *)
Definition is_nil {A} (l : list A) : bool := match l with [] => true | _ => false end.
Definition head_predicates_fol (p : program) : list pred := program_head_preds p.

(* first repeated name among the placeholders (set of (name, sort)) *)
Fixpoint placeholder_clash (l : list fconst) (names : list string) : bool :=
  match l with
  | [] => false
  | c :: l' => if memb string_dec (fcname c) names then true else placeholder_clash l' (names ++ [fcname c])
  end.
(* ensure_placeholder_name_uniqueness: the name it returns (`p.name` of the first placeholder whose
   name was seen before); None <-> placeholder_clash = false (Proofs/ExternalOk.v) *)
Fixpoint placeholder_clash_name (l : list fconst) (names : list string) : option string :=
  match l with
  | [] => None
  | c :: l' => if memb string_dec (fcname c) names then Some (fcname c)
               else placeholder_clash_name l' (names ++ [fcname c])
  end.

Definition is_assumption (a : aformula_annot) : bool := match an_role a with RAssumption => true | _ => false end.

(* ensure_assumptions_only_contain_input_symbols *)
Definition assumptions_only_input (program_input_symbols inputs : list pred) (fs : list aformula_annot) : bool :=
  forallb (fun a => if is_assumption a
                    then subsetb pred_dec (predicates (an_formula a)) (iset_extend pred_dec program_input_symbols inputs)
                    else true) fs.
(* ensure_specification_assumptions_do_not_contain_output_predicates *)
Definition spec_assumptions_no_output (outputs : list pred) (fs : list aformula_annot) : bool :=
  forallb (fun a => if is_assumption a
                    then forallb (fun p => negb (memb pred_dec p outputs)) (predicates (an_formula a))
                    else true) fs.
(* ensure_specification_roles_are_supported *)
Definition spec_roles_supported (fs : list aformula_annot) : bool :=
  forallb (fun a => match an_role a with RAssumption | RSpec => true | _ => false end) fs.

(* the values the three loops return (the loops stop at the first offending formula); each is None
   exactly when the boolean above is true (Proofs/ExternalOk.v first_*_none) *)
(* ensure_assumptions_only_contain_input_symbols: `formula.clone()` of the first assumption with
   `predicates.difference(&input_symbols).next().is_some()` *)
Definition first_non_input_assumption (program_input_symbols inputs : list pred) (fs : list aformula_annot)
  : option aformula_annot :=
  find (fun a => is_assumption a &&
                 negb (subsetb pred_dec (predicates (an_formula a)) (iset_extend pred_dec program_input_symbols inputs))) fs.
(* `formula.predicates().into_iter().filter(|p| output_predicates.contains(p)).collect()` *)
Definition output_overlap (outputs : list pred) (a : aformula_annot) : list pred :=
  filter (fun p => memb pred_dec p outputs) (predicates (an_formula a)).
(* ensure_specification_assumptions_do_not_contain_output_predicates: the overlap of the first
   assumption whose overlap is not empty *)
Fixpoint first_output_overlap (outputs : list pred) (fs : list aformula_annot) : option (list pred) :=
  match fs with
  | [] => None
  | a :: fs' =>
      if is_assumption a
      then if is_nil (output_overlap outputs a) then first_output_overlap outputs fs'
           else Some (output_overlap outputs a)
      else first_output_overlap outputs fs'
  end.
(* ensure_specification_roles_are_supported: the first formula that is neither assumption nor spec *)
Definition first_unsupported_role (fs : list aformula_annot) : option aformula_annot :=
  find (fun a => match an_role a with RAssumption | RSpec => false | _ => true end) fs.

(* ---------- the empty completed definitions of missing output predicates (/repo 70e6ace, 18b2e85) ----------
   `forall V1..Vn (p(V1..Vn) <-> #false)`: atomic_formula_from + the completed definition with no
   partial definition, i.e. exactly what completion.rs builds for a predicate that occurs in rule
   bodies only; for every output predicate (user-guide order) that is not a predicate of the
   completed theory (IndexSet::difference) and - since /repo 18b2e85 - occurs in the task
   (the `.filter(..)` with `occurring_predicates.contains`): an output predicate that occurs on NEITHER
   side gets no definition (the formula's size is proportional to the declared arity: C16) *)
Definition empty_definition (p : pred) : formula :=
  Completion.complete_definition (Completion.atomic_formula_from p, []).
Definition missing_output_definitions (outputs occurring : list pred) (th : theory) : theory :=
  map empty_definition
      (filter (fun p => memb pred_dec p occurring) (iset_diff pred_dec outputs (theory_predicates th))).

(* `occurring_predicates` of ExternalEquivalenceTask::decompose (/repo 18b2e85): the predicates of
   the specification side - program.predicates() mapped to fol predicates (an injective map of an
   IndexSet: program_preds) resp. Specification::predicates() - chained with the predicates of the
   program, collected into an IndexSet.  The code computes it once, after the private predicates and
   before the checks, and the closure `theory_translate` captures it; it is a total function of the
   task (no panic, no effect), so [theory_translate] below reads it off the task. *)
Definition task_occurring_predicates (t : ext_task) : list pred :=
  iset_extend pred_dec
    (match et_specification t with
     | inl p => program_preds p
     | inr s => spec_predicates s
     end)
    (program_preds (et_program t)).

Section Components.
Variable is_tight : program -> bool.
Variable has_private_recursion : program -> list pred -> bool.
Variable tau_star : program -> theory.
(* Theory::completion(inputs); None = "tau_star did not create a completable theory" (panic) *)
Variable completion : theory -> list pred -> option theory.
(* f.apply_fixpoint(INTUITIONISTIC ++ HT ++ CLASSIC) *)
Variable simp_classic : formula -> formula.

Definition ensure_program_tightness (t : ext_task) (p : program) : result (list ext_warning) ext_error :=
  if is_tight p then Ok []
  else if et_bypass_tightness t then Ok [WNonTightProgram p]
  else Err (NonTightProgram p).

Definition private_predicates (public : list pred) (l : list pred) : list pred :=
  filter (fun p => negb (memb pred_dec p public)) l.

(* the checks of ExternalEquivalenceTask::decompose before any translation, in source order;
   the result carries the tightness warnings *)
Definition external_validate (t : ext_task) : result (list ext_warning) ext_error :=
  let u := et_user_guide t in
  let inputs := ug_input_predicates u in
  let outputs := ug_output_predicates u in
  let public := ug_public_predicates u in
  let spec_private :=
    match et_specification t with
    | inl p => private_predicates public (program_preds p)
    | inr s => private_predicates public (spec_predicates s)
    end in
  let prog_private := private_predicates public (program_preds (et_program t)) in
  match et_repr t with
  | ReprMu => Err UnsupportedFormulaRepresentation
  | ReprTauStar =>
  if negb (is_nil (iset_inter pred_dec inputs outputs))
  then Err (InputOutputPredicatesOverlap (iset_inter pred_dec inputs outputs))
  else match ensure_program_tightness t (et_program t) with
  | Err e => Err e | Panic => Panic
  | Ok w1 =>
  if has_private_recursion (et_program t) prog_private
  then Err (ProgramContainsPrivateRecursion (et_program t))
  else if negb (is_nil (iset_inter pred_dec inputs (head_predicates_fol (et_program t))))
       then Err (InputPredicateInRuleHead (iset_inter pred_dec inputs (head_predicates_fol (et_program t))))
  else match placeholder_clash_name (ug_placeholders u) [] with
  | Some n => Err (PlaceholdersWithIdenticalNamesDifferentSorts n)
  | None =>
  match first_non_input_assumption [] inputs (ug_formulas u) with
  | Some a => Err (AssumptionContainsNonInputSymbols a)
  | None =>
    match et_specification t with
    | inl p =>
        match ensure_program_tightness t p with
        | Err e => Err e | Panic => Panic
        | Ok w2 =>
            if has_private_recursion p spec_private then Err (ProgramContainsPrivateRecursion p)
            else if negb (is_nil (iset_inter pred_dec inputs (head_predicates_fol p)))
                 then Err (InputPredicateInRuleHead (iset_inter pred_dec inputs (head_predicates_fol p)))
            else Ok (w1 ++ w2)
        end
    | inr s =>
        match first_output_overlap outputs s with
        | Some ps => Err (OutputPredicateInSpecificationAssumption ps)
        | None =>
        match first_non_input_assumption prog_private inputs s with
        | Some a => Err (AssumptionContainsNonInputSymbols a)
        | None =>
        match first_unsupported_role s with
        | Some a => Err (SpecificationContainsUnsupportedRoles a)
        | None => Ok w1
        end end end
    end
  end end
  end
  end.

(* ---------- the seven applicability conditions of C11 as decidable predicates over the task ---------- *)
Definition task_spec_private (t : ext_task) : list pred :=
  match et_specification t with
  | inl p => private_predicates (ug_public_predicates (et_user_guide t)) (program_preds p)
  | inr s => private_predicates (ug_public_predicates (et_user_guide t)) (spec_predicates s)
  end.
Definition task_prog_private (t : ext_task) : list pred :=
  private_predicates (ug_public_predicates (et_user_guide t)) (program_preds (et_program t)).

(* 1. both programs are tight, unless --bypass-tightness *)
Definition c_tight (t : ext_task) : bool :=
  et_bypass_tightness t
  || (is_tight (et_program t) && match et_specification t with inl p => is_tight p | inr _ => true end).
(* 2. free of private recursion *)
Definition c_no_private_recursion (t : ext_task) : bool :=
  negb (has_private_recursion (et_program t) (task_prog_private t))
  && match et_specification t with inl p => negb (has_private_recursion p (task_spec_private t)) | inr _ => true end.
(* 3. no input predicate heads a rule *)
Definition c_no_input_in_head (t : ext_task) : bool :=
  is_nil (iset_inter pred_dec (ug_input_predicates (et_user_guide t)) (head_predicates_fol (et_program t)))
  && match et_specification t with
     | inl p => is_nil (iset_inter pred_dec (ug_input_predicates (et_user_guide t)) (head_predicates_fol p))
     | inr _ => true end.
(* 4. input and output declarations are disjoint *)
Definition c_io_disjoint (t : ext_task) : bool :=
  is_nil (iset_inter pred_dec (ug_input_predicates (et_user_guide t)) (ug_output_predicates (et_user_guide t))).
(* 5. user-guide assumptions mention only input predicates *)
Definition c_ug_assumptions_inputs_only (t : ext_task) : bool :=
  assumptions_only_input [] (ug_input_predicates (et_user_guide t)) (ug_formulas (et_user_guide t)).
(* 6. specification assumptions mention no output predicate *)
Definition c_spec_assumptions_no_output (t : ext_task) : bool :=
  match et_specification t with
  | inl _ => true
  | inr s => spec_assumptions_no_output (ug_output_predicates (et_user_guide t)) s
  end.
(* 7. no placeholder is declared with two sorts *)
Definition c_placeholders_single_sorted (t : ext_task) : bool :=
  negb (placeholder_clash (ug_placeholders (et_user_guide t)) []).

(* theory_translate; None = panic (expect).  Since /repo 70e6ace (finding F17) every output
   predicate of the user guide that does not occur in the completed theory receives the empty
   completed definition, appended after the completion and before the simplification; since
   /repo 18b2e85 only if it occurs on some side of the task (task_occurring_predicates). *)
Definition theory_translate (t : ext_task) (m : placeholders) (p : program) : option theory :=
  match completion (rp_theory m (tau_star p)) (ug_input_predicates (et_user_guide t)) with
  | None => None
  | Some th0 =>
      let th := th0 ++ missing_output_definitions (ug_output_predicates (et_user_guide t))
                                                   (task_occurring_predicates t) th0 in
      Some (if et_simplify t then map simp_classic th else th)
  end.

(* the user-guide formulas: assumptions are kept (placeholders replaced), other roles give a
   warning; an assumption mentioning an output predicate is an error (unreachable after
   external_validate, kept for the order of effects) *)
Fixpoint user_guide_assumptions (outputs : list pred) (m : placeholders) (fs : list aformula_annot)
         (acc : list aformula_annot) (ws : list ext_warning)
  : result (list aformula_annot * list ext_warning) ext_error :=
  match fs with
  | [] => Ok (acc, ws)
  | a :: fs' =>
      if is_assumption a then
        if is_nil (output_overlap outputs a)
        then user_guide_assumptions outputs m fs' (acc ++ [rp_annot m a]) ws
        else Err (OutputPredicateInUserGuideAssumption (output_overlap outputs a))
      else user_guide_assumptions outputs m fs' acc (ws ++ [WInvalidRoleWithinUserGuide a])
  end.

(* ExternalEquivalenceTask::decompose *)
Definition external_decompose (t : ext_task) : result (list ext_warning * list problem) ext_error :=
  match external_validate t with
  | Err e => Err e
  | Panic => Panic
  | Ok w0 =>
      let u := et_user_guide t in
      let m := ph_of_fconsts (ug_placeholders u) in
      let public := ug_public_predicates u in
      let spec_private :=
        match et_specification t with
        | inl p => private_predicates public (program_preds p)
        | inr s => private_predicates public (spec_predicates s)
        end in
      let prog_private := private_predicates public (program_preds (et_program t)) in
      let left_opt :=
        match et_specification t with
        | inl p => option_map (control_translate public) (theory_translate t m p)
        | inr s => Some (rp_spec m s)
        end in
      match left_opt with
      | None => Panic
      | Some lft =>
          match theory_translate t m (et_program t) with
          | None => Panic
          | Some rt =>
              let mapping := map (fun p => (p, "p")) (iset_inter pred_dec spec_private prog_private) in
              let rgt := map (rename_predicates_annot mapping) (control_translate public rt) in
              match user_guide_assumptions (ug_output_predicates u) m (ug_formulas u) [] [] with
              | Err e => Err e
              | Panic => Panic
              | Ok (uga, w1) =>
                  let taken :=
                    extend_all pred_dec (fun a => predicates (an_formula a))
                      (extend_all pred_dec (fun a => predicates (an_formula a)) (ug_input_predicates u) lft)
                      rgt in
                  match from_specification (et_proof_outline t) taken m with
                  | Err e => Err (ProofOutlineError e)
                  | Panic => Panic
                  | Ok (o, pw) =>
                      let w2 := map WDefinitionWithWarning pw in
                      match validated_decompose
                              (mkvalidated lft rgt uga o (et_decomposition t) (et_direction t) (et_break t)) with
                      | Err e => Err e
                      | Panic => Panic
                      | Ok (w3, pbs) => Ok (w0 ++ w1 ++ w2 ++ w3, pbs)
                      end
                  end
              end
          end
      end
  end.
End Components.

(* EXTRACT: ext_task external_validate external_decompose validated_decompose assembled_decompose
   head_predicate control_translate rename_predicates ug_input_predicates ug_output_predicates
   ug_public_predicates ug_placeholders spec_predicates c_tight c_no_private_recursion c_no_input_in_head
   c_io_disjoint c_ug_assumptions_inputs_only c_spec_assumptions_no_output c_placeholders_single_sorted
   task_spec_private task_prog_private iset_inter empty_definition missing_output_definitions
   task_occurring_predicates *)
