(* Model of /repo/src/simplifying/fol/sigma_0/intuitionistic.rs and ht.rs: one Gallina function
   per rewrite, same names, match arms in source order.  `unbox`/`rebox` are the identity
   (Box = value).  `==` on terms/formulas is the derived structural equality
   (gterm_eqb / formula_eqb).  `Formula::conjoin` / `Formula::quantify` are Syntax/Fol.v's. *)
From Coq Require Import List Ascii String ZArith Bool.
From Anthem Require Import Base.ISet Syntax.Fol Model.Apply Model.Strategy.
Import ListNotations.
Open Scope string_scope.
Open Scope list_scope.

(* ---------- evaluate_comparisons ---------- *)
(* the `for Guard {relation, term: rhs} in guards` loop: one formula per guard, lhs threaded *)
Fixpoint evaluate_comparisons_guards (lhs : gterm) (guards : list guard) : list formula :=
  match guards with
  | [] => []
  | g :: guards' =>
      let relation := grel g in
      let rhs := gterm_of g in
      FAtomic (if gterm_eqb lhs rhs then
                 match relation with
                 | REq | RGe | RLe => ATrue
                 | RNe | RGt | RLt => AFalse
                 end
               else ACmp lhs [mkguard relation rhs])
      :: evaluate_comparisons_guards rhs guards'
  end.
Definition evaluate_comparisons (f : formula) : formula :=
  match f with
  | FAtomic (ACmp term guards) => conjoin (evaluate_comparisons_guards term guards)
  | x => x
  end.

(* ---------- definitions of connectives ---------- *)
(* not F => F -> #false   (unused in the portfolio: #[allow(dead_code)]) *)
Definition apply_negation_definition (f : formula) : formula :=
  match f with
  | FNot g => FBin CImp g (FAtomic AFalse)
  | x => x
  end.
(* F -> #false => not F *)
Definition apply_negation_definition_inverse (f : formula) : formula :=
  match f with
  | FBin CImp lhs (FAtomic AFalse) => FNot lhs
  | x => x
  end.
(* F <- G => G -> F *)
Definition apply_reverse_implication_definition (f : formula) : formula :=
  match f with
  | FBin CRimp lhs rhs => FBin CImp rhs lhs
  | x => x
  end.
(* F -> G => G <- F   (unused in the portfolio) *)
Definition apply_reverse_implication_definition_inverse (f : formula) : formula :=
  match f with
  | FBin CImp lhs rhs => FBin CRimp rhs lhs
  | x => x
  end.
(* F <-> G => (F -> G) and (G -> F)   (unused in the portfolio) *)
Definition apply_equivalence_definition (f : formula) : formula :=
  match f with
  | FBin CIff lhs rhs => conjoin [FBin CImp lhs rhs; FBin CImp rhs lhs]
  | x => x
  end.
(* (F -> G) and (G -> F) => F <-> G *)
Definition apply_equivalence_definition_inverse (f : formula) : formula :=
  match f with
  | FBin CAnd lhs rhs =>
      match lhs, rhs with
      | FBin CImp llhs lrhs, FBin CImp rlhs rrhs =>
          if formula_eqb llhs rrhs && formula_eqb lrhs rlhs
          then FBin CIff llhs lrhs
          else conjoin [lhs; rhs]
      | _, _ => conjoin [lhs; rhs]
      end
  | x => x
  end.

(* ---------- remove_identities ---------- *)
Definition remove_identities (f : formula) : formula :=
  match f with
  | FBin CAnd lhs (FAtomic ATrue) => lhs      (* F and #true => F *)
  | FBin CAnd (FAtomic ATrue) rhs => rhs      (* #true and F => F *)
  | FBin COr lhs (FAtomic AFalse) => lhs      (* F or #false => F *)
  | FBin COr (FAtomic AFalse) rhs => rhs      (* #false or F => F *)
  | FBin CImp (FAtomic ATrue) rhs => rhs      (* #true -> F => F *)
  | x => x
  end.

(* ---------- remove_annihilations ---------- *)
Definition remove_annihilations (f : formula) : formula :=
  match f with
  | FBin COr _ (FAtomic ATrue) => FAtomic ATrue        (* F or #true => #true *)
  | FBin COr (FAtomic ATrue) _ => FAtomic ATrue        (* #true or F => #true *)
  | FBin CAnd _ (FAtomic AFalse) => FAtomic AFalse     (* F and #false => #false *)
  | FBin CAnd (FAtomic AFalse) _ => FAtomic AFalse     (* #false and F => #false *)
  | FBin CImp _ (FAtomic ATrue) => FAtomic ATrue       (* F -> #true => #true *)
  | FBin CImp (FAtomic AFalse) _ => FAtomic ATrue      (* #false -> F => #true *)
  | FBin CImp lhs rhs => if formula_eqb lhs rhs then FAtomic ATrue else f   (* F -> F => #true *)
  | x => x
  end.

(* ---------- remove_idempotences ---------- *)
Definition remove_idempotences (f : formula) : formula :=
  match f with
  | FBin CAnd lhs rhs => if formula_eqb lhs rhs then lhs else f
  | FBin COr lhs rhs => if formula_eqb lhs rhs then lhs else f
  | x => x
  end.

(* ---------- remove_orphaned_variables ---------- *)
Definition remove_orphaned_variables (f : formula) : formula :=
  match f with
  | FQ quantifier variables g =>
      let free_vars := free_variables g in
      FQ quantifier (filter (fun v => memb var_dec v free_vars) variables) g
  | x => x
  end.

(* ---------- remove_empty_quantifications ---------- *)
Definition remove_empty_quantifications (f : formula) : formula :=
  match f with
  | FQ _ [] g => g
  | x => x
  end.

(* ---------- join_nested_quantifiers ---------- *)
(* derived Ord of Variable {name, sort}: name (byte-lexicographic), then General < Integer < Symbol *)
Definition sort_rank (s : sort) : nat :=
  match s with SGeneral => 0 | SInteger => 1 | SSymbol => 2 end.
Definition var_compare (a b : var) : comparison :=
  match String.compare (vname a) (vname b) with
  | Eq => Nat.compare (sort_rank (vsort a)) (sort_rank (vsort b))
  | c => c
  end.
Definition var_leb (a b : var) : bool :=
  match var_compare a b with Gt => false | _ => true end.
(* Vec::sort (stable; equal elements are identical, so any sorting algorithm gives the same list) *)
Fixpoint var_insert (v : var) (l : list var) : list var :=
  match l with
  | [] => [v]
  | w :: l' => if var_leb v w then v :: l else w :: var_insert v l'
  end.
Definition var_sort (l : list var) : list var := fold_right var_insert [] l.
(* Vec::dedup: drop consecutive repetitions *)
Fixpoint var_dedup (l : list var) : list var :=
  match l with
  | [] => []
  | x :: l' =>
      match l' with
      | y :: _ => if var_eqb x y then var_dedup l' else x :: var_dedup l'
      | [] => [x]
      end
  end.
Definition join_nested_quantifiers (f : formula) : formula :=
  match f with
  | FQ outer_quantifier outer_variables (FQ inner_quantifier inner_variables inner_formula) =>
      if quant_dec outer_quantifier inner_quantifier
      then quantify inner_formula outer_quantifier (var_dedup (var_sort (outer_variables ++ inner_variables)))
      else f
  | x => x
  end.

(* ---------- portfolios ---------- *)
Definition INTUITIONISTIC : list (formula -> formula) :=
  [ evaluate_comparisons;
    apply_negation_definition_inverse;
    apply_reverse_implication_definition;
    apply_equivalence_definition_inverse;
    remove_identities;
    remove_annihilations;
    remove_idempotences;
    remove_orphaned_variables;
    remove_empty_quantifications;
    join_nested_quantifiers ].
Definition HT : list (formula -> formula) := [].

(* portfolios as concatenated in procedures.rs (Command::Simplify) and strong_equivalence.rs *)
Definition portfolio_intuitionistic : list (formula -> formula) := INTUITIONISTIC.
Definition portfolio_ht : list (formula -> formula) := INTUITIONISTIC ++ HT.

(* ---------- termination measure of the INTUITIONISTIC (= ht) portfolio (C18) ---------- *)
(* a chain with k >= 1 guards weighs 4k-2 (evaluate_comparisons splits it into k single-guard
   comparisons, weight 2 each, and k-1 conjunctions); `<-` weighs 2, every other connective 1;
   a quantifier block weighs 1 + its number of variables *)
Definition mu_chain (gs : list guard) : nat :=
  match gs with [] => 2 | _ => 4 * List.length gs - 2 end.
Definition mu_atomic (a : aformula) : nat :=
  match a with
  | ATrue | AFalse => 1
  | AAtom _ _ => 1
  | ACmp _ gs => mu_chain gs
  end.
Definition mu_conn (c : bconn) : nat := match c with CRimp => 2 | _ => 1 end.
Fixpoint mu (f : formula) : nat :=
  match f with
  | FAtomic a => mu_atomic a
  | FNot g => 1 + mu g
  | FBin c l r => mu_conn c + mu l + mu r
  | FQ _ vs g => 1 + List.length vs + mu g
  end.
(* fuel that provably suffices for the fixpoint strategy on the intuitionistic/ht portfolio *)
Definition simplify_fuel (f : formula) : nat := S (mu f).

Definition simplify_int (s : strategy) (f : formula) : option formula :=
  run_strategy (simplify_fuel f) portfolio_intuitionistic s f.
Definition simplify_ht (s : strategy) (f : formula) : option formula :=
  run_strategy (simplify_fuel f) portfolio_ht s f.

(* EXTRACT: evaluate_comparisons apply_negation_definition apply_negation_definition_inverse apply_reverse_implication_definition apply_reverse_implication_definition_inverse apply_equivalence_definition apply_equivalence_definition_inverse remove_identities remove_annihilations remove_idempotences remove_orphaned_variables remove_empty_quantifications join_nested_quantifiers INTUITIONISTIC HT portfolio_intuitionistic portfolio_ht mu simplify_fuel simplify_int simplify_ht *)
