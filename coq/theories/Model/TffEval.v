(* Executable evaluator of TFF formulas (Syntax/Tff.v) over a FINITE WINDOW of the standard
   structure, mirroring Sem/TffSem.v ([tstruct_of], [tenv_of]) on the finite interpretations of
   Model/Eval.v.  Used only by the semantic cross-checks (sem_tptp, C12 searches); NOT a proof. *)
From Coq Require Import List Ascii String ZArith NArith Bool.
From Anthem Require Import Syntax.Fol Syntax.Tff Sem.Domain Sem.TffSem Model.Eval.
Import ListNotations.
Open Scope string_scope.
Open Scope list_scope.

Definition tval_of_sort (s : sort) (d : gval) : tval :=
  match s, d with
  | SInteger, VNum z => TI z
  | SSymbol, VSym x => TS x
  | SInteger, _ => TI 0
  | SSymbol, _ => TS "a"
  | SGeneral, _ => TG d
  end.
Definition tval_eqb (a b : tval) : bool :=
  match a, b with
  | TI x, TI y => (x =? y)%Z
  | TS x, TS y => String.eqb x y
  | TG x, TG y => gval_eqb x y
  | _, _ => false
  end.
Definition w_type (W : window) (ty : tff_type) : list tval :=
  match ty with
  | TyInt => map TI (w_ints W)
  | TySymbol => map TS (w_syms W)
  | TyGeneral => map TG (w_general W)
  end.

Section TffEval.
Variable K : csig.       (* declared constants (Sem/TffSem.v); [] = interpret constants by suffix *)
Variable W : window.
Variable FI : ffint.     (* placeholders *)
Variable I : fpint.      (* true ground atoms *)
Variable E : fenv.       (* source-level assignment of the free variables *)

Fixpoint tlookup (te : list (string * tval)) (x : string) : tval :=
  match te with
  | [] => match decode x with
          | Some (y, s) => tval_of_sort s (flookup E (mkvar y s))
          | None => TI 0
          end
  | (y, v) :: te' => if String.eqb x y then v else tlookup te' x
  end.
Definition econst (n : string) : tval :=
  match clookup K n with
  | Some CSelf => TS n
  | Some (CPlace c s) => tval_of_sort s (fclookup FI (mkfconst c s))
  | None =>
      match decode n with
      | Some (x, s) => tval_of_sort s (fclookup FI (mkfconst x s))
      | None => TS n
      end
  end.
Definition estd_fun (f : string) (args : list tval) : tval :=
  match args with
  | [] => if String.eqb f "c__infimum__" then TG VInf
          else if String.eqb f "c__supremum__" then TG VSup
          else econst f
  | [a] => if String.eqb f "f__integer__" then TG (VNum (TffSem.as_int a))
           else if String.eqb f "f__symbolic__" then TG (VSym (TffSem.as_sym a))
           else if String.eqb f "$uminus" then TI (- TffSem.as_int a)
           else TI 0
  | [a; b] => if String.eqb f "$sum" then TI (TffSem.as_int a + TffSem.as_int b)
              else if String.eqb f "$difference" then TI (TffSem.as_int a - TffSem.as_int b)
              else if String.eqb f "$product" then TI (TffSem.as_int a * TffSem.as_int b)
              else TI 0
  | _ => TI 0
  end.
Fixpoint etev (te : list (string * tval)) (t : tff_term) : tval :=
  match t with
  | TNum n => TI (Z.of_N n)
  | TVar x => tlookup te x
  | TApp f args => estd_fun f (map (etev te) args)
  end.
Definition is_num (d : gval) : bool := match d with VNum _ => true | _ => false end.
Definition is_sym (d : gval) : bool := match d with VSym _ => true | _ => false end.
Definition estd_pred (p : string) (args : list tval) : bool :=
  if String.eqb p "$true" then true
  else if String.eqb p "$false" then false
  else match args with
  | [a] =>
      if String.eqb p "p__is_integer__" then is_num (as_gen a)
      else if String.eqb p "p__is_symbolic__" then is_sym (as_gen a)
      else fholds I p (map as_gen args)
  | [a; b] =>
      if String.eqb p "$less" then (TffSem.as_int a <? TffSem.as_int b)%Z
      else if String.eqb p "$lesseq" then (TffSem.as_int a <=? TffSem.as_int b)%Z
      else if String.eqb p "$greater" then (TffSem.as_int b <? TffSem.as_int a)%Z
      else if String.eqb p "$greatereq" then (TffSem.as_int b <=? TffSem.as_int a)%Z
      else if String.eqb p "p__less__" then glt (as_gen a) (as_gen b)
      else if String.eqb p "p__less_equal__" then gle (as_gen a) (as_gen b)
      else if String.eqb p "p__greater__" then glt (as_gen b) (as_gen a)
      else if String.eqb p "p__greater_equal__" then gle (as_gen b) (as_gen a)
      else fholds I p (map as_gen args)
  | _ => fholds I p (map as_gen args)
  end.
Fixpoint etqsat (q : quant) (vs : list (string * tff_type)) (k : list (string * tval) -> bool)
    (te : list (string * tval)) : bool :=
  match vs with
  | [] => k te
  | (x, ty) :: vs' =>
      match q with
      | QForall => forallb (fun v => etqsat q vs' k ((x, v) :: te)) (w_type W ty)
      | QExists => existsb (fun v => etqsat q vs' k ((x, v) :: te)) (w_type W ty)
      end
  end.
Fixpoint tff_eval_in (te : list (string * tval)) (f : tff_formula) : bool :=
  match f with
  | TPred p args => estd_pred p (map (etev te) args)
  | TEq l r => tval_eqb (etev te l) (etev te r)
  | TNeq l r => negb (tval_eqb (etev te l) (etev te r))
  | TNot g => negb (tff_eval_in te g)
  | TBin CAnd l r => tff_eval_in te l && tff_eval_in te r
  | TBin COr l r => tff_eval_in te l || tff_eval_in te r
  | TBin CImp l r => implb (tff_eval_in te l) (tff_eval_in te r)
  | TBin CRimp l r => implb (tff_eval_in te r) (tff_eval_in te l)
  | TBin CIff l r => Bool.eqb (tff_eval_in te l) (tff_eval_in te r)
  | TQ q vs g => etqsat q vs (fun te' => tff_eval_in te' g) te
  end.
Definition tff_eval (f : tff_formula) : bool := tff_eval_in [] f.
End TffEval.

(* EXTRACT: tff_eval *)
