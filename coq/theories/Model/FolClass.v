(* Decidable classes of target-language trees used by C15:
     wf_*            the lexical / structural side conditions every tree in the image of the parser
                     satisfies (names of the right lexical class, non-empty guard and binder lists,
                     numerals in isize, arities in usize);
     keyword_ident   F7b: some atomic formula begins with an identifier that has a keyword literal at
                     its front ("notp", "forallX"): the scannerless grammar reads the keyword first;
     rimp_neg        C15-RIMP: a reverse implication whose left side ends in a general term and whose
                     right side begins with an integer term: "p <- 1 = 1" is read as  p < -1 = 1.
   Both classes are the exclusions of the round-trip theorem; each has a witness (Properties/C15.v). *)
From Coq Require Import List Ascii String ZArith NArith Bool.
From Anthem Require Import Syntax.Fol Gen.TablesFol Model.FolPrint Model.FolLex Model.FolParse.
Import ListNotations.
Open Scope string_scope.
Open Scope list_scope.

(* ---------- well-formedness ---------- *)
Fixpoint wf_iterm (t : iterm) : bool :=
  match t with
  | INum z => in_isize z
  | IFun c => is_symbol_name c
  | IVar x => is_variable_name x
  | IUn _ a => wf_iterm a
  | IBin _ l r => wf_iterm l && wf_iterm r
  end.
Definition wf_sterm (t : sterm) : bool :=
  match t with SSym s => is_symbol_name s | SFun c => is_symbol_name c | SVar x => is_variable_name x end.
Definition wf_gterm (t : gterm) : bool :=
  match t with
  | GInf | GSup => true
  | GFun c => is_symbol_name c
  | GVar x => is_variable_name x
  | GInt t => wf_iterm t
  | GSym t => wf_sterm t
  end.
Definition wf_guard (g : guard) : bool := wf_gterm (gterm_of g).
Definition nonempty {A} (l : list A) : bool := match l with [] => false | _ => true end.
Definition wf_atomic (a : aformula) : bool :=
  match a with
  | ATrue | AFalse => true
  | AAtom p ts => is_symbol_name p && forallb wf_gterm ts
  | ACmp t gs => wf_gterm t && nonempty gs && forallb wf_guard gs
  end.
Definition wf_var (v : var) : bool := is_variable_name (vname v).
Fixpoint wf_formula (f : formula) : bool :=
  match f with
  | FAtomic a => wf_atomic a
  | FNot g => wf_formula g
  | FBin _ l r => wf_formula l && wf_formula r
  | FQ _ vs g => nonempty vs && forallb wf_var vs && wf_formula g
  end.
Definition wf_theory (t : theory) : bool := forallb wf_formula t.
Definition wf_annot (a : aformula_annot) : bool :=
  (is_empty (an_name a) || is_symbol_name (an_name a)) && wf_formula (an_formula a).
Definition wf_spec (s : specification) : bool := forallb wf_annot s.
Definition wf_pred (p : pred) : bool := is_symbol_name (psym p) && in_usize (N.of_nat (parity p)).
Definition wf_ug_entry (e : ug_entry) : bool :=
  match e with
  | UGInput p | UGOutput p => wf_pred p
  | UGPlaceholder n _ => is_symbol_name n
  | UGFormula a => wf_annot a
  end.
Definition wf_ug (u : user_guide) : bool := forallb wf_ug_entry u.

(* ---------- F7b: keyword literal at the front of an identifier in formula-start position ---------- *)
Definition has_prefix (kw w : string) : option (list ascii) := strip_prefix (chars kw) (chars w).
Definition is_wupper (w : list ascii) : bool := match word_class w with WUpper => true | _ => false end.
Definition kw_prefixed (w : string) : bool :=
  match has_prefix "not" w with
  | Some _ => true
  | None =>
      match has_prefix "forall" w with
      | Some rem => is_wupper rem
      | None => match has_prefix "exists" w with Some rem => is_wupper rem | None => false end
      end
  end.
(* the identifier an atomic formula's text begins with, looking through opening parentheses *)
Fixpoint lead_ident (ts : list token) : option string :=
  match ts with
  | TLParen :: r => lead_ident r
  | TWord w :: _ => Some w
  | TFun w _ :: _ => Some w
  | _ => None
  end.
Definition kwi_atomic (a : aformula) : bool :=
  match lead_ident (print_atomic false a) with Some w => kw_prefixed w | None => false end.
Fixpoint keyword_ident (f : formula) : bool :=
  match f with
  | FAtomic a => kwi_atomic a
  | FNot g => keyword_ident g
  | FBin _ l r => keyword_ident l || keyword_ident r
  | FQ _ _ g => keyword_ident g
  end.

(* ---------- C15-RIMP ---------- *)
Definition lhs_paren (f l : formula) : bool := paren_lhs (fprec f) (fprec l) (fmand l) (fassoc l).
Definition rhs_paren (f r : formula) : bool := paren_rhs (fprec f) (fprec r) (fmand r) (fassoc f).
Definition un_paren (f g : formula) : bool := paren_unary (fprec f) (fprec g) (fmand g).
Definition q_paren (f g : formula) : bool :=
  begins_with_variable (render (print_formula true g)) || un_paren f g.
(* the printed text ends with a general term that is not enclosed in parentheses *)
Fixpoint ends_term (f : formula) : bool :=
  match f with
  | FAtomic (ACmp _ _) => true
  | FAtomic (AAtom _ []) => true
  | FAtomic _ => false
  | FNot g => if un_paren f g then false else ends_term g
  | FQ _ _ g => if q_paren f g then false else ends_term g
  | FBin _ _ r => if rhs_paren f r then false else ends_term r
  end.
(* the printed text begins with an integer term *)
Fixpoint starts_int (f : formula) : bool :=
  match f with
  | FAtomic (ACmp (GInt _) _) => true
  | FAtomic _ => false
  | FNot _ | FQ _ _ _ => false
  | FBin _ l _ => if lhs_paren f l then false else starts_int l
  end.
Fixpoint rimp_neg (f : formula) : bool :=
  match f with
  | FAtomic _ => false
  | FNot g => rimp_neg g
  | FQ _ _ g => rimp_neg g
  | FBin c l r =>
      rimp_neg l || rimp_neg r
      || match c with
         | CRimp => negb (lhs_paren f l) && ends_term l && negb (rhs_paren f r) && starts_int r
         | _ => false
         end
  end.

Definition known_class (f : formula) : option string :=
  if keyword_ident f then Some "F7b" else if rimp_neg f then Some "C15-RIMP" else None.
(* stand-alone formulas only (F7c): the printed text ends with a keyword-named identifier; the `keyword`
   rule of the grammar refuses it at the end of the input (inside a theory a "." follows) *)
Definition known_class_alone (f : formula) : option string :=
  match known_class f with Some c => Some c | None => if keyword_at_end f then Some "F7c" else None end.
Fixpoint first_some {A B} (g : A -> option B) (l : list A) : option B :=
  match l with [] => None | x :: r => match g x with Some y => Some y | None => first_some g r end end.
Definition known_class_theory (t : theory) : option string := first_some known_class t.
Definition known_class_spec (s : specification) : option string := first_some (fun a => known_class (an_formula a)) s.
Definition known_class_ug (u : user_guide) : option string :=
  first_some (fun e => match e with UGFormula a => known_class (an_formula a) | _ => None end) u.

(* EXTRACT: known_class_alone wf_formula wf_theory wf_spec wf_ug known_class known_class_theory known_class_spec known_class_ug keyword_ident rimp_neg *)
