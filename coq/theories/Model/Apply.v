(* Model of /repo/src/convenience/apply/mod.rs and compose/mod.rs *)
From Coq Require Import List.
From Anthem Require Import Syntax.Fol.
Import ListNotations.

(* Apply::apply: post-order traversal *)
Fixpoint apply (f : formula -> formula) (x : formula) : formula :=
  f (match x with
     | FAtomic a => FAtomic a
     | FNot g => FNot (apply f g)
     | FBin c l r => FBin c (apply f l) (apply f r)
     | FQ q vs g => FQ q vs (apply f g)
     end).

(* Apply::apply_fixpoint: the Rust loop is unbounded; the model takes fuel and returns None when
   it runs out (theorems about it are stated for the Some case; termination is C18). *)
Fixpoint apply_fixpoint_from (fuel : nat) (f : formula -> formula) (previous current : formula) : option formula :=
  if formula_eqb previous current then Some current
  else match fuel with
       | O => None
       | S n => apply_fixpoint_from n f current (apply f current)
       end.
Definition apply_fixpoint (fuel : nat) (f : formula -> formula) (x : formula) : option formula :=
  apply_fixpoint_from fuel f x (apply f x).

(* Compose::compose: left fold *)
Definition compose {X} (fs : list (X -> X)) (x : X) : X := fold_left (fun x f => f x) fs x.

(* EXTRACT: apply apply_fixpoint compose *)
