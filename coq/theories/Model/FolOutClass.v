(* Decidable classes of INPUT PROGRAMS used by the output theorems of C15 for `translate --with natural`
   and `translate --with mu` (Properties/C15out.v), next to [no_keyword_predicate] of Model/CliOut.v.

   Class F7b on the output side (Model/FolClass.keyword_ident): an atomic formula whose text begins with
   an identifier that carries a keyword literal at its front (`notq`, `forallX`).  tau* only ever puts the
   program's PREDICATE NAMES into that position (every comparison it builds begins with a variable), so
   [no_keyword_predicate] is its exact exclusion.  natural / mu print a body comparison `t1 rel t2` with
   the translation of t1 first, and a term of the first kind may be a symbolic constant:

        p :- notq = 1.        natural, mu:   notq = 1 -> p.     read back as    not q = 1 -> p.
        p :- forallX = 1.     natural, mu:   forallX = 1 -> p.  refused

   (audit 2, finding B4; recorded as F7e).  The only other comparisons natural builds begin with the lower
   bound of an interval (`t = t1..t2` is printed `t1 <= t <= t2`; head intervals `t1 <= N <= t2`), and a
   bound that is a symbolic constant makes the rule irregular (refused by natural, sent to tau* by mu).
   Head arguments and arguments of body literals are never in formula-start position.

   [no_keyword_front P]: no predicate name of P is keyword-prefixed, and no body comparison of P whose
   left-hand side natural prints first has a keyword-prefixed symbolic constant as its left-hand side.
   It is EXACT for natural (Proofs/FolOutputNatural.v: natural_output_F7b_iff). *)
From Coq Require Import List Ascii String Bool.
From Anthem Require Import Syntax.Fol Syntax.Asp Model.Natural Model.FolClass Model.CliOut.
Import ListNotations.

(* a symbolic constant with a keyword literal at its front *)
Definition kw_symbol (t : term) : bool :=
  match t with TPre (PSym s) => kw_prefixed s | _ => false end.

(* natural_comparison prints `t = t1..t2` as `t1 <= t <= t2`; every other comparison with its own
   left-hand side first *)
Definition is_interval_membership (c : comparison) : bool :=
  (match crel c with AEq => true | _ => false end) && is_term_regular_of_second_kind (crhs c).

Definition kwfree_cmp (c : comparison) : bool :=
  negb (kw_symbol (clhs c)) || is_interval_membership c.

Definition kwfront_free_bformula (b : bformula) : bool :=
  match b with BLit l => kwfree_atom (latom l) | BCmp c => kwfree_cmp c end.
Definition kwfront_free_rule (r : rule) : bool :=
  kwfree_head (rhead r) && forallb kwfront_free_bformula (rbody r).
Definition no_keyword_front (p : program) : bool := forallb kwfront_free_rule p.

(* EXTRACT: no_keyword_front kw_symbol *)
