(* Char-level lexical model of /repo/src/parsing/fol/sigma_0/grammar.pest.
   The grammar is a scannerless PEG; [lex] cuts the text into the maximal lexical atoms the grammar can
   consume at a position, independently of the syntactic context:
     WHITESPACE (blank, newline) and COMMENT (% to end of line) are dropped (they may occur between any
       two tokens below and nowhere inside one: the rules below are the atomic (@) and compound-atomic
       ($) rules of the grammar);
     a run of [A-Za-z0-9_] starting with a letter or '_' is one word: symbolic_constant shape ->
       TWord / with a sort suffix TFun; unsorted_variable shape -> TVar (suffix $g|$general, $i|$integer,
       $s|$symbol, a bare '$' = integer, none = general); any other shape -> TBad;
     numerals: "0" alone, or [1-9][0-9]*; "-" glued to [1-9] is TNegNum (numeral or subtract+numeral:
       decided by the parser), "<-" glued to [1-9] is TRimpNeg (reverse implication + numeral, or
       "<" + negative numeral: decided by the parser);
     "<->" "<-" "<=" "<" ">=" ">" "!=" "=" "->" "-" by longest match in the order the grammar tries them;
     "#true" "#false" "#inf" "#sup" as literal prefixes; the role keyword "inductive-lemma".
   The places where the grammar matches a KEYWORD LITERAL inside a word ("notp" = not p, "forallX p",
   "p andq") are handled by the parser, which splits the word token and re-lexes the remainder with
   [relex].  Result None = a character no rule of the grammar can consume (the text is rejected). *)
From Coq Require Import List Ascii String ZArith NArith Bool Arith.
From Anthem Require Import Syntax.Fol Model.FolPrint.
Import ListNotations.
Open Scope char_scope.
Open Scope list_scope.

Definition chars (s : string) : list ascii := list_ascii_of_string s.
Definition unchars (l : list ascii) : string := string_of_list_ascii l.

Definition code (c : ascii) : nat := nat_of_ascii c.
Definition code_in (lo hi : nat) (c : ascii) : bool := Nat.leb lo (code c) && Nat.leb (code c) hi.
Definition is_digit (c : ascii) : bool := code_in 48 57 c.
Definition is_nzdigit (c : ascii) : bool := code_in 49 57 c.
Definition is_lower (c : ascii) : bool := code_in 97 122 c.
Definition is_wordchar (c : ascii) : bool := is_digit c || is_lower c || is_upper c || Ascii.eqb c "_".
Definition is_wordstart (c : ascii) : bool := is_lower c || is_upper c || Ascii.eqb c "_".
Definition is_newline (c : ascii) : bool := Nat.eqb (code c) 10 || Nat.eqb (code c) 13.
Definition is_space (c : ascii) : bool := Nat.eqb (code c) 32 || is_newline c.

Fixpoint span (p : ascii -> bool) (l : list ascii) : list ascii * list ascii :=
  match l with
  | c :: r => if p c then let '(a, b) := span p r in (c :: a, b) else ([], l)
  | [] => ([], [])
  end.

Fixpoint strip_prefix (pre l : list ascii) : option (list ascii) :=
  match pre with
  | [] => Some l
  | p :: pre' => match l with c :: l' => if Ascii.eqb p c then strip_prefix pre' l' else None | [] => None end
  end.

Definition digits_val (ds : list ascii) : N :=
  fold_left (fun acc c => (10 * acc + N.of_nat (code c - 48))%N) ds 0%N.

(* shape of a maximal word *)
Inductive wclass := WLower | WUpper | WBad.
Definition word_class (w : list ascii) : wclass :=
  match w with
  | c :: rest =>
      if is_lower c then WLower
      else if is_upper c then WUpper
      else if Ascii.eqb c "_" then
        match rest with
        | d :: _ => if is_lower d then WLower else if is_upper d then WUpper else WBad
        | [] => WBad
        end
      else WBad
  | [] => WBad
  end.

(* a word with its optional sort suffix; [bare] = a '$' followed by no sort *)
Inductive suffix := SufNone | SufSort (s : sort) | SufBare.
Definition word_tok (w : list ascii) (suf : suffix) : token :=
  match word_class w, suf with
  | WLower, SufNone => TWord (unchars w)
  | WLower, SufSort s => TFun (unchars w) s
  | WLower, SufBare => TFunBare (unchars w)
  | WUpper, SufNone => TVar (unchars w) SGeneral
  | WUpper, SufSort s => TVar (unchars w) s
  | WUpper, SufBare => TVar (unchars w) SInteger
  | WBad, _ => TBad
  end.

(* after a word: "$" ~ sort, with the optional long forms taken when completely present *)
Definition lex_suffix (l : list ascii) : suffix * list ascii :=
  match l with
  | "$" :: r =>
      match strip_prefix (chars "integer") r with Some r' => (SufSort SInteger, r') | None =>
      match strip_prefix (chars "i") r with Some r' => (SufSort SInteger, r') | None =>
      match strip_prefix (chars "symbol") r with Some r' => (SufSort SSymbol, r') | None =>
      match strip_prefix (chars "s") r with Some r' => (SufSort SSymbol, r') | None =>
      match strip_prefix (chars "general") r with Some r' => (SufSort SGeneral, r') | None =>
      match strip_prefix (chars "g") r with Some r' => (SufSort SGeneral, r') | None =>
      (SufBare, r) end end end end end end
  | _ => (SufNone, l)
  end.

(* re-lexing the remainder of a word after a keyword literal was matched at its front: the remainder
   consists of word characters only: numerals first, then at most one word carrying the suffix *)
Fixpoint relex_run (fuel : nat) (w : list ascii) (suf : suffix) : list token :=
  match fuel with
  | O => [TBad]
  | S f =>
      match w with
      | [] => match suf with SufNone => [] | _ => [TBad] end
      | c :: r =>
          if Ascii.eqb c "0" then TNum 0 :: relex_run f r suf
          else if is_digit c then let '(ds, r') := span is_digit w in TNum (digits_val ds) :: relex_run f r' suf
          else [word_tok w suf]
      end
  end.
Definition relex (w : list ascii) (suf : suffix) : list token := relex_run (S (List.length w)) w suf.

Definition cons_tok (t : token) (rest : option (list token)) : option (list token) :=
  match rest with Some l => Some (t :: l) | None => None end.

Fixpoint lex_go (fuel : nat) (l : list ascii) : option (list token) :=
  match fuel with
  | O => None
  | S f =>
      match l with
      | [] => Some []
      | c :: r =>
          if is_space c then lex_go f r
          else if Ascii.eqb c "%" then lex_go f (snd (span (fun d => negb (is_newline d)) r))
          else if is_wordstart c then
            let '(w, r1) := span is_wordchar l in
            match (if String.eqb (unchars w) "inductive" then strip_prefix (chars "-lemma") r1 else None) with
            | Some r2 =>
                (* the literal "inductive-lemma"; only when it is not glued to more word characters *)
                match r2 with
                | d :: _ => if is_wordchar d || Ascii.eqb d "$" then
                              let '(suf, r3) := lex_suffix r1 in cons_tok (word_tok w suf) (lex_go f r3)
                            else cons_tok TIndLemma (lex_go f r2)
                | [] => cons_tok TIndLemma (lex_go f r2)
                end
            | None => let '(suf, r3) := lex_suffix r1 in cons_tok (word_tok w suf) (lex_go f r3)
            end
          else if Ascii.eqb c "0" then cons_tok (TNum 0) (lex_go f r)
          else if is_digit c then let '(ds, r1) := span is_digit l in cons_tok (TNum (digits_val ds)) (lex_go f r1)
          else if Ascii.eqb c "-" then
            match r with
            | ">" :: r1 => cons_tok TImp (lex_go f r1)
            | d :: _ => if is_nzdigit d then let '(ds, r1) := span is_digit r in cons_tok (TNegNum (digits_val ds)) (lex_go f r1)
                        else cons_tok TMinus (lex_go f r)
            | [] => cons_tok TMinus (lex_go f r)
            end
          else if Ascii.eqb c "<" then
            match r with
            | "-" :: ">" :: r1 => cons_tok TIff (lex_go f r1)
            | "-" :: r1 =>
                match r1 with
                | d :: _ => if is_nzdigit d then let '(ds, r2) := span is_digit r1 in cons_tok (TRimpNeg (digits_val ds)) (lex_go f r2)
                            else cons_tok TRimp (lex_go f r1)
                | [] => cons_tok TRimp (lex_go f r1)
                end
            | "=" :: r1 => cons_tok (TRel RLe) (lex_go f r1)
            | _ => cons_tok (TRel RLt) (lex_go f r)
            end
          else if Ascii.eqb c ">" then
            match r with
            | "=" :: r1 => cons_tok (TRel RGe) (lex_go f r1)
            | _ => cons_tok (TRel RGt) (lex_go f r)
            end
          else if Ascii.eqb c "=" then cons_tok (TRel REq) (lex_go f r)
          else if Ascii.eqb c "!" then
            match r with "=" :: r1 => cons_tok (TRel RNe) (lex_go f r1) | _ => None end
          else if Ascii.eqb c "#" then
            match strip_prefix (chars "true") r with Some r1 => cons_tok TTrue (lex_go f r1) | None =>
            match strip_prefix (chars "false") r with Some r1 => cons_tok TFalse (lex_go f r1) | None =>
            match strip_prefix (chars "inf") r with Some r1 => cons_tok TInf (lex_go f r1) | None =>
            match strip_prefix (chars "sup") r with Some r1 => cons_tok TSup (lex_go f r1) | None => None
            end end end end
          else if Ascii.eqb c "(" then cons_tok TLParen (lex_go f r)
          else if Ascii.eqb c ")" then cons_tok TRParen (lex_go f r)
          else if Ascii.eqb c "[" then cons_tok TLBrack (lex_go f r)
          else if Ascii.eqb c "]" then cons_tok TRBrack (lex_go f r)
          else if Ascii.eqb c "," then cons_tok TComma (lex_go f r)
          else if Ascii.eqb c "." then cons_tok TDot (lex_go f r)
          else if Ascii.eqb c ":" then cons_tok TColon (lex_go f r)
          else if Ascii.eqb c "/" then cons_tok TSlash (lex_go f r)
          else if Ascii.eqb c "+" then cons_tok TPlus (lex_go f r)
          else if Ascii.eqb c "*" then cons_tok TStar (lex_go f r)
          else None
      end
  end.

Definition lex (s : string) : option (list token) := let l := chars s in lex_go (S (List.length l)) l.

(* lexical classes of names, as the grammar's atomic rules define them *)
Definition all_wordchars (l : list ascii) : bool := forallb is_wordchar l.
(* symbolic_constant: "_"? ~ ASCII_ALPHA_LOWER ~ (ASCII_ALPHANUMERIC | "_")*   (the !keyword guard only
   fires at the very end of the input, which cannot happen inside a theory/specification/user guide) *)
Definition is_symbol_name (s : string) : bool :=
  let w := chars s in all_wordchars w && match word_class w with WLower => true | _ => false end.
(* unsorted_variable: "_"? ~ ASCII_ALPHA_UPPER ~ (ASCII_ALPHANUMERIC | "_")* *)
Definition is_variable_name (s : string) : bool :=
  let w := chars s in all_wordchars w && match word_class w with WUpper => true | _ => false end.
