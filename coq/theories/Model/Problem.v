(* Model of /repo/src/verifying/problem/mod.rs: problems as named lists of annotated formulas,
   assembly helpers and the two decompositions.  (The textual rendering - declarations, symbol
   order axioms, TPTP formulas - is modelled separately.) *)
From Coq Require Import List Ascii String ZArith NArith Bool.
From Anthem Require Import Base.ISet Base.Fresh Syntax.Fol.
Import ListNotations.
Open Scope string_scope.
Open Scope list_scope.

Inductive prole := PAxiom | PConjecture.
Record pformula := mkpf { pf_name : string; pf_role : prole; pf_formula : formula }.
Record problem := mkproblem { pb_name : string; pb_formulas : list pformula }.
Inductive decomposition := DIndependent | DSequential.

Definition prole_eqb (a b : prole) : bool :=
  match a, b with PAxiom, PAxiom | PConjecture, PConjecture => true | _, _ => false end.

Definition with_name (n : string) : problem := mkproblem n [].

Definition starts_with_underscore (s : string) : bool :=
  match s with String c _ => Ascii.eqb c "_"%char | EmptyString => false end.

(* Problem::add_annotated_formulas *)
Definition normalize_pf (a : pformula) : pformula :=
  if String.eqb (pf_name a) "" then mkpf "unnamed_formula" (pf_role a) (pf_formula a)
  else if starts_with_underscore (pf_name a) then mkpf ("f" ++ pf_name a) (pf_role a) (pf_formula a)
  else a.
Definition add_annotated_formulas (p : problem) (l : list pformula) : problem :=
  mkproblem (pb_name p) (pb_formulas p ++ map normalize_pf l).

Definition problem_predicates (p : problem) : list pred :=
  extend_all pred_dec (fun a => predicates (pf_formula a)) [] (pb_formulas p).
Definition problem_symbols (p : problem) : list string :=
  extend_all string_dec (fun a => symbols (pf_formula a)) [] (pb_formulas p).
Definition problem_function_constants (p : problem) : list fconst :=
  extend_all fconst_dec (fun a => function_constants (pf_formula a)) [] (pb_formulas p).

(* GeneralTerm / Atom / Comparison / AtomicFormula / Formula :: rename_conflicting_symbols *)
Definition rcs_gterm (conf : list pred) (t : gterm) : gterm :=
  match t with
  | GSym (SSym s) => if memb pred_dec (mkpred s 0) conf then GSym (SSym (s ++ "__s")) else t
  | _ => t
  end.
Definition rcs_aformula (conf : list pred) (a : aformula) : aformula :=
  match a with
  | AAtom p ts => AAtom p (map (rcs_gterm conf) ts)
  | ACmp t gs => ACmp (rcs_gterm conf t) (map (fun g => mkguard (grel g) (rcs_gterm conf (gterm_of g))) gs)
  | _ => a
  end.
Fixpoint rcs_formula (conf : list pred) (f : formula) : formula :=
  match f with
  | FAtomic a => FAtomic (rcs_aformula conf a)
  | FNot g => FNot (rcs_formula conf g)
  | FBin c l r => FBin c (rcs_formula conf l) (rcs_formula conf r)
  | FQ q vs g => FQ q vs (rcs_formula conf g)
  end.
(* Problem::rename_conflicting_symbols *)
Definition rename_conflicting_symbols (p : problem) : problem :=
  let conf := filter (fun q => Nat.eqb (parity q) 0) (problem_predicates p) in
  mkproblem (pb_name p)
    (map (fun a => mkpf (pf_name a) (pf_role a) (rcs_formula conf (pf_formula a))) (pb_formulas p)).

(* Problem::create_unique_formula_names: formula_{i}_{name} *)
Fixpoint unique_names_from (i : N) (l : list pformula) : list pformula :=
  match l with
  | [] => []
  | a :: l' => mkpf ("formula_" ++ nat_str i ++ "_" ++ pf_name a) (pf_role a) (pf_formula a)
                 :: unique_names_from (N.succ i) l'
  end.
Definition create_unique_formula_names (p : problem) : problem :=
  mkproblem (pb_name p) (unique_names_from 0 (pb_formulas p)).

Definition axioms (p : problem) : list pformula :=
  filter (fun a => prole_eqb (pf_role a) PAxiom) (pb_formulas p).
Definition conjectures (p : problem) : list pformula :=
  filter (fun a => prole_eqb (pf_role a) PConjecture) (pb_formulas p).

(* Problem::decompose_independent: one problem per conjecture, all axioms *)
Fixpoint dec_independent_from (name : string) (ax : list pformula) (i : N) (cs : list pformula) : list problem :=
  match cs with
  | [] => []
  | c :: cs' => mkproblem (name ++ "_" ++ nat_str i) (ax ++ [c]) :: dec_independent_from name ax (N.succ i) cs'
  end.
Definition decompose_independent (p : problem) : list problem :=
  dec_independent_from (pb_name p) (axioms p) 0 (conjectures p).

(* Problem::decompose_sequential: the previous conjecture becomes an axiom of the next problem.
   (`if let Some(last) = formulas.last_mut() { last.role = Axiom }` then push c.) *)
Definition set_last_axiom (l : list pformula) : list pformula :=
  match rev l with
  | [] => []
  | a :: r => rev (mkpf (pf_name a) PAxiom (pf_formula a) :: r)
  end.
Fixpoint dec_sequential_from (name : string) (acc : list pformula) (i : N) (cs : list pformula) : list problem :=
  match cs with
  | [] => []
  | c :: cs' =>
      let acc' := set_last_axiom acc ++ [c] in
      mkproblem (name ++ "_" ++ nat_str i) acc' :: dec_sequential_from name acc' (N.succ i) cs'
  end.
Definition decompose_sequential (p : problem) : list problem :=
  dec_sequential_from (pb_name p) (axioms p) 0 (conjectures p).

Definition decompose (p : problem) (d : decomposition) : list problem :=
  match d with DIndependent => decompose_independent p | DSequential => decompose_sequential p end.

(* EXTRACT: problem decomposition with_name add_annotated_formulas problem_predicates problem_symbols
   problem_function_constants rename_conflicting_symbols create_unique_formula_names axioms conjectures
   decompose_independent decompose_sequential decompose rcs_formula *)
