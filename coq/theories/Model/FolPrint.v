(* Model of the target-language printer: /repo/src/formatting/fol/sigma_0/default.rs (Display of
   Format<..> for integer/symbolic/general terms, atoms, comparisons, formulas, theories, annotated
   formulas, specifications, user-guide entries, user guides) with fmt_unary / fmt_binary of
   /repo/src/formatting/mod.rs.  The printers produce TOKENS; [render] turns a token list into the exact
   bytes of Rust's Display.  The boolean argument [sp] selects whether the layout tokens (TSp = one
   blank, TNl = newline) are emitted: [print_* true] is what [render] needs for byte equality with the
   implementation, [print_* false] is the token list the token-level parser of Model/FolParse.v reads
   (Proofs/FolRoundTrip.v: strip (print_* true x) = print_* false x).
   The precedence / associativity / mandatory_parentheses tables are NOT written here: they come from
   Gen/TablesFol.v, regenerated from the Rust sources before every build. *)
From Coq Require Import List Ascii String ZArith NArith Bool.
From Anthem Require Import Base.Fresh Syntax.Fol Gen.TablesFol.
Import ListNotations.
Open Scope string_scope.
Open Scope list_scope.

Inductive token :=
| TWord (s : string)            (* [_]?[a-z][A-Za-z0-9_]*, not followed by '$': symbolic constant, predicate symbol, keyword *)
| TIndLemma                     (* the role keyword inductive-lemma *)
| TFun (c : string) (s : sort)  (* c$i c$s c$g  (long forms c$integer .. lex to the same token) *)
| TFunBare (c : string)         (* c$ not followed by a sort: only meaningful when a keyword is split off its front
                                   ("andN$" = and N$); never printed *)
| TVar (x : string) (s : sort)  (* X, X$g -> general;  X$, X$i -> integer;  X$s -> symbol *)
| TNum (n : N)                  (* 0 | [1-9][0-9]* *)
| TNegNum (n : N)               (* '-' immediately followed by [1-9][0-9]* *)
| TLParen | TRParen | TLBrack | TRBrack | TComma | TDot | TColon | TSlash
| TPlus | TMinus | TStar
| TRel (r : rel)
| TIff | TImp | TRimp
| TRimpNeg (n : N)              (* "<-" immediately followed by [1-9][0-9]* (never printed) *)
| TTrue | TFalse | TInf | TSup
| TSp | TNl                     (* layout: one blank / one newline (only with sp = true) *)
| TBad.                         (* unlexable remainder of a split word (never printed) *)

Definition sort_letter (s : sort) : string :=
  match s with SGeneral => "g" | SInteger => "i" | SSymbol => "s" end.
Definition rel_str (r : rel) : string :=
  match r with REq => "=" | RNe => "!=" | RGe => ">=" | RLe => "<=" | RGt => ">" | RLt => "<" end.

Definition tok_str (t : token) : string :=
  match t with
  | TWord s => s
  | TIndLemma => "inductive-lemma"
  | TFun c s => c ++ "$" ++ sort_letter s
  | TFunBare c => c ++ "$"
  | TVar x SGeneral => x
  | TVar x s => x ++ "$" ++ sort_letter s
  | TNum n => nat_str n
  | TNegNum n => "-" ++ nat_str n
  | TLParen => "(" | TRParen => ")" | TLBrack => "[" | TRBrack => "]"
  | TComma => "," | TDot => "." | TColon => ":" | TSlash => "/"
  | TPlus => "+" | TMinus => "-" | TStar => "*"
  | TRel r => rel_str r
  | TIff => "<->" | TImp => "->" | TRimp => "<-"
  | TRimpNeg n => "<-" ++ nat_str n
  | TTrue => "#true" | TFalse => "#false" | TInf => "#inf" | TSup => "#sup"
  | TSp => " "
  | TNl => String (ascii_of_nat 10) ""
  | TBad => "?"
  end.

Definition render (ts : list token) : string := String.concat "" (map tok_str ts).

Definition is_layout (t : token) : bool := match t with TSp | TNl => true | _ => false end.
Definition strip (ts : list token) : list token := filter (fun t => negb (is_layout t)) ts.

Definition tsp (sp : bool) : list token := if sp then [TSp] else [].
Definition tnl (sp : bool) : list token := if sp then [TNl] else [].

(* ---------- fmt_unary / fmt_binary (formatting/mod.rs) ---------- *)
Definition is_left (a : option assoc) : bool := match a with Some ALeft => true | _ => false end.
Definition is_right (a : option assoc) : bool := match a with Some ARight => true | _ => false end.
(* inner.mandatory_parentheses() || self.precedence() < inner.precedence() *)
Definition paren_unary (pself pinner : nat) (minner : bool) : bool := minner || (pself <? pinner)%nat.
(* lhs.mandatory_parentheses() || self.precedence() < lhs.precedence()
   || self.precedence() == lhs.precedence() && lhs.associativity() == Right *)
Definition paren_lhs (pself plhs : nat) (mlhs : bool) (alhs : option assoc) : bool :=
  mlhs || (pself <? plhs)%nat || ((pself =? plhs)%nat && is_right alhs).
(* rhs.mandatory_parentheses() || self.precedence() < rhs.precedence()
   || self.precedence() == rhs.precedence() && self.associativity() == Left *)
Definition paren_rhs (pself prhs : nat) (mrhs : bool) (aself : option assoc) : bool :=
  mrhs || (pself <? prhs)%nat || ((pself =? prhs)%nat && is_left aself).
Definition fmt_unary (aself : option assoc) (op body : list token) : list token :=
  (if is_left aself then op else []) ++ body ++ (if is_right aself then op else []).

(* ---------- integer terms ---------- *)
Definition ikind_of (t : iterm) : ikind :=
  match t with
  | INum z => if (0 <? z)%Z then KNumPos else KNumNonPos
  | IFun _ => KIFun
  | IVar _ => KIVar
  | IUn UNeg _ => KNeg
  | IBin BMul _ _ => KMul
  | IBin BAdd _ _ => KAdd
  | IBin BSub _ _ => KSub
  end.
Definition iprec (t : iterm) : nat := fmt_iterm_prec (ikind_of t).
Definition iassoc (t : iterm) : option assoc := fmt_iterm_assoc (ikind_of t).
Definition imand (t : iterm) : bool := fmt_iterm_mandatory (ikind_of t).

(* Display of isize *)
Definition num_tok (z : Z) : token := if (z <? 0)%Z then TNegNum (Z.to_N (- z)) else TNum (Z.to_N z).
Definition binop_tok (o : binop) : token := match o with BAdd => TPlus | BSub => TMinus | BMul => TStar end.

Definition parens (b : bool) (ts : list token) : list token := if b then TLParen :: ts ++ [TRParen] else ts.

Fixpoint print_iterm (sp : bool) (t : iterm) : list token :=
  match t with
  | INum z => [num_tok z]
  | IFun c => [TFun c SInteger]
  | IVar x => [TVar x SInteger]
  | IUn UNeg a =>
      fmt_unary (iassoc t) [TMinus] (parens (paren_unary (iprec t) (iprec a) (imand a)) (print_iterm sp a))
  | IBin o l r =>
      parens (paren_lhs (iprec t) (iprec l) (imand l) (iassoc l)) (print_iterm sp l)
      ++ tsp sp ++ [binop_tok o] ++ tsp sp
      ++ parens (paren_rhs (iprec t) (iprec r) (imand r) (iassoc t)) (print_iterm sp r)
  end.

Definition print_sterm (t : sterm) : list token :=
  match t with SSym s => [TWord s] | SFun c => [TFun c SSymbol] | SVar x => [TVar x SSymbol] end.

Definition print_gterm (sp : bool) (t : gterm) : list token :=
  match t with
  | GInf => [TInf]
  | GSup => [TSup]
  | GFun c => [TFun c SGeneral]
  | GVar x => [TVar x SGeneral]
  | GInt t => print_iterm sp t
  | GSym t => print_sterm t
  end.

(* ---------- atomic formulas ---------- *)
Fixpoint print_args (sp : bool) (ts : list gterm) : list token :=
  match ts with
  | [] => []
  | [t] => print_gterm sp t
  | t :: rest => print_gterm sp t ++ [TComma] ++ tsp sp ++ print_args sp rest
  end.
Definition print_atom (sp : bool) (p : string) (ts : list gterm) : list token :=
  match ts with
  | [] => [TWord p]
  | _ => TWord p :: TLParen :: print_args sp ts ++ [TRParen]
  end.
Definition print_guard (sp : bool) (g : guard) : list token :=
  [TRel (grel g)] ++ tsp sp ++ print_gterm sp (gterm_of g).
Fixpoint print_guards (sp : bool) (gs : list guard) : list token :=
  match gs with [] => [] | g :: rest => tsp sp ++ print_guard sp g ++ print_guards sp rest end.
Definition print_atomic (sp : bool) (a : aformula) : list token :=
  match a with
  | ATrue => [TTrue]
  | AFalse => [TFalse]
  | AAtom p ts => print_atom sp p ts
  | ACmp t gs => print_gterm sp t ++ print_guards sp gs
  end.

(* ---------- formulas ---------- *)
Definition fkind_of (f : formula) : fkind :=
  match f with
  | FAtomic _ => KAtomic
  | FNot _ => KNot
  | FQ _ _ _ => KQuant
  | FBin CAnd _ _ => KAnd
  | FBin COr _ _ => KOr
  | FBin CImp _ _ => KImp
  | FBin CRimp _ _ => KRimp
  | FBin CIff _ _ => KIff
  end.
Definition fprec (f : formula) : nat := fmt_formula_prec (fkind_of f).
Definition fassoc (f : formula) : option assoc := fmt_formula_assoc (fkind_of f).
Definition fmand (f : formula) : bool := fmt_formula_mandatory (fkind_of f).

Definition conn_tok (c : bconn) : token :=
  match c with CAnd => TWord "and" | COr => TWord "or" | CImp => TImp | CRimp => TRimp | CIff => TIff end.
Definition quant_tok (q : quant) : token := match q with QForall => TWord "forall" | QExists => TWord "exists" end.
Definition var_tok (v : var) : token := TVar (vname v) (vsort v).
Fixpoint print_vars (sp : bool) (vs : list var) : list token :=
  match vs with [] => [] | v :: rest => tsp sp ++ [var_tok v] ++ print_vars sp rest end.
(* Display of Quantification *)
Definition print_quantification (sp : bool) (q : quant) (vs : list var) : list token := quant_tok q :: print_vars sp vs.

Definition is_upper (c : ascii) : bool := let n := nat_of_ascii c in (65 <=? n)%nat && (n <=? 90)%nat.
(* the test of commit cc14b46 on the rendered inner formula *)
Definition begins_with_variable (s : string) : bool :=
  match s with
  | String c rest =>
      if is_upper c then true
      else if Ascii.eqb c "_" then match rest with String d _ => is_upper d | EmptyString => false end
      else false
  | EmptyString => false
  end.

Fixpoint print_formula (sp : bool) (f : formula) : list token :=
  match f with
  | FAtomic a => print_atomic sp a
  | FNot g =>
      fmt_unary (fassoc f) ([TWord "not"] ++ tsp sp)
        (parens (paren_unary (fprec f) (fprec g) (fmand g)) (print_formula sp g))
  | FQ q vs g =>
      (* the body is parenthesised when its text begins with a variable (commit cc14b46; rendered once
         since 5394f74), or by the rule of fmt_unary *)
      print_quantification sp q vs ++ tsp sp
      ++ parens (begins_with_variable (render (print_formula true g)) || fmand g || (fprec f <? fprec g)%nat)
           (print_formula sp g)
  | FBin c l r =>
      parens (paren_lhs (fprec f) (fprec l) (fmand l) (fassoc l)) (print_formula sp l)
      ++ tsp sp ++ [conn_tok c] ++ tsp sp
      ++ parens (paren_rhs (fprec f) (fprec r) (fmand r) (fassoc f)) (print_formula sp r)
  end.

Fixpoint print_theory (sp : bool) (t : theory) : list token :=
  match t with [] => [] | f :: rest => print_formula sp f ++ [TDot] ++ tnl sp ++ print_theory sp rest end.

(* ---------- annotated formulas, specifications, user guides ---------- *)
Definition role_tok (r : role) : token :=
  match r with
  | RAssumption => TWord "assumption" | RSpec => TWord "spec" | RLemma => TWord "lemma"
  | RDefinition => TWord "definition" | RInductiveLemma => TIndLemma
  end.
Definition direction_str (d : direction) : string :=
  match d with DUniversal => "universal" | DForward => "forward" | DBackward => "backward" end.
Definition is_universal (d : direction) : bool := match d with DUniversal => true | _ => false end.
Definition is_empty (s : string) : bool := match s with EmptyString => true | _ => false end.

Definition print_annot (sp : bool) (a : aformula_annot) : list token :=
  [role_tok (an_role a)]
  ++ (if is_universal (an_dir a) then [] else [TLParen; TWord (direction_str (an_dir a)); TRParen])
  ++ (if is_empty (an_name a) then [] else [TLBrack; TWord (an_name a); TRBrack])
  ++ [TColon] ++ tsp sp ++ print_formula sp (an_formula a).

Fixpoint print_spec (sp : bool) (s : specification) : list token :=
  match s with [] => [] | a :: rest => print_annot sp a ++ [TDot] ++ tnl sp ++ print_spec sp rest end.

Definition print_pred (p : pred) : list token := [TWord (psym p); TSlash; TNum (N.of_nat (parity p))].
Definition print_ug_entry (sp : bool) (e : ug_entry) : list token :=
  match e with
  | UGInput p => [TWord "input"; TColon] ++ tsp sp ++ print_pred p
  | UGOutput p => [TWord "output"; TColon] ++ tsp sp ++ print_pred p
  | UGPlaceholder n s => [TWord "input"; TColon] ++ tsp sp ++ [TWord n] ++ tsp sp ++ [TImp] ++ tsp sp ++ [TWord (sort_letter s)]
  | UGFormula a => print_annot sp a
  end.
Fixpoint print_ug (sp : bool) (u : user_guide) : list token :=
  match u with [] => [] | e :: rest => print_ug_entry sp e ++ [TDot] ++ tnl sp ++ print_ug sp rest end.

(* the bytes of Rust's Display *)
Definition show_formula (f : formula) : string := render (print_formula true f).
Definition show_theory (t : theory) : string := render (print_theory true t).
Definition show_spec (s : specification) : string := render (print_spec true s).
Definition show_ug (u : user_guide) : string := render (print_ug true u).

(* EXTRACT: show_formula show_theory show_spec show_ug render print_formula print_theory print_spec print_ug *)
