(* C10, run level: what one `anthem verify` run does with the values of its prover options and how
   the run ends (the last lines of stdout and the exit status), in
   /repo/src/verifying/prover/vampire.rs (Vampire::instances, Vampire::cores, the argument list in
   Vampire::prove), /repo/src/verifying/prover/mod.rs (Prover::prove_all: `if self.instances() == 1`)
   and the end of the Command::Verify arm of /repo/src/command_line/procedures.rs.

   Option values are `usize` (clap's value parser refuses anything else, exit status 2): N here,
   with the bound explicit.  [ncpu] is the value of num_cpus::get() (an OS parameter, >= 1). *)
From Coq Require Import List String Bool Arith NArith.
Import ListNotations.
From Anthem Require Import Base.Fresh Model.Prover.
Open Scope list_scope.
Open Scope string_scope.
Open Scope nat_scope.

(* ---------------------------------------------------------------- option values *)

Definition usize_max : N := 18446744073709551615%N.

(* `time_limit: usize`, `prover_instances: usize`, `prover_cores: usize` (arguments.rs) *)
Definition usize_ok (n : N) : bool := (n <=? usize_max)%N.

Record options := mkopts { time_limit : N; prover_instances : N; prover_cores : N }.

Definition options_ok (o : options) : bool :=
  usize_ok (time_limit o) && usize_ok (prover_instances o) && usize_ok (prover_cores o).

(* Vampire::cores *)
Definition cores (o : options) (ncpu : N) : N :=
  if (prover_cores o =? 0)%N then ncpu else prover_cores o.

(* Vampire::instances; None = panic (`num_cpus::get() / self.cores()` divides by zero, which needs
   num_cpus::get() = 0 and cannot happen) *)
Definition instances (o : options) (ncpu : N) : option N :=
  if (prover_instances o =? 0)%N then
    if (cores o ncpu =? 0)%N then None else Some (N.max (ncpu / cores o ncpu) 1)
  else Some (prover_instances o).

(* Prover::prove_all: `if self.instances() == 1 { sequential map } else { ThreadPool::new(instances) .. }` *)
Definition is_sequential (o : options) (ncpu : N) : option bool :=
  match instances o ncpu with
  | Some k => Some (k =? 1)%N
  | None => None
  end.

(* the arguments of every prover process (Vampire::prove) *)
Definition prover_argv (o : options) (ncpu : N) : list string :=
  ["--mode"; "casc"; "--time_limit"; nat_str (time_limit o); "--cores"; nat_str (cores o ncpu)].

(* ---------------------------------------------------------------- how a run ends *)

Inductive run_end :=
| Finished (received submitted : nat) (flag : bool)  (* the loop ended; `Ok(())` is returned *)
| Panicked (received : nat).                          (* `prove` panicked in the main thread *)

(* instances == 1.  [ws]: the fate of `prove` for each problem in submission order, [None] = it
   panics.  The iterator is lazy: the problems after the first panic are never looked at. *)
Fixpoint seq_results (ws : list (option run_result)) : list run_result * bool :=
  match ws with
  | [] => ([], true)
  | None :: _ => ([], false)
  | Some r :: t => let (rs, ok) := seq_results t in (r :: rs, ok)
  end.

Definition sequential_end (ws : list (option run_result)) : run_end :=
  let (rs, ok) := seq_results ws in
  if ok then Finished (List.length rs) (List.length ws) (verdict rs (List.length ws))
  else Panicked (List.length rs).

(* instances != 1.  [sched]: the results in the order in which the loop received them (a panic in
   a worker unwinds that worker only; the pool replaces the thread and the channel closes when
   every job has ended) *)
Definition pool_end (sched : list event) (submitted : nat) : run_end :=
  Finished (List.length sched) submitted (fan_in sched submitted).

(* `if received != submitted { println!("> Proving ended with {received} results for {submitted} problems") .. }` *)
Definition count_line (e : run_end) : option string :=
  match e with
  | Finished r s _ =>
    if r =? s then None
    else Some ("> Proving ended with " ++ nat_str (N.of_nat r) ++ " results for " ++
               nat_str (N.of_nat s) ++ " problems")
  | Panicked _ => None
  end.

Definition success_text : string := "> Success! Anthem found a proof of the theorem.".
Definition failure_text : string := "> Failure! Anthem was unable to find a proof of the theorem.".

(* the verdict line (with --no-timing; otherwise " (<n> ms)" follows) *)
Definition verdict_line (e : run_end) : option string :=
  match e with
  | Finished _ _ true => Some success_text
  | Finished _ _ false => Some failure_text
  | Panicked _ => None
  end.

(* `Ok(())` from main: 0 whatever the verdict; an unwinding main thread: 101 *)
Definition exit_status (e : run_end) : nat :=
  match e with
  | Finished _ _ _ => 0
  | Panicked _ => 101
  end.

(* EXTRACT: usize_ok options_ok cores instances is_sequential prover_argv sequential_end pool_end
   count_line verdict_line exit_status *)
