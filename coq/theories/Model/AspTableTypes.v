(* Types of the operator tables that tools/tables_asp2coq.py regenerates from the Rust sources
   (Gen/TablesAsp.v).  Hand-written, shared by Model/AspPrint.v and Model/AspParse.v.

   Formatter side (src/formatting/asp/mini_gringo/default.rs, `impl Precedence for Format<'_, Term>`):
   each `match self.0 { pattern => value, ... }` is kept as the ordered list of its arms; a pattern
   alternative `A | B` becomes two consecutive entries.  [first_match] is Rust's first-arm-wins.

   Parser side (src/parsing/asp/mini_gringo/pest.rs, PRATT_PARSER): the `.op(...)` chain in order,
   each level a list of (grammar rule, affix). *)
From Coq Require Import List ZArith Bool.
From Anthem Require Import Syntax.Asp.
Import ListNotations.

Inductive assoc := ALeft | ARight.

(* the shapes of match-arm patterns over `Term` the translator recognises *)
Inductive tpat :=
| PatNumeralFrom (lo : Z)      (* Term::PrecomputedTerm(PrecomputedTerm::Numeral(lo..)) *)
| PatPrecomputedAny            (* Term::PrecomputedTerm(_) *)
| PatVariableAny               (* Term::Variable(_) *)
| PatUnary (o : aunop)         (* Term::UnaryOperation { op: UnaryOperator::O, .. } *)
| PatBinary (o : abinop)       (* Term::BinaryOperation { op: BinaryOperator::O, .. } *)
| PatAny.                      (* `_`, or a function body without a match *)

Definition abinop_eqb (a b : abinop) : bool := if abinop_dec a b then true else false.
Definition aunop_eqb (a b : aunop) : bool := if aunop_dec a b then true else false.

Definition pat_matches (p : tpat) (t : term) : bool :=
  match p, t with
  | PatNumeralFrom lo, TPre (PNum z) => (lo <=? z)%Z
  | PatPrecomputedAny, TPre _ => true
  | PatVariableAny, TVar _ => true
  | PatUnary o, TUn o' _ => aunop_eqb o o'
  | PatBinary o, TBin o' _ _ => abinop_eqb o o'
  | PatAny, _ => true
  | _, _ => false
  end.

(* Rust `match`: the first arm whose pattern matches; None = no arm (cannot happen for an
   exhaustive match; the models turn it into a panic value) *)
Fixpoint first_match {A : Type} (arms : list (tpat * A)) (t : term) : option A :=
  match arms with
  | [] => None
  | (p, v) :: rest => if pat_matches p t then Some v else first_match rest t
  end.

(* grammar rules that can be registered as operators of the term Pratt parser *)
Inductive oprule := RNegative | RAdd | RSubtract | RMultiply | RDivide | RModulo | RInterval.
Inductive affix := Prefix | Postfix | Infix (a : assoc).

Definition oprule_eqb (a b : oprule) : bool :=
  match a, b with
  | RNegative, RNegative | RAdd, RAdd | RSubtract, RSubtract | RMultiply, RMultiply
  | RDivide, RDivide | RModulo, RModulo | RInterval, RInterval => true
  | _, _ => false
  end.

(* pest-2.8.2 pratt_parser.rs: `prec` starts at PREC_STEP = 10 and `.op()` adds PREC_STEP before
   inserting, so level number i (0-based, in `.op()` order) has precedence 10 * (i + 2); a rule
   inserted twice keeps the LAST entry (BTreeMap::insert) *)
Definition PREC_STEP : nat := 10.

Fixpoint pratt_lookup_from (prec : nat) (levels : list (list (oprule * affix))) (r : oprule)
  (found : option (affix * nat)) : option (affix * nat) :=
  match levels with
  | [] => found
  | lvl :: rest =>
    let prec' := prec + PREC_STEP in
    let found' := fold_left (fun acc e => if oprule_eqb (fst e) r then Some (snd e, prec') else acc) lvl found in
    pratt_lookup_from prec' rest r found'
  end.
Definition pratt_lookup (levels : list (list (oprule * affix))) (r : oprule) : option (affix * nat) :=
  pratt_lookup_from PREC_STEP levels r None.
