(* END-TO-END MODEL of `anthem verify`: the `Command::Verify` arm of `procedures::main`
   (/repo/src/command_line/procedures.rs:174-344) and the clap definition of the sub-command
   (/repo/src/command_line/arguments.rs:64-124), up to and including `--save-problems`.

       run_verify : (path -> option text) -> verify_command -> verify_result

   Input: the parsed arguments (which options were given, with which values; the file arguments as
   the file TREES they name, Model/Files.v) and the text of every file that is read.
   Output: the exit status class and what `--save-problems <dir>` leaves on disk - the list of
   (path, bytes) in write order - together with the warnings printed on stdout, or Error / Panic.

   Like Model/Cli.v this file is only GLUE.  What it fixes, and nothing else does:
     - the defaults of the options that may be absent (`#[default]` of Decomposition, Direction,
       FormulaRepresentation: sequential, universal, tau-star);
     - which file plays which role (Files::sort + the accessors left / right / specification /
       program / user_guide / proof_outline), which parser reads it, in which ORDER the files are
       looked up and parsed (the first failure decides between Error and Panic);
     - `Files::sort(files).context("unable to sort the given files by their function")?`: a walkdir
       error (since /repo 8bcb21d links are followed: a dangling link, a link to a directory that
       contains it - Model/Files.v [WErr]) ends the command with exit status 1 BEFORE any file is
       read, whichever roles the remaining files would have played;
     - a program as specification (`Either::Left`) vs. a specification file (`Either::Right`), the
       empty specification as default proof outline;
     - the fields of the task structs: decomposition, formula_representation, direction,
       bypass_tightness passed on unchanged, `simplify: !no_simplify`,
       `break_equivalences: !no_eq_break`;
     - `.decompose()?` (Err -> exit 1), `.report_warnings()`;
     - the file written per problem: `<dir>/<problem name>.p` (PathBuf::push) containing
       `format!("{problem}")` (Model/ProblemPrint.problem_display), in the order of the problems,
       a later file of the same path replacing an earlier one;
     - that none of this depends on --no-proof-search / --no-timing / the prover options (the
       proof search starts after the files have been written).
   The parsers (AspParse, FolParse), Files::sort (Model/Files.v), the two `decompose` functions
   (Model/StrongFull.v, Model/ExternalFull.v) and the Display of problems (Model/ProblemPrint.v) are
   the models tied to the individual Rust functions elsewhere (C14, C15, C20, C03, C02, C06/C09).
   The tie of THIS file is the op `cli_verify`: the extracted [run_verify_dir] against the real
   binary run with `--no-proof-search --save-problems <dir>`, byte for byte (props/CLIverify.py).

   Not modelled: the proof search itself and everything it prints (`> Proving ...`, the SZS lines,
   `> Success!`): with --no-proof-search nothing but the warnings is printed; without it the files
   and warnings are the same and the exit status is still 0 (`main` returns Ok(()) whatever the
   prover reports); I/O errors (a path argument that does not exist, an unreadable file, a missing
   output directory: `main` returns Err -> [VError], the model's [read] answering None); the TEXT of
   warnings and error messages (the warnings are kept as the list of their kinds); clap's own
   errors (exit 2: `--equivalence` missing, unknown option values). *)
From Coq Require Import List Ascii String Bool.
From Anthem Require Import Syntax.Fol Syntax.Asp Model.Problem Model.Strong Model.External
  Model.StrongFull Model.ExternalFull.
From Anthem Require Model.Files Model.Cli Model.ProblemPrint.
Import ListNotations.
Open Scope list_scope.
Open Scope string_scope.

(* ------------------------------------------------------------------ arguments.rs *)
(* #[derive(ValueEnum)] enum Equivalence { Strong, External }.  The other value enums of the
   sub-command are the types the task models already use: Decomposition = Problem.decomposition,
   Direction = Fol.direction (`pub use fol::sigma_0::Direction`), FormulaRepresentation = Strong.frepr *)
Inductive equivalence := Strong | External.

(* `#[default]` of the three enums with `#[arg(long, value_enum, default_value_t)]` *)
Definition default_decomposition : decomposition := DSequential.
Definition default_direction : direction := DUniversal.
Definition default_formula_representation : frepr := ReprTauStar.

(* what is on the command line: `--equivalence` is required, the three value options may be
   absent ([None]), the four `#[arg(long, action)]` flags are present or not, `--save-problems`
   takes a directory; `files: Vec<PathBuf>` as the trees the paths name.
   --no-timing, --time-limit, --prover-instances, --prover-cores only reach the prover. *)
Record verify_argv := mkargv {
  a_equivalence : equivalence;
  a_decomposition : option decomposition;
  a_direction : option direction;
  a_formula_representation : option frepr;
  a_bypass_tightness : bool;
  a_no_simplify : bool;
  a_no_eq_break : bool;
  a_no_proof_search : bool;
  a_save_problems : option string;
  a_files : list Files.node }.

(* `Command::Verify { .. }` as `main` receives it from `Arguments::parse()` *)
Record verify_command := mkverify {
  v_equivalence : equivalence;
  v_decomposition : decomposition;
  v_direction : direction;
  v_formula_representation : frepr;
  v_bypass_tightness : bool;
  v_no_simplify : bool;
  v_no_eq_break : bool;
  v_no_proof_search : bool;
  v_save_problems : option string;
  v_files : list Files.node }.

Definition unwrap_or {A} (o : option A) (d : A) : A := match o with Some a => a | None => d end.

(* clap: `default_value_t` *)
Definition clap_parse (a : verify_argv) : verify_command :=
  mkverify (a_equivalence a)
    (unwrap_or (a_decomposition a) default_decomposition)
    (unwrap_or (a_direction a) default_direction)
    (unwrap_or (a_formula_representation a) default_formula_representation)
    (a_bypass_tightness a) (a_no_simplify a) (a_no_eq_break a) (a_no_proof_search a)
    (a_save_problems a) (a_files a).

(* ------------------------------------------------------------------ results *)
Inductive verify_result :=
| VExit0 (warnings : list ext_warning) (writes : list (string * string))
                      (* exit status 0; `println!("{warning}")` for these warnings, in this order;
                         these (path, bytes) written in this order *)
| VError              (* `main` returned Err: exit status 1, message on stderr; nothing written
                         (every `?` precedes the first write, but for the I/O errors of the writes) *)
| VPanic              (* exit status 101; nothing written *)
| VOutOfFuel.         (* the MODEL gave up (fuel of a parser model / of the classic fixpoint loop);
                         never a behaviour of the binary *)

Inductive vstep (A : Type) := VGot (a : A) | VStop (r : verify_result).
Arguments VGot {A} a.
Arguments VStop {A} r.
Definition vbind {A} (x : vstep A) (k : A -> verify_result) : verify_result :=
  match x with VGot a => k a | VStop r => r end.
Definition vthen {A B} (x : vstep A) (k : A -> vstep B) : vstep B :=
  match x with VGot a => k a | VStop r => VStop r end.

(* `.ok_or(anyhow!("no ... was provided"))?` *)
Definition ok_or {A} (o : option A) : vstep A :=
  match o with Some a => VGot a | None => VStop VError end.

(* the outcomes of Model/Cli.v's `X::from_file` (a parser never prints) *)
Definition of_cli_step {A} (x : Cli.step A) : vstep A :=
  match x with
  | Cli.Got a => VGot a
  | Cli.Stop Cli.Panic => VStop VPanic
  | Cli.Stop Cli.OutOfFuel => VStop VOutOfFuel
  | Cli.Stop _ => VStop VError
  end.

Section Read.
(* `fs::read_to_string(path)`: the text of the file at a path; None = I/O error / not UTF-8 *)
Variable read : string -> option string.

(* `Node::from_file(path)?` = `read_to_string(path).with_context(..)?.parse().with_context(..)?` *)
Definition from_file {A} (parse : string -> Cli.step A) (path : string) : vstep A :=
  match read path with
  | Some text => of_cli_step (parse text)
  | None => VStop VError
  end.

(* ------------------------------------------------------------------ the task structs *)
(* StrongEquivalenceTask { left, right, decomposition, formula_representation, direction,
                           simplify: !no_simplify, break_equivalences: !no_eq_break } *)
Definition strong_task_of (c : verify_command) (left right : program) : strong_task :=
  mkstrong left right (v_decomposition c) (v_direction c) (v_formula_representation c)
           (negb (v_no_simplify c)) (negb (v_no_eq_break c)).

(* ExternalEquivalenceTask { specification, program, user_guide, proof_outline, decomposition,
     formula_representation, direction, bypass_tightness, simplify: !no_simplify,
     break_equivalences: !no_eq_break } *)
Definition external_task_of (c : verify_command) (spec : program + specification)
    (prog : program) (ug : user_guide) (outline : specification) : ext_task :=
  mkext spec prog ug outline (v_decomposition c) (v_direction c)
        (v_formula_representation c) (v_bypass_tightness c)
        (negb (v_no_simplify c)) (negb (v_no_eq_break c)).

(* field initialisers are evaluated in source order: each file is looked up and parsed before the
   next one is looked up *)
Definition strong_task_from_files (c : verify_command) (files : Files.files string) : vstep strong_task :=
  vthen (ok_or (Files.left files)) (fun left_path =>
  vthen (from_file Cli.program_from_file left_path) (fun left =>
  vthen (ok_or (Files.right files)) (fun right_path =>
  vthen (from_file Cli.program_from_file right_path) (fun right =>
  VGot (strong_task_of c left right))))).

Definition external_task_from_files (c : verify_command) (files : Files.files string) : vstep ext_task :=
  vthen (ok_or (Files.specification files)) (fun specification_path =>
  vthen (match specification_path with
         | inl path => vthen (from_file Cli.program_from_file path) (fun p => VGot (inl p))
         | inr path => vthen (from_file Cli.specification_from_file path) (fun s => VGot (inr s))
         end) (fun spec =>
  vthen (ok_or (Files.program files)) (fun program_path =>
  vthen (from_file Cli.program_from_file program_path) (fun prog =>
  vthen (ok_or (Files.user_guide files)) (fun user_guide_path =>
  vthen (from_file Cli.user_guide_from_file user_guide_path) (fun ug =>
  (* files.proof_outline().map(Specification::from_file).unwrap_or_else(|| Ok(Specification::empty()))? *)
  vthen (match Files.proof_outline files with
         | Some path => from_file Cli.specification_from_file path
         | None => VGot []
         end) (fun outline =>
  VGot (external_task_of c spec prog ug outline)))))))).

(* `.decompose()?.report_warnings()`; StrongEquivalenceTask has `type Warning = Infallible` *)
Definition decompose_strong (fuel : nat) (t : strong_task) : vstep (list ext_warning * list problem) :=
  match strong_decompose_full_fuel fuel t with
  | SOk problems => VGot ([], problems)
  | SPanic => VStop VPanic
  | SNonterminating => VStop VOutOfFuel
  end.
Definition decompose_external (fuel : nat) (t : ext_task) : vstep (list ext_warning * list problem) :=
  match external_decompose_full fuel t with
  | XOk warnings problems => VGot (warnings, problems)
  | XErr _ => VStop VError
  | XPanic => VStop VPanic
  | XNonterminating => VStop VOutOfFuel
  end.

(* let files = Files::sort(files).context("unable to sort the given files by their function")?;
   a walkdir::Error (dangling link, link to a containing directory) -> `main` returns Err *)
Definition sort_files (c : verify_command) : vstep (Files.files string) :=
  match Files.sort (v_files c) with
  | Files.WOk files => VGot files
  | Files.WErr _ => VStop VError
  end.

(* let problems = match equivalence { Strong => .., External => .. }; *)
Definition problems_of (fuel : nat) (c : verify_command) : vstep (list ext_warning * list problem) :=
  vthen (sort_files c) (fun files =>
  match v_equivalence c with
  | Strong => vthen (strong_task_from_files c files) (decompose_strong fuel)
  | External => vthen (external_task_from_files c files) (decompose_external fuel)
  end).

(* ------------------------------------------------------------------ --save-problems *)
Definition starts_with_slash (s : string) : bool :=
  match s with String c _ => Ascii.eqb c "/"%char | EmptyString => false end.
Fixpoint ends_with_slash (s : string) : bool :=
  match s with
  | EmptyString => false
  | String c EmptyString => Ascii.eqb c "/"%char
  | String _ s' => ends_with_slash s'
  end.
(* PathBuf::push (Unix): an absolute component replaces the path, otherwise a separator is
   added unless the path is empty or already ends with one *)
Definition path_push (dir component : string) : string :=
  if starts_with_slash component then component
  else if ends_with_slash dir then dir ++ component
  else match dir with EmptyString => component | _ => dir ++ "/" ++ component end.

(* let mut path = out_dir.clone(); path.push(format!("{}.p", problem.name)); *)
Definition problem_path (out_dir : string) (p : problem) : string := path_push out_dir (pb_name p ++ ".p").

(* for problem in &problems { problem.to_file(path)? }: `write!(file, "{self}")`;
   None = the formatter panics (never: Proofs/CliVerifyOk.v, save_problems_total) *)
Fixpoint save_problems (out_dir : string) (problems : list problem) : option (list (string * string)) :=
  match problems with
  | [] => Some []
  | p :: rest =>
      match ProblemPrint.problem_display p with
      | Some text =>
          match save_problems out_dir rest with
          | Some writes => Some ((problem_path out_dir p, text) :: writes)
          | None => None
          end
      | None => None
      end
  end.

(* ------------------------------------------------------------------ Command::Verify *)
Definition run_verify_fuel (fuel : nat) (c : verify_command) : verify_result :=
  vbind (problems_of fuel c) (fun wp =>
  match v_save_problems c with
  | Some out_dir =>
      match save_problems out_dir (snd wp) with
      | Some writes => VExit0 (fst wp) writes
      | None => VPanic
      end
  | None => VExit0 (fst wp) []
  end).
  (* if !no_proof_search { .. }: prints; Ok(()) *)

End Read.

(* the executable instance: 64 further passes for the classic fixpoint loops, as the task models
   ([StrongFull.classic_fuel] = [ExternalFull.full_fuel] = 64) *)
Definition verify_fuel : nat := 64.
Definition run_verify (read : string -> option string) (c : verify_command) : verify_result :=
  run_verify_fuel read verify_fuel c.
(* from the command line *)
Definition run_verify_argv (read : string -> option string) (a : verify_argv) : verify_result :=
  run_verify read (clap_parse a).

(* ------------------------------------------------------------------ the directory afterwards *)
(* what a listing of the files written shows: one entry per path (the last write), ordered by
   path (byte-wise) *)
Fixpoint put_file (path text : string) (l : list (string * string)) : list (string * string) :=
  match l with
  | [] => [(path, text)]
  | (q, u) :: l' =>
      match String.compare path q with
      | Eq => (path, text) :: l'
      | Lt => (path, text) :: l
      | Gt => (q, u) :: put_file path text l'
      end
  end.
Definition dir_state (writes : list (string * string)) : list (string * string) :=
  fold_left (fun l w => put_file (fst w) (snd w) l) writes [].

(* ------------------------------------------------------------------ file trees with contents *)
(* a convenient way to give [a_files] and [read] together (used by the driver and the Examples):
   the path arguments as trees whose regular files carry their text; paths are built as
   Files.walk builds them.  Symbolic links as in Model/Files.v: a link to a regular file carries the
   text that `read_to_string(<path of the link>)` returns (the text of the file at the end of the
   chain); a link to a directory carries that directory's entries, which are read at
   `<path of the link>/<entry>`. *)
Inductive ctarget :=
| CTFile (text : string)   (* Files.LFile: a regular file with this text *)
| CTSpecial                (* Files.LSpecial *)
| CTDangling               (* Files.LDangling *)
| CTLoop.                  (* Files.LLoop *)

Inductive cnode :=
| CFile (name text : string)
| CSpecial (name : string)
| CDir (name : string) (children : list cnode)
| CLink (name : string) (target : ctarget)
| CLinkDir (name : string) (children : list cnode).

Definition erase_target (t : ctarget) : Files.ltarget :=
  match t with
  | CTFile _ => Files.LFile
  | CTSpecial => Files.LSpecial
  | CTDangling => Files.LDangling
  | CTLoop => Files.LLoop
  end.

Fixpoint erase (n : cnode) : Files.node :=
  match n with
  | CFile s _ => Files.File s
  | CSpecial s => Files.Special s
  | CDir s cs => Files.Dir s (map erase cs)
  | CLink s t => Files.Link s (erase_target t)
  | CLinkDir s cs => Files.LinkDir s (map erase cs)
  end.
Definition cnode_name (n : cnode) : string :=
  match n with CFile s _ | CSpecial s | CDir s _ | CLink s _ | CLinkDir s _ => s end.

Fixpoint contents (path : string) (n : cnode) : list (string * string) :=
  match n with
  | CFile _ text | CLink _ (CTFile text) => [(path, text)]
  | CSpecial _ | CLink _ _ => []
  | CDir _ cs | CLinkDir _ cs =>
    (fix go (l : list cnode) : list (string * string) :=
       match l with
       | [] => []
       | c :: l' => (contents (path ++ "/" ++ cnode_name c) c ++ go l')%list
       end) cs
  end.
Definition file_system (args : list cnode) : list (string * string) :=
  flat_map (fun n => contents (cnode_name n) n) args.
Fixpoint lookup (fs : list (string * string)) (path : string) : option string :=
  match fs with
  | [] => None
  | (p, t) :: fs' => if String.eqb p path then Some t else lookup fs' path
  end.

Definition with_files (a : verify_argv) (args : list cnode) : verify_argv :=
  mkargv (a_equivalence a) (a_decomposition a) (a_direction a) (a_formula_representation a)
         (a_bypass_tightness a) (a_no_simplify a) (a_no_eq_break a) (a_no_proof_search a)
         (a_save_problems a) (map erase args).

(* `anthem verify <options> <args>` in a directory that contains the trees [args] *)
Definition run_verify_tree (a : verify_argv) (args : list cnode) : verify_result :=
  run_verify_argv (lookup (file_system args)) (with_files a args).

(* EXTRACT: equivalence verify_argv verify_command clap_parse verify_result run_verify run_verify_argv
   run_verify_tree dir_state ctarget cnode path_push with_files lookup file_system *)
