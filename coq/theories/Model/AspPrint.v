(* Token-level model of the mini-gringo printer:
     /repo/src/formatting/asp/mini_gringo/default.rs  (Display of Format<...>)
     /repo/src/formatting/mod.rs                       (Precedence::fmt_unary / fmt_binary)
   The printer is modelled in two layers:
     print_* : syntax tree -> list token      (what is written, in order)
     render  : list token  -> string          (the exact bytes: every token has ONE spelling,
                                               spaces included, e.g. " + ", "..", ", ", " :- ", "not ")
   so that  render (print_program p)  is byte-for-byte `format!("{}", program)`.
   The operator tables (precedence / associativity / mandatory_parentheses) are NOT written here:
   they come from Gen/TablesAsp.v, regenerated from default.rs before every build. *)
From Coq Require Import List Ascii String ZArith NArith Bool.
From Anthem Require Import Base.Fresh Syntax.Asp Model.AspTableTypes Gen.TablesAsp.
Import ListNotations.
Open Scope list_scope.

(* ---------------------------------------------------------------- tokens
   One constructor per terminal of grammar.pest as the parser distinguishes them.
   `TkNum z` is the atomic rule `integer` ("0" | "-"? nonzero digit* ): a negative value is ONE token
   (the text "-5" in operand position); `TkNeg` is the rule `negative` (!integer ~ "-"), the prefix
   minus; `TkBin ASub` is the rule `subtract`, the infix minus. *)
Inductive token :=
| TkNum (z : Z)
| TkSym (s : string)          (* symbol   = !negation ~ "_"? ~ lower ~ (alnum | "_")*  *)
| TkVar (s : string)          (* variable = upper ~ alnum*  *)
| TkInf | TkSup               (* "#infimum" | "#inf",  "#supremum" | "#sup" *)
| TkNeg
| TkBin (o : abinop)          (* + - * / \ .. *)
| TkLP | TkRP | TkComma | TkSemi
| TkRel (r : arel)
| TkNot                       (* negation = "not" ~ &(WHITESPACE | EOI) *)
| TkFalse                     (* "#false" *)
| TkLB | TkRB
| TkIf                        (* ":-" *)
| TkDot.

Definition arel_eqb (a b : arel) : bool :=
  match a, b with AEq, AEq | ANe, ANe | ALt, ALt | ALe, ALe | AGt, AGt | AGe, AGe => true | _, _ => false end.

(* ---------------------------------------------------------------- Precedence for Format<'_, Term>
   Rust's `match` is exhaustive, so some arm always fires; the fallbacks below are never used on
   the shipped tables (Proofs/AspRoundTrip.v: tables_total). *)
Definition precedence (t : term) : nat :=
  match first_match asp_fmt_precedence t with Some n => n | None => 0 end.
Definition associativity (t : term) : assoc :=
  match first_match asp_fmt_associativity t with Some a => a | None => ALeft end.
Definition mandatory_parentheses (t : term) : bool :=
  match first_match asp_fmt_mandatory_parentheses t with Some b => b | None => false end.

Definition assoc_eqb (a b : assoc) : bool :=
  match a, b with ALeft, ALeft | ARight, ARight => true | _, _ => false end.

(* fmt_operator: the spacing (" + " but "..") belongs to [render] *)
Definition fmt_operator (t : term) : list token :=
  match t with
  | TUn AUNeg _ => [TkNeg]
  | TBin o _ _ => [TkBin o]
  | _ => []            (* unreachable!() in the source: only called on operations *)
  end.

Definition paren (b : bool) (ts : list token) : list token := if b then TkLP :: ts ++ [TkRP] else ts.

Definition print_pterm (p : pterm) : token :=
  match p with PInf => TkInf | PNum z => TkNum z | PSym s => TkSym s | PSup => TkSup end.

(* Display for Format<Term> with Precedence::fmt_unary / fmt_binary inlined *)
Fixpoint print_term (t : term) : list token :=
  match t with
  | TPre p => [print_pterm p]
  | TVar x => [TkVar x]
  | TUn _ c =>
    (* fmt_unary *)
    let inner := paren (mandatory_parentheses c || Nat.ltb (precedence t) (precedence c)) (print_term c) in
    match associativity t with
    | ALeft => fmt_operator t ++ inner
    | ARight => inner ++ fmt_operator t
    end
  | TBin _ l r =>
    (* fmt_binary *)
    paren (mandatory_parentheses l || Nat.ltb (precedence t) (precedence l)
           || (Nat.eqb (precedence t) (precedence l) && assoc_eqb (associativity l) ARight)) (print_term l)
    ++ fmt_operator t ++
    paren (mandatory_parentheses r || Nat.ltb (precedence t) (precedence r)
           || (Nat.eqb (precedence t) (precedence r) && assoc_eqb (associativity t) ALeft)) (print_term r)
  end.

(* "t1, t2, ..., tn" *)
Fixpoint print_terms (ts : list term) : list token :=
  match ts with
  | [] => []
  | [t] => print_term t
  | t :: rest => print_term t ++ TkComma :: print_terms rest
  end.

Definition print_atom (a : atom) : list token :=
  TkSym (apred a) :: match aterms a with [] => [] | ts => TkLP :: print_terms ts ++ [TkRP] end.

Definition print_sign (s : sign) : list token :=
  match s with SNone => [] | SNeg => [TkNot] | SDNeg => [TkNot; TkNot] end.

Definition print_literal (l : literal) : list token := print_sign (lsign l) ++ print_atom (latom l).

Definition print_comparison (c : comparison) : list token :=
  print_term (clhs c) ++ TkRel (crel c) :: print_term (crhs c).

Definition print_bformula (b : bformula) : list token :=
  match b with BLit l => print_literal l | BCmp c => print_comparison c end.

Definition print_head (h : head) : list token :=
  match h with
  | HBasic a => print_atom a
  | HChoice a => TkLB :: print_atom a ++ [TkRB]
  | HFalsity => []
  end.

Fixpoint print_body (b : list bformula) : list token :=
  match b with
  | [] => []
  | [f] => print_bformula f
  | f :: rest => print_bformula f ++ TkComma :: print_body rest
  end.

Definition is_falsity (h : head) : bool := match h with HFalsity => true | _ => false end.
Definition is_nil {A} (l : list A) : bool := match l with [] => true | _ => false end.

Definition print_rule (r : rule) : list token :=
  print_head (rhead r)
  ++ (if is_falsity (rhead r) || negb (is_nil (rbody r)) then [TkIf] else [])
  ++ print_body (rbody r) ++ [TkDot].

Definition print_program (p : program) : list token := flat_map print_rule p.

(* ---------------------------------------------------------------- bytes *)
Open Scope string_scope.

(* `{n}` of an isize *)
Definition z_str (z : Z) : string :=
  if (z <? 0)%Z then "-" ++ nat_str (Z.to_N (- z)) else nat_str (Z.to_N z).

Definition nl : string := String (ascii_of_nat 10) "".

Definition render_binop (o : abinop) : string :=
  match o with
  | AAdd => " + " | ASub => " - " | AMul => " * " | ADiv => " / " | AMod => " \ " | AInterval => ".."
  end.
Definition render_rel (r : arel) : string :=
  match r with
  | AEq => " = " | ANe => " != " | ALt => " < " | ALe => " <= " | AGt => " > " | AGe => " >= "
  end.

(* The spelling of each token in the output of Display for Format<Program>.  `TkDot` carries the
   newline that `writeln!` adds after every rule; Display of a single Rule is the same text
   without that final newline.  `TkSemi` and `TkFalse` are never printed (the parser accepts
   them; the tree does not record them): they get their source spelling. *)
Definition render_token (t : token) : string :=
  match t with
  | TkNum z => z_str z
  | TkSym s => s
  | TkVar s => s
  | TkInf => "#inf"
  | TkSup => "#sup"
  | TkNeg => "-"
  | TkBin o => render_binop o
  | TkLP => "("
  | TkRP => ")"
  | TkComma => ", "
  | TkSemi => "; "
  | TkRel r => render_rel r
  | TkNot => "not "
  | TkFalse => "#false"
  | TkLB => "{"
  | TkRB => "}"
  | TkIf => " :- "
  | TkDot => "." ++ nl
  end.

Fixpoint render (ts : list token) : string :=
  match ts with [] => "" | t :: rest => render_token t ++ render rest end.

Definition display_program (p : program) : string := render (print_program p).

(* ---------------------------------------------------------------- the keyword-identifier class (F7)
   `not` is a symbol unless it is followed by whitespace or the end of input
   (negation = "not" ~ &(WHITESPACE | EOI);  symbol = !negation ~ ...).  The printer writes
   identifiers verbatim, so a symbol spelled "not" that ends up in front of a token whose spelling
   starts with a space (" :- ", " = ", " + ", ...) turns into the keyword when the text is read
   again.  [keyword_ident p] decides that class on the printed token stream. *)
Definition starts_with_space (t : token) : bool :=
  match t with
  | TkBin AInterval => false
  | TkBin _ | TkRel _ | TkIf => true
  | _ => false
  end.
Definition is_not_sym (t : token) : bool :=
  match t with TkSym s => if string_dec s "not" then true else false | _ => false end.
Fixpoint kw_clash (ts : list token) : bool :=
  match ts with
  | a :: ((b :: _) as rest) => (is_not_sym a && starts_with_space b) || kw_clash rest
  | _ => false
  end.
Definition keyword_ident (p : program) : bool := kw_clash (print_program p).

(* EXTRACT: print_term print_program render display_program keyword_ident *)
