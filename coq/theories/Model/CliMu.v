(* `Program::mu()` of /repo/src/translating/formula_representation/mu.rs with the REAL tau* plugged
   in (Model/Mu.v keeps tau* abstract as Section variables because it was written by another
   cluster).  The Rust code:

       let globals = tau_star::choose_fresh_global_variables(&self);      // may panic (F11)
       for r in self.rules {
           match natural::natural_rule(&r) {
               Some(f) => formulas.push(f),
               None => formulas.push(tau_star::tau_star_rule(&r, &globals)),   // may panic (slice)
           }
       }

   A panic of either tau* function is [NPanic]; a refusal of natural_rule selects the tau* branch
   (mu itself never refuses).  Proofs/CliOk.v ([mu_is_Mu_section]) shows that whenever no panic
   occurs this is exactly [Mu.mu] instantiated with the unwrapped tau* functions. *)
From Coq Require Import List String.
From Anthem Require Import Syntax.Fol Syntax.Asp Model.Natural Model.TauStar.
Import ListNotations.

Fixpoint mu_rules (rules : list rule) (globals : list string) : nresult theory :=
  match rules with
  | [] => NOk []
  | r :: rest =>
      match natural_rule r with
      | NOk f => nbind (mu_rules rest globals) (fun fs => NOk (f :: fs))
      | NRefused =>
          match tau_star_rule r globals with
          | Some f => nbind (mu_rules rest globals) (fun fs => NOk (f :: fs))
          | None => NPanic
          end
      | NPanic => NPanic
      end
  end.

Definition mu (p : program) : nresult theory :=
  match choose_fresh_global_variables p with
  | None => NPanic
  | Some globals => mu_rules p globals
  end.

(* EXTRACT: mu *)
