(* Model of /repo/src/formatting/fol/sigma_0/tptp.rs (Format<..> Display impls) together with
   fmt_unary / fmt_binary of /repo/src/formatting/mod.rs, producing a TOKEN LIST; [render]
   (Syntax/Tff.v) turns tokens into the bytes anthem writes.
   Also: [tff_of_formula], the TFF reading every emitted formula is MEANT to have, and
   [tff_read], a recursive-descent reader for the TPTP TFF formula grammar (SPECIFICATION). *)
From Coq Require Import List Ascii String ZArith NArith Bool.
From Anthem Require Import Syntax.Fol Syntax.Tff Sem.TffSem.
Import ListNotations.
Open Scope string_scope.
Open Scope list_scope.

(* ================= the printer ================= *)
Definition isize_min : Z := (- 2 ^ 63)%Z.

Definition binop_name (o : binop) : string :=
  match o with BAdd => "$sum" | BSub => "$difference" | BMul => "$product" end.

(* Format<IntegerTerm>: negative numerals are `$uminus(|n|)` with |n| = n.unsigned_abs(), a usize,
   so that isize::MIN renders as `$uminus(9223372036854775808)` (finding F3b, repaired: the former
   `n.abs()` overflowed on isize::MIN and panicked in debug builds) *)
Fixpoint print_iterm (t : iterm) : list token :=
  match t with
  | INum z => if (z <? 0)%Z then [KWord "$uminus"; KLPar; KNum (Z.to_N (- z)); KRPar]
              else [KNum (Z.to_N z)]
  | IVar x => [KWord (x ++ "_i")]
  | IFun c => [KWord (c ++ "_i")]
  | IUn UNeg a => KWord "$uminus" :: KLPar :: print_iterm a ++ [KRPar]
  | IBin o l r => KWord (binop_name o) :: KLPar :: print_iterm l ++ KComma :: print_iterm r ++ [KRPar]
  end.
Definition print_sterm (t : sterm) : list token :=
  match t with
  | SSym s => [KWord s]
  | SFun c => [KWord (c ++ "_s")]
  | SVar x => [KWord (x ++ "_s")]
  end.
Definition print_gterm (t : gterm) : list token :=
  match t with
  | GInf => [KWord "c__infimum__"]
  | GSup => [KWord "c__supremum__"]
  | GFun c => [KWord (c ++ "_g")]
  | GVar x => [KWord (x ++ "_g")]
  | GInt t => KWord "f__integer__" :: KLPar :: print_iterm t ++ [KRPar]
  | GSym t => KWord "f__symbolic__" :: KLPar :: print_sterm t ++ [KRPar]
  end.

(* `first, second, third` *)
Fixpoint print_args (ts : list gterm) : list token :=
  match ts with
  | [] => []
  | [t] => print_gterm t
  | t :: ts' => print_gterm t ++ KComma :: print_args ts'
  end.
(* Format<Atom>: no parentheses when there are no arguments *)
Definition print_atom (p : string) (ts : list gterm) : list token :=
  match ts with [] => [KWord p] | _ => KWord p :: KLPar :: print_args ts ++ [KRPar] end.

Definition rel_int (r : rel) : string :=
  match r with REq => "=" | RNe => "!=" | RGe => "$greatereq" | RLe => "$lesseq" | RGt => "$greater" | RLt => "$less" end.
Definition rel_gen (r : rel) : string :=
  match r with REq => "=" | RNe => "!=" | RGe => "p__greater_equal__" | RLe => "p__less_equal__"
             | RGt => "p__greater__" | RLt => "p__less__" end.
Definition is_eq_rel (r : rel) : bool := match r with REq | RNe => true | _ => false end.
Definition eq_token (r : rel) : token := match r with RNe => KNeq | _ => KEq end.

(* one link `lhs rel rhs` of a comparison chain (the match in Format<Comparison>) *)
Definition print_cmp1 (l : gterm) (r : rel) (rhs : gterm) : list token :=
  match l, rhs with
  | GInt a, GInt b =>
      if is_eq_rel r then print_iterm a ++ eq_token r :: print_iterm b
      else KWord (rel_int r) :: KLPar :: print_iterm a ++ KComma :: print_iterm b ++ [KRPar]
  | GSym a, GSym b =>
      if is_eq_rel r then print_sterm a ++ eq_token r :: print_sterm b
      else KWord (rel_gen r) :: KLPar :: print_gterm l ++ KComma :: print_gterm rhs ++ [KRPar]
  | _, _ =>
      if is_eq_rel r then print_gterm l ++ eq_token r :: print_gterm rhs
      else KWord (rel_gen r) :: KLPar :: print_gterm l ++ KComma :: print_gterm rhs ++ [KRPar]
  end.
(* Comparison::individuals() joined by " & " *)
Fixpoint print_chain (first : bool) (l : gterm) (gs : list guard) : list token :=
  match gs with
  | [] => []
  | g :: gs' => (if first then [] else [KAnd]) ++ print_cmp1 l (grel g) (gterm_of g)
                ++ print_chain false (gterm_of g) gs'
  end.
Definition print_aformula (a : aformula) : list token :=
  match a with
  | ATrue => [KWord "$true"]
  | AFalse => [KWord "$false"]
  | AAtom p ts => print_atom p ts
  | ACmp t gs => print_chain true t gs
  end.

Definition print_var (v : var) : list token :=
  [KWord (vname v ++ suffix (vsort v)); KColon;
   KWord (match vsort v with SGeneral => "general" | SInteger => "$int" | SSymbol => "symbol" end)].
Fixpoint print_vars (vs : list var) : list token :=
  match vs with
  | [] => []
  | [v] => print_var v
  | v :: vs' => print_var v ++ KComma :: print_vars vs'
  end.

(* Precedence for Format<Formula> *)
Definition precedence (f : formula) : nat :=
  match f with FAtomic _ => 0 | FNot _ => 1 | FQ _ _ _ => 2 | FBin _ _ _ => 3 end.
Definition mandatory_parentheses (f : formula) : bool :=
  match f with
  | FAtomic (ACmp _ gs) => (1 <? List.length gs)%nat
  | FAtomic _ | FQ _ _ _ => false
  | FNot _ | FBin _ _ _ => true
  end.
Definition parens (b : bool) (ts : list token) : list token := if b then KLPar :: ts ++ [KRPar] else ts.

Fixpoint print_formula (f : formula) : list token :=
  match f with
  | FAtomic a => print_aformula a
  | FNot g =>
      (* fmt_unary: operator first (Left), parentheses if mandatory or 1 < precedence(inner) *)
      KNot :: parens (mandatory_parentheses g || (1 <? precedence g)%nat) (print_formula g)
  | FQ q vs g =>
      quant_token q :: KLBrack :: print_vars vs ++ KRBrack :: KColon :: KLPar :: print_formula g ++ [KRPar]
  | FBin c l r =>
      (* fmt_binary with precedence 3 = the maximum and associativity Left everywhere:
         lhs: mandatory || 3 < prec lhs || (3 = prec lhs && lhs is Right)  =  mandatory lhs
         rhs: mandatory || 3 < prec rhs || (3 = prec rhs && self is Left)  =  mandatory rhs || prec rhs = 3 *)
      parens (mandatory_parentheses l || (3 <? precedence l)%nat) (print_formula l)
      ++ conn_token c ::
      parens (mandatory_parentheses r || (3 <=? precedence r)%nat) (print_formula r)
  end.

(* Format(&formula).  The result type is still an option (None = panic) because the callers
   (Model/ProblemPrint.v, the correspondence ops) were written when rendering could panic on the
   numeral isize::MIN (finding F3b); since the repair rendering is total: Proofs/TptpMain.v,
   [tptp_print_total]. *)
Definition tptp_print (f : formula) : option (list token) := Some (print_formula f).
Definition tptp_format (f : formula) : option string := option_map render (tptp_print f).

(* ================= the intended TFF reading ================= *)
Fixpoint tff_of_iterm (t : iterm) : tff_term :=
  match t with
  | INum z => if (z <? 0)%Z then TApp "$uminus" [TNum (Z.to_N (- z))] else TNum (Z.to_N z)
  | IVar x => TVar (x ++ "_i")
  | IFun c => TApp (c ++ "_i") []
  | IUn UNeg a => TApp "$uminus" [tff_of_iterm a]
  | IBin o l r => TApp (binop_name o) [tff_of_iterm l; tff_of_iterm r]
  end.
Definition tff_of_sterm (t : sterm) : tff_term :=
  match t with
  | SSym s => TApp s []
  | SFun c => TApp (c ++ "_s") []
  | SVar x => TVar (x ++ "_s")
  end.
Definition tff_of_gterm (t : gterm) : tff_term :=
  match t with
  | GInf => TApp "c__infimum__" []
  | GSup => TApp "c__supremum__" []
  | GFun c => TApp (c ++ "_g") []
  | GVar x => TVar (x ++ "_g")
  | GInt t => TApp "f__integer__" [tff_of_iterm t]
  | GSym t => TApp "f__symbolic__" [tff_of_sterm t]
  end.
Definition tff_eq (r : rel) (a b : tff_term) : tff_formula :=
  match r with RNe => TNeq a b | _ => TEq a b end.
Definition tff_of_cmp1 (l : gterm) (r : rel) (rhs : gterm) : tff_formula :=
  match l, rhs with
  | GInt a, GInt b =>
      if is_eq_rel r then tff_eq r (tff_of_iterm a) (tff_of_iterm b)
      else TPred (rel_int r) [tff_of_iterm a; tff_of_iterm b]
  | GSym a, GSym b =>
      if is_eq_rel r then tff_eq r (tff_of_sterm a) (tff_of_sterm b)
      else TPred (rel_gen r) [tff_of_gterm l; tff_of_gterm rhs]
  | _, _ =>
      if is_eq_rel r then tff_eq r (tff_of_gterm l) (tff_of_gterm rhs)
      else TPred (rel_gen r) [tff_of_gterm l; tff_of_gterm rhs]
  end.
(* `A & B & C` is read as (A & B) & C; [acc] is the conjunction read so far *)
Fixpoint tff_of_chain_from (acc : tff_formula) (l : gterm) (gs : list guard) : tff_formula :=
  match gs with
  | [] => acc
  | g :: gs' => tff_of_chain_from (TBin CAnd acc (tff_of_cmp1 l (grel g) (gterm_of g))) (gterm_of g) gs'
  end.
Definition tff_of_aformula (a : aformula) : tff_formula :=
  match a with
  | ATrue => TPred "$true" []
  | AFalse => TPred "$false" []
  | AAtom p ts => TPred p (map tff_of_gterm ts)
  | ACmp t [] => TPred "$true" []     (* not in the parser image; prints as the empty string *)
  | ACmp t (g :: gs) => tff_of_chain_from (tff_of_cmp1 t (grel g) (gterm_of g)) (gterm_of g) gs
  end.
Definition tff_of_var (v : var) : string * tff_type := ((vname v ++ suffix (vsort v))%string, ty_of (vsort v)).
Fixpoint tff_of_formula (f : formula) : tff_formula :=
  match f with
  | FAtomic a => tff_of_aformula a
  | FNot g => TNot (tff_of_formula g)
  | FBin c l r => TBin c (tff_of_formula l) (tff_of_formula r)
  | FQ q vs g => TQ q (map tff_of_var vs) (tff_of_formula g)
  end.

(* ================= the reader (SPECIFICATION, trusted) =================
   TPTP TFF formula grammar restricted to the constructs of Syntax/Tff.v:

     formula ::= unit                                   a single unit formula
               | unit ('&' unit)+  |  unit ('|' unit)+  associative chains, never mixed
               | unit ('=>' | '<=' | '<=>') unit        non-associative: exactly two operands
     unit    ::= '~' unit                               ~ binds tighter than every binary connective
               | ('!' | '?') '[' var ':' type (',' var ':' type)* ']' ':' unit
               | '(' formula ')'
               | term ('=' | '!=') term                 infix (in)equality is atomic
               | functor [ '(' term (',' term)* ')' ]   plain or defined atom ($true, $less(..), p(..))
     term    ::= numeral | Variable | functor [ '(' term (',' term)* ')' ]
     type    ::= '$int' | 'general' | 'symbol'

   Variables are upper words, functors are lower words or $-words.  Chains are read
   left-nested.  Every function takes fuel (structural recursion); [tff_read] supplies enough. *)
Fixpoint read_term (n : nat) (ts : list token) : option (tff_term * list token) :=
  match n with O => None | S n =>
    match ts with
    | KNum k :: r => Some (TNum k, r)
    | KWord w :: r =>
        if is_upper_word w then Some (TVar w, r)
        else if is_functor_word w then
          match r with
          | KLPar :: r1 =>                      (* functor '(' arguments ')' *)
              match read_args n r1 with
              | Some (args, r2) => Some (TApp w args, r2)
              | None => None
              end
          | _ => Some (TApp w [], r)           (* constant *)
          end
        else None
    | _ => None
    end
  end
(* after '(' : term (',' term)* ')' *)
with read_args (n : nat) (ts : list token) : option (list tff_term * list token) :=
  match n with O => None | S n =>
    match read_term n ts with
    | Some (t, KComma :: r) =>
        match read_args n r with Some (a, r') => Some (t :: a, r') | None => None end
    | Some (t, KRPar :: r) => Some ([t], r)
    | _ => None
    end
  end.

Definition read_type (k : token) : option tff_type :=
  match k with
  | KWord w => if String.eqb w "$int" then Some TyInt
               else if String.eqb w "general" then Some TyGeneral
               else if String.eqb w "symbol" then Some TySymbol else None
  | _ => None
  end.
(* after '[' : var ':' type (',' var ':' type)* ']' *)
Fixpoint read_vars (n : nat) (ts : list token) : option (list (string * tff_type) * list token) :=
  match n with O => None | S n =>
    match ts with
    | KWord x :: KColon :: ty :: r =>
        if is_upper_word x then
          match read_type ty, r with
          | Some ty, KComma :: r' =>
              match read_vars n r' with Some (vs, r'') => Some ((x, ty) :: vs, r'') | None => None end
          | Some ty, KRBrack :: r' => Some ([(x, ty)], r')
          | _, _ => None
          end
        else None
    | _ => None
    end
  end.

Definition nonassoc_of (k : token) : option bconn :=
  match k with KImp => Some CImp | KRimp => Some CRimp | KIff => Some CIff | _ => None end.
Definition token_eqb_conn (k : token) (c : bconn) : bool :=
  match k, c with KAnd, CAnd | KOr, COr => true | _, _ => false end.

(* an atomic formula: read a term; an (in)equality if '=' / '!=' follows, otherwise the term must
   be a functor application and is the atom *)
Definition read_atomic (n : nat) (ts : list token) : option (tff_formula * list token) :=
  match read_term n ts with
  | Some (l, KEq :: r) =>
      match read_term n r with Some (rt, r') => Some (TEq l rt, r') | None => None end
  | Some (l, KNeq :: r) =>
      match read_term n r with Some (rt, r') => Some (TNeq l rt, r') | None => None end
  | Some (TApp p args, r) => Some (TPred p args, r)
  | _ => None
  end.

Fixpoint read_unit (n : nat) (ts : list token) : option (tff_formula * list token) :=
  match n with O => None | S n =>
    match ts with
    | KNot :: r =>
        match read_unit n r with Some (f, r') => Some (TNot f, r') | None => None end
    | KAll :: KLBrack :: r | KEx :: KLBrack :: r =>
        match read_vars n r with
        | Some (vs, KColon :: r') =>
            match read_unit n r' with
            | Some (f, r'') =>
                Some (TQ (match ts with KAll :: _ => QForall | _ => QExists end) vs f, r'')
            | None => None
            end
        | _ => None
        end
    | KLPar :: r =>
        match read_formula n r with
        | Some (f, KRPar :: r') => Some (f, r')
        | _ => None
        end
    | _ => read_atomic n ts
    end
  end
with read_formula (n : nat) (ts : list token) : option (tff_formula * list token) :=
  match n with O => None | S n =>
    match read_unit n ts with
    | Some (l, k :: r) =>
        if token_eqb_conn k CAnd then read_chain n CAnd l r
        else if token_eqb_conn k COr then read_chain n COr l r
        else match nonassoc_of k with
             | Some c =>
                 match read_unit n r with Some (rf, r') => Some (TBin c l rf, r') | None => None end
             | None => Some (l, k :: r)
             end
    | other => other
    end
  end
(* after the first '&' (resp. '|') of a chain whose left part [acc] has been read *)
with read_chain (n : nat) (c : bconn) (acc : tff_formula) (ts : list token) : option (tff_formula * list token) :=
  match n with O => None | S n =>
    match read_unit n ts with
    | Some (u, k :: r) =>
        if token_eqb_conn k c then read_chain n c (TBin c acc u) r else Some (TBin c acc u, k :: r)
    | Some (u, []) => Some (TBin c acc u, [])
    | None => None
    end
  end.

(* the whole token list must be one formula *)
Definition tff_read (ts : list token) : option tff_formula :=
  match read_formula (2 * List.length ts + 2) ts with
  | Some (f, []) => Some f
  | _ => None
  end.

(* ================= the formulas C06 speaks about =================
   The image of anthem's parsers, minus the identifier shapes that collide with the sort suffixes
   or the preamble (those are the subject of C09's IdentClass):
   - every comparison has at least one guard, every quantifier binds at least one variable;
   - variables are upper words; placeholders, symbolic constants and predicates are lower words;
   - a symbolic constant does not end in _g/_i/_s (it would read as a placeholder) and is not
     c__infimum__/c__supremum__; a predicate is not one of the preamble's predicates. *)
Definition sym_ok (s : string) : bool :=
  is_lower_word s && (match decode s with None => true | Some _ => false end)
  && negb (String.eqb s "c__infimum__") && negb (String.eqb s "c__supremum__").
Definition pred_ok (p : string) : bool := is_lower_word p && negb (is_reserved_pred p).
Fixpoint iterm_ok (t : iterm) : bool :=
  match t with
  | INum _ => true
  | IVar x => is_upper_word x
  | IFun c => is_lower_word c
  | IUn _ a => iterm_ok a
  | IBin _ l r => iterm_ok l && iterm_ok r
  end.
Definition sterm_ok (t : sterm) : bool :=
  match t with SSym s => sym_ok s | SFun c => is_lower_word c | SVar x => is_upper_word x end.
Definition gterm_ok (t : gterm) : bool :=
  match t with
  | GInf | GSup => true
  | GFun c => is_lower_word c
  | GVar x => is_upper_word x
  | GInt a => iterm_ok a
  | GSym a => sterm_ok a
  end.
Definition aformula_ok (a : aformula) : bool :=
  match a with
  | ATrue | AFalse => true
  | AAtom p ts => pred_ok p && forallb gterm_ok ts
  | ACmp t gs => gterm_ok t && negb (Nat.eqb (List.length gs) 0) && forallb (fun g => gterm_ok (gterm_of g)) gs
  end.
Fixpoint wf_tptp (f : formula) : bool :=
  match f with
  | FAtomic a => aformula_ok a
  | FNot g => wf_tptp g
  | FBin _ l r => wf_tptp l && wf_tptp r
  | FQ _ vs g => negb (Nat.eqb (List.length vs) 0) && forallb (fun v => is_upper_word (vname v)) vs && wf_tptp g
  end.

(* ---------- the two halves of [wf_tptp], separately ----------
   READING the printed tokens back needs only the LEXICAL half: words of the right class, no empty
   comparison, no empty quantifier block ([wf_lex]; Proofs/TptpRead.v).  The symbolic constants
   `a_s`, `n_i`, `p__s` are lower words: the reader reads them as constants. *)
Definition sterm_lex (t : sterm) : bool :=
  match t with SSym s => is_lower_word s | SFun c => is_lower_word c | SVar x => is_upper_word x end.
Definition gterm_lex (t : gterm) : bool :=
  match t with
  | GInf | GSup => true
  | GFun c => is_lower_word c
  | GVar x => is_upper_word x
  | GInt a => iterm_ok a
  | GSym a => sterm_lex a
  end.
Definition aformula_lex (a : aformula) : bool :=
  match a with
  | ATrue | AFalse => true
  | AAtom p ts => is_lower_word p && forallb gterm_lex ts
  | ACmp t gs => gterm_lex t && negb (Nat.eqb (List.length gs) 0) && forallb (fun g => gterm_lex (gterm_of g)) gs
  end.
Fixpoint wf_lex (f : formula) : bool :=
  match f with
  | FAtomic a => aformula_lex a
  | FNot g => wf_lex g
  | FBin _ l r => wf_lex l && wf_lex r
  | FQ _ vs g => negb (Nat.eqb (List.length vs) 0) && forallb (fun v => is_upper_word (vname v)) vs && wf_lex g
  end.

(* The MEANING of the reading needs only that the names are interpreted as intended under the
   constant signature K of the problem the formula is printed in ([names_in K]; Proofs/TptpSem.v):
   - a symbolic constant s is declared a symbolic constant (or, when K has no entry for it, does
     not look like a placeholder) and is not c__infimum__/c__supremum__;
   - a placeholder c of sort so: the identifier c<suffix so> is declared as that placeholder (or
     has no entry);
   - a predicate is not one of the preamble's / the $int signature's predicates.
   With K = [] this is the name half of [wf_tptp]. *)
Section NamesIn.
Variable K : csig.
Definition sym_in (s : string) : bool :=
  negb (String.eqb s "c__infimum__") && negb (String.eqb s "c__supremum__")
  && match clookup K s with
     | Some CSelf => true
     | Some (CPlace _ _) => false
     | None => match decode s with None => true | Some _ => false end
     end.
Definition place_in (c : string) (so : sort) : bool :=
  match clookup K (c ++ suffix so) with
  | Some (CPlace c' so') => String.eqb c' c && sort_eqb so' so
  | Some CSelf => false
  | None => true
  end.
Fixpoint iterm_in (t : iterm) : bool :=
  match t with
  | INum _ | IVar _ => true
  | IFun c => place_in c SInteger
  | IUn _ a => iterm_in a
  | IBin _ l r => iterm_in l && iterm_in r
  end.
Definition sterm_in (t : sterm) : bool :=
  match t with SSym s => sym_in s | SFun c => place_in c SSymbol | SVar _ => true end.
Definition gterm_in (t : gterm) : bool :=
  match t with
  | GInf | GSup | GVar _ => true
  | GFun c => place_in c SGeneral
  | GInt a => iterm_in a
  | GSym a => sterm_in a
  end.
Definition aformula_in (a : aformula) : bool :=
  match a with
  | ATrue | AFalse => true
  | AAtom p ts => negb (is_reserved_pred p) && forallb gterm_in ts
  | ACmp t gs => gterm_in t && forallb (fun g => gterm_in (gterm_of g)) gs
  end.
Fixpoint names_in (f : formula) : bool :=
  match f with
  | FAtomic a => aformula_in a
  | FNot g => names_in g
  | FBin _ l r => names_in l && names_in r
  | FQ _ _ g => names_in g
  end.
End NamesIn.

(* EXTRACT: tptp_print tptp_format tff_of_formula tff_read print_formula read_formula wf_tptp tff_of_var wf_lex names_in *)
