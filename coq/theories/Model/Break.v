(* Model of /repo/src/breaking/fol/sigma_0/ht.rs: splitting equivalences under a universal prefix
   into the two implications.  (Call sites: strong_equivalence.rs AFTER gamma and the classical
   simplification; external_equivalence.rs on the conclusions of a direction.  Both are classical
   contexts; the HT-level fact is proved as well, it costs nothing.) *)
From Coq Require Import List Ascii String ZArith NArith Bool.
From Anthem Require Import Base.ISet Base.Fresh Syntax.Fol.
Import ListNotations.
Open Scope list_scope.
Open Scope string_scope.

(* break_equivalences_formula *)
Fixpoint break_equivalences_formula (f : formula) : theory :=
  match f with
  | FBin CIff l r => [FBin CImp l r; FBin CRimp l r]
  | FQ QForall vs g => map (fun h => quantify h QForall vs) (break_equivalences_formula g)
  | x => [x]
  end.

(* break_equivalences_theory: flat_map *)
Definition break_equivalences_theory (t : theory) : theory := flat_map break_equivalences_formula t.

(* break_equivalences_annotated_formula: name_{i}, same role and direction *)
Fixpoint annotate_from (a : aformula_annot) (i : N) (l : list formula) : list aformula_annot :=
  match l with
  | [] => []
  | f :: l' => mkannot (an_role a) (an_dir a) (an_name a ++ "_" ++ nat_str i) f :: annotate_from a (N.succ i) l'
  end.
Definition break_equivalences_annotated_formula (a : aformula_annot) : specification :=
  annotate_from a 0 (break_equivalences_formula (an_formula a)).

(* EXTRACT: break_equivalences_formula break_equivalences_theory break_equivalences_annotated_formula *)
