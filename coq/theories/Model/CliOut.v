(* The theories that `anthem translate` / `anthem simplify` PRINT, as trees (Model/Cli.v prints them
   at once), and the classes of programs used by the output theorems of C15
   (Properties/C15out.v: "everything the translate and simplify commands print can be fed back").

     output_theory c text = Got G   iff   run_cli c text = print_theory G      ([run_cli_output])

   for the commands that print a theory (translate --with ..., simplify ...). *)
From Coq Require Import List Ascii String ZArith NArith Bool.
From Anthem Require Import Syntax.Fol Syntax.Asp Model.FolLex Model.FolParse Model.FolClass
  Model.TauStar Model.Natural Model.CliMu Model.Gamma Model.Completion Model.Cli.
Import ListNotations.
Open Scope string_scope.
Open Scope list_scope.

Definition of_nresult_step (r : Natural.nresult theory) : step theory :=
  match r with Natural.NOk t => Got t | Natural.NRefused => Stop Error | Natural.NPanic => Stop Panic end.

Definition output_theory (c : command) (text : string) : option (step theory) :=
  match c with
  | Simplify portfolio strategy =>
      Some (match theory_from_file text with
            | Got theory => simplify_theory portfolio strategy theory
            | Stop r => Stop r
            end)
  | Translate Completion =>
      Some (match theory_from_file text with
            | Got theory =>
                match Completion.completion theory [] with
                | Some t => Got t
                | None => Stop Error
                end
            | Stop r => Stop r
            end)
  | Translate Gamma =>
      Some (match theory_from_file text with
            | Got theory => Got (Gamma.gamma_theory theory)
            | Stop r => Stop r
            end)
  | Translate Mu =>
      Some (match program_from_file text with
            | Got program => of_nresult_step (CliMu.mu program)
            | Stop r => Stop r
            end)
  | Translate Natural =>
      Some (match program_from_file text with
            | Got program => of_nresult_step (Natural.natural program)
            | Stop r => Stop r
            end)
  | Translate TauStar =>
      Some (match program_from_file text with
            | Got program =>
                match TauStar.tau_star program with
                | Some theory => Got theory
                | None => Stop Panic
                end
            | Stop r => Stop r
            end)
  | _ => None
  end.

(* ---------- programs whose names are lexically valid in the target language ---------- *)
Fixpoint ok_term (t : term) : bool :=
  match t with
  | TPre (PNum z) => in_isize z
  | TPre (PSym s) => is_symbol_name s
  | TPre _ => true
  | TVar x => is_variable_name x
  | TUn _ a => ok_term a
  | TBin _ l r => ok_term l && ok_term r
  end.
Definition ok_atom (a : atom) : bool := is_symbol_name (apred a) && forallb ok_term (aterms a).
Definition ok_bformula (b : bformula) : bool :=
  match b with
  | BLit l => ok_atom (latom l)
  | BCmp c => ok_term (clhs c) && ok_term (crhs c)
  end.
Definition ok_head (h : head) : bool :=
  match h with HBasic a | HChoice a => ok_atom a | HFalsity => true end.
Definition ok_rule (r : rule) : bool := ok_head (rhead r) && forallb ok_bformula (rbody r).
Definition fol_names_ok (p : program) : bool := forallb ok_rule p.

(* ---------- F7b on the program side: a predicate name with a keyword literal at its front ---------- *)
Definition kwfree_atom (a : atom) : bool := negb (kw_prefixed (apred a)).
Definition kwfree_bformula (b : bformula) : bool :=
  match b with BLit l => kwfree_atom (latom l) | BCmp _ => true end.
Definition kwfree_head (h : head) : bool :=
  match h with HBasic a | HChoice a => kwfree_atom a | HFalsity => true end.
Definition kwfree_rule (r : rule) : bool := kwfree_head (rhead r) && forallb kwfree_bformula (rbody r).
Definition no_keyword_predicate (p : program) : bool := forallb kwfree_rule p.

(* EXTRACT: output_theory fol_names_ok no_keyword_predicate *)
