(* Model of /repo/src/translating/formula_representation/tau_star.rs (everything outside `mod tests`).
   One Gallina definition per Rust function, same name, same argument order, same intermediate
   data.  A panic of the Rust code that an input can reach is the result [None]:
     - `max_taken_var + i` in choose_fresh_global_variables overflows `usize` (debug build: panic);
     - `&globals[0..head_arity]` in tau_star_fo_head_rule when fewer globals than head arguments are
       supplied (cannot happen through `tau_star`).
   The `unreachable!` arms of construct_*_formula (Symbol-sorted `z`, non-leaf terms in an equality,
   non-arithmetic operators) are not reachable from `val` and are noted at the definitions. *)
From Coq Require Import List Ascii String ZArith NArith Bool.
From Anthem Require Import Base.ISet Base.Fresh Syntax.Fol Syntax.Asp Model.FreshNames.
Import ListNotations.
Open Scope string_scope.
Open Scope list_scope.

(* ---------- choose_fresh_global_variables ---------- *)

(* RE: start, "V", a named group of zero or more ASCII digits, end; returns the group *)
Definition is_digit (c : ascii) : bool :=
  let n := N_of_ascii c in (48 <=? n)%N && (n <=? 57)%N.
Fixpoint all_digits (s : string) : bool :=
  match s with EmptyString => true | String c r => is_digit c && all_digits r end.
Definition re_captures_number (s : string) : option string :=
  match s with
  | String c r => if Ascii.eqb c "V"%char && all_digits r then Some r else None
  | EmptyString => None
  end.

Definition two64 : N := Eval vm_compute in (2 ^ 64)%N.
Fixpoint digits_val (acc : N) (s : string) : N :=
  match s with
  | EmptyString => acc
  | String c r => digits_val (acc * 10 + (N_of_ascii c - 48))%N r
  end.
(* `s.parse::<usize>().unwrap_or(0)` for a string of ASCII digits: the empty string and values
   >= 2^64 are parse errors *)
Definition parse_usize_or_0 (s : string) : N :=
  match s with
  | EmptyString => 0%N
  | _ => let v := digits_val 0%N s in if (v <? two64)%N then v else 0%N
  end.

Definition max_head_arity (p : program) : nat :=
  fold_left (fun acc r => let a := head_arity (rhead r) in if Nat.ltb acc a then a else acc) p O.
Definition max_taken_var (p : program) : N :=
  fold_left (fun acc x =>
               match re_captures_number x with
               | Some num => let t := parse_usize_or_0 num in if (acc <? t)%N then t else acc
               | None => acc
               end) (program_vars p) 0%N.

(* for i in 1..max_arity+1 { globals.push("V" ++ (max_taken_var + i)) } ; usize overflow = panic *)
Fixpoint globals_loop (max_taken : N) (i : N) (count : nat) : option (list string) :=
  match count with
  | O => Some []
  | S c =>
      if (two64 <=? max_taken + i)%N then None
      else option_map (cons ("V" ++ nat_str (max_taken + i)%N)%string) (globals_loop max_taken (N.succ i) c)
  end.
Definition choose_fresh_global_variables (p : program) : option (list string) :=
  globals_loop (max_taken_var p) 1%N (max_head_arity p).

(* ---------- val ---------- *)

(* decidable equality of variables, transparent so that the model also computes inside Coq
   (Fol.var_dec goes through an opaque lemma); extraction is the same function *)
Definition vdec (a b : var) : {a = b} + {a <> b}.
Proof. decide equality; [apply sort_dec|apply string_dec]. Defined.

(* z as a term; the Symbol arm is `unreachable!` in the Rust code (tau* creates no Symbol variables) *)
Definition z_var_term (z : var) : gterm := var_to_gterm z.

Definition eq_formula (l r : gterm) : formula := FAtomic (ACmp l [mkguard REq r]).
Definition ivar (x : string) : var := mkvar x SInteger.
Definition gvar (x : string) : var := mkvar x SGeneral.

(* Z = t *)
Definition construct_equality_formula (t : term) (z : var) : formula :=
  let rhs :=
    match t with
    | TPre PInf => GInf
    | TPre PSup => GSup
    | TPre (PNum i) => GInt (INum i)
    | TPre (PSym s) => GSym (SSym s)
    | TVar v => GVar v
    | _ => GInf     (* `unreachable!`: val calls this function on leaves only *)
    end in
  eq_formula (z_var_term z) rhs.

(* exists I J (Z = I op J & val_t1(I) & val_t2(J)) ; op one of + - * (other operators: `unreachable!`) *)
Definition total_binop (o : abinop) : binop :=
  match o with AAdd => BAdd | ASub => BSub | _ => BMul end.
Definition construct_total_function_formula
  (valti valtj : formula) (o : abinop) (i_var j_var z : var) : formula :=
  let i := vname i_var in
  let j := vname j_var in
  let zequals := eq_formula (z_var_term z) (GInt (IBin (total_binop o) (IVar i) (IVar j))) in
  FQ QExists [ivar i; ivar j] (FBin CAnd (FBin CAnd zequals valti) valtj).

(* Display of a fol::Variable: general `X`, integer `X$i`, symbol `X$s` *)
Definition format_var (v : var) : string :=
  match vsort v with
  | SGeneral => vname v
  | SInteger => (vname v ++ "$i")%string
  | SSymbol => (vname v ++ "$s")%string
  end.

(* exists I J Q R (I = J * Q + R & val_t1(I) & val_t2(J) & J != 0 & R >= 0 & R < J & Z = Q|R).
   Quirk kept: the names Q, R must avoid are the FORMATTED variables of the two sub-formulas
   ("I$i", ...), i.e. only general-sorted names count. *)
Definition construct_partial_function_formula
  (valti valtj : formula) (o : abinop) (i_var j_var z : var) : formula :=
  let i := vname i_var in
  let j := vname j_var in
  let taken_vars :=
    iset_extend vdec
      (iset_extend vdec [] (map (fun v => gvar (format_var v)) (variables valti)))
      (map (fun v => gvar (format_var v)) (variables valtj)) in
  let taken := map vname taken_vars in
  let qvar := fresh_one taken "Q" in
  let rvar := fresh_one taken "R" in
  let iequals :=
    eq_formula (GInt (IVar i)) (GInt (IBin BAdd (IBin BMul (IVar j) (IVar qvar)) (IVar rvar))) in
  let conditions :=
    FBin CAnd
      (FBin CAnd
         (FAtomic (ACmp (GInt (IVar j)) [mkguard RNe (GInt (INum 0))]))
         (FAtomic (ACmp (GInt (IVar rvar)) [mkguard RGe (GInt (INum 0))])))
      (FAtomic (ACmp (GInt (IVar rvar)) [mkguard RLt (GInt (IVar j))])) in
  let inner_vals := FBin CAnd valti valtj in
  let subformula := FBin CAnd (FBin CAnd iequals inner_vals) conditions in
  let zequals :=
    match o with
    | ADiv => eq_formula (z_var_term z) (GInt (IVar qvar))
    | _ => eq_formula (z_var_term z) (GInt (IVar rvar))     (* AMod; others `unreachable!` *)
    end in
  FQ QExists [ivar i; ivar j; ivar qvar; ivar rvar] (FBin CAnd subformula zequals).

(* exists I J K (val_t1(I) & val_t2(J) & I <= K <= J & Z = K) *)
Definition construct_interval_formula (valti valtj : formula) (i_var j_var k_var z : var) : formula :=
  let range :=
    FAtomic (ACmp (GInt (IVar (vname i_var)))
               [mkguard RLe (GInt (IVar (vname k_var))); mkguard RLe (GInt (IVar (vname j_var)))]) in
  let subformula :=
    FBin CAnd (FBin CAnd valti valtj) (eq_formula (z_var_term z) (GInt (IVar (vname k_var)))) in
  FQ QExists [i_var; j_var; k_var] (FBin CAnd subformula range).

(* the names `val` must avoid: the term's variables (as general variables) and z *)
Definition val_taken (t : term) (z : var) : list string :=
  map vname (iset_insert vdec (iset_extend vdec [] (map gvar (term_vars t))) z).

(* val_t(Z) *)
Fixpoint val (t : term) (z : var) : formula :=
  let taken := val_taken t z in
  let var1 := ivar (fresh_one taken "I") in
  let var2 := ivar (fresh_one taken "J") in
  let var3 := ivar (fresh_one taken "K") in
  match t with
  | TPre _ | TVar _ => construct_equality_formula t z
  | TUn AUNeg arg =>
      (* shorthand for 0 - t ; val(0, I) is the equality I = 0 *)
      let valti := construct_equality_formula (TPre (PNum 0)) var1 in
      let valtj := val arg var2 in
      construct_total_function_formula valti valtj ASub var1 var2 z
  | TBin o lhs rhs =>
      let valti := val lhs var1 in
      let valtj := val rhs var2 in
      match o with
      | AAdd | ASub | AMul => construct_total_function_formula valti valtj o var1 var2 z
      | ADiv | AMod => construct_partial_function_formula valti valtj o var1 var2 z
      | AInterval => construct_interval_formula valti valtj var1 var2 var3 z
      end
  end.

(* val_t1(Z1) & ... & val_tn(Zn) ; zip stops at the shorter list *)
Definition valtz (terms : list term) (variables : list var) : formula :=
  conjoin (map (fun tv => val (fst tv) (snd tv)) (combine terms variables)).

(* ---------- tau^B ---------- *)

Definition sign_wrap (s : sign) (f : formula) : formula :=
  match s with SNone => f | SNeg => FNot f | SDNeg => FNot (FNot f) end.

Definition tau_b_first_order_literal (l : literal) (taken_vars : list var) : formula :=
  let a := latom l in
  let terms := aterms a in
  let arity := List.length terms in
  let varnames := choose_fresh_variable_names (map vname taken_vars) "Z" arity in
  let var_vars := map gvar varnames in
  let var_terms := map (fun x => GVar x) varnames in
  let valtz_f := conjoin (map (fun tv => val (fst tv) (snd tv)) (combine terms var_vars)) in
  let p_zk := FAtomic (AAtom (apred a) var_terms) in
  FQ QExists var_vars (FBin CAnd valtz_f (sign_wrap (lsign l) p_zk)).

Definition tau_b_propositional_literal (l : literal) : formula :=
  sign_wrap (lsign l) (FAtomic (AAtom (apred (latom l)) [])).

Definition tau_b_comparison (c : comparison) (taken_vars : list var) : formula :=
  let varnames := choose_fresh_variable_names (map vname taken_vars) "Z" 2 in
  let n0 := nth 0 varnames "Z" in
  let n1 := nth 1 varnames "Z" in
  let var_z1 := gvar n0 in
  let var_z2 := gvar n1 in
  let valtz_f := conjoin [val (clhs c) var_z1; val (crhs c) var_z2] in
  let z1_rel_z2 := FAtomic (ACmp (GVar n0) [mkguard (arel_to_rel (crel c)) (GVar n1)]) in
  FQ QExists [var_z1; var_z2] (FBin CAnd valtz_f z1_rel_z2).

Definition tau_b (f : bformula) : formula :=
  let taken_vars := iset_extend vdec [] (map gvar (bformula_vars f)) in
  match f with
  | BLit l =>
      match aterms (latom l) with
      | [] => tau_b_propositional_literal l
      | _ => tau_b_first_order_literal l taken_vars
      end
  | BCmp c => tau_b_comparison c taken_vars
  end.

Definition tau_body (b : list bformula) : formula := conjoin (map tau_b b).

(* ---------- rules ---------- *)

(* Vec<fol::Variable>::sort(): derived Ord = (name, sort), names in byte-lexicographic order *)
Definition sort_rank (s : sort) : nat :=
  match s with SGeneral => 0 | SInteger => 1 | SSymbol => 2 end.
Definition var_leb (a b : var) : bool :=
  match String.compare (vname a) (vname b) with
  | Lt => true
  | Gt => false
  | Eq => Nat.leb (sort_rank (vsort a)) (sort_rank (vsort b))
  end.
Fixpoint insert_sorted (v : var) (l : list var) : list var :=
  match l with
  | [] => [v]
  | x :: xs => if var_leb v x then v :: l else x :: insert_sorted v xs
  end.
Definition sort_vars (l : list var) : list var := fold_right insert_sorted [] l.

Definition head_atom (h : head) : option atom :=
  match h with HBasic a | HChoice a => Some a | HFalsity => None end.
Definition is_choice (h : head) : bool :=
  match h with HChoice _ => true | _ => false end.

(* forall G V ( val_t(V) & tau^B(Body) [& ~~p(V)] -> p(V) ) *)
Definition tau_star_fo_head_rule (r : rule) (globals : list string) : option formula :=
  match head_atom (rhead r) with
  | None => None                                             (* `.unwrap()`; not reachable from tau_star_rule *)
  | Some a =>
      let head_arity := List.length (aterms a) in
      if Nat.ltb (List.length globals) head_arity then None  (* &globals[0..head_arity] *)
      else
        let fvars := firstn head_arity globals in
        let gvars := map gvar (rule_vars r) in
        let fo_vars := map gvar fvars in
        let new_terms := map (fun x => GVar x) fvars in
        let valtz_f := valtz (aterms a) fo_vars in
        let new_head := FAtomic (AAtom (apred a) new_terms) in
        let core_lhs := FBin CAnd valtz_f (tau_body (rbody r)) in
        let new_body :=
          if is_choice (rhead r) then FBin CAnd core_lhs (FNot (FNot new_head)) else core_lhs in
        let imp := FBin CImp new_body new_head in
        Some (FQ QForall (sort_vars (gvars ++ fo_vars)) imp)
  end.

(* forall G ( tau^B(Body) [& ~~p] -> p ), no quantifier when the rule has no variables *)
Definition tau_star_prop_head_rule (r : rule) : option formula :=
  match head_atom (rhead r) with
  | None => None
  | Some a =>
      let gvars := map gvar (rule_vars r) in
      let new_head := FAtomic (AAtom (apred a) []) in
      let core_lhs := tau_body (rbody r) in
      let new_body :=
        if is_choice (rhead r) then FBin CAnd core_lhs (FNot (FNot new_head)) else core_lhs in
      let imp := FBin CImp new_body new_head in
      Some (match sort_vars gvars with [] => imp | vs => FQ QForall vs imp end)
  end.

(* forall G ( tau^B(Body) -> #false ) *)
Definition tau_star_constraint_rule (r : rule) : formula :=
  let gvars := map gvar (rule_vars r) in
  let imp := FBin CImp (tau_body (rbody r)) ffalse in
  match sort_vars gvars with [] => imp | vs => FQ QForall vs imp end.

Definition tau_star_rule (r : rule) (globals : list string) : option formula :=
  match head_pred (rhead r) with
  | Some _ =>
      if Nat.ltb 0 (head_arity (rhead r))
      then tau_star_fo_head_rule r globals
      else tau_star_prop_head_rule r
  | None => Some (tau_star_constraint_rule r)
  end.

Fixpoint map_opt {A B} (f : A -> option B) (l : list A) : option (list B) :=
  match l with
  | [] => Some []
  | x :: xs =>
      match f x, map_opt f xs with
      | Some y, Some ys => Some (y :: ys)
      | _, _ => None
      end
  end.

Definition tau_star (p : program) : option theory :=
  match choose_fresh_global_variables p with
  | None => None
  | Some globals => map_opt (fun r => tau_star_rule r globals) p
  end.

(* EXTRACT: tau_star tau_star_rule choose_fresh_global_variables val tau_b *)
