(* Executable version of the reference semantics Sem/AspRef.v over finite assignments, finite
   predicate extents and a finite window of the domain.  Used only by the semantic cross-check of
   the implementation's outputs (driver op sem_tau_star); NOT a proof and never counted as an
   obligation.  Proofs/EvalAspOk.v ties [ref_vals] with the trivial filter to AspRef.vals.

   [inw] is the "universe filter": a value of a (sub)term counts only if [inw] accepts it.  With
   [inw = fun _ => true] this is exactly AspRef.vals (value sets are finite lists because intervals
   are finite).  With [inw = membership in a window] it is the reference semantics RELATIVISED to
   the window: every value of every subterm has to lie inside the window.  That is precisely what
   Model/Eval.heval computes for the formulas val_t(Z), whose quantified variables I, J, K, Q, R, Z
   range over the window only - provided the window's integers form an interval [-m, m] (then
   floor quotients, remainders and interval members of in-window numbers are in the window). *)
From Coq Require Import List Ascii String ZArith Bool.
From Anthem Require Import Base.ISet Syntax.Fol Syntax.Asp Sem.Domain Sem.AspRef Model.Eval.
Import ListNotations.
Open Scope string_scope.
Open Scope list_scope.

Definition fassign := list (string * gval).
Fixpoint alookup (sg : fassign) (x : string) : gval :=
  match sg with
  | [] => VNum 0
  | (y, d) :: sg' => if String.eqb x y then d else alookup sg' x
  end.

Definition nums (l : list gval) : list Z :=
  flat_map (fun v => match v with VNum n => [n] | _ => [] end) l.
Definition zrange (a b : Z) : list Z :=
  map (fun i => (a + Z.of_nat i)%Z) (seq 0 (Z.to_nat (b - a + 1))).

Definition binop_vals (o : abinop) (n1 n2 : Z) : list gval :=
  match o with
  | AAdd => [VNum (n1 + n2)]
  | ASub => [VNum (n1 - n2)]
  | AMul => [VNum (n1 * n2)]
  | ADiv => if (0 <? n2)%Z then [VNum (n1 / n2)] else []
  | AMod => if (0 <? n2)%Z then [VNum (n1 mod n2)] else []
  | AInterval => map VNum (zrange n1 n2)
  end.

Section RefEval.
Variable inw : gval -> bool.

Definition keep (l : list gval) : list gval := nodup gval_dec (filter inw l).

Fixpoint ref_vals (sg : fassign) (t : term) : list gval :=
  match t with
  | TPre p => keep [pval p]
  | TVar x => keep [alookup sg x]
  | TUn AUNeg a => keep (map (fun n => VNum (0 - n)) (nums (ref_vals sg a)))
  | TBin o l r =>
      let ls := nums (ref_vals sg l) in
      let rs := nums (ref_vals sg r) in
      keep (flat_map (fun n1 => flat_map (fun n2 => binop_vals o n1 n2) rs) ls)
  end.

(* all tuples with i-th component from the i-th list *)
Fixpoint cart (ls : list (list gval)) : list (list gval) :=
  match ls with
  | [] => [[]]
  | l :: ls' => flat_map (fun v => map (cons v) (cart ls')) l
  end.
Definition ref_tuples (sg : fassign) (ts : list term) : list (list gval) :=
  cart (map (ref_vals sg) ts).

Definition ref_bformula_eval (W T : fpint) (sg : fassign) (b : bformula) : bool :=
  match b with
  | BLit (mklit SNone a) => existsb (fun vs => fholds W (apred a) vs) (ref_tuples sg (aterms a))
  | BLit (mklit SNeg a) => existsb (fun vs => negb (fholds T (apred a) vs)) (ref_tuples sg (aterms a))
  | BLit (mklit SDNeg a) => existsb (fun vs => fholds T (apred a) vs) (ref_tuples sg (aterms a))
  | BCmp c =>
      existsb (fun v1 => existsb (fun v2 => rel_sat (arel_to_rel (crel c)) v1 v2) (ref_vals sg (crhs c)))
              (ref_vals sg (clhs c))
  end.
Definition ref_body_eval (W T : fpint) (sg : fassign) (b : list bformula) : bool :=
  forallb (ref_bformula_eval W T sg) b.
Definition ref_head_eval (W T : fpint) (sg : fassign) (h : head) : bool :=
  match h with
  | HBasic a => forallb (fun vs => fholds W (apred a) vs) (ref_tuples sg (aterms a))
  | HChoice a => forallb (fun vs => fholds W (apred a) vs || negb (fholds T (apred a) vs)) (ref_tuples sg (aterms a))
  | HFalsity => false
  end.

(* all assignments of the variables [xs] to members of [dom] *)
Fixpoint assignments (xs : list string) (dom : list gval) : list fassign :=
  match xs with
  | [] => [[]]
  | x :: xs' => flat_map (fun d => map (cons (x, d)) (assignments xs' dom)) dom
  end.

Definition ref_rule_eval_gen (dom : list gval) (H T : fpint) (r : rule) : bool :=
  forallb (fun sg =>
             implb (ref_body_eval H T sg (rbody r)) (ref_head_eval H T sg (rhead r)) &&
             implb (ref_body_eval T T sg (rbody r)) (ref_head_eval T T sg (rhead r)))
          (assignments (rule_vars r) dom).
End RefEval.

(* the reference semantics relativised to the window W (mirror of AspRef.ref_rule_sat) *)
Definition in_window (W : window) (v : gval) : bool := memb gval_dec v (w_general W).
Definition ref_rule_eval (W : window) (H T : fpint) (r : rule) : bool :=
  ref_rule_eval_gen (in_window W) (w_general W) H T r.
Definition ref_program_eval (W : window) (H T : fpint) (p : program) : bool :=
  forallb (ref_rule_eval W H T) p.

(* EXTRACT: ref_vals ref_tuples ref_rule_eval ref_rule_eval_gen ref_program_eval in_window *)
