(* Model of the mini-gringo parser:
     /repo/src/parsing/asp/mini_gringo/grammar.pest      (PEG)
     /repo/src/parsing/asp/mini_gringo/pest.rs           (translate_pair, PRATT_PARSER)
     pest-2.8.2/src/pratt_parser.rs                      (expr / nud / led / lbp)
   in three layers:
     lex            : string -> option (list token)        char level (lexical classes of the grammar)
     peg_term       : list token -> items                   the PEG sequence
                        unary_operator* ~ primary_term ~ (binary_operator ~ unary_operator* ~ primary_term)*
                      which fixes the EXTENT of a term and its flat list of child pairs
     pratt_expr/nud/loop : items -> term                    pest's Pratt algorithm, binding powers from
                                                            Gen/TablesAsp.v (regenerated from pest.rs)
   plus the rule/head/body/program structure with PEG's ordered choice and backtracking.

   Results are three-valued: POk / PFail (pest returns Err) / PPanic (a Rust panic: unwrap on an
   integer that does not fit isize, an operator missing from the Pratt table, ...).

   Deviations from pest, all documented in docs/C14.md:
   * pest has no lexer; [lex] decides the two context-dependent classes by ONE bit of state:
     in operand position "-" followed by a non-zero digit starts an `integer`, otherwise it is the
     prefix `negative`; in operator position (after a numeral, symbol, variable, #inf, #sup or ")")
     it is `subtract`.  On every text the grammar accepts these are exactly the positions in which
     the grammar tries `unary_operator* primary_term` resp. `binary_operator`.
   * a panic raised while translating is reported even if the PEG would have rejected the text
     further on (pest parses the whole text first).  Cannot happen with the shipped tables, where
     the Pratt phase never panics (Proofs/AspRoundTrip.v), and the isize check is done at the end.
   * the implicit skip in front of the first rule happens AFTER its `!"."` guard, so " ." is a
     program (one constraint with an empty body) while "." is not: [leading_skip]. *)
From Coq Require Import List Ascii String ZArith NArith Bool DecimalString.
From Anthem Require Import Base.Fresh Syntax.Asp Model.AspTableTypes Gen.TablesAsp Model.AspPrint.
Import ListNotations.
Open Scope list_scope.

Inductive pres (A : Type) := POk (a : A) | PFail | PPanic.
Arguments POk {A} a.
Arguments PFail {A}.
Arguments PPanic {A}.

Definition pbind {A B} (x : pres A) (f : A -> pres B) : pres B :=
  match x with POk a => f a | PFail => PFail | PPanic => PPanic end.

(* ================================================================ terms: PEG phase *)

(* child pairs of a `term` pair: precomputed_term / variable (leaf), a parenthesised `term`
   (with its own children), `negative`, and the six infix rules *)
Inductive item := ILeaf (t : term) | IParen (l : list item) | IPre | IIn (o : abinop).

Fixpoint peg_prefixes (ts : list token) : list item * list token :=
  match ts with
  | TkNeg :: r => let '(p, r') := peg_prefixes r in (IPre :: p, r')
  | _ => ([], ts)
  end.

Definition leaf_of_token (t : token) : option term :=
  match t with
  | TkNum z => Some (TPre (PNum z))
  | TkSym s => Some (TPre (PSym s))
  | TkInf => Some (TPre PInf)
  | TkSup => Some (TPre PSup)
  | TkVar x => Some (TVar x)
  | _ => None
  end.

(* unary_operator* ~ primary_term;  [rec] parses the `term` inside parentheses *)
Definition peg_operand (rec : list token -> option (list item * list token)) (ts : list token)
  : option (list item * list token) :=
  let '(pres, r) := peg_prefixes ts in
  match r with
  | TkLP :: r1 =>
    match rec r1 with
    | Some (l, TkRP :: r2) => Some (pres ++ [IParen l], r2)
    | _ => None
    end
  | t :: r1 => match leaf_of_token t with Some lf => Some (pres ++ [ILeaf lf], r1) | None => None end
  | [] => None
  end.

(* (binary_operator ~ unary_operator* ~ primary_term)*  -- a group that fails is undone as a whole
   (the operator is not consumed).  [n] bounds the number of iterations; length of the input is
   always enough since every iteration consumes at least two tokens. *)
Fixpoint peg_tail (rec : list token -> option (list item * list token)) (n : nat) (ts : list token)
  : list item * list token :=
  match n with
  | O => ([], ts)
  | S n' =>
    match ts with
    | TkBin o :: r =>
      match peg_operand rec r with
      | Some (op, r') => let '(tl, r'') := peg_tail rec n' r' in (IIn o :: op ++ tl, r'')
      | None => ([], ts)
      end
    | _ => ([], ts)
    end
  end.

Fixpoint peg_term (fuel : nat) (ts : list token) : option (list item * list token) :=
  match fuel with
  | O => None
  | S f =>
    match peg_operand (peg_term f) ts with
    | None => None
    | Some (op, r) => let '(tl, r') := peg_tail (peg_term f) (List.length r) r in Some (op ++ tl, r')
    end
  end.

(* ================================================================ terms: Pratt phase
   pest-2.8.2 pratt_parser.rs, PrattParserMap::{expr, nud, led, lbp}, with the closures of
   TermParser::translate_pair. *)

Definition rule_of_binop (o : abinop) : oprule :=
  match o with
  | AAdd => RAdd | ASub => RSubtract | AMul => RMultiply | ADiv => RDivide | AMod => RModulo
  | AInterval => RInterval
  end.
Definition ops_get (r : oprule) : option (affix * nat) := pratt_lookup asp_pratt_levels r.

(* the rule of an operator pair; leaves and parenthesised terms are not in the table *)
Definition item_rule (i : item) : option oprule :=
  match i with IPre => Some RNegative | IIn o => Some (rule_of_binop o) | _ => None end.

Fixpoint pratt_expr (fuel : nat) (rbp : nat) (items : list item) : pres (term * list item) :=
  match fuel with
  | O => PFail
  | S f =>
    match pratt_nud f items with
    | POk (lhs, rest) => pratt_loop f rbp lhs rest
    | PFail => PFail
    | PPanic => PPanic
    end
  end
with pratt_nud (fuel : nat) (items : list item) : pres (term * list item) :=
  match fuel with
  | O => PFail
  | S f =>
    match items with
    | [] => PPanic                                (* "Pratt parsing expects non-empty Pairs" *)
    | ILeaf t :: rest => POk (t, rest)            (* (self.primary)(pair) *)
    | IParen l :: rest =>                         (* primary: Rule::term => TermParser::translate_pair *)
      match pratt_expr f 0 l with
      | POk (t, _) => POk (t, rest)
      | PFail => PFail
      | PPanic => PPanic
      end
    | IPre :: rest =>
      match ops_get RNegative with
      | Some (Prefix, prec) =>
        match pratt_expr f (prec - 1) rest with
        | POk (rhs, rest') => POk (TUn AUNeg rhs, rest')
        | PFail => PFail
        | PPanic => PPanic
        end
      | _ => PPanic           (* not registered: treated as a primary -> report_unexpected_pair;
                                 registered with another affix: "Expected prefix or primary expression" *)
      end
    | IIn _ :: _ => PPanic    (* an infix rule where an expression starts: every branch panics *)
    end
  end
with pratt_loop (fuel : nat) (rbp : nat) (lhs : term) (items : list item) : pres (term * list item) :=
  match fuel with
  | O => PFail
  | S f =>
    match items with
    | [] => POk (lhs, [])                         (* lbp = 0 *)
    | it :: rest =>
      match item_rule it with
      | None => PPanic                            (* lbp: "Expected operator" *)
      | Some r =>
        match ops_get r with
        | None => PPanic                          (* lbp: "Expected operator" *)
        | Some (aff, prec) =>
          if Nat.ltb rbp prec then
            (* led *)
            match aff, it with
            | Infix a, IIn o =>
              match pratt_expr f (match a with ALeft => prec | ARight => prec - 1 end) rest with
              | POk (rhs, rest') => pratt_loop f rbp (TBin o lhs rhs) rest'
              | PFail => PFail
              | PPanic => PPanic
              end
            | _, _ => PPanic                      (* postfix without map_postfix / prefix in led /
                                                     BinaryOperatorParser on `negative` *)
            end
          else POk (lhs, items)
        end
      end
    end
  end.

Fixpoint item_size (i : item) : nat :=
  match i with
  | IParen l => S ((fix go (l : list item) : nat := match l with [] => 0 | x :: r => item_size x + go r end) l)
  | _ => 1
  end.
Fixpoint items_size (l : list item) : nat := match l with [] => 0 | x :: r => item_size x + items_size r end.

(* PrattParserMap::parse = expr(pairs, 0); whatever is left is dropped (nothing is, see proofs) *)
Definition pratt (items : list item) : pres term :=
  match pratt_expr (2 * items_size items + 2) 0 items with
  | POk (t, _) => POk t
  | PFail => PFail
  | PPanic => PPanic
  end.

(* rule `term` + TermParser::translate_pair *)
Definition parse_term (ts : list token) : pres (term * list token) :=
  match peg_term (S (List.length ts)) ts with
  | None => PFail
  | Some (items, rest) => pbind (pratt items) (fun t => POk (t, rest))
  end.

(* ================================================================ atoms ... programs *)

(* ("," ~ term)* *)
Fixpoint parse_more_terms (n : nat) (ts : list token) : pres (list term * list token) :=
  match n with
  | O => POk ([], ts)
  | S n' =>
    match ts with
    | TkComma :: r =>
      match parse_term r with
      | POk (t, r') => pbind (parse_more_terms n' r') (fun '(l, r'') => POk (t :: l, r''))
      | PFail => POk ([], ts)
      | PPanic => PPanic
      end
    | _ => POk ([], ts)
    end
  end.

(* term_tuple = "(" ~ (term ~ ("," ~ term)* )? ~ ")" *)
Definition parse_term_tuple (ts : list token) : pres (list term * list token) :=
  match ts with
  | TkLP :: r =>
    pbind (match parse_term r with
           | POk (t, r') => pbind (parse_more_terms (List.length r') r') (fun '(l, r'') => POk (t :: l, r''))
           | PFail => POk ([], r)
           | PPanic => PPanic
           end)
          (fun '(l, r') => match r' with TkRP :: r'' => POk (l, r'') | _ => PFail end)
  | _ => PFail
  end.

(* atom = symbol ~ term_tuple? *)
Definition parse_atom (ts : list token) : pres (atom * list token) :=
  match ts with
  | TkSym p :: r =>
    match parse_term_tuple r with
    | POk (args, r') => POk (mkatom p args, r')
    | PFail => POk (mkatom p [], r)
    | PPanic => PPanic
    end
  | _ => PFail
  end.

(* sign = negation{0,2} *)
Definition parse_sign (ts : list token) : sign * list token :=
  match ts with
  | TkNot :: TkNot :: r => (SDNeg, r)
  | TkNot :: r => (SNeg, r)
  | _ => (SNone, ts)
  end.

Definition parse_literal (ts : list token) : pres (literal * list token) :=
  let '(s, r) := parse_sign ts in
  pbind (parse_atom r) (fun '(a, r') => POk (mklit s a, r')).

(* comparison = term ~ relation ~ term *)
Definition parse_comparison (ts : list token) : pres (comparison * list token) :=
  pbind (parse_term ts) (fun '(l, r) =>
    match r with
    | TkRel rel :: r1 => pbind (parse_term r1) (fun '(rh, r2) => POk (mkcmp rel l rh, r2))
    | _ => PFail
    end).

(* atomic_formula = comparison | literal *)
Definition parse_bformula (ts : list token) : pres (bformula * list token) :=
  match parse_comparison ts with
  | POk (c, r) => POk (BCmp c, r)
  | PFail => pbind (parse_literal ts) (fun '(l, r) => POk (BLit l, r))
  | PPanic => PPanic
  end.

(* (("," | ";") ~ atomic_formula)* *)
Fixpoint parse_more_bformulas (n : nat) (ts : list token) : pres (list bformula * list token) :=
  match n with
  | O => POk ([], ts)
  | S n' =>
    match ts with
    | (TkComma | TkSemi) :: r =>
      match parse_bformula r with
      | POk (f, r') => pbind (parse_more_bformulas n' r') (fun '(l, r'') => POk (f :: l, r''))
      | PFail => POk ([], ts)
      | PPanic => PPanic
      end
    | _ => POk ([], ts)
    end
  end.

(* body = (atomic_formula ~ (("," | ";") ~ atomic_formula)* )? *)
Definition parse_body (ts : list token) : pres (list bformula * list token) :=
  match parse_bformula ts with
  | POk (f, r) => pbind (parse_more_bformulas (List.length r) r) (fun '(l, r') => POk (f :: l, r'))
  | PFail => POk ([], ts)
  | PPanic => PPanic
  end.

(* head = basic_head | choice_head | falsity;  falsity = "#false"? *)
Definition parse_head (ts : list token) : pres (head * list token) :=
  match parse_atom ts with
  | POk (a, r) => POk (HBasic a, r)
  | PPanic => PPanic
  | PFail =>
    let falsity := match ts with TkFalse :: r => POk (HFalsity, r) | _ => POk (HFalsity, ts) end in
    match ts with
    | TkLB :: r =>
      match parse_atom r with
      | POk (a, TkRB :: r') => POk (HChoice a, r')
      | PPanic => PPanic
      | _ => falsity
      end
    | _ => falsity
    end
  end.

(* rule = (!"." ~ head ~ (":-" ~ body)?) ~ "."
   [guard_off]: the rule is the first of the text and the text starts with whitespace or a
   comment, so the `!"."` guard looked at that and not at the first token *)
Definition parse_rule_core (ts : list token) : pres (rule * list token) :=
  pbind (parse_head ts) (fun '(h, r) =>
    pbind (match r with
           | TkIf :: r1 => parse_body r1
           | _ => POk ([], r)
           end)
          (fun '(b, r2) => match r2 with TkDot :: r3 => POk (mkrule h b, r3) | _ => PFail end)).

Definition parse_rule (guard_off : bool) (ts : list token) : pres (rule * list token) :=
  match ts, guard_off with
  | TkDot :: _, false => PFail          (* !"." *)
  | _, _ => parse_rule_core ts
  end.

(* program = rule*, then EOI *)
Fixpoint parse_rules (n : nat) (guard_off : bool) (ts : list token) : pres (list rule * list token) :=
  match n with
  | O => POk ([], ts)
  | S n' =>
    match parse_rule guard_off ts with
    | POk (r, ts') => pbind (parse_rules n' false ts') (fun '(l, ts'') => POk (r :: l, ts''))
    | PFail => POk ([], ts)
    | PPanic => PPanic
    end
  end.

Definition parse_program_from (guard_off : bool) (ts : list token) : pres program :=
  pbind (parse_rules (S (List.length ts)) guard_off ts)
        (fun '(p, rest) => match rest with [] => POk p | _ => PFail end).

(* the token-level parser the round-trip theorems are about *)
Definition parse_program (ts : list token) : pres program := parse_program_from false ts.

(* ================================================================ char level *)
Open Scope char_scope.

Definition is_digit (c : ascii) : bool := ("0" <=? c) && (c <=? "9").
Definition is_nonzero_digit (c : ascii) : bool := ("1" <=? c) && (c <=? "9").
Definition is_lower (c : ascii) : bool := ("a" <=? c) && (c <=? "z").
Definition is_upper (c : ascii) : bool := ("A" <=? c) && (c <=? "Z").
Definition is_alnum (c : ascii) : bool := is_digit c || is_lower c || is_upper c.
Definition is_symchar (c : ascii) : bool := is_alnum c || (c =? "_").
Definition is_newline (c : ascii) : bool := (c =? "010") || (c =? "013").
(* WHITESPACE = " " | NEWLINE  (a tab is NOT whitespace) *)
Definition is_ws (c : ascii) : bool := (c =? " ") || is_newline c.

Open Scope string_scope.

Fixpoint span (p : ascii -> bool) (s : string) : string * string :=
  match s with
  | "" => ("", "")
  | String c r => if p c then let '(a, b) := span p r in (String c a, b) else ("", s)
  end.

Fixpoint drop (n : nat) (s : string) : string :=
  match n, s with
  | O, _ => s
  | S n', String _ r => drop n' r
  | S _, "" => ""
  end.

(* COMMENT = "%" ~ (!NEWLINE ~ ANY)* ~ (NEWLINE | EOI): returns what follows the first newline
   character (the "\n" of a "\r\n" is then skipped as whitespace) *)
Fixpoint skip_comment (s : string) : string :=
  match s with
  | "" => ""
  | String c r => if is_newline c then r else skip_comment r
  end.

Definition digits_to_Z (ds : string) : Z :=
  match NilEmpty.uint_of_string ds with Some d => Z.of_N (N.of_uint d) | None => 0%Z end.

Definition at_ws_or_eoi (s : string) : bool :=
  match s with "" => true | String c _ => is_ws c end.

(* symbol = !negation ~ "_"? ~ ASCII_ALPHA_LOWER ~ (ASCII_ALPHANUMERIC | "_")*
   negation = "not" ~ &(WHITESPACE | EOI) *)
Definition lex_symbol (s : string) : option (token * string) :=
  let '(id, r) := span is_symchar s in
  if (id =? "not") && at_ws_or_eoi r then Some (TkNot, r) else Some (TkSym id, r).

Definition try_kw (kw : string) (t : token) (s : string) : option (token * string) :=
  if prefix kw s then Some (t, drop (String.length kw) s) else None.
Definition orelse {A} (x y : option A) : option A := match x with Some _ => x | None => y end.

Definition next_is (c : ascii) (s : string) : bool :=
  match s with String c' _ => (c' =? c)%char | "" => false end.
Definition tail (s : string) : string := match s with String _ r => r | "" => "" end.

(* one token at the start of [s] (which starts with neither whitespace nor "%") *)
Definition lex_token (opnd : bool) (s : string) : option (token * string) :=
  match s with
  | "" => None
  | String c r =>
    if is_digit c then
      (* integer = "0" | "-"? ~ ASCII_NONZERO_DIGIT ~ ASCII_DIGIT* *)
      if (c =? "0")%char then Some (TkNum 0, r)
      else let '(ds, r') := span is_digit s in Some (TkNum (digits_to_Z ds), r')
    else if is_lower c then lex_symbol s
    else if (c =? "_")%char then
      match r with
      | String c2 _ => if is_lower c2 then lex_symbol s else None
      | "" => None
      end
    else if is_upper c then
      (* variable = ASCII_ALPHA_UPPER ~ ASCII_ALPHANUMERIC* *)
      let '(id, r') := span is_alnum s in Some (TkVar id, r')
    else if (c =? "-")%char then
      if opnd then
        match r with
        | String c2 _ =>
          if is_nonzero_digit c2
          then let '(ds, r') := span is_digit r in Some (TkNum (- digits_to_Z ds), r')
          else Some (TkNeg, r)
        | "" => Some (TkNeg, r)
        end
      else Some (TkBin ASub, r)
    else if (c =? "+")%char then Some (TkBin AAdd, r)
    else if (c =? "*")%char then Some (TkBin AMul, r)
    else if (c =? "/")%char then Some (TkBin ADiv, r)
    else if (c =? "\")%char then Some (TkBin AMod, r)
    else if (c =? ".")%char then
      if next_is "." r then Some (TkBin AInterval, tail r) else Some (TkDot, r)
    else if (c =? "(")%char then Some (TkLP, r)
    else if (c =? ")")%char then Some (TkRP, r)
    else if (c =? ",")%char then Some (TkComma, r)
    else if (c =? ";")%char then Some (TkSemi, r)
    else if (c =? "{")%char then Some (TkLB, r)
    else if (c =? "}")%char then Some (TkRB, r)
    else if (c =? "=")%char then Some (TkRel AEq, r)
    else if (c =? "!")%char then
      if next_is "=" r then Some (TkRel ANe, tail r) else None
    else if (c =? "<")%char then
      if next_is "=" r then Some (TkRel ALe, tail r) else Some (TkRel ALt, r)
    else if (c =? ">")%char then
      if next_is "=" r then Some (TkRel AGe, tail r) else Some (TkRel AGt, r)
    else if (c =? ":")%char then
      if next_is "-" r then Some (TkIf, tail r) else None
    else if (c =? "#")%char then
      orelse (try_kw "#false" TkFalse s)
      (orelse (try_kw "#infimum" TkInf s)
      (orelse (try_kw "#inf" TkInf s)
      (orelse (try_kw "#supremum" TkSup s)
              (try_kw "#sup" TkSup s))))
    else None
  end.

(* after these tokens the grammar is in operator position (a primary_term has just ended) *)
Definition opnd_after (t : token) : bool :=
  match t with
  | TkNum _ | TkSym _ | TkVar _ | TkInf | TkSup | TkRP => false
  | _ => true
  end.

Fixpoint lex_go (fuel : nat) (opnd : bool) (s : string) : option (list token) :=
  match fuel with
  | O => None
  | S f =>
    match s with
    | "" => Some []
    | String c r =>
      if is_ws c then lex_go f opnd r
      else if (c =? "%")%char then lex_go f opnd (skip_comment r)
      else match lex_token opnd s with
           | None => None
           | Some (t, r') => option_map (cons t) (lex_go f (opnd_after t) r')
           end
    end
  end.

Definition lex (s : string) : option (list token) := lex_go (S (String.length s)) true s.

Definition leading_skip (s : string) : bool :=
  match s with String c _ => is_ws c || (c =? "%")%char | "" => false end.

(* `pair.as_str().parse::<isize>().unwrap()` *)
Definition isize_ok (z : Z) : bool := ((- 9223372036854775808 <=? z) && (z <=? 9223372036854775807))%Z.

Fixpoint term_numerals_ok (t : term) : bool :=
  match t with
  | TPre (PNum z) => isize_ok z
  | TPre _ | TVar _ => true
  | TUn _ c => term_numerals_ok c
  | TBin _ l r => term_numerals_ok l && term_numerals_ok r
  end.
Definition atom_numerals_ok (a : atom) : bool := forallb term_numerals_ok (aterms a).
Definition bformula_numerals_ok (b : bformula) : bool :=
  match b with
  | BLit l => atom_numerals_ok (latom l)
  | BCmp c => term_numerals_ok (clhs c) && term_numerals_ok (crhs c)
  end.
Definition rule_numerals_ok (r : rule) : bool :=
  match rhead r with HBasic a | HChoice a => atom_numerals_ok a | HFalsity => true end
  && forallb bformula_numerals_ok (rbody r).
Definition program_numerals_ok (p : program) : bool := forallb rule_numerals_ok p.

(* `text.parse::<asp::Program>()` *)
Definition parse_program_text (s : string) : pres program :=
  match lex s with
  | None => PFail
  | Some ts =>
    pbind (parse_program_from (leading_skip s) ts)
          (fun p => if program_numerals_ok p then POk p else PPanic)
  end.

(* EXTRACT: lex parse_term parse_program parse_program_text *)
