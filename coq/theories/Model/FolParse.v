(* Token-level model of the target-language parser:
     /repo/src/parsing/fol/sigma_0/grammar.pest   (the PEG: ordered choice, possessive repetition,
                                                   no backtracking into a repetition)
     /repo/src/parsing/fol/sigma_0/pest.rs        (translate_pair functions; the two PrattParsers)
   in the two phases of the implementation: the PEG phase cuts a formula / integer term into the flat
   pair sequence  prefix* primary (infix prefix* primary)*  (a parenthesised sub-formula is one primary,
   translated recursively), then pest's Pratt algorithm (Model/FolPratt.v) with the tables of
   Gen/TablesFol.v builds the tree.
   Results: [Ok x rest] | [Fail] (the PEG expression does not match here) | [Oof] (fuel exhausted; never
   happens with [fuel_of], and is reported as a driver error rather than as a rejection).
   Scannerless details modelled at token level:
     * a keyword literal at the front of a word ("notp", "forallX p", "p andq", "#trueand p" is lexical):
       [strip_kw] splits the word token and re-lexes the remainder;
     * TNegNum at a binary-operator position is subtract + numeral ("1 -1");
     * TRimp / TRimpNeg at a guard position is "<" followed by "-" ("a <- b$i" is a < -b$i);
     * `variable+` is greedy; `prefix*` is possessive ("(not) and p" is rejected);
     * numerals / arities outside isize / usize are a panic of the translate phase (after a successful
       PEG parse): [PR_panic].
   Deviations: the `keyword` rule (!keyword in symbolic_constant) only fires when the keyword is followed
   by the end of the input, which cannot happen inside a theory, specification or user guide (every
   symbolic constant is followed at least by "."); it is not modelled.  The unreachable panics of the
   translate functions (report_unexpected_pair/report_missing_pair, Pratt "Expected ...") are [Fail]. *)
From Coq Require Import List Ascii String ZArith NArith Bool Arith.
From Anthem Require Import Syntax.Fol Gen.TablesFol Model.FolPrint Model.FolLex Model.FolPratt.
Import ListNotations.
Open Scope string_scope.
Open Scope list_scope.

Inductive res (A : Type) := Ok (a : A) (rest : list token) | Fail | Oof.
Arguments Ok {A} a rest.
Arguments Fail {A}.
Arguments Oof {A}.

(* ---------- keyword literals inside words ---------- *)
Definition suffix_of (s : option sort) : suffix := match s with Some x => SufSort x | None => SufNone end.
(* Some rest: the literal [kw] matches at the front of the token list, [rest] is what follows it *)
Definition strip_kw (kw : string) (ts : list token) : option (list token) :=
  match ts with
  | TWord w :: r =>
      match strip_prefix (chars kw) (chars w) with Some rem => Some (relex rem SufNone ++ r) | None => None end
  | TFun w s :: r =>
      match strip_prefix (chars kw) (chars w) with Some rem => Some (relex rem (SufSort s) ++ r) | None => None end
  | TFunBare w :: r =>
      match strip_prefix (chars kw) (chars w) with Some rem => Some (relex rem SufBare ++ r) | None => None end
  | _ => None
  end.
Definition is_word (w : string) (t : token) : bool := match t with TWord s => String.eqb s w | _ => false end.

(* ---------- integer terms ---------- *)
Definition ipitem := pitem iterm unit binop.
Definition binop_rule (o : binop) : trule := match o with BAdd => RAdd | BSub => RSubtract | BMul => RMultiply end.
Definition iterm_pre_bp (_ : unit) : option nat :=
  match term_pratt RNegative with Some (APrefix, p) => Some p | _ => None end.
Definition iterm_in_bp (o : binop) : option (nat * assoc) :=
  match term_pratt (binop_rule o) with Some (AInfix a, p) => Some (p, a) | _ => None end.
Definition pratt_iterm (is : list ipitem) : option iterm :=
  pratt (fun _ t => IUn UNeg t) (fun o l r => IBin o l r) iterm_pre_bp iterm_in_bp is.

(* negative = { !numeral ~ "-" } : a TMinus is never the start of a numeral (that is TNegNum) *)
Fixpoint unary_ops (ts : list token) : list ipitem * list token :=
  match ts with
  | TMinus :: r => let '(us, r') := unary_ops r in (PPre tt :: us, r')
  | _ => ([], ts)
  end.
(* binary_operator = add | subtract | multiply; "-5" after an operand is subtract then 5 *)
Definition split_binop (ts : list token) : option (binop * list token) :=
  match ts with
  | TPlus :: r => Some (BAdd, r)
  | TMinus :: r => Some (BSub, r)
  | TStar :: r => Some (BMul, r)
  | TNegNum n :: r => Some (BSub, TNum n :: r)
  | _ => None
  end.

Section ITermPeg.
  Variable rec : list token -> res iterm.   (* integer_term, for n_primary = "(" integer_term ")" *)
  Definition n_primary (ts : list token) : res iterm :=
    match ts with
    | TNum n :: r => Ok (INum (Z.of_N n)) r
    | TNegNum n :: r => Ok (INum (- Z.of_N n)) r
    | TFun c SInteger :: r => Ok (IFun c) r
    | TVar x SInteger :: r => Ok (IVar x) r
    | TLParen :: r =>
        match rec r with
        | Ok t (TRParen :: r') => Ok t r'
        | Ok _ _ => Fail
        | Fail => Fail
        | Oof => Oof
        end
    | _ => Fail
    end.
  (* unary_operator* ~ n_primary *)
  Definition i_operand (ts : list token) : res (list ipitem) :=
    let '(us, r) := unary_ops ts in
    match n_primary r with
    | Ok t r' => Ok (us ++ [PPrim t]) r'
    | Fail => Fail
    | Oof => Oof
    end.
  (* (binary_operator ~ unary_operator* ~ n_primary)* : an iteration that fails restores the position *)
  Fixpoint i_tail (fuel : nat) (ts : list token) : res (list ipitem) :=
    match fuel with
    | O => Oof
    | S f =>
        match split_binop ts with
        | Some (o, r) =>
            match i_operand r with
            | Ok its r' =>
                match i_tail f r' with
                | Ok more r'' => Ok (PIn o :: its ++ more) r''
                | Fail => Fail
                | Oof => Oof
                end
            | Fail => Ok [] ts
            | Oof => Oof
            end
        | None => Ok [] ts
        end
    end.
End ITermPeg.

Fixpoint peg_iterm (fuel : nat) (ts : list token) : res iterm :=
  match fuel with
  | O => Oof
  | S f =>
      match i_operand (peg_iterm f) ts with
      | Ok its r =>
          match i_tail (peg_iterm f) f r with
          | Ok more r' => match pratt_iterm (its ++ more) with Some t => Ok t r' | None => Fail end
          | Fail => Fail
          | Oof => Oof
          end
      | Fail => Fail
      | Oof => Oof
      end
  end.

(* general_term = general_function_constant | integer_term | symbolic_term | general_variable | infimum | supremum *)
Definition peg_gterm (fuel : nat) (ts : list token) : res gterm :=
  match ts with
  | TFun c SGeneral :: r => Ok (GFun c) r
  | _ =>
      match peg_iterm fuel ts with
      | Ok t r => Ok (GInt t) r
      | Oof => Oof
      | Fail =>
          match ts with
          | TFun c SSymbol :: r => Ok (GSym (SFun c)) r
          | TWord s :: r => Ok (GSym (SSym s)) r
          | TVar x SSymbol :: r => Ok (GSym (SVar x)) r
          | TVar x SGeneral :: r => Ok (GVar x) r
          | TInf :: r => Ok GInf r
          | TSup :: r => Ok GSup r
          | _ => Fail
          end
      end
  end.

(* ---------- atomic formulas ---------- *)
(* general_term ~ ("," ~ general_term)* *)
Fixpoint peg_terms (fuel : nat) (ts : list token) : res (list gterm) :=
  match fuel with
  | O => Oof
  | S f =>
      match peg_gterm f ts with
      | Ok t (TComma :: r) =>
          match peg_terms f r with
          | Ok l r' => Ok (t :: l) r'
          | Fail => Ok [t] (TComma :: r)
          | Oof => Oof
          end
      | Ok t r => Ok [t] r
      | Fail => Fail
      | Oof => Oof
      end
  end.
(* term_tuple = "(" ~ (general_term ~ ("," ~ general_term)* )? ~ ")" *)
Definition peg_tuple (fuel : nat) (ts : list token) : res (list gterm) :=
  match ts with
  | TLParen :: r =>
      match peg_terms fuel r with
      | Ok l (TRParen :: r') => Ok l r'
      | Ok _ _ => Fail
      | Fail => match r with TRParen :: r' => Ok [] r' | _ => Fail end
      | Oof => Oof
      end
  | _ => Fail
  end.
(* atom = predicate_symbol ~ term_tuple? *)
Definition peg_atom (fuel : nat) (ts : list token) : res aformula :=
  match ts with
  | TWord p :: r =>
      match peg_tuple fuel r with
      | Ok l r' => Ok (AAtom p l) r'
      | Fail => Ok (AAtom p []) r
      | Oof => Oof
      end
  | _ => Fail
  end.
(* relation at a guard position; "<-" is "<" followed by "-" there ("<->": the "<" matches but no
   general term starts with "->", so the guard fails either way) *)
Definition split_rel (ts : list token) : option (rel * list token) :=
  match ts with
  | TRel r :: rest => Some (r, rest)
  | TRimp :: rest => Some (RLt, TMinus :: rest)
  | TRimpNeg n :: rest => Some (RLt, TNegNum n :: rest)
  | _ => None
  end.
(* guard* *)
Fixpoint peg_guards (fuel : nat) (ts : list token) : res (list guard) :=
  match fuel with
  | O => Oof
  | S f =>
      match split_rel ts with
      | Some (rl, r) =>
          match peg_gterm f r with
          | Ok t r' =>
              match peg_guards f r' with
              | Ok gs r'' => Ok (mkguard rl t :: gs) r''
              | Fail => Fail
              | Oof => Oof
              end
          | Fail => Ok [] ts
          | Oof => Oof
          end
      | None => Ok [] ts
      end
  end.
(* comparison = general_term ~ guard+ *)
Definition peg_comparison (fuel : nat) (ts : list token) : res aformula :=
  match peg_gterm fuel ts with
  | Ok t r =>
      match peg_guards fuel r with
      | Ok (g :: gs) r' => Ok (ACmp t (g :: gs)) r'
      | Ok [] _ => Fail
      | Fail => Fail
      | Oof => Oof
      end
  | Fail => Fail
  | Oof => Oof
  end.
(* atomic_formula = truth | falsity | comparison | atom *)
Definition peg_atomic (fuel : nat) (ts : list token) : res aformula :=
  match ts with
  | TTrue :: r => Ok ATrue r
  | TFalse :: r => Ok AFalse r
  | _ =>
      match peg_comparison fuel ts with
      | Ok a r => Ok a r
      | Oof => Oof
      | Fail => peg_atom fuel ts
      end
  end.

(* ---------- formulas ---------- *)
Inductive fpre := PNot | PQuant (q : quant) (vs : list var).
Definition fpitem := pitem formula fpre bconn.
Definition conn_rule (c : bconn) : frule :=
  match c with CAnd => RConjunction | COr => RDisjunction | CImp => RImplication | CRimp => RReverseImplication | CIff => REquivalence end.
Definition fpre_rule (p : fpre) : frule := match p with PNot => RNegation | PQuant _ _ => RQuantification end.
Definition formula_pre_bp (p : fpre) : option nat :=
  match formula_pratt (fpre_rule p) with Some (APrefix, n) => Some n | _ => None end.
Definition formula_in_bp (c : bconn) : option (nat * assoc) :=
  match formula_pratt (conn_rule c) with Some (AInfix a, n) => Some (n, a) | _ => None end.
Definition mk_fpre (p : fpre) (f : formula) : formula :=
  match p with PNot => FNot f | PQuant q vs => FQ q vs f end.
Definition pratt_formula (is : list fpitem) : option formula :=
  pratt mk_fpre (fun c l r => FBin c l r) formula_pre_bp formula_in_bp is.

(* variable+ is greedy *)
Fixpoint take_vars (ts : list token) : list var * list token :=
  match ts with
  | TVar x s :: r => let '(vs, r') := take_vars r in (mkvar x s :: vs, r')
  | _ => ([], ts)
  end.
(* prefix = quantification | unary_connective;  quantification = (forall | exists) ~ variable+ *)
Definition peg_quant (q : quant) (kw : string) (ts : list token) : option (fpre * list token) :=
  match strip_kw kw ts with
  | Some r => match take_vars r with (v :: vs, r') => Some (PQuant q (v :: vs), r') | ([], _) => None end
  | None => None
  end.
Definition peg_prefix (ts : list token) : option (fpre * list token) :=
  match peg_quant QForall "forall" ts with
  | Some x => Some x
  | None =>
      match peg_quant QExists "exists" ts with
      | Some x => Some x
      | None => match strip_kw "not" ts with Some r => Some (PNot, r) | None => None end
      end
  end.
(* infix = equivalence | implication | reverse_implication | conjunction | disjunction *)
Definition peg_infix (ts : list token) : option (bconn * list token) :=
  match ts with
  | TIff :: r => Some (CIff, r)
  | TImp :: r => Some (CImp, r)
  | TRimp :: r => Some (CRimp, r)
  | TRimpNeg n :: r => Some (CRimp, TNum n :: r)
  | _ =>
      match strip_kw "and" ts with
      | Some r => Some (CAnd, r)
      | None => match strip_kw "or" ts with Some r => Some (COr, r) | None => None end
      end
  end.

Section FormulaPeg.
  Variable rec : list token -> res formula.   (* formula, for primary = "(" formula ")" *)
  Variable afuel : nat.                         (* fuel handed to the atomic-formula parser *)
  (* prefix* (possessive) *)
  Fixpoint f_prefixes (fuel : nat) (ts : list token) : res (list fpitem) :=
    match fuel with
    | O => Oof
    | S f =>
        match peg_prefix ts with
        | Some (p, r) =>
            match f_prefixes f r with
            | Ok ps r' => Ok (PPre p :: ps) r'
            | Fail => Fail
            | Oof => Oof
            end
        | None => Ok [] ts
        end
    end.
  Definition f_atomic (ts : list token) : res formula :=
    match peg_atomic afuel ts with
    | Ok a r => Ok (FAtomic a) r
    | Fail => Fail
    | Oof => Oof
    end.
  (* primary = "(" ~ formula ~ ")" | atomic_formula *)
  Definition f_primary (ts : list token) : res formula :=
    match ts with
    | TLParen :: r =>
        match rec r with
        | Ok t (TRParen :: r') => Ok t r'
        | Oof => Oof
        | _ => f_atomic ts
        end
    | _ => f_atomic ts
    end.
  Definition f_operand (fuel : nat) (ts : list token) : res (list fpitem) :=
    match f_prefixes fuel ts with
    | Ok ps r =>
        match f_primary r with
        | Ok t r' => Ok (ps ++ [PPrim t]) r'
        | Fail => Fail
        | Oof => Oof
        end
    | Fail => Fail
    | Oof => Oof
    end.
  (* (infix ~ prefix* ~ primary)* *)
  Fixpoint f_tail (fuel : nat) (ts : list token) : res (list fpitem) :=
    match fuel with
    | O => Oof
    | S f =>
        match peg_infix ts with
        | Some (c, r) =>
            match f_operand f r with
            | Ok its r' =>
                match f_tail f r' with
                | Ok more r'' => Ok (PIn c :: its ++ more) r''
                | Fail => Fail
                | Oof => Oof
                end
            | Fail => Ok [] ts
            | Oof => Oof
            end
        | None => Ok [] ts
        end
    end.
End FormulaPeg.

Fixpoint peg_formula (fuel : nat) (ts : list token) : res formula :=
  match fuel with
  | O => Oof
  | S f =>
      match f_operand (peg_formula f) f f ts with
      | Ok its r =>
          match f_tail (peg_formula f) f f r with
          | Ok more r' => match pratt_formula (its ++ more) with Some t => Ok t r' | None => Fail end
          | Fail => Fail
          | Oof => Oof
          end
      | Fail => Fail
      | Oof => Oof
      end
  end.

(* ---------- theories, annotated formulas, specifications, user guides ---------- *)
(* (X ~ ".")* for an entry parser X; an iteration that fails restores the position *)
Section Dotted.
  Context {A : Type}.
  Variable entry : nat -> list token -> res A.
  Fixpoint peg_dotted (fuel : nat) (ts : list token) : res (list A) :=
    match fuel with
    | O => Oof
    | S f =>
        match entry f ts with
        | Ok x (TDot :: r) =>
            match peg_dotted f r with
            | Ok l r' => Ok (x :: l) r'
            | Fail => Fail
            | Oof => Oof
            end
        | Oof => Oof
        | _ => Ok [] ts
        end
    end.
End Dotted.

Definition role_of_tok (t : token) : option role :=
  match t with
  | TIndLemma => Some RInductiveLemma
  | TWord w =>
      if String.eqb w "assumption" then Some RAssumption
      else if String.eqb w "spec" then Some RSpec
      else if String.eqb w "lemma" then Some RLemma
      else if String.eqb w "definition" then Some RDefinition
      else None
  | _ => None
  end.
Definition direction_of_word (w : string) : option direction :=
  if String.eqb w "universal" then Some DUniversal
  else if String.eqb w "forward" then Some DForward
  else if String.eqb w "backward" then Some DBackward
  else None.
Definition sort_of_word (w : string) : option sort :=
  if String.eqb w "g" || String.eqb w "general" then Some SGeneral
  else if String.eqb w "i" || String.eqb w "integer" then Some SInteger
  else if String.eqb w "s" || String.eqb w "symbol" then Some SSymbol
  else None.

(* annotated_formula = role ~ ("(" ~ direction ~ ")")? ~ ("[" ~ symbolic_constant ~ "]")? ~ ":" ~ formula *)
Definition peg_direction (ts : list token) : direction * list token :=
  match ts with
  | TLParen :: TWord d :: TRParen :: r =>
      match direction_of_word d with Some x => (x, r) | None => (DUniversal, ts) end
  | _ => (DUniversal, ts)
  end.
Definition peg_name (ts : list token) : string * list token :=
  match ts with
  | TLBrack :: TWord n :: TRBrack :: r => (n, r)
  | _ => (EmptyString, ts)
  end.
Definition peg_annot (fuel : nat) (ts : list token) : res aformula_annot :=
  match ts with
  | t :: r =>
      match role_of_tok t with
      | Some ro =>
          let '(d, r1) := peg_direction r in
          let '(n, r2) := peg_name r1 in
          match r2 with
          | TColon :: r3 =>
              match peg_formula fuel r3 with
              | Ok f r4 => Ok (mkannot ro d n f) r4
              | Fail => Fail
              | Oof => Oof
              end
          | _ => Fail
          end
      | None => Fail
      end
  | [] => Fail
  end.

(* user_guide_entry = input_predicate | output_predicate | placeholder_declaration | annotated_formula;
   arities stay N until the translate phase converts them (usize) *)
Inductive raw_entry :=
| REInput (p : string) (n : N) | REOutput (p : string) (n : N)
| REPlaceholder (c : string) (s : sort) | REFormula (a : aformula_annot).
Definition peg_placeholder_sort (ts : list token) : sort * list token :=
  match ts with
  | TImp :: TWord w :: r => match sort_of_word w with Some s => (s, r) | None => (SGeneral, ts) end
  | _ => (SGeneral, ts)
  end.
Definition peg_ug_annot (fuel : nat) (ts : list token) : res raw_entry :=
  match peg_annot fuel ts with
  | Ok a r => Ok (REFormula a) r
  | Fail => Fail
  | Oof => Oof
  end.
Definition peg_ug_entry (fuel : nat) (ts : list token) : res raw_entry :=
  match ts with
  | t1 :: TColon :: TWord p :: TSlash :: TNum n :: r =>
      if is_word "input" t1 then Ok (REInput p n) r
      else if is_word "output" t1 then Ok (REOutput p n) r
      else peg_ug_annot fuel ts
  | t1 :: TColon :: TWord c :: r =>
      if is_word "input" t1 then let '(s, r') := peg_placeholder_sort r in Ok (REPlaceholder c s) r'
      else peg_ug_annot fuel ts
  | _ => peg_ug_annot fuel ts
  end.

(* ---------- fuel ---------- *)
Definition tok_size (t : token) : nat :=
  match t with
  | TWord s => S (String.length s)
  | TFun c _ => S (S (String.length c))
  | TFunBare c => S (S (String.length c))
  | TVar x _ => S (S (String.length x))
  | _ => 1
  end.
Definition toks_size (ts : list token) : nat := fold_right (fun t n => tok_size t + n) 0 ts.
Definition fuel_of (ts : list token) : nat := 4 * toks_size ts + 16.

(* ---------- the translate phase's range checks (parse::<isize>().unwrap(), parse::<usize>().unwrap()) ---------- *)
Definition in_isize (z : Z) : bool := ((- 2 ^ 63) <=? z)%Z && (z <? 2 ^ 63)%Z.
Definition in_usize (n : N) : bool := (n <? 2 ^ 64)%N.
Fixpoint iterm_in_range (t : iterm) : bool :=
  match t with
  | INum z => in_isize z
  | IFun _ | IVar _ => true
  | IUn _ a => iterm_in_range a
  | IBin _ l r => iterm_in_range l && iterm_in_range r
  end.
Definition gterm_in_range (t : gterm) : bool := match t with GInt t => iterm_in_range t | _ => true end.
Definition aformula_in_range (a : aformula) : bool :=
  match a with
  | ATrue | AFalse => true
  | AAtom _ ts => forallb gterm_in_range ts
  | ACmp t gs => gterm_in_range t && forallb (fun g => gterm_in_range (gterm_of g)) gs
  end.
Fixpoint formula_in_range (f : formula) : bool :=
  match f with
  | FAtomic a => aformula_in_range a
  | FNot g => formula_in_range g
  | FBin _ l r => formula_in_range l && formula_in_range r
  | FQ _ _ g => formula_in_range g
  end.
Definition raw_entry_in_range (e : raw_entry) : bool :=
  match e with
  | REInput _ n | REOutput _ n => in_usize n
  | REPlaceholder _ _ => true
  | REFormula a => formula_in_range (an_formula a)
  end.
Definition entry_of_raw (e : raw_entry) : ug_entry :=
  match e with
  | REInput p n => UGInput (mkpred p (N.to_nat n))
  | REOutput p n => UGOutput (mkpred p (N.to_nat n))
  | REPlaceholder c s => UGPlaceholder c s
  | REFormula a => UGFormula a
  end.

(* ---------- complete parsers (rule_eoi) ---------- *)
Inductive presult (A : Type) := PR_ok (a : A) | PR_err | PR_panic | PR_oof.
Arguments PR_ok {A} a.
Arguments PR_err {A}.
Arguments PR_panic {A}.
Arguments PR_oof {A}.

Definition finish {A B : Type} (r : res A) (in_range : A -> bool) (conv : A -> B) : presult B :=
  match r with
  | Ok x [] => if in_range x then PR_ok (conv x) else PR_panic
  | Ok _ (_ :: _) => PR_err
  | Fail => PR_err
  | Oof => PR_oof
  end.

Definition parse_formula_toks (ts : list token) : presult formula :=
  finish (peg_formula (fuel_of ts) ts) formula_in_range (fun x => x).
Definition parse_theory_toks (ts : list token) : presult theory :=
  finish (peg_dotted peg_formula (fuel_of ts) ts) (forallb formula_in_range) (fun x => x).
Definition parse_spec_toks (ts : list token) : presult specification :=
  finish (peg_dotted peg_annot (fuel_of ts) ts) (forallb (fun a => formula_in_range (an_formula a))) (fun x => x).
(* arities stay N here (the wire format prints them without building a unary nat) *)
Definition parse_ug_raw_toks (ts : list token) : presult (list raw_entry) :=
  finish (peg_dotted peg_ug_entry (fuel_of ts) ts) (forallb raw_entry_in_range) (fun x => x).
Definition parse_ug_toks (ts : list token) : presult user_guide :=
  finish (peg_dotted peg_ug_entry (fuel_of ts) ts) (forallb raw_entry_in_range) (map entry_of_raw).

Definition on_text {A : Type} (p : list token -> presult A) (s : string) : presult A :=
  match lex s with Some ts => p ts | None => PR_err end.
(* formula_eoi = formula ~ EOI has no leading `&ANY?`.  pest generates `prefix*` as an
   optional sequence  prefix, then repeatedly (skip, prefix),  and inserts the implicit skip only BETWEEN sequence elements, so
   when the text begins with layout the first `prefix` is tried on the layout, fails, `prefix*` is empty,
   the skip runs and the first primary is parsed directly: " p and not q" is accepted, " not p" and
   " forall X p(X)" are rejected, " forallX(a)" is the atom forallX(a).  (Inside theories etc. a formula
   always starts after a skip, so this only concerns the stand-alone formula parser.)
   It is also the one complete parser where the `keyword` rule can fire (a keyword-named symbolic
   constant as the very last characters of the input is refused: "p or and" is rejected, "p or and "
   accepted); see [keyword_rule] below. *)
Definition peg_formula_lead (fuel : nat) (ts : list token) : res formula :=
  match fuel with
  | O => Oof
  | S f =>
      match f_primary (peg_formula f) f ts with
      | Ok t r =>
          match f_tail (peg_formula f) f f r with
          | Ok more r' => match pratt_formula (PPrim t :: more) with Some t' => Ok t' r' | None => Fail end
          | Fail => Fail
          | Oof => Oof
          end
      | Fail => Fail
      | Oof => Oof
      end
  end.
(* the `keyword` rule, for the stand-alone formula parser: the last token is a word that ends exactly
   at the end of the input (appending a letter extends the last token instead of adding one) and the
   parse would consume it as a keyword-named symbolic constant (the rightmost leaf of the tree): then
   symbolic_constant fails there and, because nothing else can consume the word, the parse fails *)
Definition is_keyword_word (w : string) : bool :=
  String.eqb w "and" || String.eqb w "or" || String.eqb w "not" || String.eqb w "forall" || String.eqb w "exists".
Definition ends_at_word (s : string) : bool :=
  match lex s, lex (s ++ "z") with
  | Some ts, Some ts' =>
      Nat.eqb (List.length ts) (List.length ts')
      && match rev ts, rev ts' with
         | TWord a :: _, TWord b :: _ => negb (String.eqb a b)
         | _, _ => false
         end
  | _, _ => false
  end.
Definition last_gterm_symbol (t : gterm) : option string :=
  match t with GSym (SSym s) => Some s | _ => None end.
Definition last_symbol_atomic (a : aformula) : option string :=
  match a with
  | AAtom p [] => Some p
  | ACmp t gs => match rev gs with g :: _ => last_gterm_symbol (gterm_of g) | [] => last_gterm_symbol t end
  | _ => None
  end.
Fixpoint last_symbol (f : formula) : option string :=
  match f with
  | FAtomic a => last_symbol_atomic a
  | FNot g => last_symbol g
  | FQ _ _ g => last_symbol g
  | FBin _ _ r => last_symbol r
  end.
Definition keyword_at_end (f : formula) : bool :=
  match last_symbol f with Some w => is_keyword_word w | None => false end.
Definition parse_formula_str (s : string) : presult formula :=
  match lex s with
  | Some ts =>
      match chars s with
      | c :: _ =>
          let r := if is_space c || Ascii.eqb c "%"%char then peg_formula_lead (fuel_of ts) ts
                   else peg_formula (fuel_of ts) ts in
          match r with
          | Ok f [] => if keyword_at_end f && ends_at_word s then PR_err else finish r formula_in_range (fun x => x)
          | _ => finish r formula_in_range (fun x => x)
          end
      | [] => PR_err
      end
  | None => PR_err
  end.
Definition parse_theory_str := on_text parse_theory_toks.
Definition parse_spec_str := on_text parse_spec_toks.
Definition parse_ug_str := on_text parse_ug_toks.
Definition parse_ug_raw_str := on_text parse_ug_raw_toks.

(* EXTRACT: parse_ug_raw_str parse_formula_str parse_theory_str parse_spec_str parse_ug_str parse_formula_toks parse_theory_toks parse_spec_toks parse_ug_toks FolLex.lex FolLex.is_symbol_name FolLex.is_variable_name *)
