(* The STAND-ALONE entry points of the mini-gringo parser (`str::parse::<asp::Term>()`, `Atom`,
   `Literal`, `Comparison`, `AtomicFormula`, `Head`, `Body`, `Rule`; src/parsing/asp/mini_gringo/pest.rs
   `TermParser` ... with the grammar rules `term_eoi = _{ term ~ EOI }` ...) and the Display of the same
   node types, composed from the pieces of Model/AspParse.v (lexer, token-level parsers) and
   Model/AspPrint.v (printers, render).

   What is specific to a stand-alone entry point (confirmed on the real library, tied by the op
   `asp_node_roundtrip`):
   * the rule starts at position 0 of the text, and pest's implicit skip only happens BETWEEN the
     elements of a sequence.  A text that begins with layout (blank, newline, comment) is therefore
     read as follows.
     `term` / `comparison` (and a formula / body that begins with one): `negative = { !integer ~ "-" }`
     is a non-atomic rule, so its lookahead is evaluated AT THE LAYOUT and the skip happens inside it:
     a "-" that follows the leading layout is always the unary operator, even in front of a non-zero
     digit (" -1" is -(1), "-1" is the numeral -1) -- [lex_node];
     `literal`: `sign = { negation{0,2} }` is unrolled to `negation? ~ negation?`; the first option fails
     at the layout, the skip follows, so at most ONE `not` is read (" not p" accepted, " not not p"
     refused); `atom`: refused (`symbol` is atomic); `head`: only the empty head (" " is falsity,
     " p" is refused); `body`: the first formula as above, or the empty body; `rule`: the `!"."` guard
     looks at the layout (the [guard_off] flag of AspParse.parse_rule).
   * `negation = "not" ~ &(WHITESPACE | EOI)` fires at the END of the input: a node whose printed text
     ends with the symbol `not` ("(not)" prints as "not") is refused when read back -- class F7d,
     [ends_with_not]; `.` ends a rule and a program, so they are not affected. *)
From Coq Require Import List Ascii String ZArith NArith Bool.
From Anthem Require Import Syntax.Asp Model.AspTableTypes Model.AspPrint Model.AspParse.
Import ListNotations.
Open Scope string_scope.
Open Scope list_scope.

Inductive node_kind := KTerm | KAtom | KLiteral | KComparison | KAtomicFormula | KHead | KBody | KRule.

Inductive node :=
| NTerm (t : term)
| NAtom (a : atom)
| NLiteral (l : literal)
| NComparison (c : comparison)
| NAtomicFormula (b : bformula)
| NHead (h : head)
| NBody (b : list bformula)
| NRule (r : rule).

(* the layout in front of the node *)
Fixpoint skip_layout (fuel : nat) (s : string) : string :=
  match fuel with
  | O => s
  | S f =>
    match s with
    | String c r =>
      if is_ws c then skip_layout f r
      else if (c =? "%")%char then skip_layout f (skip_comment r)
      else s
    | "" => ""
    end
  end.

(* tokens of a stand-alone node: as [lex], except that a "-" directly after LEADING layout is the
   unary operator whatever follows it *)
Definition lex_node (s : string) : option (list token) :=
  if leading_skip s then
    match skip_layout (S (String.length s)) s with
    | String "-" r => option_map (cons TkNeg) (lex_go (S (String.length r)) true r)
    | _ => lex s
    end
  else lex s.

Definition term_toks (lead : bool) (ts : list token) : pres (term * list token) := parse_term ts.
Definition atom_toks (lead : bool) (ts : list token) : pres (atom * list token) :=
  if lead then PFail else parse_atom ts.
Definition literal_toks (lead : bool) (ts : list token) : pres (literal * list token) :=
  if lead then
    match ts with
    | TkNot :: r => pbind (parse_atom r) (fun '(a, r') => POk (mklit SNeg a, r'))
    | _ => pbind (parse_atom ts) (fun '(a, r) => POk (mklit SNone a, r))
    end
  else parse_literal ts.
Definition comparison_toks (lead : bool) (ts : list token) : pres (comparison * list token) :=
  parse_comparison ts.
Definition bformula_toks (lead : bool) (ts : list token) : pres (bformula * list token) :=
  match comparison_toks lead ts with
  | POk (c, r) => POk (BCmp c, r)
  | PFail => pbind (literal_toks lead ts) (fun '(l, r) => POk (BLit l, r))
  | PPanic => PPanic
  end.
Definition head_toks (lead : bool) (ts : list token) : pres (head * list token) :=
  if lead then POk (HFalsity, ts) else parse_head ts.
Definition body_toks (lead : bool) (ts : list token) : pres (list bformula * list token) :=
  match bformula_toks lead ts with
  | POk (f, r) => pbind (parse_more_bformulas (List.length r) r) (fun '(l, r') => POk (f :: l, r'))
  | PFail => POk ([], ts)
  | PPanic => PPanic
  end.

Definition parse_node_toks (k : node_kind) (lead : bool) (ts : list token) : pres (node * list token) :=
  match k with
  | KTerm => pbind (term_toks lead ts) (fun '(x, r) => POk (NTerm x, r))
  | KAtom => pbind (atom_toks lead ts) (fun '(x, r) => POk (NAtom x, r))
  | KLiteral => pbind (literal_toks lead ts) (fun '(x, r) => POk (NLiteral x, r))
  | KComparison => pbind (comparison_toks lead ts) (fun '(x, r) => POk (NComparison x, r))
  | KAtomicFormula => pbind (bformula_toks lead ts) (fun '(x, r) => POk (NAtomicFormula x, r))
  | KHead => pbind (head_toks lead ts) (fun '(x, r) => POk (NHead x, r))
  | KBody => pbind (body_toks lead ts) (fun '(x, r) => POk (NBody x, r))
  | KRule => pbind (parse_rule lead ts) (fun '(x, r) => POk (NRule x, r))
  end.

Definition node_numerals_ok (n : node) : bool :=
  match n with
  | NTerm t => term_numerals_ok t
  | NAtom a => atom_numerals_ok a
  | NLiteral l => atom_numerals_ok (latom l)
  | NComparison c => bformula_numerals_ok (BCmp c)
  | NAtomicFormula b => bformula_numerals_ok b
  | NHead h => rule_numerals_ok (mkrule h [])
  | NBody b => forallb bformula_numerals_ok b
  | NRule r => rule_numerals_ok r
  end.

(* `<rule>_eoi = _{ <rule> ~ EOI }`, then the translate phase (numerals outside isize panic) *)
Definition parse_node_text (k : node_kind) (s : string) : pres node :=
  match lex_node s with
  | None => PFail
  | Some ts =>
    match parse_node_toks k (leading_skip s) ts with
    | POk (n, []) => if node_numerals_ok n then POk n else PPanic
    | POk (_, _ :: _) => PFail
    | PFail => PFail
    | PPanic => PPanic
    end
  end.

(* ---------------------------------------------------------------- Display *)
Definition print_node (n : node) : list token :=
  match n with
  | NTerm t => print_term t
  | NAtom a => print_atom a
  | NLiteral l => print_literal l
  | NComparison c => print_comparison c
  | NAtomicFormula b => print_bformula b
  | NHead h => print_head h
  | NBody b => print_body b
  | NRule r => print_rule r
  end.

(* a single Rule is displayed without the newline that Display for Program writes after "." *)
Definition display_node (n : node) : string :=
  match n with
  | NRule r => render (removelast (print_rule r)) ++ "."
  | _ => render (print_node n)
  end.

(* ---------------------------------------------------------------- the classes of recorded defects *)
(* F7d: the printed text ENDS with the symbol `not` *)
Definition ends_with_not (ts : list token) : bool :=
  match rev ts with TkSym s :: _ => if string_dec s "not" then true else false | _ => false end.
Definition node_known_class (n : node) : option string :=
  if kw_clash (print_node n) then Some "F7"
  else match n with
       | NRule _ => None
       | _ => if ends_with_not (print_node n) then Some "F7d" else None
       end.

(* EXTRACT: parse_node_text display_node node_known_class *)
