(* Model of `choose_fresh_variable_names` (tau_star.rs; the classic simplifier has a copy of the
   same function).  The Rust function receives an IndexSet<fol::Variable> but looks only at the
   NAMES of its members (`var.name.to_string()`), so the model takes the list of names.

     if arity < 1 { return [] }
     fresh = []
     bound = if taken.contains(variant) { arity + 1 } else { fresh.push(variant); arity }
     for n in 1..bound {
        m = n; candidate = variant ++ m
        while taken.contains(candidate) || fresh.contains(candidate) { m += 1; candidate = variant ++ m }
        fresh.push(candidate)
     }

   The unbounded `while` is recursion on fuel |taken| + |fresh| (Base/Fresh.find_fresh_by);
   Proofs/FreshNamesOk.v shows that the fuel never runs out, so the fallback below is dead. *)
From Coq Require Import List Ascii String NArith Bool.
From Anthem Require Import Base.ISet Base.Fresh.
Import ListNotations.
Open Scope string_scope.
Open Scope list_scope.

Definition cfv_bad (taken fresh : list string) (c : string) : bool :=
  memb string_dec c taken || memb string_dec c fresh.

Definition cfv_candidate (taken fresh : list string) (variant : string) (n : N) : string :=
  match find_fresh_by (List.length taken + List.length fresh) variant (cfv_bad taken fresh) n with
  | Some (c, _) => c
  | None => (variant ++ nat_str n)%string      (* unreachable: cfv_candidate_total *)
  end.

(* the `for n in start..start+count` loop *)
Fixpoint cfv_loop (taken : list string) (variant : string) (count : nat) (n : N) (fresh : list string)
  : list string :=
  match count with
  | O => fresh
  | S c => cfv_loop taken variant c (N.succ n) (fresh ++ [cfv_candidate taken fresh variant n])
  end.

Definition choose_fresh_variable_names (taken : list string) (variant : string) (arity : nat) : list string :=
  match arity with
  | O => []
  | S a =>
      if memb string_dec variant taken
      then cfv_loop taken variant arity 1%N []
      else cfv_loop taken variant a 1%N [variant]
  end.

(* `choose_fresh_variable_names(&taken, variant, 1).pop().unwrap()` *)
Definition fresh_one (taken : list string) (variant : string) : string :=
  last (choose_fresh_variable_names taken variant 1) variant.

(* EXTRACT: choose_fresh_variable_names fresh_one *)
