(* Model of /repo/src/analyzing/regularity.rs:  `self.clone().natural().is_some()`.
   A panic inside natural() would propagate; it is kept visible as [NPanic]
   (never produced: Proofs/NaturalOk.v, [is_regular_no_panic]). *)
From Coq Require Import List String.
From Anthem Require Import Syntax.Fol Syntax.Asp Model.Natural.

Definition is_regular (p : program) : nresult bool :=
  match natural p with
  | NOk _ => NOk true
  | NRefused => NOk false
  | NPanic => NPanic
  end.

(* EXTRACT: is_regular *)
