(* Generic strategy layer of `anthem simplify` (Command::Simplify in
   /repo/src/command_line/procedures.rs) and of the `apply_fixpoint` calls inside `verify`:
     portfolio     = concatenation of rewrite lists, composed left to right (Compose::compose)
     shallow       = the composed rewrite once, at the root
     recursive     = Apply::apply of the composed rewrite (post-order, once per node)
     fixpoint      = Apply::apply_fixpoint of the composed rewrite
   The Rust fixpoint loop is unbounded; the model takes fuel and answers None when it runs out.
   `Fixpoint` is a Coq keyword, hence the constructor name [Fixpoint_]. *)
From Coq Require Import List.
From Anthem Require Import Syntax.Fol Model.Apply.
Import ListNotations.

Inductive strategy := Shallow | Recursive | Fixpoint_.

Definition run_strategy (fuel : nat) (portfolio : list (formula -> formula)) (s : strategy) (F : formula)
  : option formula :=
  let simplification := compose portfolio in
  match s with
  | Shallow => Some (simplification F)
  | Recursive => Some (apply simplification F)
  | Fixpoint_ => apply_fixpoint fuel simplification F
  end.

(* number of `apply` passes the fixpoint loop performs before it stops (None: fuel exhausted);
   used by the evidence (iteration histogram) and by the non-vacuity examples of C18 *)
Fixpoint fixpoint_iterations_from (fuel : nat) (f : formula -> formula) (previous current : formula) (n : nat)
  : option nat :=
  if formula_eqb previous current then Some n
  else match fuel with
       | O => None
       | S k => fixpoint_iterations_from k f current (apply f current) (S n)
       end.
Definition fixpoint_iterations (fuel : nat) (f : formula -> formula) (x : formula) : option nat :=
  fixpoint_iterations_from fuel f x (apply f x) 1.

(* EXTRACT: run_strategy fixpoint_iterations *)
