(* Model of /repo/src/verifying/prover/{mod.rs,vampire.rs} and of the prove_all / `success` loop of
   /repo/src/command_line/procedures.rs (Command::Verify).

   Strings are byte strings (Coq [string] = list of [ascii] = bytes; a Rust [String] is its UTF-8
   encoding).  The status regex
       SZS status (?<status>[[:word:]]+) for (?<problem>[[:word:]]STAR)     (STAR = Kleene star)
   uses the POSIX class [[:word:]], which in the `regex` crate (1.11.2, lib.rs "ASCII character
   classes") is ASCII-only even in Unicode mode: [0-9A-Za-z_].  Every byte of a multi-byte UTF-8
   sequence is >= 0x80, hence not a word byte, so the byte-level model is exact for UTF-8 text
   (tied by the `status_from_str` correspondence, whose generator embeds non-ASCII text).

   Leftmost-first regex matching: the match starts at the smallest offset at which the pattern can
   match at all.  At a fixed offset the pattern is deterministic: after the literal "SZS status "
   the greedy [[:word:]]+ must take the maximal run of word bytes (the next pattern byte is a
   space, which is not a word byte, so no shorter choice can succeed), then the literal " for ",
   then a possibly empty run of word bytes (always succeeds). *)
From Coq Require Import List Ascii String Bool Arith.
Import ListNotations.
Open Scope string_scope.
Open Scope nat_scope.

(* ---------------------------------------------------------------- the status regex *)

Definition is_word (c : ascii) : bool :=
  let n := nat_of_ascii c in
  ((48 <=? n) && (n <=? 57)) || ((65 <=? n) && (n <=? 90)) || ((97 <=? n) && (n <=? 122)) || (n =? 95).

(* [strip_prefix p s = Some r] iff s = p ++ r *)
Fixpoint strip_prefix (p s : string) : option string :=
  match p, s with
  | EmptyString, _ => Some s
  | String a p', String b s' => if Ascii.eqb a b then strip_prefix p' s' else None
  | String _ _, EmptyString => None
  end.

(* maximal prefix of word bytes, and the rest *)
Fixpoint span_word (s : string) : string * string :=
  match s with
  | String c s' => if is_word c then let (w, r) := span_word s' in (String c w, r) else (EmptyString, s)
  | EmptyString => (EmptyString, EmptyString)
  end.

(* the regex anchored at the beginning of [s]: the captured status word *)
Definition match_at (s : string) : option string :=
  match strip_prefix "SZS status " s with
  | Some r =>
    let (w, r') := span_word r in
    match w with
    | EmptyString => None
    | String _ _ => match strip_prefix " for " r' with Some _ => Some w | None => None end
    end
  | None => None
  end.

(* Regex::captures: leftmost match *)
Fixpoint find_status (s : string) : option string :=
  match match_at s with
  | Some w => Some w
  | None => match s with EmptyString => None | String _ s' => find_status s' end
  end.

(* ---------------------------------------------------------------- Status, FromStr for Status *)

Inductive status :=
| StTheorem | StCounterSatisfiable | StContradictoryAxioms      (* Status::Success(..) *)
| StTimeout | StMemoryOut | StGaveUp | StError.                     (* Status::Failure(..) *)

Inductive status_result :=
| SOk (s : status)
| SMissing                      (* StatusExtractionError::Missing *)
| SUnknown (w : string).        (* StatusExtractionError::Unknown(w) *)

Definition status_table : list (string * status) :=
  [("Theorem", StTheorem); ("CounterSatisfiable", StCounterSatisfiable);
   ("ContradictoryAxioms", StContradictoryAxioms); ("Timeout", StTimeout);
   ("MemoryOut", StMemoryOut); ("GaveUp", StGaveUp); ("Error", StError)].

Fixpoint assoc_status (w : string) (t : list (string * status)) : option status :=
  match t with
  | [] => None
  | (k, v) :: t' => if String.eqb w k then Some v else assoc_status w t'
  end.

Definition status_of_word (w : string) : option status := assoc_status w status_table.

(* <Status as FromStr>::from_str = VampireReport::status on the prover's stdout *)
Definition status_of_stdout (s : string) : status_result :=
  match find_status s with
  | None => SMissing
  | Some w => match status_of_word w with Some st => SOk st | None => SUnknown w end
  end.

(* Display for Status (the word printed after "Status: ") *)
Definition status_word (s : status) : string :=
  match s with
  | StTheorem => "Theorem" | StCounterSatisfiable => "CounterSatisfiable"
  | StContradictoryAxioms => "ContradictoryAxioms" | StTimeout => "Timeout"
  | StMemoryOut => "MemoryOut" | StGaveUp => "GaveUp" | StError => "Error"
  end.

(* ---------------------------------------------------------------- String::from_utf8 *)

Definition in_range (lo hi : nat) (c : ascii) : bool :=
  let n := nat_of_ascii c in (lo <=? n) && (n <=? hi).
Definition cont := in_range 128 191.

(* well-formed UTF-8 (Unicode Table 3-7): no overlong forms, no surrogates, <= U+10FFFF.
   [fuel] = number of bytes; every step consumes at least one byte. *)
Fixpoint utf8_valid_fuel (fuel : nat) (s : string) : bool :=
  match fuel with
  | O => match s with EmptyString => true | _ => false end
  | S f =>
    match s with
    | EmptyString => true
    | String a r =>
      let n := nat_of_ascii a in
      if n <=? 127 then utf8_valid_fuel f r
      else if (194 <=? n) && (n <=? 223) then
        match r with String b r1 => cont b && utf8_valid_fuel f r1 | _ => false end
      else if (224 <=? n) && (n <=? 239) then
        match r with
        | String b (String c r2) =>
          (if n =? 224 then in_range 160 191 b else if n =? 237 then in_range 128 159 b else cont b)
          && cont c && utf8_valid_fuel f r2
        | _ => false
        end
      else if (240 <=? n) && (n <=? 244) then
        match r with
        | String b (String c (String d r3)) =>
          (if n =? 240 then in_range 144 191 b else if n =? 244 then in_range 128 143 b else cont b)
          && cont c && cont d && utf8_valid_fuel f r3
        | _ => false
        end
      else false
    end
  end.
Definition utf8_valid (s : string) : bool := utf8_valid_fuel (String.length s) s.

(* ---------------------------------------------------------------- Vampire::prove *)

Inductive prover_error := Spawn | Write | Wait | ConvertOutput.   (* VampireError *)

(* what the operating system did with the prover process (the part outside the model) *)
Inductive os_outcome :=
| NotStarted                                   (* Command::spawn failed: no `vampire` in PATH *)
| PipeBroke                                    (* write to the child's stdin failed *)
| WaitFailed
| Exited (stdout stderr : string) (code : nat) (* raw bytes; the exit status is ignored by anthem *).

(* Result<VampireReport, VampireError>, reduced to what the verify loop looks at *)
Inductive run_result :=
| Reported (r : status_result)
| Failed (e : prover_error).

Definition prove (o : os_outcome) : run_result :=
  match o with
  | NotStarted => Failed Spawn
  | PipeBroke => Failed Write
  | WaitFailed => Failed Wait
  | Exited out err _ =>
    if utf8_valid out then
      if utf8_valid err then Reported (status_of_stdout out) else Failed ConvertOutput
    else Failed ConvertOutput
  end.

Definition is_theorem (r : run_result) : bool :=
  match r with Reported (SOk StTheorem) => true | _ => false end.

(* ---------------------------------------------------------------- the verify loop *)

(* `let mut success = true; let mut received = 0;` *)
Record st := mkst { success : bool; received : nat }.
Definition init : st := mkst true 0.

(* one iteration of `for result in prover.prove_all(problems)` *)
Definition step (s : st) (r : run_result) : st :=
  mkst (success s && is_theorem r) (S (received s)).

(* `if received != submitted { success = false }` and the final flag *)
Definition finish (s : st) (submitted : nat) : bool :=
  success s && (received s =? submitted).

(* the value of `success` when the verdict line is printed, for the sequence of results in the
   order in which the loop received them *)
Definition verdict (rs : list run_result) (submitted : nat) : bool :=
  finish (fold_left step rs init) submitted.

(* ---------------------------------------------------------------- the fan-in *)

(* Worker k (one per submitted problem) either sends exactly one result or dies without sending
   (a panic inside the closure unwinds before `tx.send`).  An event "result of problem k arrives"
   carries the index and the result; a schedule is the order in which the receiving loop sees the
   events. *)
Definition event := (nat * run_result)%type.

Definition fan_in (sched : list event) (submitted : nat) : bool :=
  verdict (map snd sched) submitted.

(* the messages that will ever be sent, for the eventual fate of each worker *)
Fixpoint msgs_from (i : nat) (ws : list (option run_result)) : list event :=
  match ws with
  | [] => []
  | Some r :: t => (i, r) :: msgs_from (S i) t
  | None :: t => msgs_from (S i) t
  end.
Definition msgs (ws : list (option run_result)) : list event := msgs_from 0 ws.

(* instances == 1: no threads; the results arrive in submission order, and a panic in `prove`
   kills the whole process (no verdict is printed at all) *)
Definition sequential (os : list os_outcome) : bool :=
  verdict (map prove os) (List.length os).

(* EXTRACT: is_word match_at find_status status_of_stdout status_word utf8_valid prove is_theorem
   verdict fan_in sequential *)
