(* mu (/repo/src/translating/formula_representation/mu.rs) with the REAL tau* functions plugged in.

   Model/Mu.v models `impl Mu for asp::Program` inside a Section whose variables are
   `choose_fresh_global_variables` and `tau_star_rule` (total functions there, because the tau*
   model lived on another branch).  The real functions (Model/TauStar.v) can panic:
     - `choose_fresh_global_variables(&self)` is called FIRST, for the whole program, and panics on
       the usize overflow (finding F11) even when every rule takes the natural branch;
     - `tau_star_rule(&r, &globals)` panics on `&globals[0..n]` out of range (not reachable: the
       globals are as many as the largest head arity of the program);
     - `natural_rule` has unwrap/expect/unreachable (never reached: C08_no_panic).
   [mu_full] is the panic-aware transcription: [None] = panic.  [mu_inst] is the literal
   instantiation of Model/Mu.v's Section with total wrappers; Proofs/MuFullOk.v shows that a
   [Some th] of [mu_full] is the [NOk th] of [mu_inst], which carries the C08 shape theorems over. *)
From Coq Require Import List String.
From Anthem Require Import Syntax.Fol Syntax.Asp Model.Natural Model.Mu Model.TauStar.
Import ListNotations.

(* the loop `for r in self.rules { match natural_rule(&r) { Some(f) => .., None => tau_star_rule(..) } }` *)
Fixpoint mu_full_rules (rules : list rule) (globals : list string) : option theory :=
  match rules with
  | [] => Some []
  | r :: rest =>
      match natural_rule r with
      | NOk f => option_map (cons f) (mu_full_rules rest globals)
      | NRefused =>
          match tau_star_rule r globals with
          | Some f => option_map (cons f) (mu_full_rules rest globals)
          | None => None
          end
      | NPanic => None
      end
  end.

Definition mu_full (p : program) : option theory :=
  match choose_fresh_global_variables p with
  | None => None
  | Some globals => mu_full_rules p globals
  end.

(* the literal instantiation of Model/Mu.v *)
Definition globals_or_nil (p : program) : list string :=
  match choose_fresh_global_variables p with Some g => g | None => [] end.
Definition tau_star_rule_or_true (r : rule) (globals : list string) : formula :=
  match tau_star_rule r globals with Some f => f | None => FAtomic ATrue end.
Definition mu_inst : program -> nresult theory := mu globals_or_nil tau_star_rule_or_true.

(* EXTRACT: mu_full mu_inst *)
