(* The structural notion of a SENTENCE of the parser image used by C09 (premises of C09 / C09_text /
   C06_in_pipeline and of the task-level theorems of Properties/C09tasks.v).  Split off
   Model/ProblemPrint.v (which re-exports it) so that it does not depend on the regenerated preamble. *)
From Coq Require Import List Ascii String ZArith NArith Bool.
From Anthem Require Import Base.ISet Syntax.Fol.
Import ListNotations.
Open Scope list_scope.

(* closed formulas of the parser image: every variable occurrence lies in the scope of a binder
   for exactly that variable (name and sort), and every quantifier binds at least one variable.
   [B] is the list of variables bound so far. *)
Definition bound (B : list var) (v : var) : bool := memb var_dec v B.
Fixpoint iterm_closed (B : list var) (t : iterm) : bool :=
  match t with
  | INum _ | IFun _ => true
  | IVar x => bound B (mkvar x SInteger)
  | IUn _ a => iterm_closed B a
  | IBin _ l r => iterm_closed B l && iterm_closed B r
  end.
Definition sterm_closed (B : list var) (t : sterm) : bool :=
  match t with SVar x => bound B (mkvar x SSymbol) | _ => true end.
Definition gterm_closed (B : list var) (t : gterm) : bool :=
  match t with
  | GVar x => bound B (mkvar x SGeneral)
  | GInt a => iterm_closed B a
  | GSym a => sterm_closed B a
  | _ => true
  end.
Definition aformula_closed (B : list var) (a : aformula) : bool :=
  match a with
  | ATrue | AFalse => true
  | AAtom _ ts => forallb (gterm_closed B) ts
  | ACmp t gs => gterm_closed B t && forallb (fun g => gterm_closed B (gterm_of g)) gs
  end.
Fixpoint closedb (B : list var) (f : formula) : bool :=
  match f with
  | FAtomic a => aformula_closed B a
  | FNot g => closedb B g
  | FBin _ l r => closedb B l && closedb B r
  | FQ _ vs g => negb (Nat.eqb (List.length vs) 0) && closedb (rev vs ++ B)%list g
  end.
Definition closed_formula (f : formula) : bool := closedb [] f.
(* parser image: every quantifier binds at least one variable *)
Fixpoint binders_nonempty (f : formula) : bool :=
  match f with
  | FAtomic _ => true
  | FNot g => binders_nonempty g
  | FBin _ l r => binders_nonempty l && binders_nonempty r
  | FQ _ vs g => negb (Nat.eqb (List.length vs) 0) && binders_nonempty g
  end.

(* parser image: every comparison has at least one guard (`t` alone is not a formula) *)
Fixpoint cmps_nonempty (f : formula) : bool :=
  match f with
  | FAtomic (ACmp _ gs) => negb (Nat.eqb (List.length gs) 0)
  | FAtomic _ => true
  | FNot g => cmps_nonempty g
  | FBin _ l r => cmps_nonempty l && cmps_nonempty r
  | FQ _ _ g => cmps_nonempty g
  end.

(* EXTRACT: closed_formula cmps_nonempty binders_nonempty *)
