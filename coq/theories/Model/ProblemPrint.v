(* Model of `impl Display for Problem` (/repo/src/verifying/problem/mod.rs): the bytes of an
   emitted .p file ([problem_display]) and the same file as a structured TFF problem ([emit]):
   preamble + declarations (predicate_i, type_symbol_i, type_function_constant_i) +
   symbol_order_i axioms + the problem's named formulas. *)
From Coq Require Import List Ascii String ZArith NArith Bool.
From Anthem Require Import Base.ISet Base.Fresh Syntax.Fol Syntax.Tff Sem.TffSem Sem.TffWt Model.Problem
  Model.TptpPrint Gen.Preamble.
From Anthem Require Export Model.ClosedFormula.
Import ListNotations.
Open Scope list_scope.
Open Scope string_scope.

(* ---------- symbols.sort_unstable(): byte-lexicographic order of Rust's String ---------- *)
Fixpoint insert_sorted (x : string) (l : list string) : list string :=
  match l with
  | [] => [x]
  | y :: l' => if String.leb x y then x :: l else y :: insert_sorted x l'
  end.
Definition sort_strings (l : list string) : list string := fold_right insert_sorted [] l.

(* slice::windows(2) *)
Fixpoint windows2 {A} (l : list A) : list (A * A) :=
  match l with
  | a :: (b :: _) as t => (a, b) :: windows2 t
  | _ => []
  end.

(* `p__less__(f__symbolic__(a), f__symbolic__(b))` as a formula: a < b between symbolic constants
   (the TPTP printer renders exactly the text of the writeln! in Display) *)
Definition symbol_order_formula (ab : string * string) : formula :=
  FAtomic (ACmp (GSym (SSym (fst ab))) [mkguard RLt (GSym (SSym (snd ab)))]).
Definition symbol_order (p : problem) : list formula :=
  map symbol_order_formula (windows2 (sort_strings (problem_symbols p))).

(* ---------- the bytes ---------- *)
Definition nl : string := String (ascii_of_nat 10) "".
Definition sort_type_name (s : sort) : string :=
  match s with SGeneral => "general" | SInteger => "$int" | SSymbol => "symbol" end.
(* repeat_n("general", n) interspersed with " * " *)
Fixpoint general_product (n : nat) : string :=
  match n with
  | O => ""
  | S O => "general"
  | S m => "general * " ++ general_product m
  end.
Definition predicate_line (i : N) (p : pred) : string :=
  if Nat.eqb (parity p) 0
  then "tff(predicate_" ++ nat_str i ++ ", type, " ++ psym p ++ ": $o)." ++ nl
  else "tff(predicate_" ++ nat_str i ++ ", type, " ++ psym p ++ ": (" ++ general_product (parity p) ++ ") > $o)." ++ nl.
Definition symbol_line (i : N) (s : string) : string :=
  "tff(type_symbol_" ++ nat_str i ++ ", type, " ++ s ++ ": symbol)." ++ nl.
Definition fconst_line (i : N) (c : fconst) : string :=
  "tff(type_function_constant_" ++ nat_str i ++ ", type, " ++ fcname c ++ suffix (fcsort c) ++ ": "
  ++ sort_type_name (fcsort c) ++ ")." ++ nl.
Definition symbol_order_line (i : N) (ab : string * string) : string :=
  "tff(symbol_order_" ++ nat_str i ++ ", axiom, p__less__(f__symbolic__(" ++ fst ab ++ "), f__symbolic__("
  ++ snd ab ++ ")))." ++ nl.
Definition role_name (r : prole) : string := match r with PAxiom => "axiom" | PConjecture => "conjecture" end.
(* Display for AnnotatedFormula; None = the formatter panics *)
Definition formula_line (a : pformula) : option string :=
  match tptp_format (pf_formula a) with
  | Some f => Some ("tff(" ++ pf_name a ++ ", " ++ role_name (pf_role a) ++ ", " ++ f ++ ")." ++ nl)
  | None => None
  end.

(* enumerate() *)
Fixpoint mapi_from {A B} (f : N -> A -> B) (i : N) (l : list A) : list B :=
  match l with [] => [] | x :: l' => f i x :: mapi_from f (N.succ i) l' end.
Fixpoint concat_opt (l : list (option string)) : option string :=
  match l with
  | [] => Some ""
  | Some x :: l' => match concat_opt l' with Some r => Some (x ++ r) | None => None end
  | None :: _ => None
  end.

Definition problem_display (p : problem) : option string :=
  match concat_opt (map formula_line (pb_formulas p)) with
  | Some fs =>
      Some (preamble_text
            ++ String.concat "" (mapi_from predicate_line 0 (problem_predicates p))
            ++ String.concat "" (mapi_from symbol_line 0 (problem_symbols p))
            ++ String.concat "" (mapi_from fconst_line 0 (problem_function_constants p))
            ++ String.concat "" (mapi_from symbol_order_line 0 (windows2 (sort_strings (problem_symbols p))))
            ++ fs)
  | None => None
  end.

(* ---------- the same file as a structured TFF problem ---------- *)
Definition tff_role_of (r : prole) : tff_role := match r with PAxiom => RoleAxiom | PConjecture => RoleConjecture end.

Definition predicate_decl (i : N) (p : pred) : tff_decl :=
  mkdecl ("predicate_" ++ nat_str i) (psym p) (SigPred (repeat TyGeneral (parity p))).
Definition symbol_decl (i : N) (s : string) : tff_decl :=
  mkdecl ("type_symbol_" ++ nat_str i) s (SigFun [] TySymbol).
Definition fconst_decl (i : N) (c : fconst) : tff_decl :=
  mkdecl ("type_function_constant_" ++ nat_str i) (fcname c ++ suffix (fcsort c)) (SigFun [] (ty_of (fcsort c))).
Definition symbol_order_named (i : N) (ab : string * string) : tff_named :=
  mknamed ("symbol_order_" ++ nat_str i) RoleAxiom (tff_of_formula (symbol_order_formula ab)).

Definition emit (p : problem) : tff_problem :=
  mktp (map (fun d => mkdecl (fst (fst d)) (snd (fst d)) (snd d)) preamble_decls
        ++ mapi_from predicate_decl 0 (problem_predicates p)
        ++ mapi_from symbol_decl 0 (problem_symbols p)
        ++ mapi_from fconst_decl 0 (problem_function_constants p))%list
       (map (fun a => mknamed (fst a) RoleAxiom (snd a)) preamble_formulas
        ++ mapi_from symbol_order_named 0 (windows2 (sort_strings (problem_symbols p)))
        ++ map (fun a => mknamed (pf_name a) (tff_role_of (pf_role a)) (tff_of_formula (pf_formula a))) (pb_formulas p))%list.

(* ---------- IdentClass: the identifier shapes that break TFF well-formedness ----------
   Evaluated on the problem that is printed (i.e. after rename_conflicting_symbols and
   create_unique_formula_names).  [ident_ok p = false] is the class of known findings of C09:
   - an identifier that is not a TPTP lower_word / a variable that is not an upper_word
     (leading underscore: F8);
   - two declarations of one identifier: one predicate name at two arities (F13), a symbolic
     constant named like an n-ary predicate (n > 0), a symbolic constant `n_i` next to the integer
     placeholder `n`, a symbolic constant or predicate named like a preamble identifier
     (general, c__infimum__, p__less__, ...), a renamed constant `p__s` meeting an existing
     predicate or constant `p__s`;
   - a formula name that is not a lower_word after the `formula_<i>_` prefix was added;
   - a quantifier block that binds one variable twice (`forall X X F` is accepted by anthem's
     parser and printed as `![X_g: general, X_g: general]: ..`). *)
Fixpoint formula_vars_ok (f : formula) : bool :=
  match f with
  | FAtomic _ => true
  | FNot g => formula_vars_ok g
  | FBin _ l r => formula_vars_ok l && formula_vars_ok r
  | FQ _ vs g => forallb (fun v => is_upper_word (vname v)) vs
                 && nodupb (map (fun v => (vname v ++ suffix (vsort v))%string) vs) && formula_vars_ok g
  end.
Definition preamble_idents : list string := map (fun d => snd (fst d)) preamble_decls.
Definition preamble_names : list string :=
  (map (fun d => fst (fst d)) preamble_decls ++ map fst preamble_formulas)%list.
Definition problem_idents (p : problem) : list string :=
  (map psym (problem_predicates p) ++ problem_symbols p
   ++ map (fun c => (fcname c ++ suffix (fcsort c))%string) (problem_function_constants p))%list.
Definition ident_ok (p : problem) : bool :=
  forallb is_lower_word (problem_idents p)
  && nodupb (preamble_idents ++ problem_idents p)%list
  && forallb (fun a => formula_vars_ok (pf_formula a)) (pb_formulas p)
  && forallb (fun a => is_lower_word (pf_name a)) (pb_formulas p).

(* [closed_formula], [binders_nonempty], [cmps_nonempty]: Model/ClosedFormula.v (re-exported; they do not
   depend on the regenerated preamble) *)

(* the constant signature of a problem (Sem/TffSem.v [csig]): the constants it declares with
   `type_symbol_i` are symbolic constants and denote themselves, those it declares with
   `type_function_constant_i` are placeholders *)
Definition problem_csig (p : problem) : csig :=
  (map (fun s => (s, CSelf)) (problem_symbols p)
   ++ map (fun c => ((fcname c ++ suffix (fcsort c))%string, CPlace (fcname c) (fcsort c))) (problem_function_constants p))%list.

(* the assembly every task performs before a problem is printed *)
Definition pipeline (raw : problem) (d : decomposition) : list problem :=
  decompose (create_unique_formula_names (rename_conflicting_symbols
    (add_annotated_formulas (with_name (pb_name raw)) (pb_formulas raw)))) d.

(* EXTRACT: pipeline problem_display emit ident_ok symbol_order sort_strings windows2 problem_csig *)
