(* The decidable premises of the task-level C09 / C06 theorems (Properties/C09tasks.v) that are NOT
   about identifiers, stated on the task itself.

   [strong_task_ok t]   the programs are in the image of the ASP parser as far as tau* / mu need it:
                        every variable has a non-empty name (the parser guarantees it:
                        C03_parsed_programs_named); both representations (tau-star, mu).
   [ext_task_ok t]      the same for the program(s); every formula of a SPECIFICATION and every
                        ASSUMPTION of the user guide is a sentence ([closed_formula]: anthem does
                        not check or close them - finding C09-free-variable) without empty
                        comparison; every entry of the proof outline is in the parser image
                        (non-empty quantifier blocks and guards; lemmas are universally closed by
                        the code, definitions are checked to be closed). *)
From Coq Require Import List String Bool.
From Anthem Require Import Syntax.Fol Syntax.Asp Model.Problem Model.ClosedFormula Model.Strong Model.External.
Import ListNotations.

Definition var_named (x : string) : bool := negb (String.eqb x "").
Definition program_named (P : program) : bool := forallb (fun r => forallb var_named (rule_vars r)) P.
(* a sentence of the parser image (as far as the emitted text needs it) *)
Definition sentence (f : formula) : bool := closed_formula f && cmps_nonempty f.
Definition in_image (f : formula) : bool := binders_nonempty f && cmps_nonempty f.

Definition strong_task_ok (t : strong_task) : bool :=
  program_named (st_left t) && program_named (st_right t).

Definition ext_task_ok (t : ext_task) : bool :=
  program_named (et_program t)
  && match et_specification t with
     | inl L => program_named L
     | inr s => forallb (fun a => sentence (an_formula a)) s
     end
  && forallb (fun a => if is_assumption a then sentence (an_formula a) else true) (ug_formulas (et_user_guide t))
  && forallb (fun a => in_image (an_formula a)) (et_proof_outline t).

(* EXTRACT: strong_task_ok ext_task_ok sentence *)
