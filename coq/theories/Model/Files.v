(* Model of /repo/src/command_line/files.rs (Files::sort and the six accessors) over an abstract
   file tree, AFTER the repair F23 (`WalkDir::new(path).follow_links(true)`).

   Files::sort(paths): for each argument in order,
   WalkDir::new(arg).follow_links(true).sort_by_file_name() yields the argument itself and then, if
   it is (or resolves to) a directory, its contents depth-first (pre-order), the entries of every
   directory ordered by file name (OsStr order = byte-wise lexicographic on Unix; `sort_by` is
   stable, names inside one directory are distinct anyway; the sorter compares the names of the
   directory entries, before links are resolved).  Every entry whose file type is "regular file"
   is pushed to the bucket chosen by Path::extension() of the entry's OWN path; directories are
   traversed, never bucketed; FIFOs, sockets and devices are skipped.

   Symbolic links (walkdir 2.5.0, `IntoIter::handle_entry` / `follow` / `check_loop`; the same for
   an argument and for an entry below an argument once follow_links is set):
     * the entry is replaced by `DirEntry::from_path(depth, path, follow = true)`: its file type is
       that of `fs::metadata(path)` (the end of the link chain), its path stays the link's path;
     * link to a regular file     -> a regular file with the LINK's name (extension of the link);
     * link to a fifo/socket/device (e.g. /dev/null) -> skipped;
     * link to a directory        -> traversed like a directory, its entries are `link/child`,
                                     unless the directory is one of the directories currently being
                                     traversed (walkdir's ancestor stack, compared by device+inode):
                                     then the iterator yields Err("File system loop found: ..");
     * `fs::metadata` fails (the target does not exist, or the chain of links is circular: ELOOP)
                                  -> the iterator yields Err("IO error for operation on <path>: ..").
   `let entry = entry?;` returns the FIRST error in walk order as the result of Files::sort (entries
   visited before are dropped with the partial result); the command line prints
   `unable to sort the given files by their function` and exits with code 1.

   (Before F23 - WalkDir's default follow_links(false) - a link to a regular file, as an argument or
   inside a directory, had the file type "symlink" and was skipped SILENTLY, so that the next .lp
   file took its role; a link to a directory was traversed as an argument (follow_root_links) and
   skipped inside a directory; a dangling link was an error as an argument and skipped inside a
   directory.)

   Path::extension() of the last component: None if it contains no '.', None if its only '.' is
   the first byte (hidden file ".lp"), otherwise the bytes after the last '.' (possibly empty).

   Outside the model: other walkdir errors (missing path, unreadable directory), non-UTF-8 names
   (`OsStr::to_str` = None -> bucket `other`; the byte model agrees, because a name whose extension
   bytes are exactly lp/spec/ug/po is valid UTF-8 there). *)
From Coq Require Import List Ascii String Bool Arith.
Import ListNotations.
Open Scope string_scope.

(* ---------------------------------------------------------------- file trees *)

(* what a symbolic link resolves to, as walkdir classifies it *)
Inductive ltarget :=
| LFile          (* a regular file *)
| LSpecial       (* a fifo / socket / device: neither is_file() nor is_dir() *)
| LDangling      (* fs::metadata fails: missing target or circular chain of links *)
| LLoop.         (* a directory on walkdir's ancestor stack (one that contains the link) *)

Inductive node :=
| File (name : string)                       (* regular file *)
| Special (name : string)                    (* fifo / socket / device: not is_file(), not is_dir() *)
| Dir (name : string) (children : list node)
| Link (name : string) (target : ltarget)    (* symbolic link, not to a traversable directory *)
| LinkDir (name : string) (children : list node).
                                             (* symbolic link to a directory (not an ancestor) with these entries *)

Definition node_name (n : node) : string :=
  match n with File s | Special s | Dir s _ | Link s _ | LinkDir s _ => s end.

(* byte-wise lexicographic order on names *)
Definition name_le (a b : string) : bool :=
  match String.compare a b with Gt => false | _ => true end.

Fixpoint insert_node (n : node) (l : list node) : list node :=
  match l with
  | [] => [n]
  | m :: l' => if name_le (node_name n) (node_name m) then n :: l else m :: insert_node n l'
  end.
(* stable insertion sort: elements are inserted from the right, ties keep their order *)
Definition sort_nodes (l : list node) : list node := fold_right insert_node [] l.

(* every directory's entries in walk order *)
Fixpoint sort_tree (n : node) : node :=
  match n with
  | Dir s cs => Dir s (sort_nodes (map sort_tree cs))
  | LinkDir s cs => LinkDir s (sort_nodes (map sort_tree cs))
  | _ => n
  end.

(* walkdir::Error as far as modelled: the path it names and whether it is a loop *)
Inductive werror :=
| EIo (path : string)       (* "IO error for operation on <path>: .." (dangling link) *)
| ELoop (path : string).    (* "File system loop found: <path> points to an ancestor .." *)

(* what the iterator yields, restricted to what Files::sort looks at *)
Inductive visit :=
| VFile (path : string)     (* Ok(entry) with entry.file_type().is_file() *)
| VErr (e : werror).        (* Err(e) *)

(* the regular files (and errors) below and including a node, pre-order, entries as listed *)
Fixpoint walk_listed (path : string) (n : node) : list visit :=
  match n with
  | File _ | Link _ LFile => [VFile path]
  | Special _ | Link _ LSpecial => []
  | Link _ LDangling => [VErr (EIo path)]
  | Link _ LLoop => [VErr (ELoop path)]
  | Dir _ cs | LinkDir _ cs =>
    (fix go (l : list node) : list visit :=
       match l with
       | [] => []
       | c :: l' => (walk_listed (path ++ "/" ++ node_name c) c ++ go l')%list
       end) cs
  end.

(* WalkDir::new(arg).follow_links(true).sort_by_file_name() as seen by Files::sort; the
   argument's path is its name *)
Definition walk (n : node) : list visit := walk_listed (node_name n) (sort_tree n).

(* Result<_, walkdir::Error> *)
Inductive wresult (A : Type) :=
| WOk (a : A)
| WErr (e : werror).
Arguments WOk {A} a. Arguments WErr {A} e.

(* `let entry = entry?;` in the loop: the paths up to the first error, or that error *)
Fixpoint collect (vs : list visit) : wresult (list string) :=
  match vs with
  | [] => WOk []
  | VErr e :: _ => WErr e
  | VFile p :: r => match collect r with WOk ps => WOk (p :: ps) | WErr e => WErr e end
  end.

(* ---------------------------------------------------------------- Path::extension *)

(* split a name at its last '.': (before, after) *)
Fixpoint rsplit_dot (s : string) : option (string * string) :=
  match s with
  | EmptyString => None
  | String c s' =>
    match rsplit_dot s' with
    | Some (b, a) => Some (String c b, a)
    | None => if Ascii.eqb c "."%char then Some (EmptyString, s') else None
    end
  end.

(* last path component *)
Definition has_slash (p : string) : bool := existsb (Ascii.eqb "/"%char) (list_ascii_of_string p).
Fixpoint file_name_of (p : string) : string :=
  match p with
  | EmptyString => EmptyString
  | String c p' =>
    if has_slash p' then file_name_of p'
    else if Ascii.eqb c "/"%char then p' else p
  end.

Definition extension (path : string) : option string :=
  match rsplit_dot (file_name_of path) with
  | Some (EmptyString, _) => None            (* ".lp": no extension *)
  | Some (_, a) => Some a
  | None => None
  end.

Inductive kind := KProgram | KSpecification | KUserGuide | KProofOutline | KOther.

Definition kind_of_ext (e : option string) : kind :=
  match e with
  | Some e =>
    if String.eqb e "lp" then KProgram
    else if String.eqb e "spec" then KSpecification
    else if String.eqb e "ug" then KUserGuide
    else if String.eqb e "po" then KProofOutline
    else KOther
  | None => KOther
  end.
Definition kind_of (path : string) : kind := kind_of_ext (extension path).

Definition kind_eqb (a b : kind) : bool :=
  match a, b with
  | KProgram, KProgram | KSpecification, KSpecification | KUserGuide, KUserGuide
  | KProofOutline, KProofOutline | KOther, KOther => true
  | _, _ => false
  end.

(* ---------------------------------------------------------------- Files *)

(* generic in the payload, so that "roles depend only on the kinds" can be stated *)
Record files (A : Type) := mkfiles {
  specifications : list A; programs : list A; user_guides : list A; proof_outlines : list A; other : list A }.
Arguments mkfiles {A}. Arguments specifications {A}. Arguments programs {A}.
Arguments user_guides {A}. Arguments proof_outlines {A}. Arguments other {A}.

Definition empty {A} : files A := mkfiles [] [] [] [] [].

Definition push {A} (f : files A) (k : kind) (a : A) : files A :=
  match k with
  | KProgram => mkfiles (specifications f) (programs f ++ [a])%list (user_guides f) (proof_outlines f) (other f)
  | KSpecification => mkfiles (specifications f ++ [a])%list (programs f) (user_guides f) (proof_outlines f) (other f)
  | KUserGuide => mkfiles (specifications f) (programs f) (user_guides f ++ [a])%list (proof_outlines f) (other f)
  | KProofOutline => mkfiles (specifications f) (programs f) (user_guides f) (proof_outlines f ++ [a])%list (other f)
  | KOther => mkfiles (specifications f) (programs f) (user_guides f) (proof_outlines f) (other f ++ [a])%list
  end.

(* the loop of Files::sort over the classified entries *)
Definition sort_entries {A} (l : list (kind * A)) : files A :=
  fold_left (fun f e => push f (fst e) (snd e)) l empty.

Definition sort_paths (ps : list string) : files string :=
  sort_entries (map (fun p => (kind_of p, p)) ps).

(* Files::sort *)
Definition sort (args : list node) : wresult (files string) :=
  match collect (flat_map walk args) with
  | WOk ps => WOk (sort_paths ps)
  | WErr e => WErr e
  end.

(* accessors *)
Definition left {A} (f : files A) : option A := nth_error (programs f) 0.
Definition right {A} (f : files A) : option A := nth_error (programs f) 1.
(* Either::Left = a program used as specification, Either::Right = a specification file *)
Definition specification {A} (f : files A) : option (A + A) :=
  match specifications f with
  | s :: _ => Some (inr s)
  | [] => match programs f with p :: _ => Some (inl p) | [] => None end
  end.
Definition program {A} (f : files A) : option A :=
  match specifications f with
  | [] => nth_error (programs f) 1
  | _ :: _ => nth_error (programs f) 0
  end.
Definition user_guide {A} (f : files A) : option A := nth_error (user_guides f) 0.
Definition proof_outline {A} (f : files A) : option A := nth_error (proof_outlines f) 0.

(* all six roles at once *)
Record roles (A : Type) := mkroles {
  r_left : option A; r_right : option A; r_specification : option (A + A);
  r_program : option A; r_user_guide : option A; r_proof_outline : option A }.
Arguments mkroles {A}. Arguments r_left {A}. Arguments r_right {A}. Arguments r_specification {A}.
Arguments r_program {A}. Arguments r_user_guide {A}. Arguments r_proof_outline {A}.

Definition roles_of {A} (f : files A) : roles A :=
  mkroles (left f) (right f) (specification f) (program f) (user_guide f) (proof_outline f).

(* EXTRACT: ltarget node werror visit wresult collect sort_tree walk extension kind_of sort_paths sort left right specification program
   user_guide proof_outline roles_of *)
