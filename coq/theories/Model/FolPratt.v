(* pest's Pratt parser (pest-2.8.2/src/pratt_parser.rs: PrattParserMap::parse / expr / nud / led / lbp),
   generic in the result type T exactly as the Rust code is generic in the closures given to
   map_primary / map_prefix / map_infix.  Items are the pairs the PEG phase produced: primaries are
   already mapped (the closure of map_primary is applied on demand in Rust; it is pure), prefix and
   infix operators carry their rule.
     expr(rbp):  lhs = nud();  while rbp < lbp(peek) { lhs = led(lhs) };  lhs
     nud():      prefix op of precedence p  ->  prefix(op, expr(p - 1));   otherwise primary
     led(lhs):   infix op of precedence p   ->  infix(lhs, op, expr(Left: p | Right: p - 1))
     lbp():      precedence of the next pair (must be an operator), 0 at the end of the pairs
   Every `panic!`/`expect` of the Rust code is the result None.  Fuel: one unit per consumed item, so
   [length items] is always enough (Proofs/FolPrattOk.v). *)
From Coq Require Import List Arith Bool.
From Anthem Require Import Gen.TablesFol.
Import ListNotations.

Section Pratt.
  Variables T U B : Type.
  Inductive pitem := PPrim (t : T) | PPre (u : U) | PIn (o : B).
  Variable mk_un : U -> T -> T.
  Variable mk_bin : B -> T -> T -> T.
  (* the PrattParser's table: None = the rule is not registered with that affix (-> panic) *)
  Variable pre_bp : U -> option nat.
  Variable in_bp : B -> option (nat * assoc).

  Definition rhs_bp (p : nat) (a : assoc) : nat := match a with ALeft => p | ARight => p - 1 end.

  Fixpoint pratt_expr (fuel : nat) (rbp : nat) (is : list pitem) {struct fuel} : option (T * list pitem) :=
    match fuel with
    | O => None
    | S f =>
        match is with
        | PPrim t :: r => pratt_loop f rbp t r
        | PPre u :: r =>
            match pre_bp u with
            | Some p =>
                match pratt_expr f (p - 1) r with
                | Some (t, r') => pratt_loop f rbp (mk_un u t) r'
                | None => None
                end
            | None => None
            end
        | PIn _ :: _ => None
        | [] => None
        end
    end
  with pratt_loop (fuel : nat) (rbp : nat) (lhs : T) (is : list pitem) {struct fuel} : option (T * list pitem) :=
    match is with
    | [] => Some (lhs, [])
    | PIn o :: r =>
        match in_bp o with
        | Some (p, a) =>
            if rbp <? p then
              match fuel with
              | O => None
              | S f =>
                  match pratt_expr f (rhs_bp p a) r with
                  | Some (rhs, r') => pratt_loop f rbp (mk_bin o lhs rhs) r'
                  | None => None
                  end
              end
            else Some (lhs, is)
        | None => None
        end
    | _ :: _ => None
    end.

  (* PrattParserMap::parse *)
  Definition pratt (is : list pitem) : option T :=
    match pratt_expr (length is) 0 is with
    | Some (t, []) => Some t
    | _ => None
    end.
End Pratt.

Arguments PPrim {T U B} t.
Arguments PPre {T U B} u.
Arguments PIn {T U B} o.
Arguments pratt_expr {T U B}.
Arguments pratt_loop {T U B}.
Arguments pratt {T U B}.
