(* Model of /repo/src/analyzing/tightness.rs.

   The Rust code builds a petgraph DiGraph with one node per element of `self.predicates()` and an
   edge head-predicate -> p for every p in `rule.body.positive_predicates()` (literals with
   Sign::NoSign only), and answers `!is_cyclic_directed(graph)`.  petgraph is NOT modelled: the
   cycle test of the model is Kahn's algorithm written on the predicate list ([topo_order]),
   which returns a topological order when there is none; the two are tied by correspondence
   (ops `is_tight`, `has_private_recursion`) and [topo_order] is proved exact in
   Proofs/TightnessOk.v (Some order <-> no cycle). *)
From Coq Require Import List Ascii String ZArith Bool.
From Anthem Require Import Base.ISet Syntax.Fol Syntax.Asp.
Import ListNotations.
Open Scope list_scope.

Definition edge := (pred * pred)%type.

(* [n] has no edge into a node that is still remaining (all its successors are already ordered) *)
Definition is_sink (edges : list edge) (remaining : list pred) (n : pred) : bool :=
  forallb (fun e => negb (pred_eqb (fst e) n) || negb (memb pred_dec (snd e) remaining)) edges.

(* Kahn's algorithm (on successors): repeatedly move a node without remaining successors to
   the end of the order.  None <-> at some point every remaining node has a remaining successor
   (fuel = number of nodes always suffices: each step removes one node). *)
Fixpoint topo_order_from (fuel : nat) (edges : list edge) (remaining order : list pred) : option (list pred) :=
  match remaining with
  | [] => Some order
  | _ :: _ =>
      match fuel with
      | O => None
      | S fuel' =>
          match find (is_sink edges remaining) remaining with
          | None => None
          | Some n => topo_order_from fuel' edges (iset_remove pred_dec n remaining) (order ++ [n])
          end
      end
  end.
Definition topo_order (nodes : list pred) (edges : list edge) : option (list pred) :=
  topo_order_from (List.length nodes) edges nodes [].
Definition is_acyclic (nodes : list pred) (edges : list edge) : bool :=
  match topo_order nodes edges with Some _ => true | None => false end.

(* edges of the positive dependency graph, in the order the code adds them *)
Definition rule_pos_edges (r : rule) : list edge :=
  match head_pred (rhead r) with
  | Some h => map (fun q => (h, q)) (body_pos_preds (rbody r))
  | None => []
  end.
Definition pos_edges (p : program) : list edge := flat_map rule_pos_edges p.

Definition tight_order (p : program) : option (list pred) := topo_order (program_preds p) (pos_edges p).
Definition is_tight (p : program) : bool := is_acyclic (program_preds p) (pos_edges p).

(* EXTRACT: is_tight tight_order topo_order is_acyclic pos_edges *)
