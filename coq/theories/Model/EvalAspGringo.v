(* Executable version of the reference semantics under the three readings of `/` and `\` of
   Sem/AspRefGringo.v (anthem's own, Abstract Gringo, clingo), over finite assignments and a window
   of the domain: Model/EvalAsp.v with [binop_vals] replaced by [binop_vals_m].  Used only by the
   semantic ops sem_tau_star_ag / sem_tau_star_clingo (and their _strict variants), which evaluate
   the implementation's own tau* output against the PUBLISHED readings and replay finding F24.
   Proofs/DivisionDeviation.v: [ref_vals_m_spec] (the evaluator computes AspRefGringo.vals_with),
   [ref_vals_m_anthem] (mode DAnthem is Model/EvalAsp.ref_vals), [ref_rule_eval_m_outside] (the two
   evaluators return the same value on every rule the class test [rule_reaches_b] rejects). *)
From Coq Require Import List Ascii String ZArith Bool.
From Anthem Require Import Base.ISet Syntax.Fol Syntax.Asp Sem.Domain Sem.AspRef Model.Eval Model.EvalAsp.
Import ListNotations.
Open Scope string_scope.
Open Scope list_scope.

Inductive divmode := DAnthem | DGringo | DClingo.

Definition divmod_vals (d : divmode) (n1 n2 : Z) : option (Z * Z) :=
  match d with
  | DAnthem => if (0 <? n2)%Z then Some ((n1 / n2)%Z, (n1 mod n2)%Z) else None
  | DGringo => if (n2 =? 0)%Z then None else Some ((n1 / n2)%Z, (n1 mod n2)%Z)
  | DClingo => if (n2 =? 0)%Z then None else Some (Z.quot n1 n2, Z.rem n1 n2)
  end.

Definition binop_vals_m (d : divmode) (o : abinop) (n1 n2 : Z) : list gval :=
  match o with
  | ADiv => match divmod_vals d n1 n2 with Some (q, _) => [VNum q] | None => [] end
  | AMod => match divmod_vals d n1 n2 with Some (_, m) => [VNum m] | None => [] end
  | _ => binop_vals o n1 n2
  end.

(* the classes of finding F24 as boolean tests on (dividend, divisor) *)
Definition neg_divisor_b (n1 n2 : Z) : bool := (n2 <? 0)%Z.
Definition neg_operand_b (n1 n2 : Z) : bool := (n2 <? 0)%Z || (n1 <? 0)%Z.

Section RefEvalM.
Variable d : divmode.
Variable inw : gval -> bool.

Fixpoint ref_vals_m (sg : fassign) (t : term) : list gval :=
  match t with
  | TPre p => keep inw [pval p]
  | TVar x => keep inw [alookup sg x]
  | TUn AUNeg a => keep inw (map (fun n => VNum (0 - n)) (nums (ref_vals_m sg a)))
  | TBin o l r =>
      let ls := nums (ref_vals_m sg l) in
      let rs := nums (ref_vals_m sg r) in
      keep inw (flat_map (fun n1 => flat_map (fun n2 => binop_vals_m d o n1 n2) rs) ls)
  end.

Definition ref_tuples_m (sg : fassign) (ts : list term) : list (list gval) :=
  cart (map (ref_vals_m sg) ts).

Definition ref_bformula_eval_m (W T : fpint) (sg : fassign) (b : bformula) : bool :=
  match b with
  | BLit (mklit SNone a) => existsb (fun vs => fholds W (apred a) vs) (ref_tuples_m sg (aterms a))
  | BLit (mklit SNeg a) => existsb (fun vs => negb (fholds T (apred a) vs)) (ref_tuples_m sg (aterms a))
  | BLit (mklit SDNeg a) => existsb (fun vs => fholds T (apred a) vs) (ref_tuples_m sg (aterms a))
  | BCmp c =>
      existsb (fun v1 => existsb (fun v2 => rel_sat (arel_to_rel (crel c)) v1 v2) (ref_vals_m sg (crhs c)))
              (ref_vals_m sg (clhs c))
  end.
Definition ref_body_eval_m (W T : fpint) (sg : fassign) (b : list bformula) : bool :=
  forallb (ref_bformula_eval_m W T sg) b.
Definition ref_head_eval_m (W T : fpint) (sg : fassign) (h : head) : bool :=
  match h with
  | HBasic a => forallb (fun vs => fholds W (apred a) vs) (ref_tuples_m sg (aterms a))
  | HChoice a => forallb (fun vs => fholds W (apred a) vs || negb (fholds T (apred a) vs)) (ref_tuples_m sg (aterms a))
  | HFalsity => false
  end.

Definition ref_rule_eval_gen_m (dom : list gval) (H T : fpint) (r : rule) : bool :=
  forallb (fun sg =>
             implb (ref_body_eval_m H T sg (rbody r)) (ref_head_eval_m H T sg (rhead r)) &&
             implb (ref_body_eval_m T T sg (rbody r)) (ref_head_eval_m T T sg (rhead r)))
          (assignments (rule_vars r) dom).

(* class test: does the evaluation of t under sg apply / or \ to a pair accepted by [badb]? *)
Variable badb : Z -> Z -> bool.
Fixpoint reaches_b (sg : fassign) (t : term) : bool :=
  match t with
  | TPre _ | TVar _ => false
  | TUn _ a => reaches_b sg a
  | TBin o l r =>
      reaches_b sg l || reaches_b sg r ||
      (match o with ADiv | AMod => true | _ => false end &&
       existsb (fun n1 => existsb (fun n2 => badb n1 n2) (nums (ref_vals_m sg r))) (nums (ref_vals_m sg l)))
  end.
Definition atom_reaches_b sg (a : atom) : bool := existsb (reaches_b sg) (aterms a).
Definition bformula_reaches_b sg (b : bformula) : bool :=
  match b with
  | BLit l => atom_reaches_b sg (latom l)
  | BCmp c => reaches_b sg (clhs c) || reaches_b sg (crhs c)
  end.
Definition head_reaches_b sg (h : head) : bool :=
  match h with HBasic a | HChoice a => atom_reaches_b sg a | HFalsity => false end.
Definition rule_reaches_sg_b sg (r : rule) : bool :=
  head_reaches_b sg (rhead r) || existsb (bformula_reaches_b sg) (rbody r).
(* some assignment of the rule's variables over [dom] reaches a bad pair *)
Definition rule_reaches_b (dom : list gval) (r : rule) : bool :=
  existsb (fun sg => rule_reaches_sg_b sg r) (assignments (rule_vars r) dom).
End RefEvalM.

Definition ref_rule_eval_m (d : divmode) (W : window) (H T : fpint) (r : rule) : bool :=
  ref_rule_eval_gen_m d (in_window W) (w_general W) H T r.
Definition rule_in_class (d : divmode) (badb : Z -> Z -> bool) (W : window) (r : rule) : bool :=
  rule_reaches_b d (in_window W) badb (w_general W) r.

(* EXTRACT: divmode ref_vals_m ref_rule_eval_m rule_in_class neg_divisor_b neg_operand_b *)
