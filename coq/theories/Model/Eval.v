(* Executable evaluators over a FINITE WINDOW of the standard domain.  Used only by the search
   for failing inputs and by the semantic cross-check of the implementation's outputs; they are
   NOT proofs and never counted as obligations.  Quantifiers range over the window only. *)
From Coq Require Import List Ascii String ZArith Bool.
From Anthem Require Import Syntax.Fol Sem.Domain.
Import ListNotations.
Open Scope string_scope.
Open Scope list_scope.

Record window := mkwindow { w_ints : list Z; w_syms : list string }.
Definition w_general (w : window) : list gval :=
  VInf :: map VNum (w_ints w) ++ map VSym (w_syms w) ++ [VSup].
Definition w_sort (w : window) (s : sort) : list gval :=
  match s with
  | SGeneral => w_general w
  | SInteger => map VNum (w_ints w)
  | SSymbol => map VSym (w_syms w)
  end.

(* finite assignment / placeholder interpretation: association lists with defaults *)
Definition fenv := list (var * gval).
Definition default_val (s : sort) : gval :=
  match s with SGeneral => VNum 0 | SInteger => VNum 0 | SSymbol => VSym "a" end.
Fixpoint flookup (e : fenv) (v : var) : gval :=
  match e with
  | [] => default_val (vsort v)
  | (w, d) :: e' => if var_eqb v w then d else flookup e' v
  end.
Definition ffint := list (fconst * gval).
Fixpoint fclookup (fi : ffint) (c : fconst) : gval :=
  match fi with
  | [] => default_val (fcsort c)
  | (w, d) :: fi' => if fconst_eqb c w then d else fclookup fi' c
  end.
Definition as_int (d : gval) : Z := match d with VNum z => z | _ => 0%Z end.
Definition as_sym (d : gval) : string := match d with VSym s => s | _ => "a" end.

(* finite predicate interpretation: the list of true ground atoms *)
Definition fpint := list (string * list gval).
Definition gvals_eqb (a b : list gval) : bool :=
  (Nat.eqb (List.length a) (List.length b)) && forallb (fun p => gval_eqb (fst p) (snd p)) (combine a b).
Definition fholds (I : fpint) (p : string) (args : list gval) : bool :=
  existsb (fun a => String.eqb (fst a) p && gvals_eqb (snd a) args) I.

Section Eval.
Variable W : window.
Variable FI : ffint.

Fixpoint eev_i (e : fenv) (t : iterm) : Z :=
  match t with
  | INum z => z
  | IFun c => as_int (fclookup FI (mkfconst c SInteger))
  | IVar x => as_int (flookup e (mkvar x SInteger))
  | IUn UNeg t => (- eev_i e t)%Z
  | IBin BAdd l r => (eev_i e l + eev_i e r)%Z
  | IBin BSub l r => (eev_i e l - eev_i e r)%Z
  | IBin BMul l r => (eev_i e l * eev_i e r)%Z
  end.
Definition eev_s (e : fenv) (t : sterm) : string :=
  match t with
  | SSym s => s
  | SFun c => as_sym (fclookup FI (mkfconst c SSymbol))
  | SVar x => as_sym (flookup e (mkvar x SSymbol))
  end.
Definition eev_g (e : fenv) (t : gterm) : gval :=
  match t with
  | GInf => VInf | GSup => VSup
  | GFun c => fclookup FI (mkfconst c SGeneral)
  | GVar x => flookup e (mkvar x SGeneral)
  | GInt t => VNum (eev_i e t)
  | GSym t => VSym (eev_s e t)
  end.
Fixpoint echain (e : fenv) (l : gval) (gs : list guard) : bool :=
  match gs with
  | [] => true
  | g :: gs' => let v := eev_g e (gterm_of g) in rel_sat (grel g) l v && echain e v gs'
  end.
Definition easat (I : fpint) (e : fenv) (a : aformula) : bool :=
  match a with
  | ATrue => true | AFalse => false
  | AAtom p ts => fholds I p (map (eev_g e) ts)
  | ACmp t gs => echain e (eev_g e t) gs
  end.

Fixpoint eqsat (q : quant) (vs : list var) (k : fenv -> bool) (e : fenv) : bool :=
  match vs with
  | [] => k e
  | v :: vs' =>
      match q with
      | QForall => forallb (fun d => eqsat q vs' k ((v, d) :: e)) (w_sort W (vsort v))
      | QExists => existsb (fun d => eqsat q vs' k ((v, d) :: e)) (w_sort W (vsort v))
      end
  end.

Fixpoint ceval (I : fpint) (e : fenv) (f : formula) : bool :=
  match f with
  | FAtomic a => easat I e a
  | FNot f => negb (ceval I e f)
  | FBin CAnd l r => ceval I e l && ceval I e r
  | FBin COr l r => ceval I e l || ceval I e r
  | FBin CImp l r => implb (ceval I e l) (ceval I e r)
  | FBin CRimp l r => implb (ceval I e r) (ceval I e l)
  | FBin CIff l r => Bool.eqb (ceval I e l) (ceval I e r)
  | FQ q vs f => eqsat q vs (fun e' => ceval I e' f) e
  end.

Fixpoint heval (H T : fpint) (e : fenv) (f : formula) : bool :=
  match f with
  | FAtomic a => easat H e a
  | FNot f => negb (ceval T e f)
  | FBin CAnd l r => heval H T e l && heval H T e r
  | FBin COr l r => heval H T e l || heval H T e r
  | FBin CImp l r => implb (heval H T e l) (heval H T e r) && implb (ceval T e l) (ceval T e r)
  | FBin CRimp l r => implb (heval H T e r) (heval H T e l) && implb (ceval T e r) (ceval T e l)
  | FBin CIff l r => (implb (heval H T e l) (heval H T e r) && implb (ceval T e l) (ceval T e r))
                     && (implb (heval H T e r) (heval H T e l) && implb (ceval T e r) (ceval T e l))
  | FQ q vs f => eqsat q vs (fun e' => heval H T e' f) e
  end.
End Eval.

(* the classical interpretation of gamma's vocabulary built from a finite HT pair *)
Definition fmerge (H T : fpint) : fpint :=
  map (fun a => (String "h"%char (fst a), snd a)) H ++ map (fun a => (String "t"%char (fst a), snd a)) T.

(* EXTRACT: ceval heval fmerge w_general w_sort *)
