(* The machine-integer operations behind the findings of C16 (F3a, F3b, F11), with explicit Panic
   results where the code can panic (1 and 3; 2 is total since the repair of F3b).

   1. numeral tokens: `pair.as_str().parse().unwrap()` on a token of the grammar rule
        integer / numeral = "0" | "-"? nonzero-digit digit*           (isize)
        arity             = "0" | nonzero-digit digit*                (usize)
      (src/parsing/asp/mini_gringo/pest.rs:43,164; src/parsing/fol/sigma_0/pest.rs:92,217)
   2. the TPTP rendering of a negative numeral: `let m = n.unsigned_abs();` (src/formatting/fol/
      sigma_0/tptp.rs:41), a usize: total, isize::MIN renders as $uminus(9223372036854775808)
      (finding F3b, repaired: the former `n.abs()` overflowed on isize::MIN in debug builds)
   3. `max_taken_var + i` in choose_fresh_global_variables (src/translating/formula_representation/
      tau_star.rs:35), usize, overflow check in debug builds. *)
From Coq Require Import List Ascii String ZArith NArith Bool.
From Anthem Require Import Base.Fresh.
Import ListNotations.
Open Scope string_scope.

Definition isize_max : Z := 9223372036854775807.
Definition isize_min : Z := -9223372036854775808.
Definition usize_max : N := 18446744073709551615.

Inductive outcome (A : Type) := Value (a : A) | Panic | NotAToken.
Arguments Value {A}. Arguments Panic {A}. Arguments NotAToken {A}.

Definition digit_of (c : ascii) : option N :=
  let n := N_of_ascii c in
  if ((48 <=? n) && (n <=? 57))%N then Some (n - 48)%N else None.

(* value of a non-empty string of decimal digits *)
Fixpoint digits_value (acc : N) (s : string) : option N :=
  match s with
  | EmptyString => Some acc
  | String c s' => match digit_of c with Some d => digits_value (acc * 10 + d)%N s' | None => None end
  end.
Definition digits (s : string) : option N :=
  match s with EmptyString => None | _ => digits_value 0 s end.

(* the lexical shape of the grammar rules: "0" | nonzero-digit digit*  (no leading zeros, no "-0") *)
Definition nonzero_led (ds : string) : bool :=
  match ds with String c _ => negb (Ascii.eqb c "0"%char) | EmptyString => false end.
Definition unsigned_shape (ds : string) : bool := String.eqb ds "0" || nonzero_led ds.

(* str::parse::<isize>().unwrap() on an `integer`/`numeral` token *)
Definition parse_isize (tok : string) : outcome Z :=
  match tok with
  | String "-" ds =>
    match (if nonzero_led ds then digits ds else None) with
    | Some n => if (isize_min <=? - Z.of_N n)%Z then Value (- Z.of_N n)%Z else Panic
    | None => NotAToken
    end
  | _ =>
    match (if unsigned_shape tok then digits tok else None) with
    | Some n => if (Z.of_N n <=? isize_max)%Z then Value (Z.of_N n) else Panic
    | None => NotAToken
    end
  end.

(* str::parse::<usize>().unwrap() on an `arity` token *)
Definition parse_usize (tok : string) : outcome N :=
  match (if unsigned_shape tok then digits tok else None) with
  | Some n => if (n <=? usize_max)%N then Value n else Panic
  | None => NotAToken
  end.

(* Display for tptp::Format<IntegerTerm::Numeral(n)>; n is an isize, n.unsigned_abs() a usize *)
Definition tptp_numeral (n : Z) : outcome string :=
  if (n <? 0)%Z then Value ("$uminus(" ++ nat_str (Z.to_N (- n)) ++ ")")
  else Value (nat_str (Z.to_N n)).

(* the name of the i-th fresh global variable, `"V" + (max_taken_var + i).to_string()`, debug build *)
Definition fresh_global (max_taken_var i : N) : outcome string :=
  if (max_taken_var + i <=? usize_max)%N then Value ("V" ++ nat_str (max_taken_var + i)) else Panic.

(* EXTRACT: parse_isize parse_usize tptp_numeral fresh_global *)
