(* C10 — success is reported iff every problem is proven, under any prover schedule / fault.
   Statements only; models in Model/Prover.v and Model/VerdictRun.v (run level: option values, the
   last lines of stdout, the exit status), proofs in Proofs/ProverOk.v and Proofs/VerdictRunOk.v.
   What these statements cannot talk about (OS processes, pipes, the thread pool, the channel, a
   panic that unwinds a worker) is listed in docs/C10.md and tied only by the CLI runs of
   props/C10.py with a stand-in prover (worker deaths are injected through the hook
   anthem::verif::prover_fault, cargo feature `verif`). *)
From Coq Require Import List Ascii String Arith NArith Permutation.
Import ListNotations.
From Anthem Require Import Base.Fresh Model.Prover Proofs.ProverOk Model.VerdictRun Proofs.VerdictRunOk.
Open Scope string_scope.
Open Scope nat_scope.

(* The `success` flag at the end of the verify loop, for the results in the order received and
   the number of problems submitted: true iff one result per problem and every result is
   "SZS status Theorem". *)
Theorem C10_verdict : forall (rs : list run_result) (n : nat),
  verdict rs n = true <-> List.length rs = n /\ Forall (fun r => is_theorem r = true) rs.
Proof. exact verdict_iff. Qed.
Print Assumptions C10_verdict.

(* ... and "is_theorem" is exactly: the prover ran, its output was text, and the status found in
   it is Theorem.  Everything else (other status, no or unknown status, not started, broken
   pipe, non-UTF-8 output) is a non-theorem. *)
Theorem C10_is_theorem : forall r, is_theorem r = true <-> r = Reported (SOk StTheorem).
Proof. exact is_theorem_iff. Qed.
Print Assumptions C10_is_theorem.

Theorem C10_prove_theorem_only : forall o, is_theorem (prove o) = true ->
  exists out err code, o = Exited out err code /\ utf8_valid out = true /\ utf8_valid err = true /\
                       leftmost_status_line out "Theorem".
Proof. exact prove_failures. Qed.
Print Assumptions C10_prove_theorem_only.

(* The order in which results arrive is irrelevant. *)
Theorem C10_order : forall (rs rs' : list run_result) (n : nat),
  Permutation rs rs' -> verdict rs n = verdict rs' n.
Proof. exact verdict_perm. Qed.
Print Assumptions C10_order.

(* Status extraction.  [status_line_at s i w]: s = pre ++ "SZS status " ++ w ++ " for " ++ post
   with |pre| = i and w a non-empty run of [0-9A-Za-z_];  [leftmost_status_line s w]: such a line
   exists at some offset i, carrying w, and none starts before i. *)
Theorem C10_status : forall s : string,
  status_of_stdout s = SOk StTheorem <-> leftmost_status_line s "Theorem".
Proof. exact status_theorem_iff. Qed.
Print Assumptions C10_status.

Theorem C10_status_ok : forall (s : string) (st : status),
  status_of_stdout s = SOk st <-> leftmost_status_line s (status_word st).
Proof. exact status_ok_iff. Qed.
Print Assumptions C10_status_ok.

Theorem C10_status_missing : forall s : string,
  status_of_stdout s = SMissing <-> forall i w, ~ status_line_at s i w.
Proof. exact status_missing_iff. Qed.
Print Assumptions C10_status_missing.

Theorem C10_status_unknown : forall (s w : string),
  status_of_stdout s = SUnknown w <-> leftmost_status_line s w /\ forall st, w <> status_word st.
Proof. exact status_unknown_iff. Qed.
Print Assumptions C10_status_unknown.

(* the word carried by the leftmost line is unique, so the three cases are exclusive *)
Theorem C10_leftmost_unique : forall s w w',
  leftmost_status_line s w -> leftmost_status_line s w' -> w = w'.
Proof. exact leftmost_unique. Qed.
Print Assumptions C10_leftmost_unique.

(* Fan-in.  ws lists the fate of the worker of each submitted problem: [Some r] = it sends r
   once, [None] = it dies without sending.  For EVERY schedule, i.e. every order in which the
   messages that are ever sent are received, the final flag is true iff every submitted problem
   delivered a Theorem result. *)
Theorem C10_fanin : forall (ws : list (option run_result)) (sched : list event),
  Permutation sched (msgs ws) ->
  (fan_in sched (List.length ws) = true <->
   Forall (fun w => exists r, w = Some r /\ is_theorem r = true) ws).
Proof. exact fan_in_iff. Qed.
Print Assumptions C10_fanin.

(* The same without fixing the fates in advance: for any sequence of arrivals in which no
   problem reports twice and only submitted problems report, the final flag is true iff every
   submitted problem k reported, and reported Theorem. *)
Theorem C10_fanin_exactly_once : forall (n : nat) (evs : list event),
  NoDup (map fst evs) -> (forall e, In e evs -> fst e < n) ->
  (fan_in evs n = true <-> forall k, k < n -> exists r, In (k, r) evs /\ is_theorem r = true).
Proof. exact fan_in_exactly_once. Qed.
Print Assumptions C10_fanin_exactly_once.

(* a dead worker forces Failure (finding F10, repaired by 3e60422: before, the flag stayed true) *)
Theorem C10_dead_worker : forall ws sched,
  Permutation sched (msgs ws) -> In None ws -> fan_in sched (List.length ws) = false.
Proof. exact fan_in_dead_worker. Qed.
Print Assumptions C10_dead_worker.

(* one prover instance: results in submission order *)
Theorem C10_sequential : forall os : list os_outcome,
  sequential os = true <-> Forall (fun o => is_theorem (prove o) = true) os.
Proof. exact sequential_iff. Qed.
Print Assumptions C10_sequential.

(* ---- run level (Model/VerdictRun.v): the last lines of stdout and the exit status ----
   [delivered ws] = number of results that are ever sent = number of [Some] fates;
   [all_theorems ws] = every fate is [Some r] with r a Theorem result. *)

(* instances <> 1 (thread pool).  A worker that dies: for EVERY schedule the run ends with the
   count line carrying the right numbers, then the Failure line, and exit status 0. *)
Theorem C10_dead_worker_end : forall ws sched,
  Permutation sched (msgs ws) -> In None ws ->
  pool_end sched (List.length ws) = Finished (delivered ws) (List.length ws) false /\
  delivered ws < List.length ws /\
  count_line (pool_end sched (List.length ws)) =
    Some ("> Proving ended with " ++ nat_str (N.of_nat (delivered ws)) ++ " results for " ++
          nat_str (N.of_nat (List.length ws)) ++ " problems") /\
  verdict_line (pool_end sched (List.length ws)) = Some failure_text /\
  exit_status (pool_end sched (List.length ws)) = 0.
Proof. exact pool_end_dead_worker. Qed.
Print Assumptions C10_dead_worker_end.

(* the count line is printed iff some worker died *)
Theorem C10_count_line : forall ws sched,
  Permutation sched (msgs ws) ->
  (count_line (pool_end sched (List.length ws)) = None <-> ~ In None ws).
Proof. exact count_line_pool_iff. Qed.
Print Assumptions C10_count_line.

(* the pool always prints a verdict line: Success iff every problem delivered a Theorem *)
Theorem C10_verdict_line_pool : forall ws sched,
  Permutation sched (msgs ws) ->
  (verdict_line (pool_end sched (List.length ws)) = Some success_text <-> all_theorems ws) /\
  (verdict_line (pool_end sched (List.length ws)) = Some failure_text <-> ~ all_theorems ws).
Proof. exact verdict_line_pool. Qed.
Print Assumptions C10_verdict_line_pool.

(* instances = 1: a `prove` that panics takes the process down (exit status 101, no verdict line,
   NOT a Failure line); the results printed are those before the first such problem *)
Theorem C10_sequential_panic : forall ws k,
  sequential_end ws = Panicked k <->
  nth_error ws k = Some None /\ forall j, j < k -> exists r, nth_error ws j = Some (Some r).
Proof. exact sequential_end_panicked. Qed.
Print Assumptions C10_sequential_panic.

Theorem C10_verdict_line_sequential : forall ws,
  (verdict_line (sequential_end ws) = Some success_text <-> all_theorems ws) /\
  (verdict_line (sequential_end ws) = None <-> In None ws) /\
  (exit_status (sequential_end ws) = 101 <-> In None ws).
Proof. exact verdict_line_sequential. Qed.
Print Assumptions C10_verdict_line_sequential.

(* The exit status does not carry the verdict: it is 0 exactly when a verdict line - Success OR
   Failure - was printed (`Ok(())` at the end of Command::Verify).  The property text speaks of
   what is reported; docs/C10.md records this as an observation. *)
Theorem C10_exit_status : forall e, exit_status e = 0 <-> verdict_line e <> None.
Proof. exact exit_status_zero_iff. Qed.
Print Assumptions C10_exit_status.

Theorem C10_exit_status_ignores_verdict : forall r s b b',
  exit_status (Finished r s b) = exit_status (Finished r s b').
Proof. exact exit_status_ignores_verdict. Qed.
Print Assumptions C10_exit_status_ignores_verdict.

(* option values: the number of instances is never 0 (ThreadPool::new(0) would panic), for every
   value of the three options; [ncpu] = num_cpus::get() *)
Theorem C10_instances_positive : forall o ncpu,
  (1 <= ncpu)%N -> exists k, instances o ncpu = Some k /\ (1 <= k)%N.
Proof. exact instances_positive. Qed.
Print Assumptions C10_instances_positive.

Theorem C10_instances_explicit : forall o ncpu,
  prover_instances o <> 0%N -> instances o ncpu = Some (prover_instances o).
Proof. exact instances_explicit. Qed.
Print Assumptions C10_instances_explicit.

Theorem C10_instances_auto : forall o ncpu,
  prover_instances o = 0%N -> (1 <= ncpu)%N ->
  instances o ncpu = Some (N.max (ncpu / cores o ncpu) 1) /\
  ((ncpu < 2 * cores o ncpu)%N -> is_sequential o ncpu = Some true).
Proof. exact instances_auto. Qed.
Print Assumptions C10_instances_auto.

(* ---- non-vacuity ---- *)
(* (the literal is split so that the word after "Theorem" is not read as a theorem name by the
   audit of bin/vlib.py) *)
Definition line (w p : string) : string := "SZS status " ++ w ++ " for " ++ p.
Example C10_status_examples :
  status_of_stdout ("% " ++ line "Theorem" "problem_1") = SOk StTheorem /\
  status_of_stdout ("noise SZS status  for x " ++ line "GaveUp" "" ++ " " ++ line "Theorem" "y") = SOk StGaveUp /\
  status_of_stdout "SZS status Theorem" = SMissing /\
  status_of_stdout ("SZS status Theorem" ++ " for") = SMissing /\
  status_of_stdout ("SZS status Theorem" ++ " for ") = SOk StTheorem /\
  status_of_stdout (line "Theorems" "p") = SUnknown "Theorems" /\
  status_of_stdout (line "Satisfiable" "p " ++ line "Theorem" "p") = SUnknown "Satisfiable" /\
  status_of_stdout ("SZS status Theorem-for p " ++ line "Timeout" "p") = SOk StTimeout /\
  status_of_stdout ("SZS  status Theorem" ++ " for p") = SMissing.
Proof. repeat split; vm_compute; reflexivity. Qed.

Example C10_verdict_examples :
  let T := Reported (SOk StTheorem) in
  verdict [T; T; T] 3 = true /\ verdict [T; T] 3 = false /\ verdict [] 0 = true /\
  verdict [T; Reported (SOk StContradictoryAxioms); T] 3 = false /\
  verdict [T; Failed Spawn] 2 = false /\ verdict [Reported SMissing] 1 = false /\
  fan_in [(2, T); (0, T); (1, T)] 3 = true /\ fan_in [(2, T); (0, T)] 3 = false /\
  msgs [Some T; None; Some T] = [(0, T); (2, T)].
Proof. repeat split; vm_compute; reflexivity. Qed.

Example C10_utf8_examples :
  utf8_valid "abc" = true /\
  utf8_valid (String (ascii_of_nat 195) (String (ascii_of_nat 169) "")) = true /\   (* U+00E9 *)
  utf8_valid (String (ascii_of_nat 255) "") = false /\
  utf8_valid (String (ascii_of_nat 192) (String (ascii_of_nat 128) "")) = false /\   (* overlong *)
  utf8_valid (String (ascii_of_nat 237) (String (ascii_of_nat 160) (String (ascii_of_nat 128) ""))) = false /\ (* surrogate *)
  prove (Exited (String (ascii_of_nat 255) (line "Theorem" "p")) "" 0) = Failed ConvertOutput /\
  prove (Exited (line "Theorem" "p") "" 3) = Reported (SOk StTheorem).
Proof. repeat split; vm_compute; reflexivity. Qed.

Example C10_run_end_examples :
  let T := Reported (SOk StTheorem) in
  pool_end [(2, T); (0, T)] 3 = Finished 2 3 false /\
  count_line (pool_end [(2, T); (0, T)] 3) = Some "> Proving ended with 2 results for 3 problems" /\
  verdict_line (pool_end [(2, T); (0, T)] 3) = Some failure_text /\
  exit_status (pool_end [(2, T); (0, T)] 3) = 0 /\
  count_line (pool_end [(1, T); (0, T)] 2) = None /\
  verdict_line (pool_end [(1, T); (0, T)] 2) = Some success_text /\
  sequential_end [Some T; None; Some T] = Panicked 1 /\
  exit_status (sequential_end [Some T; None; Some T]) = 101 /\
  sequential_end [Some T; Some (Failed Spawn)] = Finished 2 2 false /\
  exit_status (sequential_end [Some T; Some (Failed Spawn)]) = 0 /\
  sequential_end [] = Finished 0 0 true.
Proof. repeat split; vm_compute; reflexivity. Qed.

Example C10_option_examples :
  let o t i c := mkopts t i c in
  (  instances (o 60 1 1) 16 = Some 1 /\ is_sequential (o 60 1 1) 16 = Some true /\
  instances (o 60 0 1) 16 = Some 16 /\ instances (o 60 0 0) 16 = Some 1 /\
  instances (o 60 0 5) 16 = Some 3 /\ instances (o 60 0 100) 16 = Some 1 /\
  instances (o 60 0 0) 0 = None /\
  is_sequential (o 60 100000 1) 16 = Some false /\
  prover_argv (o 0 7 0) 16 = ["--mode"; "casc"; "--time_limit"; "0"; "--cores"; "16"] /\
  prover_argv (o 18446744073709551615 1 18446744073709551615) 16 =
    ["--mode"; "casc"; "--time_limit"; "18446744073709551615"; "--cores"; "18446744073709551615"] /\
  options_ok (o 18446744073709551615 0 0) = true /\ options_ok (o 18446744073709551616 1 1) = false)%N.
Proof. repeat split; vm_compute; reflexivity. Qed.
