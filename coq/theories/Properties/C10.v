(* C10 — success is reported iff every problem is proven, under any prover schedule / fault.
   Statements only; model in Model/Prover.v, proofs in Proofs/ProverOk.v.
   What these statements cannot talk about (OS processes, pipes, the thread pool, the channel, a
   panic that unwinds a worker) is listed in docs/C10.md and tied only by the CLI runs of
   props/C10.py with a stand-in prover. *)
From Coq Require Import List Ascii String Arith Permutation.
Import ListNotations.
From Anthem Require Import Model.Prover Proofs.ProverOk.
Open Scope string_scope.
Open Scope nat_scope.

(* The `success` flag at the end of the verify loop, for the results in the order received and
   the number of problems submitted: true iff one result per problem and every result is
   "SZS status Theorem". *)
Theorem C10_verdict : forall (rs : list run_result) (n : nat),
  verdict rs n = true <-> List.length rs = n /\ Forall (fun r => is_theorem r = true) rs.
Proof. exact verdict_iff. Qed.
Print Assumptions C10_verdict.

(* ... and "is_theorem" is exactly: the prover ran, its output was text, and the status found in
   it is Theorem.  Everything else (other status, no or unknown status, not started, broken
   pipe, non-UTF-8 output) is a non-theorem. *)
Theorem C10_is_theorem : forall r, is_theorem r = true <-> r = Reported (SOk StTheorem).
Proof. exact is_theorem_iff. Qed.
Print Assumptions C10_is_theorem.

Theorem C10_prove_theorem_only : forall o, is_theorem (prove o) = true ->
  exists out err code, o = Exited out err code /\ utf8_valid out = true /\ utf8_valid err = true /\
                       leftmost_status_line out "Theorem".
Proof. exact prove_failures. Qed.
Print Assumptions C10_prove_theorem_only.

(* The order in which results arrive is irrelevant. *)
Theorem C10_order : forall (rs rs' : list run_result) (n : nat),
  Permutation rs rs' -> verdict rs n = verdict rs' n.
Proof. exact verdict_perm. Qed.
Print Assumptions C10_order.

(* Status extraction.  [status_line_at s i w]: s = pre ++ "SZS status " ++ w ++ " for " ++ post
   with |pre| = i and w a non-empty run of [0-9A-Za-z_];  [leftmost_status_line s w]: such a line
   exists at some offset i, carrying w, and none starts before i. *)
Theorem C10_status : forall s : string,
  status_of_stdout s = SOk StTheorem <-> leftmost_status_line s "Theorem".
Proof. exact status_theorem_iff. Qed.
Print Assumptions C10_status.

Theorem C10_status_ok : forall (s : string) (st : status),
  status_of_stdout s = SOk st <-> leftmost_status_line s (status_word st).
Proof. exact status_ok_iff. Qed.
Print Assumptions C10_status_ok.

Theorem C10_status_missing : forall s : string,
  status_of_stdout s = SMissing <-> forall i w, ~ status_line_at s i w.
Proof. exact status_missing_iff. Qed.
Print Assumptions C10_status_missing.

Theorem C10_status_unknown : forall (s w : string),
  status_of_stdout s = SUnknown w <-> leftmost_status_line s w /\ forall st, w <> status_word st.
Proof. exact status_unknown_iff. Qed.
Print Assumptions C10_status_unknown.

(* the word carried by the leftmost line is unique, so the three cases are exclusive *)
Theorem C10_leftmost_unique : forall s w w',
  leftmost_status_line s w -> leftmost_status_line s w' -> w = w'.
Proof. exact leftmost_unique. Qed.
Print Assumptions C10_leftmost_unique.

(* Fan-in.  ws lists the fate of the worker of each submitted problem: [Some r] = it sends r
   once, [None] = it dies without sending.  For EVERY schedule, i.e. every order in which the
   messages that are ever sent are received, the final flag is true iff every submitted problem
   delivered a Theorem result. *)
Theorem C10_fanin : forall (ws : list (option run_result)) (sched : list event),
  Permutation sched (msgs ws) ->
  (fan_in sched (List.length ws) = true <->
   Forall (fun w => exists r, w = Some r /\ is_theorem r = true) ws).
Proof. exact fan_in_iff. Qed.
Print Assumptions C10_fanin.

(* The same without fixing the fates in advance: for any sequence of arrivals in which no
   problem reports twice and only submitted problems report, the final flag is true iff every
   submitted problem k reported, and reported Theorem. *)
Theorem C10_fanin_exactly_once : forall (n : nat) (evs : list event),
  NoDup (map fst evs) -> (forall e, In e evs -> fst e < n) ->
  (fan_in evs n = true <-> forall k, k < n -> exists r, In (k, r) evs /\ is_theorem r = true).
Proof. exact fan_in_exactly_once. Qed.
Print Assumptions C10_fanin_exactly_once.

(* a dead worker forces Failure (finding F10, repaired by 3e60422: before, the flag stayed true) *)
Theorem C10_dead_worker : forall ws sched,
  Permutation sched (msgs ws) -> In None ws -> fan_in sched (List.length ws) = false.
Proof. exact fan_in_dead_worker. Qed.
Print Assumptions C10_dead_worker.

(* one prover instance: results in submission order *)
Theorem C10_sequential : forall os : list os_outcome,
  sequential os = true <-> Forall (fun o => is_theorem (prove o) = true) os.
Proof. exact sequential_iff. Qed.
Print Assumptions C10_sequential.

(* ---- non-vacuity ---- *)
(* (the literal is split so that the word after "Theorem" is not read as a theorem name by the
   audit of bin/vlib.py) *)
Definition line (w p : string) : string := "SZS status " ++ w ++ " for " ++ p.
Example C10_status_examples :
  status_of_stdout ("% " ++ line "Theorem" "problem_1") = SOk StTheorem /\
  status_of_stdout ("noise SZS status  for x " ++ line "GaveUp" "" ++ " " ++ line "Theorem" "y") = SOk StGaveUp /\
  status_of_stdout "SZS status Theorem" = SMissing /\
  status_of_stdout ("SZS status Theorem" ++ " for") = SMissing /\
  status_of_stdout ("SZS status Theorem" ++ " for ") = SOk StTheorem /\
  status_of_stdout (line "Theorems" "p") = SUnknown "Theorems" /\
  status_of_stdout (line "Satisfiable" "p " ++ line "Theorem" "p") = SUnknown "Satisfiable" /\
  status_of_stdout ("SZS status Theorem-for p " ++ line "Timeout" "p") = SOk StTimeout /\
  status_of_stdout ("SZS  status Theorem" ++ " for p") = SMissing.
Proof. repeat split; vm_compute; reflexivity. Qed.

Example C10_verdict_examples :
  let T := Reported (SOk StTheorem) in
  verdict [T; T; T] 3 = true /\ verdict [T; T] 3 = false /\ verdict [] 0 = true /\
  verdict [T; Reported (SOk StContradictoryAxioms); T] 3 = false /\
  verdict [T; Failed Spawn] 2 = false /\ verdict [Reported SMissing] 1 = false /\
  fan_in [(2, T); (0, T); (1, T)] 3 = true /\ fan_in [(2, T); (0, T)] 3 = false /\
  msgs [Some T; None; Some T] = [(0, T); (2, T)].
Proof. repeat split; vm_compute; reflexivity. Qed.

Example C10_utf8_examples :
  utf8_valid "abc" = true /\
  utf8_valid (String (ascii_of_nat 195) (String (ascii_of_nat 169) "")) = true /\   (* U+00E9 *)
  utf8_valid (String (ascii_of_nat 255) "") = false /\
  utf8_valid (String (ascii_of_nat 192) (String (ascii_of_nat 128) "")) = false /\   (* overlong *)
  utf8_valid (String (ascii_of_nat 237) (String (ascii_of_nat 160) (String (ascii_of_nat 128) ""))) = false /\ (* surrogate *)
  prove (Exited (String (ascii_of_nat 255) (line "Theorem" "p")) "" 0) = Failed ConvertOutput /\
  prove (Exited (line "Theorem" "p") "" 3) = Reported (SOk StTheorem).
Proof. repeat split; vm_compute; reflexivity. Qed.
