(* C18 (first half) - simplifying with the fixpoint strategy terminates, and simplifying the
   result again returns it unchanged.
   Statements only; proofs live in Proofs/SimplIntuitTerm.v.
   Proved here: idempotence for ANY rewrite (from the loop exit), and termination for the
   INTUITIONISTIC and ht (= INTUITIONISTIC ++ HT) portfolios with the explicit fuel bound
   mu F + 1.  Termination of the CLASSIC portfolio is proved in Properties/C18cls.v (C18_term_cls:
   its scope-extension, domain-restriction and substitution rules do not decrease mu, so a
   lexicographic 5-tuple is used there).  The second half of C18 (byte-identical outputs across
   processes) is SAMPLING by the cli cluster (part C18det of the check), no theorem. *)
From Coq Require Import List String ZArith.
Import ListNotations.
From Anthem Require Import Syntax.Fol Model.Apply Model.Strategy Model.SimplIntuit Proofs.SimplIntuitTerm.
Open Scope string_scope.

(* whenever the fixpoint loop returns G, one more post-order pass of the rewrite leaves G unchanged *)
Theorem C18_idem :
  forall fuel (r : formula -> formula) F G, apply_fixpoint fuel r F = Some G -> apply r G = G.
Proof. exact apply_fixpoint_idem. Qed.
Print Assumptions C18_idem.

(* hence simplifying the result again (fixpoint strategy, any fuel, even 0) returns it unchanged *)
Theorem C18_again :
  forall fuel (r : formula -> formula) F G,
    apply_fixpoint fuel r F = Some G -> forall fuel', apply_fixpoint fuel' r G = Some G.
Proof. exact apply_fixpoint_again. Qed.
Print Assumptions C18_again.

(* the measure: one pass of the composed INTUITIONISTIC portfolio either changes nothing or
   strictly decreases mu *)
Theorem C18_measure_int :
  forall F, apply (compose INTUITIONISTIC) F = F \/ mu (apply (compose INTUITIONISTIC) F) < mu F.
Proof. exact int_step_decreasing. Qed.
Print Assumptions C18_measure_int.

(* termination with an explicit bound on the number of passes *)
Theorem C18_term_int :
  forall F, exists G, apply_fixpoint (S (mu F)) (compose INTUITIONISTIC) F = Some G.
Proof. exact int_fixpoint_terminates. Qed.
Print Assumptions C18_term_int.

Theorem C18_term_ht :
  forall F, exists G, apply_fixpoint (S (mu F)) (compose (INTUITIONISTIC ++ HT)) F = Some G.
Proof. exact ht_fixpoint_terminates. Qed.
Print Assumptions C18_term_ht.

(* the model's entry points (fuel = mu F + 1) therefore always return, under every strategy *)
Theorem C18_simplify_int_total : forall (s : strategy) F, exists G, simplify_int s F = Some G.
Proof. exact simplify_int_total. Qed.
Print Assumptions C18_simplify_int_total.
Theorem C18_simplify_ht_total : forall (s : strategy) F, exists G, simplify_ht s F = Some G.
Proof. exact simplify_ht_total. Qed.
Print Assumptions C18_simplify_ht_total.

(* C18_term_cls (termination for INTUITIONISTIC ++ HT ++ CLASSIC): stated in DESIGN.md, not claimed. *)

(* ---- non-vacuity ---- *)
(* a formula on which the loop needs three passes: `#false <- p` becomes `p -> #false` in pass 1
   (rule 3), `not p` in pass 2 (rule 2 precedes rule 3 in the portfolio), pass 3 changes nothing *)
Example C18_three_passes :
  let p := FAtomic (AAtom "p" []) in
  let F := FBin CRimp (FAtomic AFalse) p in
  fixpoint_iterations (simplify_fuel F) (compose INTUITIONISTIC) F = Some 3
  /\ apply (compose INTUITIONISTIC) F = FBin CImp p (FAtomic AFalse)
  /\ apply_fixpoint (simplify_fuel F) (compose INTUITIONISTIC) F = Some (FNot p)
  /\ apply_fixpoint 1 (compose INTUITIONISTIC) F = None.
Proof. vm_compute. repeat split; reflexivity. Qed.

(* a chain comparison: `X = X = X = Y` needs three passes as well and the measure drops 10 -> 6 -> 2 *)
Example C18_chain_passes :
  let X := GVar "X" in let Y := GVar "Y" in
  let F := FAtomic (ACmp X [mkguard REq X; mkguard REq X; mkguard REq Y]) in
  fixpoint_iterations (simplify_fuel F) (compose INTUITIONISTIC) F = Some 3
  /\ apply_fixpoint (simplify_fuel F) (compose INTUITIONISTIC) F = Some (FAtomic (ACmp X [mkguard REq Y]))
  /\ mu F = 10 /\ mu (apply (compose INTUITIONISTIC) F) = 6.
Proof. vm_compute. repeat split; reflexivity. Qed.
