(* C11 (tightness and private-recursion parts) - applicability checks are exact.
   Statements only; proofs live in Proofs/TightnessOk.v.
   Models: Model/Tightness.v (analyzing/tightness.rs), Model/PrivRec.v (analyzing/private_recursion.rs);
   petgraph's is_cyclic_directed is replaced by the model's own Kahn algorithm (tied by correspondence). *)
From Coq Require Import List String ZArith Relations.
Import ListNotations.
From Anthem Require Import Syntax.Fol Syntax.Asp Model.Tightness Model.PrivRec Proofs.TightnessOk.
Open Scope string_scope.
Open Scope list_scope.

(* pos_dep P h q  = some rule of P has head predicate h (basic or choice head) and an UNSIGNED body
                    literal with predicate q (symbol and arity)
   priv_dep P priv h q = h and q are private and some rule with head predicate h has a body literal
                    (of any sign) with predicate q
   private_choice P priv = some choice rule has a private head predicate *)

(* `analyze --property tightness` (Program::is_tight) answers true exactly when the positive
   predicate dependency graph has no cycle (no non-empty path p ->+ p). *)
Theorem C11_tight :
  forall P : program, is_tight P = true <-> ~ exists p, clos_trans pred (pos_dep P) p p.
Proof. exact C11_tight_proof. Qed.
Print Assumptions C11_tight.

(* a `true` answer comes with a rank (topological order): positive body predicates rank strictly
   below the head predicate - the hypothesis of the Fages theorem (C04) *)
Theorem C11_tight_rank :
  forall P : program, is_tight P = true ->
  exists rank : pred -> nat, forall r a h, In r P -> head_pred (rhead r) = Some h ->
    In (BLit (mklit SNone a)) (rbody r) -> rank (atom_pred a) < rank h.
Proof. exact is_tight_rank. Qed.
Print Assumptions C11_tight_rank.

(* has_private_recursion answers false exactly when no choice rule has a private head and the
   dependency graph among private predicates (through ANY body occurrence) has no cycle *)
Theorem C11_priv :
  forall (P : program) (priv : list pred),
  has_private_recursion P priv = false <->
  (~ private_choice P priv /\ ~ exists p, clos_trans pred (priv_dep P priv) p p).
Proof. exact C11_priv_proof. Qed.
Print Assumptions C11_priv.

(* the generic cycle test both rest on *)
Theorem C11_cycle_test_exact :
  forall (nodes : list pred) (edges : list edge),
  NoDup nodes -> (forall a b, In (a, b) edges -> In a nodes /\ In b nodes) ->
  (is_acyclic nodes edges = true <-> ~ exists p, clos_trans pred (edge_rel edges) p p).
Proof. exact is_acyclic_exact. Qed.
Print Assumptions C11_cycle_test_exact.

(* ---------------- non-vacuity: what the code does with signs, choice heads, arities ---------------- *)
Definition a0 (p : string) : atom := mkatom p [].
Definition pos (a : atom) := BLit (mklit SNone a).
Definition neg (a : atom) := BLit (mklit SNeg a).
Definition nneg (a : atom) := BLit (mklit SDNeg a).

(* p :- q.  q :- p.   is not tight;   the returned order for an acyclic program is a topological order *)
Example C11_ex_cycle : is_tight [mkrule (HBasic (a0 "p")) [pos (a0 "q")]; mkrule (HBasic (a0 "q")) [pos (a0 "p")]] = false.
Proof. vm_compute. reflexivity. Qed.
Example C11_ex_order :
  tight_order [mkrule (HBasic (a0 "p")) [pos (a0 "q")]; mkrule (HBasic (a0 "q")) [pos (a0 "r")]]
  = Some [mkpred "r" 0; mkpred "q" 0; mkpred "p" 0].
Proof. vm_compute. reflexivity. Qed.
(* recursion through `not` and through `not not` does NOT count: both programs are reported tight *)
Example C11_ex_not : is_tight [mkrule (HBasic (a0 "p")) [neg (a0 "p")]] = true.
Proof. vm_compute. reflexivity. Qed.
Example C11_ex_notnot : is_tight [mkrule (HBasic (a0 "p")) [nneg (a0 "p")]] = true.
Proof. vm_compute. reflexivity. Qed.
(* a choice head is a head:  {p} :- p.  is not tight;  {p}.  alone is tight *)
Example C11_ex_choice : is_tight [mkrule (HChoice (a0 "p")) [pos (a0 "p")]] = false /\ is_tight [mkrule (HChoice (a0 "p")) []] = true.
Proof. vm_compute. auto. Qed.
(* same symbol, different arity = different predicates:  p(X) :- p(X,X).  is tight *)
Example C11_ex_arity :
  is_tight [mkrule (HBasic (mkatom "p" [TVar "X"])) [pos (mkatom "p" [TVar "X"; TVar "X"])]] = true.
Proof. vm_compute. reflexivity. Qed.
(* a constraint contributes no edge *)
Example C11_ex_constraint : is_tight [mkrule HFalsity [pos (a0 "p")]; mkrule (HBasic (a0 "p")) []] = true.
Proof. vm_compute. reflexivity. Qed.

(* private recursion: through `not` counts; a private choice head counts; public predicates do not *)
Example C11_ex_priv_not : has_private_recursion [mkrule (HBasic (a0 "p")) [neg (a0 "p")]] [mkpred "p" 0] = true.
Proof. vm_compute. reflexivity. Qed.
Example C11_ex_priv_choice : has_private_recursion [mkrule (HChoice (a0 "p")) []] [mkpred "p" 0] = true.
Proof. vm_compute. reflexivity. Qed.
Example C11_ex_priv_public :
  has_private_recursion [mkrule (HBasic (a0 "p")) [pos (a0 "q")]; mkrule (HBasic (a0 "q")) [pos (a0 "p")]] [mkpred "p" 0] = false.
Proof. vm_compute. reflexivity. Qed.
