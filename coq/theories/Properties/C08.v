(* C08 — natural and mu are HT-equivalent to tau* on every rule they accept.
   Statements only; proofs live in Proofs/Nat*.v, Proofs/NaturalOk.v, Proofs/NaturalMain.v,
   Proofs/RegularOk.v.

   tau* is proved (C01, by the tau* cluster) HT-equivalent to the reference semantics
   Sem/AspRef.v; the natural translation is proved here equivalent to the SAME oracle, formula by
   formula, which gives the formula-by-formula HT-equivalence of natural with tau*. *)
From Coq Require Import List String ZArith.
Import ListNotations.
From Anthem Require Import Syntax.Fol Syntax.Asp Sem.Domain Sem.Sat Sem.AspRef
  Model.Natural Model.Regularity Model.Mu Model.EvalAspNat
  Proofs.NatBase Proofs.NatTerms Proofs.NatFresh Proofs.NaturalOk Proofs.NaturalMain
  Proofs.RegularOk Proofs.EvalAspNatOk.
Open Scope string_scope.

(* MAIN THEOREM.  Whenever natural_rule accepts a rule r and returns F, then for every
   interpretation FI of placeholders and every HT interpretation H subset-of T over the infinite
   standard domain: (H,T) satisfies (the universal closure of) F iff (H,T) satisfies every ground
   instance of r in the reference semantics. *)
Theorem C08_nat :
  forall (r : rule) (F : formula), natural_rule r = NOk F ->
  forall (FI : fint) (H T : pint), sub H T -> (hvalid FI H T F <-> ref_rule_sat H T r).
Proof. exact natural_rule_ok. Qed.
Print Assumptions C08_nat.

(* programs: natural prints one formula per rule, each equivalent to its rule *)
Theorem C08_nat_program :
  forall (P : program) (th : theory), natural P = NOk th ->
  List.length th = List.length P /\
  forall (FI : fint) (H T : pint), sub H T ->
    Forall2 (fun r f => hvalid FI H T f <-> ref_rule_sat H T r) P th.
Proof. exact natural_ok. Qed.
Print Assumptions C08_nat_program.

Theorem C08_nat_theory :
  forall (P : program) (th : theory), natural P = NOk th ->
  forall (FI : fint) (H T : pint), sub H T -> (theory_hsat FI H T th <-> ref_sat H T P).
Proof. exact natural_theory_ok. Qed.
Print Assumptions C08_nat_theory.

(* p2f LEMMA.  A term regular of the first kind has exactly one value under an assignment sg of
   precomputed terms to its variables, namely the value of its translation p2f t under any target
   assignment e that agrees with sg (integer variables: sg x = the numeral ei e x; other
   variables: sg x = eg e x), provided the variables below operators are integer variables. *)
Theorem C08_p2f :
  forall (FI : fint) (sg : assignment) (e : env) (t : term) (iv : list string) (g : gterm),
  p2f t iv = Some g ->
  (forall x, In x (term_vars t) -> agree sg e iv x) -> opvars_in iv t ->
  forall v, vals sg t v <-> v = ev_g FI e g.
Proof. exact p2f_vals. Qed.
Print Assumptions C08_p2f.

(* ... and if some variable below an operator is not a numeral the term has no value at all
   (any term, regular or not) - which is why sorting those variables `integer` is sound *)
Theorem C08_p2f_empty :
  forall (sg : assignment) (t : term) (x : string),
  is_op t = true -> In x (term_vars t) -> ~ is_num (sg x) -> forall v, ~ vals sg t v.
Proof. exact vals_op_empty. Qed.
Print Assumptions C08_p2f_empty.

(* C08_int.  Integer-sorted variables are introduced only where every satisfying value is
   necessarily an integer: if x is in int_variables r then every ground instance of r that gives
   x a value which is not a numeral is satisfied vacuously, in both worlds (the body is false or
   the head has no value tuple).  This is exactly what C08_nat needs for the instances that the
   integer-sorted quantifier does not cover. *)
Theorem C08_int :
  forall (r : rule) (x : string), In x (int_variables r) ->
  forall (H T : pint) (sg : assignment), ~ is_num (sg x) ->
    (body_sat H T sg (rbody r) -> head_sat H T sg (rhead r)) /\
    (body_sat T T sg (rbody r) -> head_sat T T sg (rhead r)).
Proof. exact int_variables_are_integers. Qed.
Print Assumptions C08_int.

(* the fresh variables N<i> / N<i>_<j> of a head atom: the search loop terminates; the names are
   pairwise distinct, are not variables of the atom, one per argument that is not regular of the
   first kind *)
Theorem C08_fresh_total :
  forall a : atom, exists fr, fresh_variables_for_head_atom a = Some fr.
Proof. exact fresh_variables_for_head_atom_total. Qed.
Print Assumptions C08_fresh_total.
Theorem C08_fresh :
  forall (a : atom) (fr : list string), fresh_variables_for_head_atom a = Some fr ->
  NoDup fr /\ List.length fr = count_nonfirst (aterms a) /\ forall f, In f fr -> ~ In f (atom_vars a).
Proof. exact fresh_variables_for_head_atom_spec. Qed.
Print Assumptions C08_fresh.

(* no unwrap / expect / unreachable! of natural.rs can be reached; refusal = the rule is not regular *)
Theorem C08_no_panic : forall r : rule, natural_rule r <> NPanic.
Proof. exact natural_rule_no_panic. Qed.
Print Assumptions C08_no_panic.
Theorem C08_accepts : forall r : rule, (exists F, natural_rule r = NOk F) <-> regular_rule r.
Proof. exact natural_rule_accepts. Qed.
Print Assumptions C08_accepts.

(* mu (for ANY tau* rule function and ANY choice of fresh global variables - the tau* cluster's
   model is plugged in by instantiation): mu never fails, has one formula per rule, and its i-th
   formula is natural's formula for the i-th rule if that rule is regular and tau*'s otherwise *)
Theorem C08_mu_shape :
  forall (choose_fresh_global_variables : program -> list string)
         (tau_star_rule : rule -> list string -> formula) (P : program),
  exists th, mu choose_fresh_global_variables tau_star_rule P = NOk th /\
    List.length th = List.length P /\
    forall i r, nth_error P i = Some r ->
      (regular_rule r -> exists f, natural_rule r = NOk f /\ nth_error th i = Some f) /\
      (~ regular_rule r -> nth_error th i = Some (tau_star_rule r (choose_fresh_global_variables P))).
Proof. exact mu_shape. Qed.
Print Assumptions C08_mu_shape.

(* hence on its natural branch mu is HT-equivalent to the reference semantics of the rule *)
Theorem C08_mu_natural_branch :
  forall (choose_fresh_global_variables : program -> list string)
         (tau_star_rule : rule -> list string -> formula) (P : program) (th : theory),
  mu choose_fresh_global_variables tau_star_rule P = NOk th ->
  forall i r f, nth_error P i = Some r -> regular_rule r -> nth_error th i = Some f ->
  forall (FI : fint) (H T : pint), sub H T -> (hvalid FI H T f <-> ref_rule_sat H T r).
Proof. exact mu_natural_branch. Qed.
Print Assumptions C08_mu_natural_branch.

(* "If every rule in the program is regular, the outputs of mu and nu are identical" (manual) *)
Theorem C08_mu_regular_program :
  forall (choose_fresh_global_variables : program -> list string)
         (tau_star_rule : rule -> list string -> formula) (P : program) (th : theory),
  natural P = NOk th -> mu choose_fresh_global_variables tau_star_rule P = NOk th.
Proof. exact mu_on_regular_program. Qed.
Print Assumptions C08_mu_regular_program.

(* the executable reference evaluator used by the semantic cross-check lists exactly the values
   of the reference semantics *)
Theorem C08_ref_vals_exact :
  forall (sg : fassign) (t : term) (v : gval), In v (ref_vals sg t) <-> vals (alookup sg) t v.
Proof. exact ref_vals_ok. Qed.
Print Assumptions C08_ref_vals_exact.

(* ---------- non-vacuity ---------- *)
(* a rule with a choice head, two head intervals, a head variable named like a fresh variable
   (N1, so that the fresh name for position 1 is N1_0), an `= interval` comparison, a negative
   literal with arithmetic, a symbol: accepted, with the expected body and head (the full formula -
   their implication under forall X$i N1$i Y$g - is compared with the implementation's output in
   corpus/natural.txt) *)
Example C08_example_rule : rule :=
  mkrule (HChoice (mkatom "p" [TVar "N1"; TBin AInterval (TPre (PNum 1)) (TVar "N1");
                               TBin AInterval (TVar "X") (TPre (PNum 5))]))
         [BCmp (mkcmp AEq (TVar "X") (TBin AInterval (TPre (PNum 1)) (TPre (PNum 3))));
          BLit (mklit SNeg (mkatom "q" [TBin AAdd (TVar "N1") (TPre (PNum 1)); TVar "Y"; TPre (PSym "a")]))].
Example C08_example_accepted :
  int_variables C08_example_rule = ["N1"; "X"] /\
  fresh_variables_for_head_atom (mkatom "p" [TVar "N1"; TBin AInterval (TPre (PNum 1)) (TVar "N1");
                                             TBin AInterval (TVar "X") (TPre (PNum 5))]) = Some ["N1_0"; "N2"] /\
  natural_body (rbody C08_example_rule) (int_variables C08_example_rule) =
    Some (FBin CAnd
            (FAtomic (ACmp (GInt (INum 1)) [mkguard RLe (GInt (IVar "X")); mkguard RLe (GInt (INum 3))]))
            (FNot (FAtomic (AAtom "q" [GInt (IBin BAdd (IVar "N1") (INum 1)); GVar "Y"; GSym (SSym "a")])))) /\
  natural_head (rhead C08_example_rule) (int_variables C08_example_rule) =
    NOk (FQ QForall [mkvar "N1_0" SInteger; mkvar "N2" SInteger]
           (FBin CImp
              (FBin CAnd
                 (FAtomic (ACmp (GInt (INum 1)) [mkguard RLe (GInt (IVar "N1_0")); mkguard RLe (GInt (IVar "N1"))]))
                 (FAtomic (ACmp (GInt (IVar "X")) [mkguard RLe (GInt (IVar "N2")); mkguard RLe (GInt (INum 5))])))
              (FBin COr
                 (FAtomic (AAtom "p" [GInt (IVar "N1"); GInt (IVar "N1_0"); GInt (IVar "N2")]))
                 (FNot (FAtomic (AAtom "p" [GInt (IVar "N1"); GInt (IVar "N1_0"); GInt (IVar "N2")])))))) /\
  regular_rule C08_example_rule.
Proof.
  split; [vm_compute; reflexivity|]. split; [vm_compute; reflexivity|].
  split; [vm_compute; reflexivity|]. split; [vm_compute; reflexivity|].
  apply regular_ruleb_spec. vm_compute. reflexivity.
Qed.

(* the oracle is not trivial: p(1..2). is satisfied by (T,T) but not by (H,T) for H = {p(1)} *)
Example C08_oracle_nontrivial :
  let r := mkrule (HBasic (mkatom "p" [TBin AInterval (TPre (PNum 1)) (TPre (PNum 2))])) [] in
  let H : pint := fun p a => p = "p" /\ a = [VNum 1%Z] in
  let T : pint := fun p a => p = "p" /\ (a = [VNum 1%Z] \/ a = [VNum 2%Z]) in
  sub H T /\ ref_rule_sat T T r /\ ~ ref_rule_sat H T r /\ (exists F, natural_rule r = NOk F).
Proof. exact oracle_nontrivial. Qed.
