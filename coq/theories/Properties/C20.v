(* C20 — the role of each input file depends only on its extension and argument order.
   Statements only; model in Model/Files.v, proofs in Proofs/FilesOk.v.
   Symbolic links are part of the model (Model/Files.v: what walkdir's follow_links(true) does with a
   link to a file / directory / device, a dangling link, a loop); other walkdir errors (missing
   path, unreadable directory) and non-UTF-8 names are outside the model.
   The third sentence of the property (swapping the two programs and the direction):
   strong equivalence - C20_swap_roles (which file is left / right), C20_swap_syntactic (problem by
   problem the same (role, formula) pairs in the same order, after a block of transition axioms that
   is a permutation of the other family's block; problems named forward_k / backward_k; formula names
   not compared), C20_swap (hence the same refutation sets), C20_swap_accepts;
   external equivalence - C20_swap_roles_external (specification program and program exchange their
   roles), C20_swap_external (the same behavioural differences; refutable iff refutable under the
   premises of C02_external_equivalence); PARTIAL: no problem-by-problem statement for external tasks.
   Equality of the emitted FILES does not hold: the order of type declarations and transition axioms
   and the left_/right_ formula names differ (docs/C20.md). *)
From Coq Require Import List String NArith Permutation Sorting.Sorted.
Import ListNotations.
From Anthem Require Import Syntax.Fol Syntax.Asp Sem.Domain Sem.Sat Model.Problem Model.Strong Model.StrongFull
  Model.External Model.ExternalFull
  Proofs.DecomposeOk Proofs.StrongFullOk Proofs.SwapOk Proofs.SwapSyn Proofs.C02Complete Proofs.SwapExt.
From Anthem Require Proofs.NoClashDec.
From Anthem Require Import Model.Files Proofs.FilesOk.
Open Scope list_scope.

(* C20_ext: the six roles are a function of the list of extension classes by position: sort the
   positions 0,1,2,.. labelled with the kinds of the visited files (no path is looked at), and
   the role holders are the paths at those positions. *)
Theorem C20_ext : forall ps : list string,
  roles_of (sort_paths ps) =
  map_roles (fun i => nth i ps EmptyString) (roles_of (sort_entries (number (map kind_of ps)))).
Proof. exact roles_by_position. Qed.
Print Assumptions C20_ext.

Theorem C20_ext_same_kinds : forall ps ps' : list string,
  map kind_of ps = map kind_of ps' ->
  exists r : roles nat,
    roles_of (sort_paths ps) = map_roles (fun i => nth i ps EmptyString) r /\
    roles_of (sort_paths ps') = map_roles (fun i => nth i ps' EmptyString) r.
Proof. exact roles_same_kinds. Qed.
Print Assumptions C20_ext_same_kinds.

(* C20_first: exactly what the code does.  lp / sp = the .lp / .spec files in walk order.
   left = 1st .lp, right = 2nd .lp; specification = the FIRST .spec if there is one (later .spec
   files are ignored), else the 1st .lp; program = the 1st .lp if a .spec exists, else the 2nd
   .lp; user guide / proof outline = the FIRST .ug / .po.  A third .lp file, a second .spec, .ug
   or .po file is silently ignored ("first wins"). *)
Theorem C20_first : forall ps : list string,
  let lp := filter (is_kind KProgram) ps in
  let sp := filter (is_kind KSpecification) ps in
  roles_of (sort_paths ps) =
  mkroles (nth_error lp 0) (nth_error lp 1)
          (match sp with s :: _ => Some (inr s) | [] => option_map inl (nth_error lp 0) end)
          (match sp with [] => nth_error lp 1 | _ :: _ => nth_error lp 0 end)
          (nth_error (filter (is_kind KUserGuide) ps) 0)
          (nth_error (filter (is_kind KProofOutline) ps) 0).
Proof. exact roles_first. Qed.
Print Assumptions C20_first.

(* the walk order: arguments in argument order; `entry?`: the first walkdir error in that order is
   the result (wbind = Result's and_then) *)
Theorem C20_args_in_order : forall a b : list node,
  sort (a ++ b) =
  wbind (collect (flat_map walk a)) (fun pa =>
  wbind (collect (flat_map walk b)) (fun pb => WOk (sort_paths (pa ++ pb)))).
Proof. exact sort_args_app. Qed.
Print Assumptions C20_args_in_order.

(* ... and inside a directory of plain files, in byte-wise file-name order *)
Theorem C20_dir_in_name_order : forall (d : string) (cs : list node),
  all_files cs ->
  walk (Dir d cs) = map (fun c => VFile (d ++ "/" ++ node_name c)%string) (sort_nodes cs)
  /\ Permutation (sort_nodes cs) cs /\ Sorted node_le (sort_nodes cs).
Proof. exact walk_flat_dir. Qed.
Print Assumptions C20_dir_in_name_order.

(* ---------------- symbolic links (finding F23, audit 2 B2) ----------------
   With `follow_links(true)` a link that resolves is visited as what it resolves to UNDER THE
   LINK'S OWN NAME: a link to a regular file like a regular file (its role follows from the link's
   extension and position), a link to a directory like a directory, a link to a fifo/socket/device
   is skipped like one.  [resolve] replaces every such link in a tree. *)
Theorem C20_links_transparent : forall args : list node, sort (map resolve args) = sort args.
Proof. exact sort_resolve. Qed.
Print Assumptions C20_links_transparent.

Theorem C20_link_file : forall s : string, walk (Link s LFile) = walk (File s).
Proof. exact walk_link_file. Qed.
Print Assumptions C20_link_file.

(* Files::sort fails iff a dangling link (or circular chain of links) or a link to a directory that
   contains it is below the arguments - with the first such walkdir error in walk order -, and
   otherwise returns the buckets of the visited paths: NO entry is dropped silently except
   directories, fifos, sockets and devices. *)
Theorem C20_sort_ok_iff_clean : forall args : list node,
  (forallb clean args = true -> sort args = WOk (sort_paths (map visit_path (flat_map walk args)))) /\
  (forallb clean args = false -> exists e, sort args = WErr e /\ In (VErr e) (flat_map walk args)).
Proof. exact sort_ok_iff_clean. Qed.
Print Assumptions C20_sort_ok_iff_clean.

(* C20_move: the roles depend only on: the .lp files in order, the first .spec, .ug, .po *)
Theorem C20_key : forall ps ps' : list string,
  key ps = key ps' -> roles_of (sort_paths ps) = roles_of (sort_paths ps').
Proof. exact roles_by_key. Qed.
Print Assumptions C20_key.

(* moving the only .spec / .ug / .po (or other) argument to any position changes no role *)
Theorem C20_move : forall (a b a' b' : list string) (x : string),
  kind_of x <> KProgram -> a ++ b = a' ++ b' ->
  (forall y, In y (a ++ b) -> kind_of y <> kind_of x) ->
  roles_of (sort_paths (a ++ x :: b)) = roles_of (sort_paths (a' ++ x :: b')).
Proof. exact roles_move. Qed.
Print Assumptions C20_move.

(* adding files with other extensions changes no role *)
Theorem C20_add_other : forall (a : list string) (o : string) (b : list string),
  kind_of o = KOther -> roles_of (sort_paths (a ++ o :: b)) = roles_of (sort_paths (a ++ b)).
Proof. exact roles_add_other. Qed.
Print Assumptions C20_add_other.

(* ---------------- the swap sentence (audit A12) ---------------- *)
(* roles: with two program files the first argument is the left program, the second the right one *)
Theorem C20_swap_roles : forall a b : string,
  kind_of a = KProgram -> kind_of b = KProgram ->
  left (sort_paths [b; a]) = Some b /\ right (sort_paths [b; a]) = Some a /\
  left (sort_paths [a; b]) = Some a /\ right (sort_paths [a; b]) = Some b.
Proof. exact swap_roles_strong. Qed.
Print Assumptions C20_swap_roles.

(* THE SYNTACTIC STATEMENT (audit 2, B14): "swaps exactly the roles of axioms and conjectures".
   rfs p = the (role, formula) pairs of problem p in order (formula names forgotten); tagged r t = the
   formulas of t with role r; decompose_rf = Problem::decompose on (role, formula) lists; pnames n 0 k =
   [n_0; ..; n_(k-1)].  Whenever the end-to-end model returns both families (every fuel, every flag):
   there is ONE renaming rn (rename_conflicting_symbols, the same function for both tasks) and ONE
   list Rs of (role, formula) lists - the decomposition of "side(B) as axioms, side(A) as
   conjectures" - such that the k-th forward problem of (left B, right A) is
        transition axioms of (B, A)  ++  Rs_k
   and the k-th backward problem of (left A, right B) is
        transition axioms of (A, B)  ++  Rs_k ;
   the two blocks of transition axioms are permutations of each other (predicates in order of first
   occurrence, left program first).  No clash premise, no axiom. *)
Theorem C20_swap_syntactic :
  forall (fuel : nat) (A B : Asp.program) (dec : decomposition) (repr : frepr) (simp brk : bool)
         (pbs pbs' : list problem),
    strong_decompose_full_fuel fuel (swap_forward A B dec repr simp brk) = SOk pbs ->
    strong_decompose_full_fuel fuel (swap_backward A B dec repr simp brk) = SOk pbs' ->
    let side := strong_side tau_star_tot mu_tot simp_ht_tot (simp_classic_tot_fuel fuel) (swap_forward A B dec repr simp brk) in
    exists (rn : formula -> formula) (Rs : list (list (prole * formula))),
      Rs = decompose_rf (tagged PAxiom (map rn (side B)) ++ tagged PConjecture (map rn (side A))) dec /\
      map rfs pbs  = map (app (tagged PAxiom (map rn (transition_axioms B A)))) Rs /\
      map rfs pbs' = map (app (tagged PAxiom (map rn (transition_axioms A B)))) Rs /\
      Permutation (transition_axioms B A) (transition_axioms A B) /\
      map pb_name pbs = pnames "forward" 0%N (List.length Rs) /\
      map pb_name pbs' = pnames "backward" 0%N (List.length Rs).
Proof. exact swap_syntactic. Qed.
Print Assumptions C20_swap_syntactic.

(* without the auxiliary notions: the two families have the same length and, position by position,
   the same (role, formula) pairs up to order (only the leading transition axioms move) and the same
   conjectures in the same order *)
Theorem C20_swap_syntactic_perm :
  forall (fuel : nat) (A B : Asp.program) (dec : decomposition) (repr : frepr) (simp brk : bool)
         (pbs pbs' : list problem),
    strong_decompose_full_fuel fuel (swap_forward A B dec repr simp brk) = SOk pbs ->
    strong_decompose_full_fuel fuel (swap_backward A B dec repr simp brk) = SOk pbs' ->
    Forall2 (fun p p' => Permutation (rfs p) (rfs p') /\ map rf (conjectures p) = map rf (conjectures p')) pbs pbs'.
Proof. exact swap_syntactic_perm. Qed.
Print Assumptions C20_swap_syntactic_perm.

(* the same for the parametric assembly of Model/Strong.v (any component translations; no SOk
   premise is needed there) *)
Theorem C20_swap_syntactic_generic :
  forall (tau_star mu : Asp.program -> theory) (simp_ht simp_classic : formula -> formula)
         (A B : Asp.program) (dec : decomposition) (repr : frepr) (simp brk : bool),
    let side := strong_side tau_star mu simp_ht simp_classic (swap_forward A B dec repr simp brk) in
    exists (rn : formula -> formula) (Rs : list (list (prole * formula))),
      Rs = decompose_rf (tagged PAxiom (map rn (side B)) ++ tagged PConjecture (map rn (side A))) dec /\
      map rfs (strong_decompose tau_star mu simp_ht simp_classic (swap_forward A B dec repr simp brk))
        = map (app (tagged PAxiom (map rn (transition_axioms B A)))) Rs /\
      map rfs (strong_decompose tau_star mu simp_ht simp_classic (swap_backward A B dec repr simp brk))
        = map (app (tagged PAxiom (map rn (transition_axioms A B)))) Rs /\
      map pb_name (strong_decompose tau_star mu simp_ht simp_classic (swap_forward A B dec repr simp brk))
        = pnames "forward" 0%N (List.length Rs) /\
      map pb_name (strong_decompose tau_star mu simp_ht simp_classic (swap_backward A B dec repr simp brk))
        = pnames "backward" 0%N (List.length Rs).
Proof. exact swap_syntactic_generic. Qed.
Print Assumptions C20_swap_syntactic_generic.

(* obligations: `verify --equivalence strong --direction forward B A` and `--direction backward A B`
   (same other flags).  [swap_forward A B ..] = the task with left B, right A, forward;
   [swap_backward A B ..] = left A, right B, backward.  Whenever the model returns both families
   (every fuel; the clash premise is F8b, as in C03), THE SAME INTERPRETATIONS REFUTE SOME PROBLEM OF
   THE ONE AND SOME PROBLEM OF THE OTHER.  (The families are not equal as lists of problems: problem
   names, left_/right_ formula names and the order of the transition axioms differ.) *)
Theorem C20_swap :
  forall (fuel : nat) (A B : Asp.program) (dec : decomposition) (repr : frepr) (simp brk : bool)
         (pbs pbs' : list problem),
    strong_decompose_full_fuel fuel (swap_forward A B dec repr simp brk) = SOk pbs ->
    strong_decompose_full_fuel fuel (swap_backward A B dec repr simp brk) = SOk pbs' ->
    no_symbol_pred_clash_full_fuel fuel (swap_forward A B dec repr simp brk) ->
    no_symbol_pred_clash_full_fuel fuel (swap_backward A B dec repr simp brk) ->
    forall (FI : fint) (M : pint), refutes_some FI M pbs <-> refutes_some FI M pbs'.
Proof. exact swap_refutes. Qed.
Print Assumptions C20_swap.

(* the model returns the one family iff it returns the other *)
Theorem C20_swap_accepts :
  forall (fuel : nat) (A B : Asp.program) (dec : decomposition) (repr : frepr) (simp brk : bool),
    (exists pbs, strong_decompose_full_fuel fuel (swap_forward A B dec repr simp brk) = SOk pbs) <->
    (exists pbs, strong_decompose_full_fuel fuel (swap_backward A B dec repr simp brk) = SOk pbs).
Proof. exact swap_accepts. Qed.
Print Assumptions C20_swap_accepts.


(* ---------------- external equivalence ---------------- *)
(* which file plays which role: `verify --equivalence external a.lp b.lp <rest>` where <rest> contains
   no .lp file.  Without a .spec file the first .lp is the specification (inl: a program used as
   specification) and the second the program - swapping the two .lp arguments exchanges the roles.
   With a .spec file among the arguments that file is the specification (inr), the first .lp the
   program and the second .lp is IGNORED - swapping replaces the program by the ignored file. *)
Theorem C20_swap_roles_external : forall (a b : string) (rest : list string),
  kind_of a = KProgram -> kind_of b = KProgram -> (forall y, In y rest -> kind_of y <> KProgram) ->
  let f := sort_paths (a :: b :: rest) in
  let f' := sort_paths (b :: a :: rest) in
  user_guide f = user_guide f' /\ proof_outline f = proof_outline f' /\
  match filter (is_kind KSpecification) rest with
  | [] => specification f = Some (inl a) /\ program f = Some b /\
          specification f' = Some (inl b) /\ program f' = Some a
  | s :: _ => specification f = Some (inr s) /\ program f = Some a /\
              specification f' = Some (inr s) /\ program f' = Some b
  end.
Proof. exact swap_roles_external. Qed.
Print Assumptions C20_swap_roles_external.

(* what the swap does to the obligations.  ext_swap_forward A B u .. = (specification B, program A,
   forward, no proof outline), ext_swap_backward A B u .. = (specification A, program B, backward).
   (1) Both tasks look for the same behavioural difference (C02full: T satisfies the user-guide
       assumptions, is an external stable model of B, and no interpretation with T's public part is
       one of A). *)
Theorem C20_swap_external_difference :
  forall (A B : Asp.program) (u : Fol.user_guide) (dec : decomposition) (repr : frepr) (byp simp brk : bool)
         (FI : fint) (T : pint),
    behavioural_difference (ext_swap_forward A B u dec repr byp simp brk) B FI T <->
    behavioural_difference (ext_swap_backward A B u dec repr byp simp brk) A FI T.
Proof. exact swap_external_difference. Qed.
Print Assumptions C20_swap_external_difference.

(* (2) Hence, under the premises of C02_external_equivalence for BOTH tasks (ext_premises: the
       end-to-end model accepts the task, both programs tight, no symbol/predicate clash, the _p
       renaming is faithful, the user-guide assumptions mention inputs only): some interpretation
       refutes a problem of the one family iff some interpretation refutes a problem of the other.
   PARTIAL: this is weaker than C20_swap (there: the SAME interpretations) and there is no
   problem-by-problem statement for external tasks - the families differ by the _p renaming of the
   private predicates of the program side; compared at run time only (props/C20.py). *)
Theorem C20_swap_external :
  forall (fuel : nat) (A B : Asp.program) (u : Fol.user_guide) (dec : decomposition) (repr : frepr) (byp simp brk : bool)
         (pbs pbs' : list problem),
    ext_premises fuel (ext_swap_forward A B u dec repr byp simp brk) B pbs ->
    ext_premises fuel (ext_swap_backward A B u dec repr byp simp brk) A pbs' ->
    forall FI : fint, (exists M, refutes_some FI M pbs) <-> (exists M, refutes_some FI M pbs').
Proof. exact swap_external_refutable. Qed.
Print Assumptions C20_swap_external.

(* non-vacuity, and the reason the statement is about refutation sets: for  p :- q, not r.  and
   p :- q.  both families consist of one problem; they differ as lists (names, order of axioms) *)
Example C20_swap_example :
  let a0 p := mkatom p [] in
  let A := [mkrule (HBasic (a0 "p")) [BLit (mklit SNone (a0 "q"))]] in
  let B := [mkrule (HBasic (a0 "p")) [BLit (mklit SNone (a0 "q")); BLit (mklit SNeg (a0 "r"))]] in
  exists pbs pbs',
    strong_decompose_full (swap_forward A B DSequential ReprTauStar true true) = SOk pbs /\
    strong_decompose_full (swap_backward A B DSequential ReprTauStar true true) = SOk pbs' /\
    List.length pbs = 1 /\ List.length pbs' = 1 /\ pbs <> pbs' /\
    map (fun pb => List.length (pb_formulas pb)) pbs = map (fun pb => List.length (pb_formulas pb)) pbs'.
Proof.
  cbv zeta. eexists _, _. split; [vm_compute; reflexivity|]. split; [vm_compute; reflexivity|].
  split; [reflexivity|]. split; [reflexivity|]. split; [discriminate|reflexivity].
Qed.


(* non-vacuity of C20_swap_syntactic: the order of the transition axioms really differs
   (A = p :- q.  B = q :- p.: predicates q, p for (B, A) and p, q for (A, B)), both families are
   returned, and of C20_swap_external: both premises hold for
   A = out(X) :- in(X).   B = q(X) :- in(X). out(X) :- q(X).   input: in/1. output: out/1. *)
Example C20_swap_order_example :
  let a0 p := mkatom p [] in
  let A := [mkrule (HBasic (a0 "p")) [BLit (mklit SNone (a0 "q"))]] in
  let B := [mkrule (HBasic (a0 "q")) [BLit (mklit SNone (a0 "p"))]] in
  transition_axioms B A <> transition_axioms A B /\
  exists pbs pbs',
    strong_decompose_full (swap_forward A B DSequential ReprTauStar true true) = SOk pbs /\
    strong_decompose_full (swap_backward A B DSequential ReprTauStar true true) = SOk pbs' /\
    List.length pbs = 1 /\ map rfs pbs <> map rfs pbs'.
Proof.
  cbv zeta. split; [vm_compute; discriminate|]. eexists _, _. split; [vm_compute; reflexivity|].
  split; [vm_compute; reflexivity|]. split; [reflexivity|vm_compute; discriminate].
Qed.

Example C20_swap_external_nonvacuous :
  let av x := TVar x in
  let pl p x := BLit (mklit SNone (mkatom p [av x])) in
  let B := [ mkrule (HBasic (mkatom "q" [av "X"])) [pl "in" "X"]; mkrule (HBasic (mkatom "out" [av "X"])) [pl "q" "X"] ] in
  let A := [ mkrule (HBasic (mkatom "out" [av "X"])) [pl "in" "X"] ] in
  let u := [UGInput (mkpred "in" 1); UGOutput (mkpred "out" 1)] in
  exists pbs pbs',
    ext_premises full_fuel (ext_swap_forward A B u DIndependent ReprTauStar false true false) B pbs /\
    ext_premises full_fuel (ext_swap_backward A B u DIndependent ReprTauStar false true false) A pbs' /\
    List.length pbs = 1 /\ List.length pbs' = 1.
Proof.
  cbv zeta. eexists _, _. split; [|split; [|shelve]].
  - eexists _, _, _. split; [vm_compute; reflexivity|]. split; [vm_compute; reflexivity|]. split; [vm_compute; reflexivity|].
    split; [vm_compute; reflexivity|]. split; [vm_compute; reflexivity|].
    split; [apply NoClashDec.task_no_clashb_spec; vm_compute; reflexivity|].
    split; [apply rename_faithfulb_ok; vm_compute; reflexivity|apply ug_over_inputsb_ok; vm_compute; reflexivity].
  - eexists _, _, _. split; [vm_compute; reflexivity|]. split; [vm_compute; reflexivity|]. split; [vm_compute; reflexivity|].
    split; [vm_compute; reflexivity|]. split; [vm_compute; reflexivity|].
    split; [apply NoClashDec.task_no_clashb_spec; vm_compute; reflexivity|].
    split; [apply rename_faithfulb_ok; vm_compute; reflexivity|apply ug_over_inputsb_ok; vm_compute; reflexivity].
  Unshelve. split; reflexivity.
Qed.

(* ---- non-vacuity / the corner cases named in docs/C20.md ---- *)
Open Scope string_scope.
Example C20_extension_examples :
  extension "a.lp" = Some "lp" /\ extension "x/y.z/a.b.spec" = Some "spec" /\
  extension ".lp" = None /\                      (* a hidden file named ".lp" is NOT a program *)
  extension "dir/.spec" = None /\ extension "..lp" = Some "lp" /\
  extension "a." = Some "" /\ extension "a.lp/b" = None /\ extension "a.LP" = Some "LP" /\
  kind_of "a.LP" = KOther /\ kind_of "p.lp~" = KOther /\ kind_of "q.ug" = KUserGuide.
Proof. repeat split; vm_compute; reflexivity. Qed.

Example C20_sort_example :
  let tree := [File "z.lp"; Dir "d" [File "b.lp"; File "a.spec"; Dir "B" [File "c.lp"]; Special "l.lp"; File "a.lp"];
               File "u.ug"; File "first.spec"] in
  flat_map walk tree = map VFile ["z.lp"; "d/B/c.lp"; "d/a.lp"; "d/a.spec"; "d/b.lp"; "u.ug"; "first.spec"] /\
  option_map roles_of (match sort tree with WOk f => Some f | WErr _ => None end) =
  Some (mkroles (Some "z.lp") (Some "d/B/c.lp") (Some (inr "d/a.spec")) (Some "z.lp") (Some "u.ug") None).
Proof. split; vm_compute; reflexivity. Qed.

(* F23 (audit 2 B2): `verify a.lp b.lp c.lp` with a.lp a symbolic link to a regular file: a.lp is the
   left program and b.lp the right one (before the repair a.lp was dropped: left b.lp, right c.lp);
   links inside directories and links to directories; dangling links and loops are errors, the
   first one in walk order wins *)
Example C20_link_examples :
  sort [Link "a.lp" LFile; File "b.lp"; File "c.lp"] = sort [File "a.lp"; File "b.lp"; File "c.lp"] /\
  option_map roles_of (match sort [Link "a.lp" LFile; File "b.lp"; File "c.lp"] with WOk f => Some f | WErr _ => None end) =
  Some (mkroles (Some "a.lp") (Some "b.lp") (Some (inl "a.lp")) (Some "b.lp") None None) /\
  flat_map walk [Dir "d" [File "z.lp"; Link "a.lp" LFile; LinkDir "m" [File "y.lp"; Link "n.lp" LSpecial]]; Link "u.ug" LFile]
    = map VFile ["d/a.lp"; "d/m/y.lp"; "d/z.lp"; "u.ug"] /\
  sort [File "a.lp"; Dir "d" [File "b.lp"; Link "q.txt" LDangling]; Link "l" LLoop] = WErr (EIo "d/q.txt") /\
  sort [File "a.lp"; LinkDir "me" [File "a.lp"; Link "me" LLoop]] = WErr (ELoop "me/me").
Proof. repeat split; vm_compute; reflexivity. Qed.
