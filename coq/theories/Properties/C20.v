(* C20 — the role of each input file depends only on its extension and argument order.
   Statements only; model in Model/Files.v, proofs in Proofs/FilesOk.v.
   Symbolic links are part of the model (Model/Files.v: what walkdir's follow_links(true) does with a
   link to a file / directory / device, a dangling link, a loop); other walkdir errors (missing
   path, unreadable directory) and non-UTF-8 names are outside the model.
   The third sentence of the property (swapping the two programs and the direction) is C20_swap_roles
   (which file is left / right) + C20_swap (the two families of obligations are refuted by the same
   interpretations; proved for the end-to-end model Model/StrongFull.v).  Equality of the emitted FILES
   does not hold: the order of type declarations and transition axioms and the left_/right_ formula
   names differ (docs/C20.md). *)
From Coq Require Import List String Permutation Sorting.Sorted.
Import ListNotations.
From Anthem Require Import Syntax.Fol Syntax.Asp Sem.Domain Sem.Sat Model.Problem Model.Strong Model.StrongFull
  Proofs.DecomposeOk Proofs.StrongFullOk Proofs.SwapOk.
From Anthem Require Import Model.Files Proofs.FilesOk.
Open Scope list_scope.

(* C20_ext: the six roles are a function of the list of extension classes by position: sort the
   positions 0,1,2,.. labelled with the kinds of the visited files (no path is looked at), and
   the role holders are the paths at those positions. *)
Theorem C20_ext : forall ps : list string,
  roles_of (sort_paths ps) =
  map_roles (fun i => nth i ps EmptyString) (roles_of (sort_entries (number (map kind_of ps)))).
Proof. exact roles_by_position. Qed.
Print Assumptions C20_ext.

Theorem C20_ext_same_kinds : forall ps ps' : list string,
  map kind_of ps = map kind_of ps' ->
  exists r : roles nat,
    roles_of (sort_paths ps) = map_roles (fun i => nth i ps EmptyString) r /\
    roles_of (sort_paths ps') = map_roles (fun i => nth i ps' EmptyString) r.
Proof. exact roles_same_kinds. Qed.
Print Assumptions C20_ext_same_kinds.

(* C20_first: exactly what the code does.  lp / sp = the .lp / .spec files in walk order.
   left = 1st .lp, right = 2nd .lp; specification = the FIRST .spec if there is one (later .spec
   files are ignored), else the 1st .lp; program = the 1st .lp if a .spec exists, else the 2nd
   .lp; user guide / proof outline = the FIRST .ug / .po.  A third .lp file, a second .spec, .ug
   or .po file is silently ignored ("first wins"). *)
Theorem C20_first : forall ps : list string,
  let lp := filter (is_kind KProgram) ps in
  let sp := filter (is_kind KSpecification) ps in
  roles_of (sort_paths ps) =
  mkroles (nth_error lp 0) (nth_error lp 1)
          (match sp with s :: _ => Some (inr s) | [] => option_map inl (nth_error lp 0) end)
          (match sp with [] => nth_error lp 1 | _ :: _ => nth_error lp 0 end)
          (nth_error (filter (is_kind KUserGuide) ps) 0)
          (nth_error (filter (is_kind KProofOutline) ps) 0).
Proof. exact roles_first. Qed.
Print Assumptions C20_first.

(* the walk order: arguments in argument order; `entry?`: the first walkdir error in that order is
   the result (wbind = Result's and_then) *)
Theorem C20_args_in_order : forall a b : list node,
  sort (a ++ b) =
  wbind (collect (flat_map walk a)) (fun pa =>
  wbind (collect (flat_map walk b)) (fun pb => WOk (sort_paths (pa ++ pb)))).
Proof. exact sort_args_app. Qed.
Print Assumptions C20_args_in_order.

(* ... and inside a directory of plain files, in byte-wise file-name order *)
Theorem C20_dir_in_name_order : forall (d : string) (cs : list node),
  all_files cs ->
  walk (Dir d cs) = map (fun c => VFile (d ++ "/" ++ node_name c)%string) (sort_nodes cs)
  /\ Permutation (sort_nodes cs) cs /\ Sorted node_le (sort_nodes cs).
Proof. exact walk_flat_dir. Qed.
Print Assumptions C20_dir_in_name_order.

(* ---------------- symbolic links (finding F23, audit 2 B2) ----------------
   With `follow_links(true)` a link that resolves is visited as what it resolves to UNDER THE
   LINK'S OWN NAME: a link to a regular file like a regular file (its role follows from the link's
   extension and position), a link to a directory like a directory, a link to a fifo/socket/device
   is skipped like one.  [resolve] replaces every such link in a tree. *)
Theorem C20_links_transparent : forall args : list node, sort (map resolve args) = sort args.
Proof. exact sort_resolve. Qed.
Print Assumptions C20_links_transparent.

Theorem C20_link_file : forall s : string, walk (Link s LFile) = walk (File s).
Proof. exact walk_link_file. Qed.
Print Assumptions C20_link_file.

(* Files::sort fails iff a dangling link (or circular chain of links) or a link to a directory that
   contains it is below the arguments - with the first such walkdir error in walk order -, and
   otherwise returns the buckets of the visited paths: NO entry is dropped silently except
   directories, fifos, sockets and devices. *)
Theorem C20_sort_ok_iff_clean : forall args : list node,
  (forallb clean args = true -> sort args = WOk (sort_paths (map visit_path (flat_map walk args)))) /\
  (forallb clean args = false -> exists e, sort args = WErr e /\ In (VErr e) (flat_map walk args)).
Proof. exact sort_ok_iff_clean. Qed.
Print Assumptions C20_sort_ok_iff_clean.

(* C20_move: the roles depend only on: the .lp files in order, the first .spec, .ug, .po *)
Theorem C20_key : forall ps ps' : list string,
  key ps = key ps' -> roles_of (sort_paths ps) = roles_of (sort_paths ps').
Proof. exact roles_by_key. Qed.
Print Assumptions C20_key.

(* moving the only .spec / .ug / .po (or other) argument to any position changes no role *)
Theorem C20_move : forall (a b a' b' : list string) (x : string),
  kind_of x <> KProgram -> a ++ b = a' ++ b' ->
  (forall y, In y (a ++ b) -> kind_of y <> kind_of x) ->
  roles_of (sort_paths (a ++ x :: b)) = roles_of (sort_paths (a' ++ x :: b')).
Proof. exact roles_move. Qed.
Print Assumptions C20_move.

(* adding files with other extensions changes no role *)
Theorem C20_add_other : forall (a : list string) (o : string) (b : list string),
  kind_of o = KOther -> roles_of (sort_paths (a ++ o :: b)) = roles_of (sort_paths (a ++ b)).
Proof. exact roles_add_other. Qed.
Print Assumptions C20_add_other.

(* ---------------- the swap sentence (audit A12) ---------------- *)
(* roles: with two program files the first argument is the left program, the second the right one *)
Theorem C20_swap_roles : forall a b : string,
  kind_of a = KProgram -> kind_of b = KProgram ->
  left (sort_paths [b; a]) = Some b /\ right (sort_paths [b; a]) = Some a /\
  left (sort_paths [a; b]) = Some a /\ right (sort_paths [a; b]) = Some b.
Proof.
  intros a b Ha Hb. unfold sort_paths, sort_entries. cbn [map fold_left fst snd]. rewrite Ha, Hb.
  repeat split; reflexivity.
Qed.
Print Assumptions C20_swap_roles.

(* obligations: `verify --equivalence strong --direction forward B A` and `--direction backward A B`
   (same other flags).  [swap_forward A B ..] = the task with left B, right A, forward;
   [swap_backward A B ..] = left A, right B, backward.  Whenever the model returns both families
   (every fuel; the clash premise is F8b, as in C03), THE SAME INTERPRETATIONS REFUTE SOME PROBLEM OF
   THE ONE AND SOME PROBLEM OF THE OTHER.  (The families are not equal as lists of problems: problem
   names, left_/right_ formula names and the order of the transition axioms differ.) *)
Theorem C20_swap :
  forall (fuel : nat) (A B : Asp.program) (dec : decomposition) (repr : frepr) (simp brk : bool)
         (pbs pbs' : list problem),
    strong_decompose_full_fuel fuel (swap_forward A B dec repr simp brk) = SOk pbs ->
    strong_decompose_full_fuel fuel (swap_backward A B dec repr simp brk) = SOk pbs' ->
    no_symbol_pred_clash_full_fuel fuel (swap_forward A B dec repr simp brk) ->
    no_symbol_pred_clash_full_fuel fuel (swap_backward A B dec repr simp brk) ->
    forall (FI : fint) (M : pint), refutes_some FI M pbs <-> refutes_some FI M pbs'.
Proof. exact swap_refutes. Qed.
Print Assumptions C20_swap.

(* the model returns the one family iff it returns the other *)
Theorem C20_swap_accepts :
  forall (fuel : nat) (A B : Asp.program) (dec : decomposition) (repr : frepr) (simp brk : bool),
    (exists pbs, strong_decompose_full_fuel fuel (swap_forward A B dec repr simp brk) = SOk pbs) <->
    (exists pbs, strong_decompose_full_fuel fuel (swap_backward A B dec repr simp brk) = SOk pbs).
Proof. exact swap_accepts. Qed.
Print Assumptions C20_swap_accepts.

(* non-vacuity, and the reason the statement is about refutation sets: for  p :- q, not r.  and
   p :- q.  both families consist of one problem; they differ as lists (names, order of axioms) *)
Example C20_swap_example :
  let a0 p := mkatom p [] in
  let A := [mkrule (HBasic (a0 "p")) [BLit (mklit SNone (a0 "q"))]] in
  let B := [mkrule (HBasic (a0 "p")) [BLit (mklit SNone (a0 "q")); BLit (mklit SNeg (a0 "r"))]] in
  exists pbs pbs',
    strong_decompose_full (swap_forward A B DSequential ReprTauStar true true) = SOk pbs /\
    strong_decompose_full (swap_backward A B DSequential ReprTauStar true true) = SOk pbs' /\
    List.length pbs = 1 /\ List.length pbs' = 1 /\ pbs <> pbs' /\
    map (fun pb => List.length (pb_formulas pb)) pbs = map (fun pb => List.length (pb_formulas pb)) pbs'.
Proof.
  cbv zeta. eexists _, _. split; [vm_compute; reflexivity|]. split; [vm_compute; reflexivity|].
  split; [reflexivity|]. split; [reflexivity|]. split; [discriminate|reflexivity].
Qed.

(* ---- non-vacuity / the corner cases named in docs/C20.md ---- *)
Open Scope string_scope.
Example C20_extension_examples :
  extension "a.lp" = Some "lp" /\ extension "x/y.z/a.b.spec" = Some "spec" /\
  extension ".lp" = None /\                      (* a hidden file named ".lp" is NOT a program *)
  extension "dir/.spec" = None /\ extension "..lp" = Some "lp" /\
  extension "a." = Some "" /\ extension "a.lp/b" = None /\ extension "a.LP" = Some "LP" /\
  kind_of "a.LP" = KOther /\ kind_of "p.lp~" = KOther /\ kind_of "q.ug" = KUserGuide.
Proof. repeat split; vm_compute; reflexivity. Qed.

Example C20_sort_example :
  let tree := [File "z.lp"; Dir "d" [File "b.lp"; File "a.spec"; Dir "B" [File "c.lp"]; Special "l.lp"; File "a.lp"];
               File "u.ug"; File "first.spec"] in
  flat_map walk tree = map VFile ["z.lp"; "d/B/c.lp"; "d/a.lp"; "d/a.spec"; "d/b.lp"; "u.ug"; "first.spec"] /\
  option_map roles_of (match sort tree with WOk f => Some f | WErr _ => None end) =
  Some (mkroles (Some "z.lp") (Some "d/B/c.lp") (Some (inr "d/a.spec")) (Some "z.lp") (Some "u.ug") None).
Proof. split; vm_compute; reflexivity. Qed.

(* F23 (audit 2 B2): `verify a.lp b.lp c.lp` with a.lp a symbolic link to a regular file: a.lp is the
   left program and b.lp the right one (before the repair a.lp was dropped: left b.lp, right c.lp);
   links inside directories and links to directories; dangling links and loops are errors, the
   first one in walk order wins *)
Example C20_link_examples :
  sort [Link "a.lp" LFile; File "b.lp"; File "c.lp"] = sort [File "a.lp"; File "b.lp"; File "c.lp"] /\
  option_map roles_of (match sort [Link "a.lp" LFile; File "b.lp"; File "c.lp"] with WOk f => Some f | WErr _ => None end) =
  Some (mkroles (Some "a.lp") (Some "b.lp") (Some (inl "a.lp")) (Some "b.lp") None None) /\
  flat_map walk [Dir "d" [File "z.lp"; Link "a.lp" LFile; LinkDir "m" [File "y.lp"; Link "n.lp" LSpecial]]; Link "u.ug" LFile]
    = map VFile ["d/a.lp"; "d/m/y.lp"; "d/z.lp"; "u.ug"] /\
  sort [File "a.lp"; Dir "d" [File "b.lp"; Link "q.txt" LDangling]; Link "l" LLoop] = WErr (EIo "d/q.txt") /\
  sort [File "a.lp"; LinkDir "me" [File "a.lp"; Link "me" LLoop]] = WErr (ELoop "me/me").
Proof. repeat split; vm_compute; reflexivity. Qed.
