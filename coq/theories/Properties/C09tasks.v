(* C09 (and C06, C12text) at the level of TASKS - audit B8.
   Statements only; proofs live in Proofs/TaskPipeline*.v.

   Properties/C09.v, C06.v and C12text.v are about [pipeline raw d], "the assembly every task performs
   before a problem is printed".  This file ties that shape to the END-TO-END models of the two
   verification tasks:

     Model/StrongFull.v    [strong_decompose_full_fuel fuel t = SOk pbs]
     Model/ExternalFull.v  [external_decompose_full fuel t = XOk w pbs]
                           (both compared with the code by the ops strong_decompose_full /
                            external_decompose_full; the fuel is that of the fixpoint loops,
                            C03_never_nonterminating / C02 ExtFuel: an answer does not depend on it)

   Reading guide:
   - shape (no premise): every problem of [pbs] is a member of some [pipeline raw d]; for the
     `<direction>_outline_<i>_<j>` problems of a proof outline, which the code assembles without
     decomposing, the formula list is that of the one member of [pipeline raw DIndependent] (the
     file content depends on the formula list only; the file name has no `_0` suffix).  Hence
     every emitted file has exactly one conjecture and pairwise distinct formula names - also
     inside IdentClass and for tasks with free variables.
   - the premises of C09_text / C06_in_pipeline that are NOT about identifiers
     ([closed_formula], [cmps_nonempty] of every raw formula) are theorems for accepted tasks
     that satisfy the decidable predicate [strong_task_ok t] / [ext_task_ok t] of
     Model/TaskPremises.v:
       * the variables of the programs have non-empty names (parser image; tau* would bind "");
       * strong equivalence: nothing else (both representations, tau-star and mu, are covered);
       * external equivalence: every formula of a specification (.spec) and every assumption of
         the user guide is a SENTENCE.  anthem neither checks nor closes them: `spec: p(X).` is
         accepted and printed `tff(.., conjecture, p(X_g)).`, which tptp4X rejects ("Unquantified
         variable") - finding C09-free-variable, witness C09_ex_free_variable below.
         Lemmas of a proof outline are universally closed by the code and definitions are
         checked to be closed, so their entries only need the parser image ([in_image]).
   - identifier premises stay as they are in C09: [~ IdentClass pb], decidable, evaluated on the
     emitted problem (the recorded witnesses of Properties/C09.v).

   What the theorems below do not say: that the model's [pbs] are the code's problems (sampled
   correspondence), and anything about readers other than the specification reader (docs/C09.md:
   cvc5 1.0.3 rejects the preamble's parenthesised single argument type). *)
From Coq Require Import List String ZArith Bool.
Import ListNotations.
From Anthem Require Import Syntax.Fol Syntax.Asp Syntax.Tff Sem.TffSem Sem.TffWt
  Model.Problem Model.TptpPrint Model.ProblemPrint Model.TffText Model.Outline Model.Strong Model.StrongFull
  Model.External Model.ExternalFull Model.TaskPremises
  Proofs.TptpSem Proofs.ProblemCtx Proofs.ProblemText Proofs.TaskPipelineStrong Proofs.TaskPipelineText.
From Anthem Require Properties.C09 Properties.C12text.
From Anthem Require Properties.C03full Properties.C13 Proofs.C02Witness.
Open Scope string_scope.

Definition IdentClass := C09.IdentClass.

(* ============================ shape: the problems of a task are pipeline members ============================ *)
Theorem C09_strong_in_pipeline :
  forall (fuel : nat) (t : strong_task) (pbs : list problem) (pb : problem),
  strong_decompose_full_fuel fuel t = SOk pbs -> In pb pbs ->
  exists raw : problem, In pb (pipeline raw (st_decomposition t)).
Proof. exact strong_full_in_pipeline. Qed.
Print Assumptions C09_strong_in_pipeline.

Theorem C09_external_in_pipeline :
  forall (fuel : nat) (t : ext_task) (w : list ext_warning) (pbs : list problem) (pb : problem),
  external_decompose_full fuel t = XOk w pbs -> In pb pbs ->
  exists (raw : problem) (d : decomposition) (pb' : problem),
    In pb' (pipeline raw d) /\ pb_formulas pb = pb_formulas pb'.
Proof. exact ext_task_in_pipeline. Qed.
Print Assumptions C09_external_in_pipeline.

(* the emitted bytes, their structured view and IdentClass depend on the formula list only *)
Theorem C09_same_formulas_same_file :
  forall pb pb' : problem, pb_formulas pb = pb_formulas pb' ->
  problem_display pb = problem_display pb' /\ emit pb = emit pb' /\ ident_ok pb = ident_ok pb'.
Proof. exact same_formulas. Qed.
Print Assumptions C09_same_formulas_same_file.

(* unconditionally: exactly one conjecture, formula names pairwise distinct *)
Theorem C09_strong_task_one_conjecture_names :
  forall (fuel : nat) (t : strong_task) (pbs : list problem) (pb : problem),
  strong_decompose_full_fuel fuel t = SOk pbs -> In pb pbs ->
  wt_one_conjecture (emit pb) = true /\ NoDup (map pf_name (pb_formulas pb)).
Proof. exact strong_task_one_conjecture_names. Qed.
Print Assumptions C09_strong_task_one_conjecture_names.

Theorem C09_external_task_one_conjecture_names :
  forall (fuel : nat) (t : ext_task) (w : list ext_warning) (pbs : list problem) (pb : problem),
  external_decompose_full fuel t = XOk w pbs -> In pb pbs ->
  wt_one_conjecture (emit pb) = true /\ NoDup (map pf_name (pb_formulas pb)).
Proof. exact ext_task_one_conjecture_names. Qed.
Print Assumptions C09_external_task_one_conjecture_names.

(* ============================ C09_task_text ============================
   For every accepted task that satisfies the decidable task premise, every emitted problem
   outside IdentClass: the formatter does not panic, the bytes are read by the specification
   reader, and what is read is a well-formed, well-typed, closed, self-contained TFF problem
   ([wt_problem]: identifiers lower words, each declared exactly once, signatures over declared
   types, all names lower words and pairwise distinct, every formula type-checks with the EMPTY
   variable context, exactly one conjecture). *)
Theorem C09_strong_task_text :
  forall (fuel : nat) (t : strong_task) (pbs : list problem) (pb : problem),
  strong_task_ok t = true ->
  strong_decompose_full_fuel fuel t = SOk pbs -> In pb pbs -> ~ IdentClass pb ->
  exists (txt : string) (tp : tff_problem),
    problem_display pb = Some txt /\ read_problem txt = Some tp /\ wt_problem tp = true.
Proof. exact strong_task_text. Qed.
Print Assumptions C09_strong_task_text.

Theorem C09_external_task_text :
  forall (fuel : nat) (t : ext_task) (w : list ext_warning) (pbs : list problem) (pb : problem),
  ext_task_ok t = true ->
  external_decompose_full fuel t = XOk w pbs -> In pb pbs -> ~ IdentClass pb ->
  exists (txt : string) (tp : tff_problem),
    problem_display pb = Some txt /\ read_problem txt = Some tp /\ wt_problem tp = true.
Proof. exact ext_task_text. Qed.
Print Assumptions C09_external_task_text.

(* ... and what is read is exactly the structured view [emit pb] (C09_display_reads_as_emit) *)
Theorem C09_strong_task_reads_as_emit :
  forall (fuel : nat) (t : strong_task) (pbs : list problem) (pb : problem) (txt : string),
  strong_task_ok t = true ->
  strong_decompose_full_fuel fuel t = SOk pbs -> In pb pbs -> ~ IdentClass pb ->
  problem_display pb = Some txt -> read_problem txt = Some (emit pb) /\ wt_problem (emit pb) = true.
Proof. exact strong_task_reads. Qed.
Print Assumptions C09_strong_task_reads_as_emit.

Theorem C09_external_task_reads_as_emit :
  forall (fuel : nat) (t : ext_task) (w : list ext_warning) (pbs : list problem) (pb : problem) (txt : string),
  ext_task_ok t = true ->
  external_decompose_full fuel t = XOk w pbs -> In pb pbs -> ~ IdentClass pb ->
  problem_display pb = Some txt -> read_problem txt = Some (emit pb) /\ wt_problem (emit pb) = true.
Proof. exact ext_task_reads. Qed.
Print Assumptions C09_external_task_reads_as_emit.

(* ============================ C06_task_meaning ============================
   Every formula of every emitted problem: its printed tokens are read back as ONE formula whose
   truth, under the signature the problem's own declarations determine, is that of the source
   formula - for every interpretation and assignment (C06_in_pipeline at task level) ... *)
Theorem C06_strong_task_meaning :
  forall (fuel : nat) (t : strong_task) (pbs : list problem) (pb : problem) (a : pformula),
  strong_task_ok t = true ->
  strong_decompose_full_fuel fuel t = SOk pbs -> In pb pbs -> ident_ok pb = true -> In a (pb_formulas pb) ->
  exists g : tff_formula, tff_read (print_formula (pf_formula a)) = Some g /\
    forall (FI : Sat.fint) (M : Sat.pint) (e : Sat.env),
      tff_sat (tstruct_in (csig_of_decls (tp_decls (emit pb))) FI M) (tenv_of e) g <-> Sat.csat FI M e (pf_formula a).
Proof. exact strong_task_meaning. Qed.
Print Assumptions C06_strong_task_meaning.

Theorem C06_external_task_meaning :
  forall (fuel : nat) (t : ext_task) (w : list ext_warning) (pbs : list problem) (pb : problem) (a : pformula),
  ext_task_ok t = true ->
  external_decompose_full fuel t = XOk w pbs -> In pb pbs -> ident_ok pb = true -> In a (pb_formulas pb) ->
  exists g : tff_formula, tff_read (print_formula (pf_formula a)) = Some g /\
    forall (FI : Sat.fint) (M : Sat.pint) (e : Sat.env),
      tff_sat (tstruct_in (csig_of_decls (tp_decls (emit pb))) FI M) (tenv_of e) g <-> Sat.csat FI M e (pf_formula a).
Proof. exact ext_task_meaning. Qed.
Print Assumptions C06_external_task_meaning.

(* ... and about the emitted TEXT (C06_text + C12_preamble_in_text at task level): whatever the
   reader makes of the bytes starts with the preamble's declarations and axioms and contains, for
   every source formula, a named formula with that name and role and the same truth value *)
Theorem C06_strong_task_text_meaning :
  forall (fuel : nat) (t : strong_task) (pbs : list problem) (pb : problem) (txt : string) (tp : tff_problem),
  strong_task_ok t = true ->
  strong_decompose_full_fuel fuel t = SOk pbs -> In pb pbs -> ident_ok pb = true ->
  problem_display pb = Some txt -> read_problem txt = Some tp ->
  (exists ds fs, tp_decls tp = (C12text.preamble_tff_decls ++ ds)%list /\ tp_formulas tp = (C12text.preamble_tff_axioms ++ fs)%list) /\
  forall a, In a (pb_formulas pb) ->
  exists nf : tff_named, In nf (tp_formulas tp) /\ n_name nf = pf_name a /\ n_role nf = tff_role_of (pf_role a) /\
    forall (FI : Sat.fint) (M : Sat.pint) (e : Sat.env),
      tff_sat (tstruct_in (csig_of_decls (tp_decls tp)) FI M) (tenv_of e) (n_formula nf) <-> Sat.csat FI M e (pf_formula a).
Proof. exact strong_task_text_meaning. Qed.
Print Assumptions C06_strong_task_text_meaning.

Theorem C06_external_task_text_meaning :
  forall (fuel : nat) (t : ext_task) (w : list ext_warning) (pbs : list problem) (pb : problem) (txt : string) (tp : tff_problem),
  ext_task_ok t = true ->
  external_decompose_full fuel t = XOk w pbs -> In pb pbs -> ident_ok pb = true ->
  problem_display pb = Some txt -> read_problem txt = Some tp ->
  (exists ds fs, tp_decls tp = (C12text.preamble_tff_decls ++ ds)%list /\ tp_formulas tp = (C12text.preamble_tff_axioms ++ fs)%list) /\
  forall a, In a (pb_formulas pb) ->
  exists nf : tff_named, In nf (tp_formulas tp) /\ n_name nf = pf_name a /\ n_role nf = tff_role_of (pf_role a) /\
    forall (FI : Sat.fint) (M : Sat.pint) (e : Sat.env),
      tff_sat (tstruct_in (csig_of_decls (tp_decls tp)) FI M) (tenv_of e) (n_formula nf) <-> Sat.csat FI M e (pf_formula a).
Proof. exact ext_task_text_meaning. Qed.
Print Assumptions C06_external_task_text_meaning.

(* ============================ non-vacuity: ALL premises discharged on concrete tasks ============================ *)
Definition emitted_ok (pb : problem) : Prop :=
  exists (txt : string) (tp : tff_problem),
    problem_display pb = Some txt /\ read_problem txt = Some tp /\ wt_problem tp = true.

(* (1) strong equivalence, the CLI example of Properties/C03full.v:  p(X) :- q(X), not r(X).  vs  p(X) :- q(X).
   both directions, sequential decomposition, simplification and equivalence breaking on *)
Definition s1 : strong_task := mkstrong C03full.c_lp C03full.d_lp DSequential DUniversal ReprTauStar true true.
Example C09_ex_strong_task :
  strong_task_ok s1 = true /\
  exists pbs, strong_decompose_full s1 = SOk pbs /\ List.length pbs = 2 /\ forallb ident_ok pbs = true /\
    forall pb, In pb pbs -> emitted_ok pb.
Proof.
  split; [vm_compute; reflexivity|].
  destruct (strong_decompose_full s1) as [pbs| |] eqn:E; try (vm_compute in E; discriminate).
  exists pbs. split; [reflexivity|].
  assert (Hid : forallb ident_ok pbs = true /\ List.length pbs = 2)
    by (vm_compute in E; injection E as <-; split; vm_compute; reflexivity).
  destruct Hid as [Hid Hlen]. split; [exact Hlen|]. split; [exact Hid|].
  intros pb Hpb. apply (C09_strong_task_text classic_fuel s1 pbs pb); [vm_compute; reflexivity|exact E|exact Hpb|].
  rewrite forallb_forall in Hid. unfold IdentClass, C09.IdentClass. rewrite (Hid pb Hpb). discriminate.
Qed.

(* the same pair with the mu representation (regular rules go through the natural translation) *)
Definition s1mu : strong_task := mkstrong C03full.c_lp C03full.d_lp DIndependent DUniversal ReprMu true true.
Example C09_ex_strong_task_mu :
  strong_task_ok s1mu = true /\
  exists pbs, strong_decompose_full s1mu = SOk pbs /\ pbs <> [] /\ forallb ident_ok pbs = true /\
    forall pb, In pb pbs -> emitted_ok pb.
Proof.
  split; [vm_compute; reflexivity|].
  destruct (strong_decompose_full s1mu) as [pbs| |] eqn:E; try (vm_compute in E; discriminate).
  exists pbs. split; [reflexivity|].
  assert (Hid : forallb ident_ok pbs = true /\ pbs <> [])
    by (vm_compute in E; injection E as <-; split; [vm_compute; reflexivity|discriminate]).
  destruct Hid as [Hid Hne]. split; [exact Hne|]. split; [exact Hid|].
  intros pb Hpb. apply (C09_strong_task_text classic_fuel s1mu pbs pb); [vm_compute; reflexivity|exact E|exact Hpb|].
  rewrite forallb_forall in Hid. unfold IdentClass, C09.IdentClass. rewrite (Hid pb Hpb). discriminate.
Qed.

(* (2) external equivalence, program vs program (the witnesses t6, t8 of C02full) *)
Example C09_ex_external_pvp :
  forall t, t = C02Witness.t6 \/ t = C02Witness.t8 ->
  ext_task_ok t = true /\
  exists w pbs, external_decompose_full full_fuel t = XOk w pbs /\ pbs <> [] /\ forallb ident_ok pbs = true /\
    forall pb, In pb pbs -> emitted_ok pb.
Proof.
  intros t Ht.
  assert (Hok : ext_task_ok t = true) by (destruct Ht as [-> | ->]; vm_compute; reflexivity).
  split; [exact Hok|].
  destruct (external_decompose_full full_fuel t) as [w pbs|err| |] eqn:E;
    try (destruct Ht as [-> | ->]; vm_compute in E; discriminate).
  exists w, pbs. split; [reflexivity|].
  assert (Hid : forallb ident_ok pbs = true /\ pbs <> [])
    by (destruct Ht as [-> | ->]; (vm_compute in E; injection E as <- <-; split; [vm_compute; reflexivity|discriminate])).
  destruct Hid as [Hid Hne]. split; [exact Hne|]. split; [exact Hid|].
  intros pb Hpb. apply (C09_external_task_text full_fuel t w pbs pb Hok E Hpb).
  rewrite forallb_forall in Hid. unfold IdentClass, C09.IdentClass. rewrite (Hid pb Hpb). discriminate.
Qed.

(* (3) a SHIPPED example with specification, user guide and proof outline (two lemmas with free
   variables - closed by the code - and an inductive lemma): res/examples/external_equivalence/division,
   parsed inside Coq (Properties/C13.v): four outline problems and the final problem *)
Example C09_ex_division :
  exists t pbs, C13.division_task = Some t /\ ext_task_ok t = true /\
    external_decompose_full full_fuel t = XOk [] pbs /\ List.length pbs = 5 /\ forallb ident_ok pbs = true /\
    forall pb, In pb pbs -> emitted_ok pb.
Proof.
  destruct C13.C13_division_accepted as [t [pbs [Et [E Hn]]]].
  exists t, pbs. split; [exact Et|].
  assert (Hok : ext_task_ok t = true) by (vm_compute in Et; injection Et as <-; vm_compute; reflexivity).
  split; [exact Hok|]. split; [exact E|].
  assert (Hlen : List.length pbs = 5) by (rewrite <- (map_length pb_name), Hn; reflexivity).
  split; [exact Hlen|].
  assert (Hid : forallb ident_ok pbs = true).
  { vm_compute in Et. injection Et as <-. vm_compute in E. injection E as <-. vm_compute. reflexivity. }
  split; [exact Hid|].
  intros pb Hpb. apply (C09_external_task_text full_fuel t [] pbs pb Hok E Hpb).
  rewrite forallb_forall in Hid. unfold IdentClass, C09.IdentClass. rewrite (Hid pb Hpb). discriminate.
Qed.

(* ============================ the premise is needed: finding C09-free-variable ============================
   p.lp = `p(1).`, s.spec = `spec: p(X).`, u.ug = `output: p/1.`:
     anthem verify --equivalence external --no-proof-search --save-problems out p.lp s.spec u.ug
   exits 0 and writes backward_problem_0.p with `tff(formula_1_f_0, conjecture, p(X_g)).` and
   forward_problem_*.p with the axiom `tff(formula_0_unnamed_formula, axiom, p(X_g)).`
   (tptp4X: "Unquantified variable X_g"; E: type error).  In the model: the task is accepted,
   [ext_task_ok] is false, no emitted problem is in IdentClass, each is readable, none type-checks. *)
Definition fv_task : ext_task :=
  mkext (inr [mkannot RSpec DUniversal "" (FAtomic (AAtom "p" [GVar "X"]))])
        [mkrule (HBasic (mkatom "p" [TPre (PNum 1)])) []]
        [UGOutput (mkpred "p" 1)] [] DIndependent DUniversal ReprTauStar false true true.
Example C09_ex_free_variable :
  ext_task_ok fv_task = false /\
  exists w pbs, external_decompose_full full_fuel fv_task = XOk w pbs /\ List.length pbs = 3 /\
    forallb ident_ok pbs = true /\
    map (fun pb => match problem_display pb with
                   | Some txt => option_map wt_problem (read_problem txt)
                   | None => None
                   end) pbs = [Some false; Some false; Some false].
Proof.
  split; [vm_compute; reflexivity|].
  destruct (external_decompose_full full_fuel fv_task) as [w pbs|err| |] eqn:E; try (vm_compute in E; discriminate).
  exists w, pbs. split; [reflexivity|].
  vm_compute in E. injection E as <- <-. repeat split; vm_compute; reflexivity.
Qed.
