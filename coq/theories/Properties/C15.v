(* C15 - printing a parsed theory, specification or user guide re-parses to the same tree.
   Statements only; proofs live in Proofs/Fol*.v. *)
From Coq Require Import List String ZArith NArith.
Import ListNotations.
From Anthem Require Import Syntax.Fol Gen.TablesFol Model.FolPrint Model.FolLex Model.FolParse Model.FolClass.
Open Scope string_scope.

(* ---------- non-vacuity and witnesses (vm_compute on the executable models) ---------- *)
Definition ex_text : string :=
  "forall X (Y = 3). forall X Y$i (X = Y$i + 1 -> exists Z$s (p(Z$s, -5, -(5)) and not not q or #false <-> r(#inf))).
   a -> b -> c. (a <- b) <- c. not (a -> b). (1 + 2) * 3 - (4 - 5) - 6 = -(7) > --8 >= n$i != m$g. forall X forall.".

(* the text is accepted, its tree is well-formed and outside the known classes, and the round trip holds
   at token level and at text level *)
Example C15_nonvacuous :
  exists t, parse_theory_str ex_text = PR_ok t /\ wf_theory t = true /\ known_class_theory t = None /\
            List.length t = 7 /\
            parse_theory_toks (print_theory false t) = PR_ok t /\
            parse_theory_str (show_theory t) = PR_ok t.
Proof.
  destruct (parse_theory_str ex_text) as [t| | |] eqn:E; try (vm_compute in E; discriminate).
  exists t. split; [reflexivity|].
  vm_compute in E. injection E as <-. vm_compute. repeat split.
Qed.

(* F2 (fixed by cc14b46): the quantified comparison that begins with a variable is parenthesised *)
Example C15_F2_fixed :
  show_formula (FQ QForall [mkvar "X" SGeneral] (FAtomic (ACmp (GVar "Y") [mkguard REq (GInt (INum 3))])))
  = "forall X (Y = 3)".
Proof. vm_compute. reflexivity. Qed.

(* F7b witness: in the class, well-formed, and the round trip fails (the tree changes) *)
Example C15_known_F7b :
  let t := [FBin CImp (FAtomic (AAtom "q" [])) (FAtomic (AAtom "notp" []))] in
  wf_theory t = true /\ known_class_theory t = Some "F7b" /\
  show_theory t = "q -> notp.
" /\
  parse_theory_toks (print_theory false t) = PR_ok [FBin CImp (FAtomic (AAtom "q" [])) (FNot (FAtomic (AAtom "p" [])))].
Proof. vm_compute. repeat split. Qed.

(* C15-RIMP witness: in the parser image, and the round trip fails (the tree changes) *)
Example C15_known_RIMP :
  let t := [FBin CRimp (FAtomic (AAtom "p" [])) (FAtomic (ACmp (GInt (INum 1)) [mkguard REq (GInt (INum 1))]))] in
  parse_theory_str "p <- (1 = 1)." = PR_ok t /\ wf_theory t = true /\ known_class_theory t = Some "C15-RIMP" /\
  show_theory t = "p <- 1 = 1.
" /\
  parse_theory_toks (print_theory false t)
  = PR_ok [FAtomic (ACmp (GSym (SSym "p")) [mkguard RLt (GInt (IUn UNeg (INum 1))); mkguard REq (GInt (INum 1))])].
Proof. vm_compute. repeat split. Qed.

(* DESIGN's F7 example is not in the language: prefix* is possessive *)
Example C15_F7_example_rejected : parse_theory_str "(not) and p." = PR_err.
Proof. vm_compute. reflexivity. Qed.
