(* C15 - printing a parsed theory, specification or user guide re-parses to the same tree.
   Statements only; proofs live in Proofs/Fol*.v.
   Objects: Model/FolPrint.v (token printers; [render] gives the bytes of Display; [strip] drops the layout
   tokens), Model/FolLex.v (char-level lexer), Model/FolParse.v + Model/FolPratt.v (token-level PEG +
   pest's Pratt algorithm), Gen/TablesFol.v (operator tables REGENERATED from the Rust sources),
   Model/FolClass.v (well-formedness = the lexical/structural invariants of parser output; the two known
   classes F7b and C15-RIMP).  The theorems are at TOKEN level; the lexer is tied to the grammar by the
   differential correspondence only (and by the vm_compute examples below, which go through [lex]). *)
From Coq Require Import List String ZArith NArith.
Import ListNotations.
From Anthem Require Import Syntax.Fol Gen.TablesFol Model.FolPrint Model.FolLex Model.FolPratt Model.FolParse Model.FolClass
  Proofs.FolPrattOk Proofs.FolTermRT Proofs.FolFormulaRT Proofs.FolRoundTrip Proofs.FolTopRT Proofs.FolStrip Proofs.FolC15 Proofs.FolImage Proofs.FolFuel.
Open Scope string_scope.

(* ---------- round trip ---------- *)
(* theories: every well-formed theory outside the known classes is read back from its own printed tokens
   by the executable parser (with the executable parser's own fuel), numerals in range included *)
Theorem C15_theory :
  forall t : theory, wf_theory t = true -> known_class_theory t = None ->
  parse_theory_toks (strip (print_theory true t)) = PR_ok t.
Proof. exact FolC15.C15_theory. Qed.
Print Assumptions C15_theory.

Theorem C15_specification :
  forall s : specification, wf_spec s = true -> known_class_spec s = None ->
  parse_spec_toks (strip (print_spec true s)) = PR_ok s.
Proof. exact FolC15.C15_spec. Qed.
Print Assumptions C15_specification.

Theorem C15_user_guide :
  forall u : user_guide, wf_ug u = true -> known_class_ug u = None ->
  parse_ug_toks (strip (print_ug true u)) = PR_ok u.
Proof. exact FolC15.C15_ug. Qed.
Print Assumptions C15_user_guide.

(* formulas, in the generalised form the induction needs: whatever may follow a formula (R: no infix
   connective, no continuation of a term or of a guard chain) is left untouched *)
Theorem C15_formula :
  forall (n : nat) (F : formula) (R : list token),
  fsize F + 3 < n -> wf_formula F = true /\ keyword_ident F = false /\ rimp_neg F = false ->
  ffollow (ends_term F) 0 R ->
  peg_formula n (print_formula false F ++ R) = Ok F R.
Proof. exact formula_rt. Qed.
Print Assumptions C15_formula.

(* integer terms, general terms, atomic formulas (no exclusions) *)
Theorem C15_integer_term :
  forall (fuel : nat) (t : iterm) (R : list token), isize t < fuel -> ifollow R ->
  peg_iterm fuel (print_iterm false t ++ R) = Ok t R.
Proof. exact iterm_rt. Qed.
Print Assumptions C15_integer_term.
Theorem C15_general_term :
  forall (t : gterm) (fuel : nat) (R : list token), gsize t < fuel -> ifollow R ->
  peg_gterm fuel (print_gterm false t ++ R) = Ok t R.
Proof. exact gterm_rt. Qed.
Print Assumptions C15_general_term.
Theorem C15_atomic_formula :
  forall (a : aformula) (k fuel : nat) (R : list token), asize a + k < fuel ->
  (match a with ACmp _ [] => False | _ => True end) -> afollow a k R ->
  peg_atomic fuel (print_atomic false a ++ R) = Ok a R.
Proof. exact atomic_rt. Qed.
Print Assumptions C15_atomic_formula.

(* the Pratt phase alone, over the generated tables: the item sequence of a printed formula / integer
   term is rebuilt into the same tree (all five connectives incl. the mixed-associativity level, both
   prefix operators, mandatory parentheses) *)
Theorem C15_pratt_formula : forall f : formula, pratt_formula (map to_fp (fitems f)) = Some f.
Proof. exact pratt_formula_items. Qed.
Print Assumptions C15_pratt_formula.
Theorem C15_pratt_integer_term : forall t : iterm, pratt_iterm (map to_ip (iitems t)) = Some t.
Proof. exact pratt_iterm_items. Qed.
Print Assumptions C15_pratt_integer_term.
(* ... and these item sequences are exactly what the printer emits *)
Theorem C15_printer_items : forall f : formula, print_formula false f = fflat (fitems f).
Proof. exact print_formula_items. Qed.
Print Assumptions C15_printer_items.

(* implications / reverse implications / equivalences never reach the printer without parentheses as
   children, so the mixed-associativity level of the parser table is never exercised by printed text *)
Theorem C15_mixed_level_parenthesised :
  forall (c : bconn) (l r : formula),
  (match l with FBin (CImp | CRimp | CIff) _ _ => lhs_paren (FBin c l r) l = true | _ => True end) /\
  (match r with FBin (CImp | CRimp | CIff) _ _ => rhs_paren (FBin c l r) r = true | _ => True end).
Proof. exact mixed_level_parenthesised. Qed.
Print Assumptions C15_mixed_level_parenthesised.

(* greedy binder lists: the test of commit cc14b46 (on the rendered bytes) is exact on well-formed
   formulas: when it does not fire, the first token after the binder list is not a variable *)
Theorem C15_binder_list_ends :
  forall g : formula, wf_formula g = true -> begins_with_variable (render (print_formula true g)) = false ->
  no_var_head (print_formula false g).
Proof. exact bwv_head. Qed.
Print Assumptions C15_binder_list_ends.

(* the two parenthesis ambiguities of the PEG *)
Theorem C15_paren_comparison_not_formula :
  forall (n : nat) (t : iterm) (X : list token), isize t + 2 < n ->
  lead_safe (print_iterm false t ++ TRParen :: X) ->
  peg_formula n (print_iterm false t ++ TRParen :: X) = Fail.
Proof. exact formula_fails_on_iterm. Qed.
Print Assumptions C15_paren_comparison_not_formula.

(* printing is idempotent through the parser *)
Theorem C15_print_idem :
  forall t t' : theory, wf_theory t = true -> known_class_theory t = None ->
  parse_theory_toks (strip (print_theory true t)) = PR_ok t' -> show_theory t' = show_theory t.
Proof. exact C15_print_idem_theory. Qed.
Print Assumptions C15_print_idem.

(* the byte-level printer and the token list the parser reads differ by layout tokens only *)
Theorem C15_strip_theory : forall t : theory, strip (print_theory true t) = print_theory false t.
Proof. exact strip_theory. Qed.
Print Assumptions C15_strip_theory.

(* pest's Pratt algorithm, generically: fuel = number of items always suffices for a derivation, and a
   printed form (FolPrattOk.Pr) is parsed back *)
Theorem C15_pratt_generic :
  forall (T U B : Type) (mk_un : U -> T -> T) (mk_bin : B -> T -> T -> T)
         (pre_bp : U -> option nat) (in_bp : B -> option (nat * assoc))
         (t : T) (is : list (pitem T U B)) (lv fl : nat),
  Pr T U B mk_un mk_bin pre_bp in_bp t is lv fl -> 0 < lv -> pratt mk_un mk_bin pre_bp in_bp is = Some t.
Proof. exact pratt_ok. Qed.
Print Assumptions C15_pratt_generic.

(* the formatter's and the parser's operator tables agree (associativity per operator, reversed order of
   precedence vs binding power, prefix operators tightest) *)
Theorem C15_tables_agree_formula :
  (forall c, match formula_in_bp c with Some (_, a) => fmt_formula_assoc (conn_kind c) = Some a | None => False end) /\
  (forall c1 c2, match formula_in_bp c1, formula_in_bp c2 with
                 | Some (p1, _), Some (p2, _) =>
                     (fmt_formula_prec (conn_kind c1) < fmt_formula_prec (conn_kind c2) <-> p2 < p1)
                 | _, _ => False end) /\
  (forall c, match formula_in_bp c with Some (p, _) => p < fpn /\ 1 <= p | None => False end) /\
  fmt_formula_assoc KNot = Some ALeft /\ fmt_formula_assoc KQuant = Some ALeft.
Proof. exact tables_agree_formula. Qed.
Print Assumptions C15_tables_agree_formula.
Theorem C15_tables_agree_term :
  (forall o, match iterm_in_bp o with Some (_, a) => fmt_iterm_assoc (binop_kind o) = Some a | None => False end) /\
  (forall o1 o2, match iterm_in_bp o1, iterm_in_bp o2 with
                 | Some (p1, _), Some (p2, _) =>
                     (fmt_iterm_prec (binop_kind o1) < fmt_iterm_prec (binop_kind o2) <-> p2 < p1)
                 | _, _ => False end) /\
  (forall o, match iterm_in_bp o with Some (p, _) => p < ipn /\ 1 <= p | None => False end) /\
  fmt_iterm_assoc KNeg = Some ALeft.
Proof. exact tables_agree_term. Qed.
Print Assumptions C15_tables_agree_term.

(* ---------- the image of the parser ---------- *)
(* everything the parser model accepts (lexer included) is well-formed: names of the right lexical class,
   non-empty guard and binder lists, numerals in isize, arities in usize - so the hypothesis [wf] of the
   round-trip theorems holds for every tree in the image of the parser *)
Theorem C15_image_theory : forall (s : string) (t : theory), parse_theory_str s = PR_ok t -> wf_theory t = true.
Proof. exact image_theory_str. Qed.
Print Assumptions C15_image_theory.
Theorem C15_image_specification : forall (s : string) (t : specification), parse_spec_str s = PR_ok t -> wf_spec t = true.
Proof. exact image_spec_str. Qed.
Print Assumptions C15_image_specification.
Theorem C15_image_user_guide : forall (s : string) (t : user_guide), parse_ug_str s = PR_ok t -> wf_ug t = true.
Proof. exact image_ug_str. Qed.
Print Assumptions C15_image_user_guide.
(* token level, for any token list whose names have the right lexical class *)
Theorem C15_image_tokens :
  forall (ts : list token) (t : theory), toks_ok ts -> parse_theory_toks ts = PR_ok t -> wf_theory t = true.
Proof. exact image_theory. Qed.
Print Assumptions C15_image_tokens.
Theorem C15_lex_classes : forall (s : string) (ts : list token), lex s = Some ts -> toks_ok ts.
Proof. exact lex_toks_ok. Qed.
Print Assumptions C15_lex_classes.

(* C15 on the image of the parser *)
Theorem C15_parsed_theory :
  forall (s : string) (t : theory), parse_theory_str s = PR_ok t -> known_class_theory t = None ->
  parse_theory_toks (strip (print_theory true t)) = PR_ok t.
Proof. exact parsed_theory_rt. Qed.
Print Assumptions C15_parsed_theory.
Theorem C15_parsed_specification :
  forall (s : string) (t : specification), parse_spec_str s = PR_ok t -> known_class_spec t = None ->
  parse_spec_toks (strip (print_spec true t)) = PR_ok t.
Proof. exact parsed_spec_rt. Qed.
Print Assumptions C15_parsed_specification.
Theorem C15_parsed_user_guide :
  forall (s : string) (t : user_guide), parse_ug_str s = PR_ok t -> known_class_ug t = None ->
  parse_ug_toks (strip (print_ug true t)) = PR_ok t.
Proof. exact parsed_ug_rt. Qed.
Print Assumptions C15_parsed_user_guide.

(* ---------- non-vacuity and witnesses (vm_compute on the executable models) ---------- *)
Definition ex_text : string :=
  "forall X (Y = 3). forall X Y$i (X = Y$i + 1 -> exists Z$s (p(Z$s, -5, -(5)) and not not q or #false <-> r(#inf))).
   a -> b -> c. (a <- b) <- c. not (a -> b). (1 + 2) * 3 - (4 - 5) - 6 = -(7) > --8 >= n$i != m$g. forall X forall.".

(* the text is accepted, its tree is well-formed and outside the known classes, and the round trip holds
   at token level and at text level *)
Example C15_nonvacuous :
  exists t, parse_theory_str ex_text = PR_ok t /\ wf_theory t = true /\ known_class_theory t = None /\
            List.length t = 7 /\
            parse_theory_toks (print_theory false t) = PR_ok t /\
            parse_theory_str (show_theory t) = PR_ok t.
Proof.
  destruct (parse_theory_str ex_text) as [t| | |] eqn:E; try (vm_compute in E; discriminate).
  exists t. split; [reflexivity|].
  vm_compute in E. injection E as <-. vm_compute. repeat split.
Qed.

(* F2 (fixed by cc14b46): the quantified comparison that begins with a variable is parenthesised *)
Example C15_F2_fixed :
  show_formula (FQ QForall [mkvar "X" SGeneral] (FAtomic (ACmp (GVar "Y") [mkguard REq (GInt (INum 3))])))
  = "forall X (Y = 3)".
Proof. vm_compute. reflexivity. Qed.

(* F7b witness: in the class, well-formed, and the round trip fails (the tree changes) *)
Example C15_known_F7b :
  let t := [FBin CImp (FAtomic (AAtom "q" [])) (FAtomic (AAtom "notp" []))] in
  wf_theory t = true /\ known_class_theory t = Some "F7b" /\
  show_theory t = "q -> notp.
" /\
  parse_theory_toks (print_theory false t) = PR_ok [FBin CImp (FAtomic (AAtom "q" [])) (FNot (FAtomic (AAtom "p" [])))].
Proof. vm_compute. repeat split. Qed.

(* F7b is INSIDE the image of the parser, also behind opening parentheses (audit A19: [keyword_ident]
   looks through them and that is exact, not an over-approximation): the accepted text `(notp$i) = 1.`
   prints as `notp$i = 1.`, which is read as `not p$i = 1.` -- a silent change of meaning. *)
Example C15_F7b_in_image :
  match parse_theory_str "(notp$i) = 1." with
  | PR_ok t =>
    wf_theory t = true /\ known_class_theory t = Some "F7b" /\
    match parse_theory_str (show_theory t) with
    | PR_ok t' => t' <> t /\ t' = [FNot (FAtomic (ACmp (GInt (IFun "p")) [mkguard REq (GInt (INum 1))]))]
    | _ => False
    end
  | _ => False
  end.
Proof. vm_compute. split; [reflexivity|]. split; [reflexivity|]. split; [discriminate|reflexivity]. Qed.

(* F7c witness (stand-alone formulas only): accepted, well-formed, printed text refused *)
Example C15_known_F7c :
  match parse_formula_str "p and exists " with
  | PR_ok f =>
    wf_formula f = true /\ known_class f = None /\ known_class_alone f = Some "F7c" /\
    show_formula f = "p and exists" /\ parse_formula_str (show_formula f) = PR_err
  | _ => False
  end.
Proof. vm_compute. repeat split. Qed.

(* C15-RIMP witness: in the parser image, and the round trip fails (the tree changes) *)
Example C15_known_RIMP :
  let t := [FBin CRimp (FAtomic (AAtom "p" [])) (FAtomic (ACmp (GInt (INum 1)) [mkguard REq (GInt (INum 1))]))] in
  parse_theory_str "p <- (1 = 1)." = PR_ok t /\ wf_theory t = true /\ known_class_theory t = Some "C15-RIMP" /\
  show_theory t = "p <- 1 = 1.
" /\
  parse_theory_toks (print_theory false t)
  = PR_ok [FAtomic (ACmp (GSym (SSym "p")) [mkguard RLt (GInt (IUn UNeg (INum 1))); mkguard REq (GInt (INum 1))])].
Proof. vm_compute. repeat split. Qed.

(* DESIGN's F7 example is not in the language: prefix* is possessive *)
Example C15_F7_example_rejected : parse_theory_str "(not) and p." = PR_err.
Proof. vm_compute. reflexivity. Qed.

(* ---------- the model's own fuel (second audit, B17) ----------
   The PEG phase of Model/FolParse.v runs on one counter, fuel_of ts = 4 * toks_size ts + 16, and answers
   Oof / PR_oof when it is exhausted (the driver reports that as an error, never as a rejection).  It is
   never exhausted: no entry point, on tokens or on text, returns PR_oof -- for EVERY input, accepted or
   not.  (Measure: toks_size; every successful sub-parser strictly decreases it, also across the re-lexing
   of a word after a keyword literal at its front; each function needs toks_size + a constant <= 3.) *)
Theorem C15_never_out_of_fuel :
  (forall ts : list token,
     parse_formula_toks ts <> PR_oof /\ parse_theory_toks ts <> PR_oof /\
     parse_spec_toks ts <> PR_oof /\ parse_ug_toks ts <> PR_oof /\ parse_ug_raw_toks ts <> PR_oof) /\
  (forall s : string,
     parse_formula_str s <> PR_oof /\ parse_theory_str s <> PR_oof /\
     parse_spec_str s <> PR_oof /\ parse_ug_str s <> PR_oof /\ parse_ug_raw_str s <> PR_oof).
Proof. exact fol_never_out_of_fuel. Qed.
Print Assumptions C15_never_out_of_fuel.

(* The three counters whose exhaustion is NOT the explicit Oof but would look like a rejection (None) or
   a bad token ([TBad]): the Pratt phase (pratt = pratt_expr (length items) ...), the re-lexing of the
   remainder of a word (relex = relex_run (S (length w))) and the lexer (lex = lex_go (S (length l))).
   The value at the computed counter is the value at every larger one. *)
Theorem C15_fuel_inner :
  (forall f is, List.length is <= f ->
     match pratt_expr mk_fpre (fun c l r => FBin c l r) formula_pre_bp formula_in_bp f 0 is with
     | Some (t, []) => Some t | _ => None end = pratt_formula is) /\
  (forall f is, List.length is <= f ->
     match pratt_expr (fun _ t => IUn UNeg t) (fun o l r => IBin o l r) iterm_pre_bp iterm_in_bp f 0 is with
     | Some (t, []) => Some t | _ => None end = pratt_iterm is) /\
  (forall f w suf, List.length w < f -> relex_run f w suf = relex w suf) /\
  (forall f s, String.length s < f -> lex_go f (chars s) = lex s).
Proof. exact fol_fuel_inner. Qed.
Print Assumptions C15_fuel_inner.

(* not vacuous: the counter matters (below the bound the PEG phase does answer Oof, the lexer None), and
   deeply nested / long inputs are decided at the computed bound *)
Example C15_fuel_nonvacuous :
  peg_formula 3 [TLParen; TLParen; TWord "p"; TRParen; TRParen] = Oof /\
  parse_formula_toks [TLParen; TLParen; TWord "p"; TRParen; TRParen] = PR_ok (FAtomic (AAtom "p" [])) /\
  lex_go 3 (chars "p.q") = None /\ lex "p.q" = Some [TWord "p"; TDot; TWord "q"] /\
  parse_theory_str "((((((((((((p)))))))))))) and not not not not forallX$ q(X$) or notnotnot(((1))) = -(-(-(2))) <-> #true. p. p. p. p. p. p. p. p." <> PR_err /\
  parse_theory_str "((((((((((((p))))))))))) ." = PR_err.
Proof. repeat split; try (vm_compute; reflexivity). vm_compute. discriminate. Qed.
