(* C14, stand-alone entry points: "printing a parsed program (or rule, term, atom ...) and parsing it
   again yields the same tree".  Properties/C14.v is about `str::parse::<Program>()`; this file is about
   the other node types that have a parser: Term, Atom, Literal, Comparison, AtomicFormula, Head, Body,
   Rule (Model/AspNodes.v; tied to the real library by the op asp_node_roundtrip of props/C14nodes.json).

   * C14_node_tokens: token level, EVERY node of every kind, no side condition.
   * C14_node_lex / C14_node_text: text level, every node of every kind whose identifiers are in the
     lexical classes of the grammar ([wf_node]), whose numerals fit isize and that is OUTSIDE the two
     recorded defect classes ([node_known_class n = None]): the model lexer reads the printed bytes back
     as the printed tokens and the entry point returns the node.  No lexical hypothesis is left
     (second audit, finding B5: the former C14_node_text_partial had the lexical round trip itself as
     a premise).
   * C14_node_image: every node an entry point returns is in that class, hence
     C14_node_accepted_text: every ACCEPTED node text outside F7 / F7d round-trips, and
     C14_node_print_idem(_text): printing the re-parsed tree yields identical tokens and bytes.
   * C14_node_text_given_lex: the same conclusion for ARBITRARY identifiers, with the lexical step as
     an explicit hypothesis (kept because it has no condition on identifiers; nothing is open).
   * The class premise is necessary: C14_F7d_* / C14_F7_term are nodes IN THE IMAGE of the entry point
     (accepted texts "(not)", "not()", "1 = (not)", "q, not()", "not+1") that satisfy every other
     premise and whose printed text the same entry point refuses.  F7d: `negation = "not" ~
     &(WHITESPACE | EOI)` fires at the END of the input, so a printed node that ends with the symbol
     `not` is refused; Rule and Program are not affected ("." follows).  F7 (Properties/C14.v): `not`
     printed in front of a blank.  Both are genuine defects of the printer/parser pair. *)
From Coq Require Import List Ascii String ZArith Bool.
From Anthem Require Import Syntax.Asp Model.AspTableTypes Model.AspPrint Model.AspParse Model.AspNodes
  Proofs.AspLex Proofs.AspNodesOk Proofs.AspNodesLex Proofs.AspNodesImage.
Import ListNotations.
Open Scope string_scope.
Open Scope list_scope.

Theorem C14_node_tokens : forall n : node,
  parse_node_toks (kind_of n) false (print_node n) = POk (n, []).
Proof. exact node_roundtrip_tokens. Qed.
Print Assumptions C14_node_tokens.

Theorem C14_node_rule_any_guard : forall (r : rule) (g : bool),
  parse_node_toks KRule g (print_rule r) = POk (NRule r, []).
Proof. exact rule_roundtrip_tokens_any. Qed.
Print Assumptions C14_node_rule_any_guard.

(* Text level with the lexical step as an explicit hypothesis, ARBITRARY identifiers.  The hypothesis
   is discharged by C14_node_lex for identifiers in the lexical classes of the grammar. *)
Theorem C14_node_text_given_lex : forall n : node,
  lex_node (display_node n) = Some (print_node n) ->
  (leading_skip (display_node n) = false \/ kind_of n = KRule) ->
  node_numerals_ok n = true ->
  parse_node_text (kind_of n) (display_node n) = POk n.
Proof. exact node_roundtrip_text_partial. Qed.
Print Assumptions C14_node_text_given_lex.

(* [wf_node n]: every symbol of n matches _?[a-z][A-Za-z0-9_]* and every variable [A-Z][A-Za-z0-9]*
   (Proofs/AspNodesLex.v; the per-kind predicates wf_term ... wf_rule of Proofs/AspLex.v) *)
Example C14_wf_node_unfold : forall (t : term) (a : atom) (l : literal) (c : comparison) (f : bformula)
  (h : head) (b : list bformula) (r : rule),
  (wf_node (NTerm t) <-> wf_term t) /\ (wf_node (NAtom a) <-> wf_atom a) /\
  (wf_node (NLiteral l) <-> wf_atom (latom l)) /\
  (wf_node (NComparison c) <-> wf_term (clhs c) /\ wf_term (crhs c)) /\
  (wf_node (NAtomicFormula f) <-> wf_bformula f) /\ (wf_node (NHead h) <-> wf_head h) /\
  (wf_node (NBody b) <-> Forall wf_bformula b) /\ (wf_node (NRule r) <-> wf_rule r).
Proof. intros. cbn. tauto. Qed.

(* The lexical step (for the MODEL lexer, which is tied to pest by correspondence only): outside the
   classes F7 / F7d the lexer of the stand-alone entry point reads the printed bytes back as exactly
   the printed tokens -- all 8 node kinds. *)
Theorem C14_node_lex : forall n : node,
  wf_node n -> node_known_class n = None ->
  lex_node (display_node n) = Some (print_node n).
Proof. exact lex_node_display. Qed.
Print Assumptions C14_node_lex.

(* ... so the stand-alone entry point returns the node (numerals within isize, else the real parser
   panics) *)
Theorem C14_node_text : forall n : node,
  wf_node n -> node_numerals_ok n = true -> node_known_class n = None ->
  parse_node_text (kind_of n) (display_node n) = POk n.
Proof. exact node_roundtrip_text. Qed.
Print Assumptions C14_node_text.

(* The image of every entry point is inside that class (and the node has the kind that was asked for) *)
Theorem C14_node_image : forall (k : node_kind) (s : string) (n : node),
  parse_node_text k s = POk n ->
  kind_of n = k /\ wf_node n /\ node_numerals_ok n = true.
Proof. exact parse_node_text_image. Qed.
Print Assumptions C14_node_image.

(* ... hence: every accepted node text, printed, is accepted again by the same entry point and parses
   to the identical tree -- unless the tree is in the class F7 / F7d. *)
Theorem C14_node_accepted_text : forall (k : node_kind) (s : string) (n : node),
  parse_node_text k s = POk n -> node_known_class n = None ->
  parse_node_text k (display_node n) = POk n.
Proof. exact node_roundtrip_image. Qed.
Print Assumptions C14_node_accepted_text.

(* printing the re-parsed tree gives identical tokens, hence identical bytes (token level: every node) *)
Theorem C14_node_print_idem : forall n m : node,
  parse_node_toks (kind_of n) false (print_node n) = POk (m, []) ->
  print_node m = print_node n /\ display_node m = display_node n.
Proof. exact node_print_idem. Qed.
Print Assumptions C14_node_print_idem.

Theorem C14_node_print_idem_text : forall (k : node_kind) (s : string) (n m : node),
  parse_node_text k s = POk n -> node_known_class n = None ->
  parse_node_text k (display_node n) = POk m ->
  m = n /\ display_node m = display_node n.
Proof. exact node_print_idem_text. Qed.
Print Assumptions C14_node_print_idem_text.

(* ---------------------------------------------------------------- recorded defect class F7d *)
Example C14_F7d_term :
  parse_node_text KTerm "(not)" = POk (NTerm (TPre (PSym "not"))) /\
  display_node (NTerm (TPre (PSym "not"))) = "not" /\
  parse_node_text KTerm "not" = PFail /\
  node_known_class (NTerm (TPre (PSym "not"))) = Some "F7d".
Proof. vm_compute. repeat split. Qed.

Example C14_F7d_atom :
  parse_node_text KAtom "not()" = POk (NAtom (mkatom "not" [])) /\
  display_node (NAtom (mkatom "not" [])) = "not" /\
  parse_node_text KAtom "not" = PFail /\
  node_known_class (NAtom (mkatom "not" [])) = Some "F7d".
Proof. vm_compute. repeat split. Qed.

Example C14_F7d_comparison :
  let c := mkcmp AEq (TPre (PNum 1)) (TPre (PSym "not")) in
  parse_node_text KComparison "1 = (not)" = POk (NComparison c) /\
  display_node (NComparison c) = "1 = not" /\
  parse_node_text KComparison "1 = not" = PFail /\
  node_known_class (NComparison c) = Some "F7d".
Proof. vm_compute. repeat split. Qed.

Example C14_F7d_body :
  let b := [BLit (mklit SNone (mkatom "q" [])); BLit (mklit SNone (mkatom "not" []))] in
  parse_node_text KBody "q, not()" = POk (NBody b) /\
  display_node (NBody b) = "q, not" /\
  parse_node_text KBody "q, not" = PFail /\
  node_known_class (NBody b) = Some "F7d".
Proof. vm_compute. repeat split. Qed.

Example C14_F7d_head :
  parse_node_text KHead "not()" = POk (NHead (HBasic (mkatom "not" []))) /\
  display_node (NHead (HBasic (mkatom "not" []))) = "not" /\
  parse_node_text KHead "not" = PFail /\
  node_known_class (NHead (HBasic (mkatom "not" []))) = Some "F7d".
Proof. vm_compute. repeat split. Qed.

(* a rule is not affected: "." follows the symbol *)
Example C14_F7d_rule_unaffected :
  parse_node_text KRule "not()." = POk (NRule (mkrule (HBasic (mkatom "not" [])) [])) /\
  display_node (NRule (mkrule (HBasic (mkatom "not" [])) [])) = "not." /\
  parse_node_text KRule "not." = POk (NRule (mkrule (HBasic (mkatom "not" [])) [])) /\
  node_known_class (NRule (mkrule (HBasic (mkatom "not" [])) [])) = None.
Proof. vm_compute. repeat split. Qed.

(* the class F7 of Properties/C14.v applies to nodes as well: `not` in front of a blank *)
Example C14_F7_term :
  parse_node_text KTerm "not+1" = POk (NTerm (TBin AAdd (TPre (PSym "not")) (TPre (PNum 1)))) /\
  display_node (NTerm (TBin AAdd (TPre (PSym "not")) (TPre (PNum 1)))) = "not + 1" /\
  parse_node_text KTerm "not + 1" = PFail /\
  node_known_class (NTerm (TBin AAdd (TPre (PSym "not")) (TPre (PNum 1)))) = Some "F7".
Proof. vm_compute. repeat split. Qed.

(* The class premise of C14_node_lex / C14_node_text / C14_node_accepted_text is NECESSARY: each of
   these nodes is in the image of its entry point (Examples above), satisfies every other premise
   (identifiers in the lexical classes, numerals within isize), is in a class, and its printed text
   is refused by the same entry point; the lexical step is what fails. *)
Example C14_class_premise_necessary :
  Forall (fun n : node =>
            wf_node n /\ node_numerals_ok n = true /\ node_known_class n <> None /\
            lex_node (display_node n) <> Some (print_node n) /\
            parse_node_text (kind_of n) (display_node n) = PFail)
    [ NTerm (TPre (PSym "not"));
      NAtom (mkatom "not" []);
      NComparison (mkcmp AEq (TPre (PNum 1)) (TPre (PSym "not")));
      NAtomicFormula (BLit (mklit SDNeg (mkatom "not" [])));
      NHead (HBasic (mkatom "not" []));
      NBody [BLit (mklit SNone (mkatom "q" [])); BLit (mklit SNone (mkatom "not" []))];
      NTerm (TBin AAdd (TPre (PSym "not")) (TPre (PNum 1)));
      NRule (mkrule (HBasic (mkatom "not" [])) [BLit (mklit SNone (mkatom "p" []))]) ].
Proof.
  repeat (apply Forall_cons || apply Forall_nil);
    (split; [cbn; repeat (constructor || split)|]);
    (split; [vm_compute; reflexivity|]);
    (split; [vm_compute; discriminate|]);
    (split; [vm_compute; discriminate|vm_compute; reflexivity]).
Qed.

(* ---------------------------------------------------------------- non-vacuity *)
(* C14_node_text APPLIED: one node of every kind (all operators, unary minus on numerals, a negative
   numeral, nested intervals, `not` as an argument and as a predicate in harmless positions, a choice
   head, a constraint whose text begins with a blank, the empty head and the empty body): the three
   premises hold, and the conclusion is obtained from the theorem *)
Definition c14_node_term : term :=
  TBin AInterval (TBin ASub (TUn AUNeg (TPre (PNum 5))) (TUn AUNeg (TUn AUNeg (TPre (PNum (-4))))))
    (TBin AAdd (TBin AMod (TBin ADiv (TBin AMul (TVar "X") (TVar "Y")) (TPre (PSym "_z"))) (TPre (PNum 0)))
       (TBin AInterval (TPre PInf) (TPre PSup))).
Definition c14_node_atom : atom := mkatom "not" [c14_node_term; TPre (PSym "not"); TVar "N0t"].
Definition c14_node_nodes : list node :=
  [ NTerm c14_node_term;
    NTerm (TUn AUNeg (TBin AInterval (TPre (PSym "not")) (TPre (PNum 7))));
    NAtom c14_node_atom;
    NLiteral (mklit SDNeg c14_node_atom);
    NComparison (mkcmp AGe (TBin AInterval (TPre (PSym "not")) (TVar "X")) c14_node_term);
    NAtomicFormula (BCmp (mkcmp ANe (TVar "X") (TPre (PNum (-1)))));
    NAtomicFormula (BLit (mklit SNeg (mkatom "p" [])));
    NHead (HChoice c14_node_atom); NHead (HBasic (mkatom "q" [])); NHead HFalsity;
    NBody []; NBody [BLit (mklit SNeg c14_node_atom); BCmp (mkcmp ALt c14_node_term (TVar "Y")); BLit (mklit SNone (mkatom "not" [TPre (PNum 1)]))];
    NRule (mkrule HFalsity [BLit (mklit SNone (mkatom "not" []))]);
    NRule (mkrule HFalsity []);
    NRule (mkrule (HChoice (mkatom "not" [])) []);
    NRule (mkrule (HBasic c14_node_atom) [BLit (mklit SDNeg c14_node_atom); BCmp (mkcmp AEq (TVar "X") c14_node_term)]) ].

Example C14_node_text_premises_hold :
  Forall (fun n => wf_node n /\ node_numerals_ok n = true /\ node_known_class n = None) c14_node_nodes.
Proof.
  repeat (apply Forall_cons || apply Forall_nil);
    (split; [cbn; repeat (constructor || split)|split; vm_compute; reflexivity]).
Qed.

Example C14_node_text_applied :
  Forall (fun n => parse_node_text (kind_of n) (display_node n) = POk n) c14_node_nodes.
Proof.
  eapply Forall_impl; [|exact C14_node_text_premises_hold].
  intros n [W [N C]]. exact (C14_node_text n W N C).
Qed.

(* the same by computation, with the printed bytes (a constraint begins with a blank) *)
Example C14_node_text_bytes :
  map display_node c14_node_nodes =
  [ "-(5) - ---4..X * Y / _z \ 0 + (#inf..#sup)"; "-(not..7)"; "not(-(5) - ---4..X * Y / _z \ 0 + (#inf..#sup), not, N0t)";
    "not not not(-(5) - ---4..X * Y / _z \ 0 + (#inf..#sup), not, N0t)";
    "not..X >= -(5) - ---4..X * Y / _z \ 0 + (#inf..#sup)"; "X != -1"; "not p";
    "{not(-(5) - ---4..X * Y / _z \ 0 + (#inf..#sup), not, N0t)}"; "q"; ""; "";
    "not not(-(5) - ---4..X * Y / _z \ 0 + (#inf..#sup), not, N0t), -(5) - ---4..X * Y / _z \ 0 + (#inf..#sup) < Y, not(1)";
    " :- not."; " :- ."; "{not}.";
    "not(-(5) - ---4..X * Y / _z \ 0 + (#inf..#sup), not, N0t) :- not not not(-(5) - ---4..X * Y / _z \ 0 + (#inf..#sup), not, N0t), X = -(5) - ---4..X * Y / _z \ 0 + (#inf..#sup)." ] /\
  forallb (fun n => match parse_node_text (kind_of n) (display_node n) with POk _ => true | _ => false end)
    c14_node_nodes = true.
Proof. vm_compute. split; reflexivity. Qed.

(* every accepted text below is outside the classes; C14_node_accepted_text APPLIED gives the round trip *)
Example C14_node_accepted_text_applied :
  Forall (fun ks : node_kind * string =>
            match parse_node_text (fst ks) (snd ks) with
            | POk n => node_known_class n = None /\ parse_node_text (fst ks) (display_node n) = POk n
            | _ => False
            end)
    [ (KTerm, " - 1 .. (not)..-(-3)"); (KAtom, "not( not,not)"); (KLiteral, " not not(X)");
      (KComparison, "%c
 -1 < (not)..1"); (KAtomicFormula, "not not not(1)"); (KHead, "{ not}"); (KHead, " % only layout");
      (KBody, " not, not not not;1=1"); (KBody, ""); (KRule, " :- not."); (KRule, "{not}:-not,not not."); (KRule, " .") ].
Proof.
  repeat (apply Forall_cons || apply Forall_nil); cbn [fst snd];
    match goal with
    | |- match ?p with _ => _ end =>
      let r := eval vm_compute in p in
      match r with
      | POk ?n =>
        assert (E : p = POk n) by (vm_compute; reflexivity); rewrite E;
        assert (C : node_known_class n = None) by (vm_compute; reflexivity);
        split; [exact C|exact (C14_node_accepted_text _ _ _ E C)]
      end
    end.
Qed.

(* every operator, unary minus on numerals, a negative numeral, nested intervals, `not` as an argument
   in a harmless position: accepted, outside the classes, the hypotheses of C14_node_text_given_lex hold
   and the text round trip succeeds *)
Example C14_nodes_nonvacuous_body :
  match parse_node_text KBody "not not p(-(5), --4, 1..(2..3), X*Y/Z\2, (not)), a+1 != -X; not q" with
  | POk n =>
    kind_of n = KBody /\
    node_known_class n = None /\
    lex_node (display_node n) = Some (print_node n) /\
    leading_skip (display_node n) = false /\
    node_numerals_ok n = true /\
    parse_node_text KBody (display_node n) = POk n /\
    display_node n = "not not p(-(5), --4, 1..(2..3), X * Y / Z \ 2, not), a + 1 != -X, not q"
  | _ => False
  end.
Proof. vm_compute. repeat split. Qed.

Example C14_nodes_nonvacuous_rule :
  match parse_node_text KRule " {p(X, 1-2-3)} :- X = 1..n, not r(#inf, #sup)." with
  | POk n =>
    kind_of n = KRule /\
    node_known_class n = None /\
    lex_node (display_node n) = Some (print_node n) /\
    parse_node_text KRule (display_node n) = POk n /\
    display_node n = "{p(X, 1 - 2 - 3)} :- X = 1..n, not r(#inf, #sup)."
  | _ => False
  end.
Proof. vm_compute. repeat split. Qed.

(* what is specific to a text that begins with layout (see Model/AspNodes.v) *)
Example C14_nodes_leading_layout :
  parse_node_text KTerm "-1" = POk (NTerm (TPre (PNum (-1)))) /\
  parse_node_text KTerm " -1" = POk (NTerm (TUn AUNeg (TPre (PNum 1)))) /\
  parse_node_text KLiteral "not not p" = POk (NLiteral (mklit SDNeg (mkatom "p" []))) /\
  parse_node_text KLiteral " not p" = POk (NLiteral (mklit SNeg (mkatom "p" []))) /\
  parse_node_text KLiteral " not not p" = PFail /\
  parse_node_text KAtom " p" = PFail /\
  parse_node_text KHead " " = POk (NHead HFalsity) /\
  parse_node_text KHead " p" = PFail.
Proof. vm_compute. repeat split. Qed.
