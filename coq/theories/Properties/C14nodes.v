(* C14, stand-alone entry points: "printing a parsed program (or rule, term, atom ...) and parsing it
   again yields the same tree".  Properties/C14.v is about `str::parse::<Program>()`; this file is about
   the other node types that have a parser: Term, Atom, Literal, Comparison, AtomicFormula, Head, Body,
   Rule (Model/AspNodes.v; tied to the real library by the op asp_node_roundtrip of props/C14nodes.json).

   * C14_node_tokens: token level, EVERY node of every kind, no side condition.
   * C14_node_text_partial: text level with the lexical step as an explicit hypothesis (the char-level
     lexer lemma of Proofs/AspLex.v is stated for token lists that are followed by a separator token; a
     stand-alone node is followed by the end of the input, where `negation = "not" ~ &(WHITESPACE | EOI)`
     behaves differently -- exactly the recorded defect class F7d below).
   * C14_F7d_*: the class F7d is a genuine defect of the printer/parser pair: the accepted texts "(not)"
     (Term), "not()" (Atom), "1 = (not)" (Comparison), "q, not()" (Body), "not()" (Head) print as texts
     that the same entry point refuses.  Rule and Program are not affected ("." follows). *)
From Coq Require Import List Ascii String ZArith Bool.
From Anthem Require Import Syntax.Asp Model.AspTableTypes Model.AspPrint Model.AspParse Model.AspNodes
  Proofs.AspNodesOk.
Import ListNotations.
Open Scope string_scope.
Open Scope list_scope.

Theorem C14_node_tokens : forall n : node,
  parse_node_toks (kind_of n) false (print_node n) = POk (n, []).
Proof. exact node_roundtrip_tokens. Qed.
Print Assumptions C14_node_tokens.

Theorem C14_node_rule_any_guard : forall (r : rule) (g : bool),
  parse_node_toks KRule g (print_rule r) = POk (NRule r, []).
Proof. exact rule_roundtrip_tokens_any. Qed.
Print Assumptions C14_node_rule_any_guard.

Theorem C14_node_text_partial : forall n : node,
  lex_node (display_node n) = Some (print_node n) ->
  (leading_skip (display_node n) = false \/ kind_of n = KRule) ->
  node_numerals_ok n = true ->
  parse_node_text (kind_of n) (display_node n) = POk n.
Proof. exact node_roundtrip_text_partial. Qed.
Print Assumptions C14_node_text_partial.

(* ---------------------------------------------------------------- recorded defect class F7d *)
Example C14_F7d_term :
  parse_node_text KTerm "(not)" = POk (NTerm (TPre (PSym "not"))) /\
  display_node (NTerm (TPre (PSym "not"))) = "not" /\
  parse_node_text KTerm "not" = PFail /\
  node_known_class (NTerm (TPre (PSym "not"))) = Some "F7d".
Proof. vm_compute. repeat split. Qed.

Example C14_F7d_atom :
  parse_node_text KAtom "not()" = POk (NAtom (mkatom "not" [])) /\
  display_node (NAtom (mkatom "not" [])) = "not" /\
  parse_node_text KAtom "not" = PFail /\
  node_known_class (NAtom (mkatom "not" [])) = Some "F7d".
Proof. vm_compute. repeat split. Qed.

Example C14_F7d_comparison :
  let c := mkcmp AEq (TPre (PNum 1)) (TPre (PSym "not")) in
  parse_node_text KComparison "1 = (not)" = POk (NComparison c) /\
  display_node (NComparison c) = "1 = not" /\
  parse_node_text KComparison "1 = not" = PFail /\
  node_known_class (NComparison c) = Some "F7d".
Proof. vm_compute. repeat split. Qed.

Example C14_F7d_body :
  let b := [BLit (mklit SNone (mkatom "q" [])); BLit (mklit SNone (mkatom "not" []))] in
  parse_node_text KBody "q, not()" = POk (NBody b) /\
  display_node (NBody b) = "q, not" /\
  parse_node_text KBody "q, not" = PFail /\
  node_known_class (NBody b) = Some "F7d".
Proof. vm_compute. repeat split. Qed.

Example C14_F7d_head :
  parse_node_text KHead "not()" = POk (NHead (HBasic (mkatom "not" []))) /\
  display_node (NHead (HBasic (mkatom "not" []))) = "not" /\
  parse_node_text KHead "not" = PFail.
Proof. vm_compute. repeat split. Qed.

(* a rule is not affected: "." follows the symbol *)
Example C14_F7d_rule_unaffected :
  parse_node_text KRule "not()." = POk (NRule (mkrule (HBasic (mkatom "not" [])) [])) /\
  display_node (NRule (mkrule (HBasic (mkatom "not" [])) [])) = "not." /\
  parse_node_text KRule "not." = POk (NRule (mkrule (HBasic (mkatom "not" [])) [])) /\
  node_known_class (NRule (mkrule (HBasic (mkatom "not" [])) [])) = None.
Proof. vm_compute. repeat split. Qed.

(* the class F7 of Properties/C14.v applies to nodes as well: `not` in front of a blank *)
Example C14_F7_term :
  parse_node_text KTerm "not+1" = POk (NTerm (TBin AAdd (TPre (PSym "not")) (TPre (PNum 1)))) /\
  display_node (NTerm (TBin AAdd (TPre (PSym "not")) (TPre (PNum 1)))) = "not + 1" /\
  parse_node_text KTerm "not + 1" = PFail /\
  node_known_class (NTerm (TBin AAdd (TPre (PSym "not")) (TPre (PNum 1)))) = Some "F7".
Proof. vm_compute. repeat split. Qed.

(* ---------------------------------------------------------------- non-vacuity *)
(* every operator, unary minus on numerals, a negative numeral, nested intervals, `not` as an argument
   in a harmless position: accepted, outside the classes, the hypotheses of C14_node_text_partial hold
   and the text round trip succeeds *)
Example C14_nodes_nonvacuous_body :
  match parse_node_text KBody "not not p(-(5), --4, 1..(2..3), X*Y/Z\2, (not)), a+1 != -X; not q" with
  | POk n =>
    kind_of n = KBody /\
    node_known_class n = None /\
    lex_node (display_node n) = Some (print_node n) /\
    leading_skip (display_node n) = false /\
    node_numerals_ok n = true /\
    parse_node_text KBody (display_node n) = POk n /\
    display_node n = "not not p(-(5), --4, 1..(2..3), X * Y / Z \ 2, not), a + 1 != -X, not q"
  | _ => False
  end.
Proof. vm_compute. repeat split. Qed.

Example C14_nodes_nonvacuous_rule :
  match parse_node_text KRule " {p(X, 1-2-3)} :- X = 1..n, not r(#inf, #sup)." with
  | POk n =>
    kind_of n = KRule /\
    node_known_class n = None /\
    lex_node (display_node n) = Some (print_node n) /\
    parse_node_text KRule (display_node n) = POk n /\
    display_node n = "{p(X, 1 - 2 - 3)} :- X = 1..n, not r(#inf, #sup)."
  | _ => False
  end.
Proof. vm_compute. repeat split. Qed.

(* what is specific to a text that begins with layout (see Model/AspNodes.v) *)
Example C14_nodes_leading_layout :
  parse_node_text KTerm "-1" = POk (NTerm (TPre (PNum (-1)))) /\
  parse_node_text KTerm " -1" = POk (NTerm (TUn AUNeg (TPre (PNum 1)))) /\
  parse_node_text KLiteral "not not p" = POk (NLiteral (mklit SDNeg (mkatom "p" []))) /\
  parse_node_text KLiteral " not p" = POk (NLiteral (mklit SNeg (mkatom "p" []))) /\
  parse_node_text KLiteral " not not p" = PFail /\
  parse_node_text KAtom " p" = PFail /\
  parse_node_text KHead " " = POk (NHead HFalsity) /\
  parse_node_text KHead " p" = PFail.
Proof. vm_compute. repeat split. Qed.
