(* C11 (regularity part) — `analyze --property regularity` prints true exactly when every rule is
   regular as documented.  Statements only; proofs and the inductive transcription of the
   documented definition ([regular_rule], from /repo/res/manual/src/analyze.md, section
   "Regularity") live in Proofs/RegularOk.v.  The other parts of C11 (tightness, private recursion,
   enforcement) belong to other files. *)
From Coq Require Import List String ZArith.
Import ListNotations.
Open Scope string_scope.
From Anthem Require Import Syntax.Fol Syntax.Asp Model.Natural Model.Regularity Proofs.RegularOk.

(* the definition the theorems are about (printed so that it appears in the compilation log) *)
Print has_sym.
Print only_arith.
Print regular_first_kind.
Print regular_second_kind.
Print regular_body_item.
Print regular_head.
Print regular_rule.

Theorem C11_reg : forall P : program, is_regular P = NOk true <-> Forall regular_rule P.
Proof. exact is_regular_true. Qed.
Print Assumptions C11_reg.

Theorem C11_reg_false : forall P : program, is_regular P = NOk false <-> ~ Forall regular_rule P.
Proof. exact is_regular_false. Qed.
Print Assumptions C11_reg_false.

(* is_regular cannot panic (it calls natural) *)
Theorem C11_reg_total : forall P : program, is_regular P <> NPanic.
Proof. exact is_regular_no_panic. Qed.
Print Assumptions C11_reg_total.

(* the code's term tests are the documented notions *)
Theorem C11_reg_first_kind : forall t : term, is_term_regular_of_first_kind t = true <-> regular_first_kind t.
Proof. exact first_kind_spec. Qed.
Print Assumptions C11_reg_first_kind.
Theorem C11_reg_second_kind : forall t : term, is_term_regular_of_second_kind t = true <-> regular_second_kind t.
Proof. exact second_kind_reg. Qed.
Print Assumptions C11_reg_second_kind.

(* non-vacuity: the examples of the manual ("2/X, 3*(X..Y), a+1, a..5" are forbidden) and of the
   unit test of regularity.rs *)
Example C11_reg_examples :
  let X := TVar "X" in let Y := TVar "Y" in let n z := TPre (PNum z) in let a := TPre (PSym "a") in
  let fact t := [mkrule (HBasic (mkatom "p" [t])) []] in
  is_regular (fact (TBin ADiv (n 2%Z) X)) = NOk false /\
  is_regular (fact (TBin AMul (n 3%Z) (TBin AInterval X Y))) = NOk false /\
  is_regular (fact (TBin AAdd a (n 1%Z))) = NOk false /\
  is_regular (fact (TBin AInterval a (n 5%Z))) = NOk false /\
  is_regular (fact (TBin AInterval X Y)) = NOk true /\
  is_regular (fact (TBin AMul (n 1%Z) (n 2%Z))) = NOk true /\
  is_regular (fact a) = NOk true.
Proof. exact regularity_examples. Qed.
