(* CLI -- the command line is the composition of the verified functions.
   Statements only; proofs live in Proofs/CliOk.v.

   Object: Model/Cli.v, [run_cli : command -> string -> cli_result], the end-to-end TEXT model of
   `anthem parse | translate | simplify | analyze` (procedures.rs + arguments.rs): input text in,
   bytes of stdout (or Error / Panic) out.  It is tied to the real binary by the op `cli_run`
   (props/CLI.py): same command, same text, byte-identical answer.

   The theorems below say what that tie buys: whenever the command line prints something, the
   printed bytes are the rendering of an object about which C01 / C07 / C11 / C14 / C15 / C18 speak.
   Each is a corollary of those theorems by unfolding the glue. *)
From Coq Require Import List String ZArith Relations.
Import ListNotations.
From Anthem Require Import Syntax.Fol Syntax.Asp Sem.Domain Sem.Sat Sem.AspRef Model.Natural.
From Anthem Require Model.AspParse Model.AspPrint Model.FolLex Model.FolParse Model.FolPrint Model.FolClass
  Model.TauStar Model.Mu Model.CliMu Model.Tightness Model.Regularity.
From Anthem Require Import Model.Cli Proofs.CliOk.
From Anthem Require Proofs.TightnessOk Proofs.RegularOk Properties.C14.
Open Scope list_scope.
Open Scope string_scope.

(* `anthem translate --with tau-star FILE` printed [out]: FILE parsed as a program P, tau* of P is
   a theory G (no overflow panic), [out] is exactly the rendering of G, and (C01) G has exactly
   the here-and-there models of P -- all (H,T) -- and the equilibrium models of G are the stable
   models of P, under any extra facts. *)
Theorem Cli_translate_tau_star_sound :
  forall (s out : string),
  run_cli (Translate TauStar) s = Stdout out ->
  exists (P : program) (G : theory),
    AspParse.parse_program_text s = AspParse.POk P /\
    TauStar.tau_star P = Some G /\
    out = FolPrint.show_theory G /\
    (forall (FI : fint) (H T : pint), theory_hsat FI H T G <-> ref_sat H T P) /\
    (forall (FI : fint) (T Facts : pint), equilibrium FI T G Facts <-> stable T P Facts).
Proof. exact cli_translate_tau_star_sound. Qed.
Print Assumptions Cli_translate_tau_star_sound.

(* `anthem simplify --portfolio pf --strategy st FILE` printed [out]: FILE parsed as a theory t,
   [out] is the rendering of a theory t' of the same length whose i-th formula is equivalent to the
   i-th formula of t -- in every HT interpretation with H subset-of T and every assignment for the
   intuitionistic and ht portfolios, in every classical interpretation for the classic portfolio --
   and has no free variable the i-th input formula did not have (C07).
   FOR EVERY FUEL of the classic fixpoint loop ([run_cli] = [run_cli_fuel 64], Cli_executable_instance;
   a printed answer is the answer of every larger fuel, Cli_fuel_monotone).
   [simplify_rel pf F G] := [simplify_equiv pf F G /\ incl (free_variables G) (free_variables F)]. *)
Theorem Cli_simplify_sound :
  forall (fuel : nat) (portfolio : simplification_portfolio) (strategy : simplification_strategy) (s out : string),
  run_cli_fuel fuel (Simplify portfolio strategy) s = Stdout out ->
  exists t t' : theory,
    FolParse.parse_theory_str s = FolParse.PR_ok t /\
    out = FolPrint.show_theory t' /\
    Forall2 (simplify_rel portfolio) t t'.
Proof. exact cli_simplify_sound. Qed.
Print Assumptions Cli_simplify_sound.

(* the meaning of [simplify_rel], spelled out (so that the statement above can be read alone) *)
Theorem Cli_simplify_rel_meaning :
  forall (portfolio : simplification_portfolio) (F G : formula),
  simplify_rel portfolio F G <->
  (match portfolio with
   | Classic => forall (FI : fint) (I : pint) (e : env), csat FI I e G <-> csat FI I e F
   | Ht | Intuitionistic =>
       forall (FI : fint) (H T : pint) (e : env), sub H T -> (hsat FI H T e G <-> hsat FI H T e F)
   end) /\ incl (free_variables G) (free_variables F).
Proof. exact simplify_rel_meaning. Qed.
Print Assumptions Cli_simplify_rel_meaning.

(* for the intuitionistic and ht portfolios the model's fixpoint loop never runs out of fuel (C18):
   every outcome of `simplify` is decided by the parser alone *)
Theorem Cli_simplify_int_ht_terminates :
  forall (fuel : nat) (portfolio : simplification_portfolio) (strategy : simplification_strategy) (s : string),
  portfolio <> Classic ->
  match run_cli_fuel fuel (Simplify portfolio strategy) s with
  | Stdout _ => exists t, FolParse.parse_theory_str s = FolParse.PR_ok t
  | Error => FolParse.parse_theory_str s = FolParse.PR_err
  | Panic => FolParse.parse_theory_str s = FolParse.PR_panic
  | OutOfFuel => FolParse.parse_theory_str s = FolParse.PR_oof
  end.
Proof. exact cli_simplify_int_ht_terminates. Qed.
Print Assumptions Cli_simplify_int_ht_terminates.

(* ---- the fuel of the classic portfolio: C18_term_cls composed (audit A8) ---- *)
Theorem Cli_executable_instance : forall c s, run_cli c s = run_cli_fuel 64 c s.
Proof. reflexivity. Qed.
Print Assumptions Cli_executable_instance.

(* an answer other than OutOfFuel is the answer of every larger fuel *)
Theorem Cli_fuel_monotone :
  forall (n : nat) (c : command) (s : string) (r : cli_result),
    run_cli_fuel n c s = r -> r <> OutOfFuel -> forall m, n <= m -> run_cli_fuel m c s = r.
Proof. exact run_cli_fuel_mono. Qed.
Print Assumptions Cli_fuel_monotone.

(* for the classic portfolio too the simplifier never gives up: from [cli_fuel_bound s] passes on
   (the maximum of ClsTerm.classic_fuel over the formulas of the parsed theory) OutOfFuel can only
   be the parser model's own fuel bound (FolParse.PR_oof), for all three portfolios *)
Theorem Cli_simplify_never_out_of_fuel :
  forall (portfolio : simplification_portfolio) (strategy : simplification_strategy) (s : string),
    exists n, forall m, n <= m ->
      run_cli_fuel m (Simplify portfolio strategy) s = OutOfFuel ->
      FolParse.parse_theory_str s = FolParse.PR_oof.
Proof.
  intros portfolio strategy s. exists (cli_fuel_bound s). intros m Hm.
  exact (cli_simplify_out_of_fuel_only_parser m portfolio strategy s Hm).
Qed.
Print Assumptions Cli_simplify_never_out_of_fuel.

(* every command line has ONE answer given by all sufficiently large fuels *)
Theorem Cli_eventual_result :
  forall (c : command) (s : string), exists n, forall m, n <= m -> run_cli_fuel m c s = run_cli_fuel n c s.
Proof. exact cli_eventual_result. Qed.
Print Assumptions Cli_eventual_result.

(* `anthem simplify` never panics in the simplifier: the classic rewrites panic only outside the
   parser image, and what they are handed IS the parser's output (audit A8 b) *)
Theorem Cli_simplify_panic_only_from_parser :
  forall (fuel : nat) (portfolio : simplification_portfolio) (strategy : simplification_strategy) (s : string),
    run_cli_fuel fuel (Simplify portfolio strategy) s = Panic ->
    FolParse.parse_theory_str s = FolParse.PR_panic.
Proof. exact cli_simplify_panic_only_parser. Qed.
Print Assumptions Cli_simplify_panic_only_from_parser.

(* all three portfolios: from [cli_fuel_bound s] passes on, every outcome of `simplify` is decided by
   the parser alone (generalises Cli_simplify_int_ht_terminates to the classic portfolio) *)
Theorem Cli_simplify_decided_by_parser :
  forall (m : nat) (portfolio : simplification_portfolio) (strategy : simplification_strategy) (s : string),
    cli_fuel_bound s <= m ->
    match run_cli_fuel m (Simplify portfolio strategy) s with
    | Stdout _ => exists t, FolParse.parse_theory_str s = FolParse.PR_ok t
    | Error => FolParse.parse_theory_str s = FolParse.PR_err
    | Panic => FolParse.parse_theory_str s = FolParse.PR_panic
    | OutOfFuel => FolParse.parse_theory_str s = FolParse.PR_oof
    end.
Proof. exact cli_simplify_decided_by_parser. Qed.
Print Assumptions Cli_simplify_decided_by_parser.

(* `anthem parse --as program --output default FILE` printed [out]: [out] is the rendering of the
   parsed program P and -- outside the class KeywordIdent (finding F7: an identifier spelled `not`
   printed before a spaced token) -- feeding [out] back re-parses to the same tree and prints the
   same bytes (C14). *)
Theorem Cli_parse_print_roundtrip :
  forall (s out : string),
  run_cli (Parse Program) s = Stdout out ->
  exists P : program,
    AspParse.parse_program_text s = AspParse.POk P /\
    out = AspPrint.display_program P /\
    (~ C14.KeywordIdent P ->
       AspParse.parse_program_text out = AspParse.POk P /\ run_cli (Parse Program) out = Stdout out).
Proof. exact cli_parse_print_roundtrip. Qed.
Print Assumptions Cli_parse_print_roundtrip.

(* the same for `parse --as theory | specification | user-guide`: [out] is the rendering of the parsed
   tree t and -- outside the known classes (F7b: identifier with a keyword literal at its front in
   formula-start position; C15-RIMP: `p <- 1 = 1`) -- feeding [out] back re-parses to the same tree and
   prints the same bytes (C15 at token level + the lexical step C15_lex_render of Properties/C15text.v). *)
Theorem Cli_parse_theory_roundtrip :
  forall (s out : string),
  run_cli (Parse Theory) s = Stdout out ->
  exists t : theory,
    FolParse.parse_theory_str s = FolParse.PR_ok t /\
    out = FolPrint.show_theory t /\
    (FolClass.known_class_theory t = None ->
     FolParse.parse_theory_str out = FolParse.PR_ok t /\ run_cli (Parse Theory) out = Stdout out).
Proof. exact cli_parse_theory_roundtrip. Qed.
Print Assumptions Cli_parse_theory_roundtrip.

Theorem Cli_parse_specification_roundtrip :
  forall (s out : string),
  run_cli (Parse Specification) s = Stdout out ->
  exists t : specification,
    FolParse.parse_spec_str s = FolParse.PR_ok t /\
    out = FolPrint.show_spec t /\
    (FolClass.known_class_spec t = None ->
     FolParse.parse_spec_str out = FolParse.PR_ok t /\ run_cli (Parse Specification) out = Stdout out).
Proof. exact cli_parse_specification_roundtrip. Qed.
Print Assumptions Cli_parse_specification_roundtrip.

Theorem Cli_parse_user_guide_roundtrip :
  forall (s out : string),
  run_cli (Parse UserGuide) s = Stdout out ->
  exists t : user_guide,
    FolParse.parse_ug_str s = FolParse.PR_ok t /\
    out = FolPrint.show_ug t /\
    (FolClass.known_class_ug t = None ->
     FolParse.parse_ug_str out = FolParse.PR_ok t /\ run_cli (Parse UserGuide) out = Stdout out).
Proof. exact cli_parse_user_guide_roundtrip. Qed.
Print Assumptions Cli_parse_user_guide_roundtrip.

(* `anthem analyze --property tightness FILE` printed [out]: [out] is "true\n" or "false\n", and it
   is "true\n" exactly when the positive predicate dependency graph of the parsed program has no
   cycle (C11). *)
Theorem Cli_analyze_tight_exact :
  forall (s out : string),
  run_cli (Analyze Tightness) s = Stdout out ->
  exists (P : program) (b : bool),
    AspParse.parse_program_text s = AspParse.POk P /\
    out = bool_str b ++ nl /\
    (b = true <-> ~ exists p, clos_trans pred (TightnessOk.pos_dep P) p p).
Proof. exact cli_analyze_tight_exact. Qed.
Print Assumptions Cli_analyze_tight_exact.

(* `anthem analyze --property regularity FILE`: "true\n" exactly when every rule is regular (C11) *)
Theorem Cli_analyze_regular_exact :
  forall (s out : string),
  run_cli (Analyze Regularity) s = Stdout out ->
  exists (P : program) (b : bool),
    AspParse.parse_program_text s = AspParse.POk P /\
    out = bool_str b ++ nl /\
    (b = true <-> Forall RegularOk.regular_rule P).
Proof. exact cli_analyze_regular_exact. Qed.
Print Assumptions Cli_analyze_regular_exact.

(* the analyses themselves never panic: a panic of `analyze` is the parser's (numerals outside isize, F3a) *)
Theorem Cli_analyze_panic_only_from_parser :
  forall (property : property) (s : string),
  run_cli (Analyze property) s = Panic -> AspParse.parse_program_text s = AspParse.PPanic.
Proof. exact cli_analyze_panic_only_from_parser. Qed.
Print Assumptions Cli_analyze_panic_only_from_parser.

(* `translate --with mu`: the glue model CliMu.mu is Model/Mu.v's Section (what C08_mu_* speak about)
   instantiated with the real tau*, whenever tau* does not panic *)
Theorem Cli_mu_is_Mu_section :
  forall (p : program) (t : theory),
  CliMu.mu p = NOk t -> Mu.mu unwrap_globals unwrap_rule p = NOk t.
Proof. exact mu_is_Mu_section. Qed.
Print Assumptions Cli_mu_is_Mu_section.

(* ------------------------------------------------------------------ non-vacuity *)
(* the model runs inside Coq: one command of each family, exact bytes *)
Example Cli_nonvacuous_parse :
  run_cli (Parse Program) ":- p, not q.  {q(X)} :- r(X), X!=1.% c" =
  Stdout (" :- p, not q." ++ nl ++ "{q(X)} :- r(X), X != 1." ++ nl).
Proof. vm_compute. reflexivity. Qed.

Example Cli_nonvacuous_analyze :
  run_cli (Analyze Tightness) "p :- q. q :- p." = Stdout ("false" ++ nl)
  /\ run_cli (Analyze Tightness) "p :- not q. q :- not p." = Stdout ("true" ++ nl)
  /\ run_cli (Analyze Regularity) "p :- q. q :- p." = Stdout ("true" ++ nl)
  /\ run_cli (Analyze Regularity) "p(X) :- q(X/2)." = Stdout ("false" ++ nl).
Proof. vm_compute. repeat split; reflexivity. Qed.

Example Cli_nonvacuous_errors :
  run_cli (Parse Program) "p(X) :- q(X)" = Error
  /\ run_cli (Translate TauStar) "p(99999999999999999999)." = Panic
  /\ run_cli (Translate Gamma) "p :- q." = Error
  /\ run_cli (Translate Natural) "p(X) :- q(X/2)." = Error.
Proof. vm_compute. repeat split; reflexivity. Qed.
