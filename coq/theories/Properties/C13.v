(* C13 - A proof outline cannot make an unjustified claim available as an axiom.
   Statements only; proofs live in Proofs/OutlineOk.v, OutlineSound.v, ExternalOk.v.
   Model: Model/Outline.v (definition, inductive_lemma, GeneralLemma::try_from,
   ProofOutline::from_specification, outline_problems) and Model/External.v (direction_problems). *)
From Coq Require Import List String ZArith NArith Bool.
Import ListNotations.
From Anthem Require Import Base.ISet Base.Fresh Syntax.Fol Sem.Domain Sem.Sat Model.Subst Model.Problem Model.Outline
  Model.External Proofs.SemBase Proofs.DecomposeOk Proofs.StrongOk Proofs.ExternalOk Proofs.OutlineOk Proofs.OutlineSound Proofs.TasksClosed.
Open Scope string_scope.

(* the substitution lemma of C17, in the shape the `subst` cluster proves it; it is the only
   hypothesis of the theorems below that mention inductive lemmas *)
Definition substitution_lemma : Prop :=
  forall F x t G, sort_ok x t = true -> substitute F x t = Some G ->
  forall FI I e, csat FI I e G <-> csat FI I (upd e x (ev_g FI e t)) F.

(* C13_induction: for an accepted inductive lemma  forall N X (N >= n -> F), truth of the base and
   step obligations in an interpretation implies truth of the lemma (for every integer N >= n, any
   sign of n, induction variable possibly re-bound inside F). *)
Theorem C13_induction :
  substitution_lemma ->
  forall (f base step : formula) (FI : fint) (I : pint),
    inductive_lemma f = Ok (base, step) -> cvalid FI I base -> cvalid FI I step -> cvalid FI I f.
Proof. exact induction_sound. Qed.
Print Assumptions C13_induction.

(* ... with the substitution lemma discharged by Proofs/SubstOk.substitute_sem (C17) *)
Theorem C13_induction_closed :
  forall (f base step : formula) (FI : fint) (I : pint),
    inductive_lemma f = Ok (base, step) -> cvalid FI I base -> cvalid FI I step -> cvalid FI I f.
Proof. exact induction_sound_closed. Qed.
Print Assumptions C13_induction_closed.

(* C13_definition (shape): an accepted definition is  forall Xs (p(ts) <-> F)  with Xs duplicate-free,
   every argument of p a variable of Xs (and conversely), p not among the taken predicates, F closed
   over Xs and mentioning only taken predicates *)
Theorem C13_definition_shape :
  forall (f : formula) (taken : list pred) (p : pred) (w : list po_warning),
    definition f taken = Ok (p, w) ->
    exists vs q ts rhs tv,
      f = FQ QForall vs (FBin CIff (FAtomic (AAtom q ts)) rhs) /\ p = mkpred q (List.length ts) /\
      NoDup vs /\ terms_as_vars ts [] = Some tv /\ (forall v, In v vs <-> In v tv) /\
      ~ In p taken /\ (forall v, In v (free_variables rhs) -> In v vs) /\
      (forall r, In r (predicates rhs) -> In r taken).
Proof. exact definition_shape. Qed.
Print Assumptions C13_definition_shape.

(* C13_definition (conservativity): every interpretation can be changed on the defined predicate
   only so that the definition becomes true *)
Theorem C13_definition :
  forall (f : formula) (taken : list pred) (p : pred) (w : list po_warning),
    definition f taken = Ok (p, w) ->
    forall (FI : fint) (M : pint), exists M' : pint,
      (forall r a, mkpred r (List.length a) <> p -> (M' r a <-> M r a)) /\ cvalid FI M' f.
Proof. exact definition_conservative. Qed.
Print Assumptions C13_definition.

(* ... and the same for the whole sequence of definitions of an accepted outline: some M' agrees
   with M on all taken predicates (hence on every formula of the task) and satisfies all of them *)
Theorem C13_definitions :
  forall (taken : list pred) (fs : list formula), def_chain taken fs ->
    forall (FI : fint) (M : pint), exists M' : pint,
      pagree taken M M' /\ (forall f, In f fs -> cvalid FI M' f).
Proof. exact defs_conservative. Qed.
Print Assumptions C13_definitions.

(* what an accepted outline consists of: definitional chains and lemmas whose conjectures imply
   their consequences (basic lemma: the same formula; inductive lemma: C13_induction) *)
Theorem C13_accepted :
  substitution_lemma ->
  forall (s : specification) (taken : list pred) (m : placeholders) (o : proof_outline) (ws : list po_warning),
    from_specification s taken m = Ok (o, ws) ->
    def_chain taken (map an_formula (forward_definitions o)) /\
    def_chain taken (map an_formula (backward_definitions o)) /\
    Forall (fun g => lemma_sound g /\ lemma_roles g) (forward_lemmas o) /\
    Forall (fun g => lemma_sound g /\ lemma_roles g) (backward_lemmas o).
Proof. exact from_specification_ok. Qed.
Print Assumptions C13_accepted.

Theorem C13_accepted_closed :
  forall (s : specification) (taken : list pred) (m : placeholders) (o : proof_outline) (ws : list po_warning),
    from_specification s taken m = Ok (o, ws) ->
    def_chain taken (map an_formula (forward_definitions o)) /\
    def_chain taken (map an_formula (backward_definitions o)) /\
    Forall (fun g => lemma_sound g /\ lemma_roles g) (forward_lemmas o) /\
    Forall (fun g => lemma_sound g /\ lemma_roles g) (backward_lemmas o).
Proof. exact from_specification_ok_closed. Qed.
Print Assumptions C13_accepted_closed.

(* C13_order: the problems emitted for the lemmas of a direction are exactly: for the k-th lemma g
   and its j-th conjecture c, the problem named <prefix>_outline_k_j whose axioms are the initial
   axioms (stable premises, premises of the direction, accepted definitions) followed by the
   consequences of the lemmas BEFORE k, and whose only conjecture is c.  (The final problems come
   after all of them: Model/External.direction_problems.) *)
Theorem C13_order :
  forall (prefix : string) (ls : list general_lemma) (i : N) (ax : list pformula) (p : problem),
    In p (outline_problems prefix i ax ls) <->
    exists k g j c, nth_error ls k = Some g /\ nth_error (gl_conjectures g) j = Some c /\
      p = outline_problem (outline_name prefix (i + N.of_nat k) (N.of_nat j))
            (ax ++ flat_map gl_consequences (firstn k ls)) c.
Proof. exact outline_problems_in. Qed.
Print Assumptions C13_order.

(* C13_sound: if no interpretation refutes any problem emitted for a direction, the premises of
   the direction entail its conclusions in every interpretation.  [taken] contains the predicates
   of the task's own formulas; [fs] is any list containing all formulas involved, free of
   symbol/0-ary-predicate clashes (otherwise rename_conflicting_symbols interferes: F8b). *)
Theorem C13_sound :
  forall prefix stable premises defs lemmas conclusions dec taken fs,
    all_role PAxiom stable -> all_role PAxiom premises -> all_role PConjecture conclusions ->
    def_chain taken (map an_formula defs) ->
    Forall (fun g => lemma_sound g /\ lemma_roles g) lemmas ->
    (forall a, In a (stable ++ premises ++ conclusions) ->
       forall r, In r (predicates (pf_formula a)) -> In r taken) ->
    flist_no_clash fs ->
    (forall a, In a (stable ++ premises ++ conclusions) -> In (pf_formula a) fs) ->
    (forall d, In d defs -> In (an_formula d) fs) ->
    (forall g, In g lemmas -> forall c, In c (gl_conjectures g ++ gl_consequences g) -> In (pf_formula c) fs) ->
    (forall FI M, ~ refutes_some FI M (direction_problems prefix stable premises defs lemmas conclusions dec)) ->
    forall FI M, tvalid FI M (map pf_formula stable) -> tvalid FI M (map pf_formula premises) ->
                 tvalid FI M (map pf_formula conclusions).
Proof. exact direction_sound. Qed.
Print Assumptions C13_sound.

(* the letter of the property ("a predicate that occurs nowhere in the task or in earlier outline
   entries"): every accepted outline is strictly fresh.  [seen] starts as (a subset of) the taken
   predicates, i.e. the predicates of the task.  Unconditional since the repair of finding F12
   (predicates of accepted lemmas count as taken). *)
Theorem C13_fresh :
  forall (m : placeholders) (l : specification) (taken : list pred) (o0 : proof_outline) ws o ws' seen,
    from_specification_loop l taken m o0 ws = Ok (o, ws') ->
    (forall q, In q seen -> In q taken) ->
    strictly_fresh m l seen.
Proof. exact accepted_strictly_fresh. Qed.
Print Assumptions C13_fresh.

(* regression case of the repaired finding F12:
     lemma: forall X (aux(X) -> in(X)).  definition: forall X (aux(X) <-> in(X)).
   is in the former class (not F12_free), is not strictly fresh, and is now REFUSED with
   TakenPredicate (it was accepted before the repair); with the definition first it is accepted. *)
Example F12_witness :
  let X := mkvar "X" SGeneral in
  let lemma := mkannot RLemma DUniversal "l"
                 (FQ QForall [X] (FBin CImp (FAtomic (AAtom "aux" [GVar "X"])) (FAtomic (AAtom "in" [GVar "X"])))) in
  let def := mkannot RDefinition DUniversal "d"
               (FQ QForall [X] (FBin CIff (FAtomic (AAtom "aux" [GVar "X"])) (FAtomic (AAtom "in" [GVar "X"])))) in
  from_specification [lemma; def] [mkpred "in" 1] [] = Err TakenPredicate /\
  ~ F12_free [] [lemma; def] [] /\ ~ strictly_fresh [] [lemma; def] [mkpred "in" 1] /\
  (exists o ws, from_specification [def; lemma] [mkpred "in" 1] [] = Ok (o, ws)) /\
  strictly_fresh [] [def; lemma] [mkpred "in" 1].
Proof.
  cbv zeta. split; [|split; [|split; [|split]]].
  - vm_compute. reflexivity.
  - cbn. intros [H _]. apply (H (mkpred "aux" 1) eq_refl). cbn. auto.
  - cbn. intros [_ [H _]]. apply (H (mkpred "aux" 1) eq_refl). cbn. auto.
  - eexists. eexists. vm_compute. reflexivity.
  - cbn. repeat split; auto. intros p [= <-] [H|[]]. discriminate.
Qed.

(* non-vacuity of C13_induction's premise shape: the base/step construction on a concrete lemma *)
Example C13_induction_nonvacuous :
  exists vs v n rhs,
    FQ QForall vs (FBin CImp (FAtomic (ACmp (GInt (IVar v)) [mkguard RGe (GInt (INum n))])) rhs)
    = FQ QForall [mkvar "N" SInteger]
        (FBin CImp (FAtomic (ACmp (GInt (IVar "N")) [mkguard RGe (GInt (INum (-2)%Z))]))
                   (FAtomic (AAtom "p" [GInt (IVar "N")]))).
Proof. repeat eexists. Qed.
