(* C13 - A proof outline cannot make an unjustified claim available as an axiom.
   Statements only; proofs live in Proofs/OutlineOk.v, OutlineSound.v, ExternalOk.v, C13Full.v.
   Model: Model/Outline.v (definition, inductive_lemma, GeneralLemma::try_from,
   ProofOutline::from_specification, outline_problems) and Model/External.v (direction_problems);
   end to end: Model/ExternalFull.v.

   Audit A18:
   (a) C13_sound is instantiated on accepted tasks WITH a proof outline: C13_sound_accepted (any
       components), C13_sound_full (Model/ExternalFull.v); non-vacuity on the shipped example
       res/examples/external_equivalence/division (C13_division_accepted, C13_division_sound), parsed and
       computed inside Coq;
   (b) the chain of an accepted outline is EXACT ([outline_chain], no weakening constructor): the
       clause "the body mentions only predicates of the task or of earlier entries" is
       C13_definition_earlier; the audit's counterexample is refuted (C13_no_weakening);
   (c) direction filtering and the order of the emitted list: C13_accepted (the four lists of the
       outline are the source entries of the direction, in source order), C13_order_positions,
       C13_order_final;
   (d) C13_induction_nonvacuous goes through the model function [inductive_lemma]. *)
From Coq Require Import List String ZArith NArith Bool.
Import ListNotations.
From Anthem Require Import Base.ISet Base.Fresh Syntax.Fol Syntax.Asp Sem.Domain Sem.Sat Model.Subst Model.Problem Model.Outline
  Model.Strong Model.External Model.ExternalFull Model.TauStar Model.Completion
  Proofs.SemBase Proofs.DecomposeOk Proofs.StrongOk Proofs.ExternalOk Proofs.OutlineOk Proofs.OutlinePayload Proofs.OutlineSound Proofs.TasksClosed
  Proofs.C19Ext Proofs.C13Full.
From Anthem Require Model.AspParse Model.FolParse.
Open Scope string_scope.

(* the substitution lemma of C17, in the shape the `subst` cluster proves it; it is the only
   hypothesis of the theorems below that mention inductive lemmas *)
Definition substitution_lemma : Prop :=
  forall F x t G, sort_ok x t = true -> substitute F x t = Some G ->
  forall FI I e, csat FI I e G <-> csat FI I (upd e x (ev_g FI e t)) F.

(* C13_induction: for an accepted inductive lemma  forall N X (N >= n -> F), truth of the base and
   step obligations in an interpretation implies truth of the lemma (for every integer N >= n, any
   sign of n, induction variable possibly re-bound inside F). *)
Theorem C13_induction :
  substitution_lemma ->
  forall (f base step : formula) (FI : fint) (I : pint),
    inductive_lemma f = Ok (base, step) -> cvalid FI I base -> cvalid FI I step -> cvalid FI I f.
Proof. exact induction_sound. Qed.
Print Assumptions C13_induction.

(* ... with the substitution lemma discharged by Proofs/SubstOk.substitute_sem (C17) *)
Theorem C13_induction_closed :
  forall (f base step : formula) (FI : fint) (I : pint),
    inductive_lemma f = Ok (base, step) -> cvalid FI I base -> cvalid FI I step -> cvalid FI I f.
Proof. exact induction_sound_closed. Qed.
Print Assumptions C13_induction_closed.

(* C13_definition (shape): an accepted definition is  forall Xs (p(ts) <-> F)  with Xs duplicate-free,
   every argument of p a variable of Xs (and conversely), p not among the taken predicates, F closed
   over Xs and mentioning only taken predicates *)
Theorem C13_definition_shape :
  forall (f : formula) (taken : list pred) (p : pred) (w : list po_warning),
    definition f taken = Ok (p, w) ->
    exists vs q ts rhs tv,
      f = FQ QForall vs (FBin CIff (FAtomic (AAtom q ts)) rhs) /\ p = mkpred q (List.length ts) /\
      NoDup vs /\ terms_as_vars ts [] = inl tv /\ (forall v, In v vs <-> In v tv) /\
      ~ In p taken /\ (forall v, In v (free_variables rhs) -> In v vs) /\
      (forall r, In r (predicates rhs) -> In r taken).
Proof. exact definition_shape. Qed.
Print Assumptions C13_definition_shape.

(* C13_definition (conservativity): every interpretation can be changed on the defined predicate
   only so that the definition becomes true *)
Theorem C13_definition :
  forall (f : formula) (taken : list pred) (p : pred) (w : list po_warning),
    definition f taken = Ok (p, w) ->
    forall (FI : fint) (M : pint), exists M' : pint,
      (forall r a, mkpred r (List.length a) <> p -> (M' r a <-> M r a)) /\ cvalid FI M' f.
Proof. exact definition_conservative. Qed.
Print Assumptions C13_definition.

(* THE CHAIN OF AN ACCEPTED OUTLINE (Proofs/OutlineOk.v).  [outline_chain m taken l]: the entries of l,
   placeholders of m replaced, were accepted one after the other, each against the set of taken
   predicates the code has at that point -
     oc_lemma  a lemma / inductive lemma: the predicates of its formula become taken;
     oc_def    a definition: [definition f taken = Ok (p, w)] for the CURRENT set, p becomes taken.
   There is no weakening: the current set is [taken] plus the predicates of the earlier entries. *)

(* ... conservativity for ALL definitions of the chain at once (both directions): some M' agrees
   with M on the initial taken predicates (hence on every formula of the task) and satisfies them *)
Theorem C13_definitions :
  forall (m : placeholders) (taken : list pred) (l : specification), outline_chain m taken l ->
    forall (FI : fint) (M : pint), exists M' : pint,
      pagree taken M M' /\ (forall f, In f (map an_formula (chain_definitions m l)) -> cvalid FI M' f).
Proof. exact chain_conservative. Qed.
Print Assumptions C13_definitions.

(* THE PROPERTY CLAUSE: a definition at any position of the chain is forall Xs (p(ts) <-> F) where p
   occurs neither in the initial set (the task) nor in an earlier entry, and F mentions only
   predicates of the initial set or of earlier entries *)
Theorem C13_definition_earlier :
  forall (m : placeholders) (taken : list pred) (pre : specification) (a0 : aformula_annot) (post : specification),
    outline_chain m taken (pre ++ a0 :: post)%list -> an_role (rp_annot m a0) = RDefinition ->
    exists vs q ts rhs,
      entry_formula m a0 = FQ QForall vs (FBin CIff (FAtomic (AAtom q ts)) rhs) /\
      (~ In (mkpred q (List.length ts)) taken /\
       forall b, In b pre -> ~ In (mkpred q (List.length ts)) (entry_preds m b)) /\
      (forall r, In r (predicates rhs) -> In r taken \/ exists b, In b pre /\ In r (entry_preds m b)).
Proof. exact chain_definition_earlier. Qed.
Print Assumptions C13_definition_earlier.

(* the former def_chain had a weakening constructor, so that [def_chain [] [forall X (p(X) <-> zzz(X))]]
   held although the code refuses that definition (audit, /work/audit/partF/c13/s2.v); the exact
   chain does not contain it *)
Example C13_no_weakening :
  let X := mkvar "X" SGeneral in
  let weird := mkannot RDefinition DUniversal "d"
                 (FQ QForall [X] (FBin CIff (FAtomic (AAtom "p" [GVar "X"])) (FAtomic (AAtom "zzz" [GVar "X"])))) in
  definition (an_formula weird) [] = Err (UndefinedRhsPredicate (an_formula weird) (mkpred "zzz" 1)) /\ ~ outline_chain [] [] [weird].
Proof.
  cbv zeta. split; [vm_compute; reflexivity|]. intros H.
  inversion H; subst.
  - match goal with Hl : is_lemma_entry _ _ |- _ => destruct Hl as [Hl|Hl]; discriminate Hl end.
  - match goal with Hd : definition _ _ = Ok _ |- _ => vm_compute in Hd; discriminate Hd end.
Qed.

(* what an accepted outline consists of: an exact chain; its four lists are the entries of the
   source outline selected by DIRECTION, in source order (an entry annotated `forward` goes to the
   forward lists, `backward` to the backward lists, an entry without annotation to both:
   [definitions_of_dir], [lemmas_of_dir]); every lemma is sound (conjectures true => consequences
   true: the formula itself, resp. base + step => the lemma, C13_induction) with the right roles *)
Theorem C13_accepted :
  substitution_lemma ->
  forall (s : specification) (taken : list pred) (m : placeholders) (o : proof_outline) (ws : list po_warning),
    from_specification s taken m = Ok (o, ws) ->
    outline_chain m taken s /\
    forward_definitions o = definitions_of_dir true m s /\
    backward_definitions o = definitions_of_dir false m s /\
    forward_lemmas o = lemmas_of_dir true m s /\
    backward_lemmas o = lemmas_of_dir false m s /\
    Forall (fun g => lemma_sound g /\ lemma_roles g) (forward_lemmas o) /\
    Forall (fun g => lemma_sound g /\ lemma_roles g) (backward_lemmas o).
Proof. exact from_specification_ok. Qed.
Print Assumptions C13_accepted.

Theorem C13_accepted_closed :
  forall (s : specification) (taken : list pred) (m : placeholders) (o : proof_outline) (ws : list po_warning),
    from_specification s taken m = Ok (o, ws) ->
    outline_chain m taken s /\
    forward_definitions o = definitions_of_dir true m s /\
    backward_definitions o = definitions_of_dir false m s /\
    forward_lemmas o = lemmas_of_dir true m s /\
    backward_lemmas o = lemmas_of_dir false m s /\
    Forall (fun g => lemma_sound g /\ lemma_roles g) (forward_lemmas o) /\
    Forall (fun g => lemma_sound g /\ lemma_roles g) (backward_lemmas o).
Proof. exact from_specification_ok_closed. Qed.
Print Assumptions C13_accepted_closed.

(* the definitions of each direction of an accepted outline are conservative over the task *)
Theorem C13_accepted_definitions_conservative :
  forall (s : specification) (taken : list pred) (m : placeholders) (o : proof_outline) (ws : list po_warning),
    from_specification s taken m = Ok (o, ws) ->
    conservative_over taken (map an_formula (forward_definitions o)) /\
    conservative_over taken (map an_formula (backward_definitions o)).
Proof. exact accepted_definitions_conservative_closed. Qed.
Print Assumptions C13_accepted_definitions_conservative.

(* C13_order: the problems emitted for the lemmas of a direction are exactly: for the k-th lemma g
   and its j-th conjecture c, the problem named <prefix>_outline_k_j whose axioms are the initial
   axioms (stable premises, premises of the direction, accepted definitions) followed by the
   consequences of the lemmas BEFORE k, and whose only conjecture is c.  (The final problems come
   after all of them: Model/External.direction_problems.) *)
Theorem C13_order :
  forall (prefix : string) (ls : list general_lemma) (i : N) (ax : list pformula) (p : problem),
    In p (outline_problems prefix i ax ls) <->
    exists k g j c, nth_error ls k = Some g /\ nth_error (gl_conjectures g) j = Some c /\
      p = outline_problem (outline_name prefix (i + N.of_nat k) (N.of_nat j))
            (ax ++ flat_map gl_consequences (firstn k ls)) c.
Proof. exact outline_problems_in. Qed.
Print Assumptions C13_order.

(* ... and WHERE in the emitted list of the direction: the problem of the j-th conjecture of the k-th
   lemma is element number (conjectures of the lemmas before k) + j of [direction_problems]; its
   axioms are the stable premises, the premises of the direction and the direction's definitions,
   followed by the consequences of the lemmas before k *)
Theorem C13_order_positions :
  forall prefix stable premises defs lemmas conclusions dec k g j c,
    nth_error lemmas k = Some g -> nth_error (gl_conjectures g) j = Some c ->
    nth_error (direction_problems prefix stable premises defs lemmas conclusions dec)
              (conj_count (firstn k lemmas) + j)
    = Some (outline_problem (outline_name prefix (N.of_nat k) (N.of_nat j))
              (direction_axioms stable premises defs ++ flat_map gl_consequences (firstn k lemmas))%list c).
Proof. exact direction_problems_nth. Qed.
Print Assumptions C13_order_positions.

(* the outline problems are exactly the first [conj_count lemmas] elements; the final problems
   (whose axioms contain the consequences of ALL lemmas and none of the definitions) follow *)
Theorem C13_order_final :
  forall prefix stable premises defs lemmas conclusions dec,
    skipn (conj_count lemmas) (direction_problems prefix stable premises defs lemmas conclusions dec)
    = final_problem (prefix ++ "_problem")%string stable premises lemmas conclusions dec /\
    firstn (conj_count lemmas) (direction_problems prefix stable premises defs lemmas conclusions dec)
    = outline_problems prefix 0 (direction_axioms stable premises defs) lemmas.
Proof. exact direction_problems_final. Qed.
Print Assumptions C13_order_final.

(* C13_sound: if no interpretation refutes any problem emitted for a direction, the premises of
   the direction entail its conclusions in every interpretation.  [taken] contains the predicates
   of the task's own formulas; [fs] is any list containing all formulas involved, free of
   symbol/0-ary-predicate clashes (otherwise rename_conflicting_symbols interferes: F8b). *)
Theorem C13_sound :
  forall prefix stable premises defs lemmas conclusions dec taken fs,
    all_role PAxiom stable -> all_role PAxiom premises -> all_role PConjecture conclusions ->
    conservative_over taken (map an_formula defs) ->
    Forall (fun g => lemma_sound g /\ lemma_roles g) lemmas ->
    (forall a, In a (stable ++ premises ++ conclusions) ->
       forall r, In r (predicates (pf_formula a)) -> In r taken) ->
    flist_no_clash fs ->
    (forall a, In a (stable ++ premises ++ conclusions) -> In (pf_formula a) fs) ->
    (forall d, In d defs -> In (an_formula d) fs) ->
    (forall g, In g lemmas -> forall c, In c (gl_conjectures g ++ gl_consequences g) -> In (pf_formula c) fs) ->
    (forall FI M, ~ refutes_some FI M (direction_problems prefix stable premises defs lemmas conclusions dec)) ->
    forall FI M, tvalid FI M (map pf_formula stable) -> tvalid FI M (map pf_formula premises) ->
                 tvalid FI M (map pf_formula conclusions).
Proof. exact direction_sound. Qed.
Print Assumptions C13_sound.

(* C13_sound ON REAL TASKS (audit A18 a).  For a task the model accepts - proof outline included -
   every side condition of C13_sound is discharged: roles (assembly), conservativity of the
   definitions and soundness of the lemmas (accepted outline), vocabulary (the outline was checked
   against the input predicates and the predicates of both sides; the premises and conclusions are
   formulas of the sides, broken parts of them, or user-guide assumptions over input predicates),
   coverage.  Remaining premise: [validated_no_clash] (finding F8b; decidable:
   C13_clash_premise_decidable).  [a] is the assembled task: stable premises = user-guide
   assumptions and the universal assumptions of both sides, premises / conclusions of a direction =
   what ValidatedExternalEquivalenceTask::decompose puts there (AssemblyOk.validated_assemble_contribs). *)
Theorem C13_sound_accepted :
  forall (is_tight : program -> bool) (has_private_recursion : program -> list pred -> bool)
         (tau_star : program -> theory) (completion : theory -> list pred -> option theory)
         (simp_classic : formula -> formula) (t : ext_task) w pbs,
    external_decompose is_tight has_private_recursion tau_star completion simp_classic t = Ok (w, pbs) ->
    (forall vt, task_validated tau_star completion simp_classic t = Some vt -> validated_no_clash vt) ->
    exists vt w' a,
      task_validated tau_star completion simp_classic t = Some vt /\
      validated_assemble vt = Some (w', a) /\ pbs = assembled_decompose a /\
      ((forall FI M, ~ refutes_some FI M
          (direction_problems "forward" (at_stable_premises a) (at_forward_premises a)
             (forward_definitions (at_proof_outline a)) (forward_lemmas (at_proof_outline a))
             (at_forward_conclusions a) (at_decomposition a))) ->
       forall FI M, tvalid FI M (map pf_formula (at_stable_premises a)) ->
                    tvalid FI M (map pf_formula (at_forward_premises a)) ->
                    tvalid FI M (map pf_formula (at_forward_conclusions a))) /\
      ((forall FI M, ~ refutes_some FI M
          (direction_problems "backward" (at_stable_premises a) (at_backward_premises a)
             (backward_definitions (at_proof_outline a)) (backward_lemmas (at_proof_outline a))
             (at_backward_conclusions a) (at_decomposition a))) ->
       forall FI M, tvalid FI M (map pf_formula (at_stable_premises a)) ->
                    tvalid FI M (map pf_formula (at_backward_premises a)) ->
                    tvalid FI M (map pf_formula (at_backward_conclusions a))).
Proof.
  intros it hp ts cp sc t w pbs. exact (accepted_sound it hp ts cp sc SubstOk.substitute_sem t w pbs).
Qed.
Print Assumptions C13_sound_accepted.

(* ... for the end-to-end model (real tau*, completion, simplification), every fuel *)
Theorem C13_sound_full :
  forall (fuel : nat) (t : ext_task) w pbs,
    external_decompose_full fuel t = XOk w pbs ->
    (forall vt, task_validated tau_star_total completion (simp_classic_total fuel) t = Some vt -> validated_no_clash vt) ->
    exists vt w' a,
      task_validated tau_star_total completion (simp_classic_total fuel) t = Some vt /\
      validated_assemble vt = Some (w', a) /\ pbs = assembled_decompose a /\
      ((forall FI M, ~ refutes_some FI M
          (direction_problems "forward" (at_stable_premises a) (at_forward_premises a)
             (forward_definitions (at_proof_outline a)) (forward_lemmas (at_proof_outline a))
             (at_forward_conclusions a) (at_decomposition a))) ->
       forall FI M, tvalid FI M (map pf_formula (at_stable_premises a)) ->
                    tvalid FI M (map pf_formula (at_forward_premises a)) ->
                    tvalid FI M (map pf_formula (at_forward_conclusions a))) /\
      ((forall FI M, ~ refutes_some FI M
          (direction_problems "backward" (at_stable_premises a) (at_backward_premises a)
             (backward_definitions (at_proof_outline a)) (backward_lemmas (at_proof_outline a))
             (at_backward_conclusions a) (at_decomposition a))) ->
       forall FI M, tvalid FI M (map pf_formula (at_stable_premises a)) ->
                    tvalid FI M (map pf_formula (at_backward_premises a)) ->
                    tvalid FI M (map pf_formula (at_backward_conclusions a))).
Proof. exact accepted_sound_full. Qed.
Print Assumptions C13_sound_full.

Theorem C13_clash_premise_decidable :
  forall vt : validated_task, validated_no_clashb vt = true -> validated_no_clash vt.
Proof. exact validated_no_clashb_ok. Qed.
Print Assumptions C13_clash_premise_decidable.

(* the letter of the property ("a predicate that occurs nowhere in the task or in earlier outline
   entries"): every accepted outline is strictly fresh.  [seen] starts as (a subset of) the taken
   predicates, i.e. the predicates of the task.  Unconditional since the repair of finding F12
   (predicates of accepted lemmas count as taken). *)
Theorem C13_fresh :
  forall (m : placeholders) (l : specification) (taken : list pred) (o0 : proof_outline) ws o ws' seen,
    from_specification_loop l taken m o0 ws = Ok (o, ws') ->
    (forall q, In q seen -> In q taken) ->
    strictly_fresh m l seen.
Proof. exact accepted_strictly_fresh. Qed.
Print Assumptions C13_fresh.

(* THE VALUES CARRIED BY THE ERRORS (audit B16; they are part of the compared output, docs/C13.md
   "payloads").  A refused definition: the error names the defect and carries the formula itself /
   the defined predicate / an offending predicate or term.  [definition_error_names f taken e]:
     MalformedDefinition g                   g = f, f is not  forall Xs (p(ts) <-> F)
     DuplicatedVariables g                   g = f = forall Xs .. with Xs not duplicate-free
     TermsInDefinition t g                   g = f = forall Xs (p(ts) <-> F), t is an argument of p that is not a variable
     DefinedPredicateVariableListMismatch g  g = f (a definition by shape)
     TakenPredicate p                        p is the predicate f defines, and p is taken
     FreeRhsVariables g                      g = f = forall Xs (L <-> F), some free variable of F is not in Xs
     UndefinedRhsPredicate g r               g = f = forall Xs (L <-> F), r occurs in F and is not taken
     (no other variant is returned by [definition]) *)
Theorem C13_definition_error_names :
  forall (f : formula) (taken : list pred) (e : po_error),
    definition f taken = Err e -> definition_error_names f taken e.
Proof. exact definition_error_sound. Qed.
Print Assumptions C13_definition_error_names.

(* an error of from_specification is the error of ONE entry a0 of the outline (placeholders of m
   replaced), raised against the initial set of taken predicates plus the predicates of the earlier
   entries.  [entry_error m taken' a0 e]: a0 is
     an assumption / spec entry   and e = AnnotatedFormulaWithInvalidRole (rp_annot m a0);
     a definition                 and definition (entry_formula m a0) taken' = Err e
                                  (payload: C13_definition_error_names);
     a lemma / inductive lemma    and general_lemma_try_from (closed_entry m a0) = Err e *)
Theorem C13_outline_error_entry :
  forall (m : placeholders) (l : specification) (taken : list pred) (o0 : proof_outline) ws (e : po_error),
    from_specification_loop l taken m o0 ws = Err e ->
    exists pre a0 post taken',
      l = (pre ++ a0 :: post)%list /\
      (forall q, In q taken' <-> In q taken \/ exists b, In b pre /\ In q (entry_preds m b)) /\
      entry_error m taken' a0 e.
Proof. exact from_specification_error. Qed.
Print Assumptions C13_outline_error_entry.

(* TakenPredicate p: p is the predicate DEFINED by a definition entry of the outline and it is taken
   at that point - it belongs to the initial set (the predicates of the task) or occurs in an
   earlier entry *)
Theorem C13_taken_predicate_names :
  forall (m : placeholders) (l : specification) (taken : list pred) (o0 : proof_outline) ws (p : pred),
    from_specification_loop l taken m o0 ws = Err (TakenPredicate p) ->
    exists pre a0 post,
      l = (pre ++ a0 :: post)%list /\ an_role (rp_annot m a0) = RDefinition /\
      defined_pred (entry_formula m a0) = Some p /\
      (In p taken \/ exists b, In b pre /\ In p (entry_preds m b)).
Proof. exact from_specification_taken_error. Qed.
Print Assumptions C13_taken_predicate_names.

(* regression case of the repaired finding F12:
     lemma: forall X (aux(X) -> in(X)).  definition: forall X (aux(X) <-> in(X)).
   is in the former class (not F12_free), is not strictly fresh, and is now REFUSED with
   TakenPredicate (it was accepted before the repair); with the definition first it is accepted. *)
Example F12_witness :
  let X := mkvar "X" SGeneral in
  let lemma := mkannot RLemma DUniversal "l"
                 (FQ QForall [X] (FBin CImp (FAtomic (AAtom "aux" [GVar "X"])) (FAtomic (AAtom "in" [GVar "X"])))) in
  let def := mkannot RDefinition DUniversal "d"
               (FQ QForall [X] (FBin CIff (FAtomic (AAtom "aux" [GVar "X"])) (FAtomic (AAtom "in" [GVar "X"])))) in
  from_specification [lemma; def] [mkpred "in" 1] [] = Err (TakenPredicate (mkpred "aux" 1)) /\
  ~ F12_free [] [lemma; def] [] /\ ~ strictly_fresh [] [lemma; def] [mkpred "in" 1] /\
  (exists o ws, from_specification [def; lemma] [mkpred "in" 1] [] = Ok (o, ws)) /\
  strictly_fresh [] [def; lemma] [mkpred "in" 1].
Proof.
  cbv zeta. split; [|split; [|split; [|split]]].
  - vm_compute. reflexivity.
  - cbn. intros [H _]. apply (H (mkpred "aux" 1) eq_refl). cbn. auto.
  - cbn. intros [_ [H _]]. apply (H (mkpred "aux" 1) eq_refl). cbn. auto.
  - eexists. eexists. vm_compute. reflexivity.
  - cbn. repeat split; auto. intros p [= <-] [H|[]]. discriminate.
Qed.

(* ---------------- non-vacuity on a SHIPPED example (audit A18 a, d) ----------------
   /repo/res/examples/external_equivalence/division:
     anthem verify --equivalence external --direction backward division.lp division.spec division.ug division.po
   The four files are parsed INSIDE Coq by the parser models (AspParse, FolParse) and the end-to-end
   model computes the task: five problems, the names the CLI writes. *)
Definition division_lp : string := "div(N,D,Q,R) :- N = D*Q+R, 0 <= R, R < D.
".
Definition division_spec : string := "spec: forall N$ D$ (N$ >= 0 and D$ > 0 -> exists Q$ R$ div(N$,D$,Q$,R$)).
".
Definition division_ug : string := "output: div/4.
".
Definition division_po : string := "lemma:
div(N$,D$,Q$,R$) and R$ < D$-1 -> div(N$+1,D$,Q$,R$+1).

lemma:
div(N$,D$,Q$,D$-1) -> div(N$+1,D$,Q$+1,0).

inductive-lemma:
forall N$ (N$ >= 0 -> (D$ > 0 -> exists Q$ R$ div(N$,D$,Q$,R$))).
".
Definition division_task : option ext_task :=
  match AspParse.parse_program_text division_lp, FolParse.parse_spec_str division_spec,
        FolParse.parse_ug_str division_ug, FolParse.parse_spec_str division_po with
  | AspParse.POk p, FolParse.PR_ok s, FolParse.PR_ok u, FolParse.PR_ok o =>
      Some (mkext (inr s) p u o DIndependent DBackward ReprTauStar false true true)
  | _, _, _, _ => None
  end.

(* the model accepts the task and emits the outline problems of the three entries (the inductive
   lemma gives two: base case and inductive step) followed by the final problem *)
Example C13_division_accepted :
  exists t pbs, division_task = Some t /\ external_decompose_full full_fuel t = XOk [] pbs /\
    map pb_name pbs = ["backward_outline_0_0"; "backward_outline_1_0"; "backward_outline_2_0";
                       "backward_outline_2_1"; "backward_problem_0"].
Proof.
  destruct division_task as [t|] eqn:Et; [|vm_compute in Et; discriminate].
  destruct (external_decompose_full full_fuel t) as [w pbs| | |] eqn:E;
    try (vm_compute in Et; injection Et as <-; vm_compute in E; discriminate).
  exists t, pbs. split; [reflexivity|].
  vm_compute in Et. injection Et as <-. vm_compute in E. injection E as <- <-. split; reflexivity.
Qed.

(* C13_sound_full applies to it - the clash premise by computation - and yields: if no
   interpretation refutes a backward problem, the program's completed definition of div/4 (the
   backward premise) entails the specification (the backward conclusion), in every interpretation *)
Example C13_division_sound :
  exists t pbs vt w' a, division_task = Some t /\ external_decompose_full full_fuel t = XOk [] pbs /\
    task_validated tau_star_total completion (simp_classic_total full_fuel) t = Some vt /\
    validated_assemble vt = Some (w', a) /\ pbs = assembled_decompose a /\
    List.length (at_backward_premises a) = 1 /\ List.length (at_backward_conclusions a) = 1 /\
    List.length (backward_lemmas (at_proof_outline a)) = 3 /\
    ((forall FI M, ~ refutes_some FI M pbs) ->
     forall FI M, tvalid FI M (map pf_formula (at_stable_premises a)) ->
                  tvalid FI M (map pf_formula (at_backward_premises a)) ->
                  tvalid FI M (map pf_formula (at_backward_conclusions a))).
Proof.
  destruct C13_division_accepted as [t [pbs [Et [E _]]]].
  assert (Hclash : forall vt, task_validated tau_star_total completion (simp_classic_total full_fuel) t = Some vt ->
                              validated_no_clash vt).
  { intros vt Hv. apply C13_clash_premise_decidable.
    revert Hv. pose proof Et as Et'. vm_compute in Et'. injection Et' as <-. intros Hv.
    vm_compute in Hv. injection Hv as <-. vm_compute. reflexivity. }
  destruct (C13_sound_full full_fuel t [] pbs E Hclash) as [vt [w' [a [Hv [Ha [Hp [_ Hb]]]]]]].
  exists t, pbs, vt, w', a. split; [exact Et|]. split; [exact E|]. split; [exact Hv|]. split; [exact Ha|].
  split; [exact Hp|].
  assert (Hshape : List.length (at_backward_premises a) = 1 /\ List.length (at_backward_conclusions a) = 1 /\
                   List.length (backward_lemmas (at_proof_outline a)) = 3 /\
                   at_direction a = DBackward).
  { clear Hb Hclash. revert Hv Ha. pose proof Et as Et'. vm_compute in Et'. injection Et' as <-. intros Hv Ha.
    vm_compute in Hv. injection Hv as <-. vm_compute in Ha. injection Ha as _ <-. repeat split; reflexivity. }
  destruct Hshape as [H1 [H2 [H3 Hd]]]. split; [exact H1|]. split; [exact H2|]. split; [exact H3|].
  intros Hnr. apply Hb. intros FI M Hr. apply (Hnr FI M). rewrite Hp. unfold assembled_decompose. rewrite Hd.
  cbn [dir_forward dir_backward app]. exact Hr.
Qed.

(* non-vacuity of C13_induction THROUGH the model function: the third entry of division.po, closed
   and with joined quantifiers as from_specification builds it, is accepted by [inductive_lemma]
   (induction variable N, second in the block; n = 0); the base case instantiates N by 0, the step
   proves F(N+1) from N >= 0 and F(N) *)
Example C13_induction_nonvacuous :
  let D := mkvar "D" SInteger in let N := mkvar "N" SInteger in
  let Q := mkvar "Q" SInteger in let R := mkvar "R" SInteger in
  let div n := FQ QExists [Q; R] (FAtomic (AAtom "div" [GInt n; GInt (IVar "D"); GInt (IVar "Q"); GInt (IVar "R")])) in
  let dpos := FAtomic (ACmp (GInt (IVar "D")) [mkguard RGt (GInt (INum 0))]) in
  let nge := FAtomic (ACmp (GInt (IVar "N")) [mkguard RGe (GInt (INum 0))]) in
  let F n := FBin CImp dpos (div n) in
  exists a,
    FolParse.parse_spec_str division_po = FolParse.PR_ok a /\
    option_map (fun e => universal_closure_with_quantifier_joining (an_formula e)) (nth_error a 2)
      = Some (FQ QForall [D; N] (FBin CImp nge (F (IVar "N")))) /\
    inductive_lemma (FQ QForall [D; N] (FBin CImp nge (F (IVar "N"))))
      = Ok (FQ QForall [D] (F (INum 0)),
            FQ QForall [N; D] (FBin CImp (FBin CAnd nge (F (IVar "N"))) (F (IBin BAdd (IVar "N") (INum 1))))).
Proof.
  cbv zeta. destruct (FolParse.parse_spec_str division_po) as [a| | |] eqn:E; try (vm_compute in E; discriminate).
  exists a. split; [reflexivity|]. vm_compute in E. injection E as <-. split; vm_compute; reflexivity.
Qed.
