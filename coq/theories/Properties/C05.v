(* C05 — gamma reduces here-and-there satisfaction to classical satisfaction.
   Statements only; proofs live in Proofs/GammaOk.v. *)
From Coq Require Import List String ZArith.
Import ListNotations.
From Anthem Require Import Syntax.Fol Sem.Domain Sem.Sat Model.Gamma Proofs.GammaOk.
Open Scope string_scope.

(* For every formula F, every H subset-of T, every interpretation FI of placeholders, every
   assignment e, and every classical interpretation M giving p's h-copy ("h"++p) the extent
   of p in H and its t-copy ("t"++p) the extent of p in T:  (H,T),e |= F  iff  M,e |= gamma(F). *)
Theorem C05_gamma :
  forall (FI : fint) (H T M : pint), sub H T -> copies H T M ->
  forall (F : formula) (e : env), hsat FI H T e F <-> csat FI M e (gamma F).
Proof. exact gamma_ok. Qed.
Print Assumptions C05_gamma.

(* such an M exists for every pair (non-vacuity of [copies]) *)
Theorem C05_merge_exists : forall H T : pint, copies H T (merge H T).
Proof. exact merge_copies. Qed.
Print Assumptions C05_merge_exists.

(* distinct predicates receive distinct h- and t-copies; an h-copy is never a t-copy *)
Theorem C05_copies_injective :
  forall c p q : string, c ++ p = c ++ q -> p = q.
Proof. exact copy_injective. Qed.
Print Assumptions C05_copies_injective.
Theorem C05_copies_disjoint : forall p q : string, "h" ++ p <> "t" ++ q.
Proof. exact copies_disjoint. Qed.
Print Assumptions C05_copies_disjoint.

(* gamma(F) mentions only h-/t-copies of predicates of F, at the same arity *)
Theorem C05_gamma_vocabulary :
  forall (F : formula) (p : pred), In p (predicates (gamma F)) ->
  exists q, In q (predicates F) /\ parity p = parity q /\
            (psym p = "h" ++ psym q \/ psym p = "t" ++ psym q).
Proof. exact gamma_predicates_shape. Qed.
Print Assumptions C05_gamma_vocabulary.

(* non-vacuity: a concrete H strictly inside T and a formula with -> under not under forall *)
Example C05_nonvacuous :
  let H : pint := fun p a => p = "q" /\ a = [VNum 1%Z] in
  let T : pint := fun p a => (p = "q" \/ p = "p") /\ a = [VNum 1%Z] in
  sub H T /\ ~ (forall p a, T p a -> H p a) /\ copies H T (merge H T).
Proof.
  cbv zeta. split; [|split].
  - intros p a [-> ->]; auto.
  - intros Hall. destruct (Hall "p" [VNum 1%Z]) as [Hp _]; [auto|discriminate].
  - apply merge_copies.
Qed.
